// C36 implementation-side driver (mjSpec C API of the tree build).
//
// Differential ops (same line protocol as lean/Drivers/C36.lean; doubles are the 16 hex digits of their IEEE bits):
//   orient <type> <degree> <c0> <c1> <c2> q[4] axisangle[4] xyaxes[6] zaxis[3] euler[3]
//          mjs_resolveOrientation on an mjsOrientation of that type, sequence = the three ASCII codes c0 c1 c2, quat
//          preset to q                                    -> quat[4] | `error <message>`
//   frame fp[3] fq[4] bp[3] bq[4]                         a body inside a frame: compiled body_pos[3] body_quat[4] of the body
//   frame2 f1p[3] f1q[4] f2p[3] f2q[4] bp[3] bq[4]        a body inside a frame nested in a frame
//   att <pk> <ck> <outer> <inner> <hdeg> <h0> <h1> <h2> <cdeg> <c0> <c1> <c2> <mdeg> <m0> <m1> <m2> O P G I B
//          mjs_attach of an element of a child spec (compiler degree cdeg, eulerseq c0 c1 c2) to an element of a host spec
//          (hdeg, h0 h1 h2) followed by mj_compile.  pk: attachment point 0 frame / 1 body / 2 site / 3 a site written in a
//          third spec (mdeg, m0 m1 m2) whose body was attached to the host beforehand; ck: attached element
//          0 body / 1 frame / 2 the whole child spec; outer = 1: the attachment frame / site lives in the frame O;
//          inner = 1: the observed body lives in a frame I nested in the attached frame / the child's world.
//          O P G I B = records `<type> pos[3] quat[4] axisangle[4] xyaxes[6] zaxis[3] euler[3]` (outer frame, attachment
//          point, attached frame, inner frame, observed body)
//                                                         -> body_pos[3] body_quat[4] of the observed body |
//                                                            `error attach` | `error compile`
// Oracle ops (no model counterpart; decimal numbers):
//   pair <nstep> <nstate>      followed by <nstate> lines `qpos v...` / `qvel v...` / `ctrl v...`, description A, `end`,
//                              description B, `end` (format of harness/mjbuild.h).  Both are compiled; the state is applied
//                              to both; both are stepped <nstep> times; body poses (xpos, xmat), site positions and sensor
//                              data are compared for every body / site NAME of B that also exists in A.
//          -> `maxdev=<g> dev0=<deviation of the initial poses> nmatched=<k> nqA=.. nqB=.. numdev=<g> unstable=<number of bad-qpos/qvel/qacc warnings> refs=<same|kinds whose by-name references point to
//             differently named objects> static=<same|f1,f2,...>` | `error ...`
//   defaults <seed>            values through (nested) default classes vs set explicitly     -> same output format
//   attach <seed>              a child spec attached by mjs_attach vs the same bodies inline
//   apair <nstep> <nstate>     like `pair`, but each of the two descriptions is a sequence
//                                  <host description> `end`
//                                  { `child` <description> `end`                      another spec (index 1, 2, ...)
//                                  | `deepcopy <spec> <0|1>`                          mjs_setDeepCopy
//                                  | `attach <pspec> <body|frame|site> <name> <cspec> <body|frame|model> <name|~> <prefix|~> <suffix|~>`
//                                  } `done`
//                              spec 0 is compiled after the directives; sensor data is compared as well.
//   setconst <nstep> <nstate>  state lines, description, `end`, then edit lines until `endedit`:
//                                  `edit body <name> pos x y z` | `edit joint <name> armature v` |
//                                  `edit joint <name> stiffness v` | `edit body <name> gravcomp v`
//                              A = recompile of the edited spec; B = the originally compiled model with the same values
//                              written into the mjModel arrays followed by mj_setConst.
// Malformed lines are answered with `bad-op`.
#include <math.h>
#include <stdint.h>
#include <stdio.h>
#include <stdlib.h>
#include <string.h>
#include <mujoco/mujoco.h>
#include <mujoco/mjxmacro.h>
#include "mjbuild.h"

static int getf(const char* t, double* x) {
  if (!strcmp(t, "nan")) { *x = NAN; return 1; }
  if (strlen(t) != 16) return 0;
  for (const char* c = t; *c; c++) if (!((*c >= '0' && *c <= '9') || (*c >= 'a' && *c <= 'f'))) return 0;
  uint64_t u = strtoull(t, NULL, 16);
  memcpy(x, &u, 8); return 1;
}
static void putf(double x, int first) {
  uint64_t u; memcpy(&u, &x, 8);
  if (x != x) printf(first ? "nan" : " nan"); else printf(first ? "%016llx" : " %016llx", (unsigned long long)u);
}
static int geti(const char* t, int* x) {
  char* e; long v = strtol(t, &e, 10);
  if (*e || e == t || t[0] == '+') return 0;
  *x = (int)v; return 1;
}

// ------------------------------------------------------------------------------------------------ differential ops
static void op_orient(char** tok, int n) {
  int type, degree, c[3]; double v[20];
  if (n != 25 || !geti(tok[0], &type) || !geti(tok[1], &degree) || !geti(tok[2], c) || !geti(tok[3], c + 1) || !geti(tok[4], c + 2) ||
      type < 0 || type > 4 || (degree != 0 && degree != 1)) { printf("bad-op\n"); return; }
  for (int i = 0; i < 3; i++) if (c[i] < 1 || c[i] > 126) { printf("bad-op\n"); return; }
  for (int i = 0; i < 20; i++) if (!getf(tok[5 + i], v + i)) { printf("bad-op\n"); return; }
  mjsOrientation o;
  memset(&o, 0, sizeof o);
  o.type = (mjtOrientation)type;
  memcpy(o.axisangle, v + 4, 4 * sizeof(double));
  memcpy(o.xyaxes, v + 8, 6 * sizeof(double));
  memcpy(o.zaxis, v + 14, 3 * sizeof(double));
  memcpy(o.euler, v + 17, 3 * sizeof(double));
  double quat[4] = {v[0], v[1], v[2], v[3]};
  char seq[4] = {(char)c[0], (char)c[1], (char)c[2], 0};
  const char* err = mjs_resolveOrientation(quat, (mjtByte)degree, seq, &o);
  if (err) { printf("error %s\n", err); return; }
  for (int i = 0; i < 4; i++) putf(quat[i], i == 0);
  printf("\n");
}

static void op_frame(char** tok, int n, int nested) {
  int need = nested ? 21 : 14; double v[21];
  if (n != need) { printf("bad-op\n"); return; }
  for (int i = 0; i < need; i++) if (!getf(tok[i], v + i)) { printf("bad-op\n"); return; }
  mjSpec* s = mj_makeSpec();
  mjsBody* w = mjs_findBody(s, "world");
  mjsFrame* f1 = mjs_addFrame(w, NULL);
  memcpy(f1->pos, v, 3 * sizeof(double)); memcpy(f1->quat, v + 3, 4 * sizeof(double));
  mjsFrame* f = f1; int off = 7;
  if (nested) {
    f = mjs_addFrame(w, f1);
    memcpy(f->pos, v + 7, 3 * sizeof(double)); memcpy(f->quat, v + 10, 4 * sizeof(double));
    off = 14;
  }
  mjsBody* b = mjs_addBody(w, NULL);
  memcpy(b->pos, v + off, 3 * sizeof(double)); memcpy(b->quat, v + off + 3, 4 * sizeof(double));
  mjs_setFrame(b->element, f);
  mjsGeom* g = mjs_addGeom(b, NULL);
  g->type = mjGEOM_SPHERE; g->size[0] = 0.1;
  mjModel* m = mj_compile(s, NULL);
  if (!m) printf("error compile\n");
  else {
    for (int i = 0; i < 3; i++) putf(m->body_pos[3 + i], i == 0);
    for (int i = 0; i < 4; i++) putf(m->body_quat[4 + i], 0);
    printf("\n");
    mj_deleteModel(m);
  }
  mj_deleteSpec(s);
}

// ---- att: the real mjs_attach on every (attachment point, attached element) combination
typedef struct { int type; double v[23]; } AttRec;

static int read_rec(char** tok, AttRec* r) {
  if (!geti(tok[0], &r->type) || r->type < 0 || r->type > 4) return 0;
  for (int i = 0; i < 23; i++) if (!getf(tok[1 + i], r->v + i)) return 0;
  return 1;
}
static void set_pose(double* pos, double* quat, mjsOrientation* alt, const AttRec* r) {
  memcpy(pos, r->v, 3 * sizeof(double)); memcpy(quat, r->v + 3, 4 * sizeof(double));
  alt->type = (mjtOrientation)r->type;
  memcpy(alt->axisangle, r->v + 7, 4 * sizeof(double)); memcpy(alt->xyaxes, r->v + 11, 6 * sizeof(double));
  memcpy(alt->zaxis, r->v + 17, 3 * sizeof(double)); memcpy(alt->euler, r->v + 20, 3 * sizeof(double));
}
static void small_geom(mjsBody* b) {
  mjsGeom* g = mjs_addGeom(b, NULL); g->type = mjGEOM_SPHERE; g->size[0] = 0.1; g->contype = 0; g->conaffinity = 0;
}

static void op_att(char** tok, int n) {
  int k[16]; AttRec R[5];
  if (n != 16 + 5 * 24) { printf("bad-op\n"); return; }
  for (int i = 0; i < 16; i++) if (!geti(tok[i], k + i) || k[i] < 0) { printf("bad-op\n"); return; }
  if (k[0] > 3 || k[1] > 2 || k[2] > 1 || k[3] > 1 || k[4] > 1 || k[8] > 1 || k[12] > 1) { printf("bad-op\n"); return; }
  for (int i = 0; i < 3; i++) if (k[5 + i] < 1 || k[5 + i] > 126 || k[9 + i] < 1 || k[9 + i] > 126 || k[13 + i] < 1 || k[13 + i] > 126) { printf("bad-op\n"); return; }
  for (int i = 0; i < 5; i++) if (!read_rec(tok + 16 + 24 * i, R + i)) { printf("bad-op\n"); return; }
  int pk = k[0], ck = k[1], outer = k[2], inner = k[3];
  mjSpec* host = mj_makeSpec();
  host->compiler.degree = (mjtByte)k[4];
  for (int i = 0; i < 3; i++) host->compiler.eulerseq[i] = (char)k[5 + i];
  mjsBody* base = mjs_addBody(mjs_findBody(host, "world"), NULL);
  mjs_setName(base->element, "base"); base->pos[2] = 1.0;
  mjsJoint* bj = mjs_addJoint(base, NULL); bj->type = mjJNT_HINGE;
  small_geom(base);
  mjsFrame* fo = NULL;
  mjSpec* mid = NULL;
  mjsBody* sitebody = base;
  if (pk == 3) {      // the site is written in a third spec, inside a body that is attached to the host first
    mid = mj_makeSpec();
    mid->compiler.degree = (mjtByte)k[12];
    for (int i = 0; i < 3; i++) mid->compiler.eulerseq[i] = (char)k[13 + i];
    sitebody = mjs_addBody(mjs_findBody(mid, "world"), NULL);
    mjs_setName(sitebody->element, "mid"); sitebody->pos[0] = 0.25;
    small_geom(sitebody);
  }
  if (outer && pk != 1) { fo = mjs_addFrame(sitebody, NULL); set_pose(fo->pos, fo->quat, &fo->alt, R + 0); }
  mjsElement* point = base->element;
  if (pk == 0) { mjsFrame* f = mjs_addFrame(base, fo); set_pose(f->pos, f->quat, &f->alt, R + 1); point = f->element; }
  else if (pk >= 2) {
    mjsSite* st = mjs_addSite(sitebody, NULL); set_pose(st->pos, st->quat, &st->alt, R + 1); mjs_setName(st->element, "point");
    if (fo) mjs_setFrame(st->element, fo);
    point = st->element;
    if (pk == 3) {
      mjsFrame* hf = mjs_addFrame(base, NULL); hf->pos[1] = 0.125;
      point = mjs_attach(hf->element, sitebody->element, "m_", "") ? mjs_findElement(host, mjOBJ_SITE, "m_point") : NULL;
    }
  }
  mjSpec* child = mj_makeSpec();
  child->compiler.degree = (mjtByte)k[8];
  for (int i = 0; i < 3; i++) child->compiler.eulerseq[i] = (char)k[9 + i];
  mjsBody* cw = mjs_findBody(child, "world");
  mjsFrame* g = NULL; mjsFrame* fi = NULL;
  if (ck == 1) { g = mjs_addFrame(cw, NULL); set_pose(g->pos, g->quat, &g->alt, R + 2); }
  if (inner && ck != 0) { fi = mjs_addFrame(cw, g); set_pose(fi->pos, fi->quat, &fi->alt, R + 3); }
  mjsBody* b = mjs_addBody(cw, NULL); set_pose(b->pos, b->quat, &b->alt, R + 4);
  mjs_setName(b->element, "b"); small_geom(b);
  if (fi) mjs_setFrame(b->element, fi); else if (g) mjs_setFrame(b->element, g);
  const mjsElement* what = ck == 0 ? b->element : ck == 1 ? g->element : child->element;
  if (!point || !mjs_attach(point, what, "a_", "")) printf("error attach\n");
  else {
    mjModel* m = mj_compile(host, NULL);
    int id = m ? mj_name2id(m, mjOBJ_BODY, "a_b") : -1;
    if (!m) printf("error compile\n");
    else if (id < 0) printf("error observed body missing\n");
    else {
      for (int i = 0; i < 3; i++) putf(m->body_pos[3 * id + i], i == 0);
      for (int i = 0; i < 4; i++) putf(m->body_quat[4 * id + i], 0);
      printf("\n");
    }
    if (m) mj_deleteModel(m);
  }
  mj_deleteSpec(host); mj_deleteSpec(child);
  if (mid) mj_deleteSpec(mid);
}

// ------------------------------------------------------------------------------------------------ oracle helpers
#define MAXSTATE 4096
typedef struct { int nqpos, nqvel, nctrl; double qpos[MAXSTATE], qvel[MAXSTATE], ctrl[MAXSTATE]; } StateIn;

static char* rdline(char* buf, int sz) { return fgets(buf, sz, stdin); }

static int read_state(StateIn* st, int nstate) {
  static char line[1 << 16];
  st->nqpos = st->nqvel = st->nctrl = 0;
  for (int k = 0; k < nstate; k++) {
    if (!rdline(line, sizeof line)) return 0;
    char* save; char* t = strtok_r(line, " \t\r\n", &save);
    if (!t) return 0;
    double* dst; int* cnt;
    if (!strcmp(t, "qpos")) { dst = st->qpos; cnt = &st->nqpos; }
    else if (!strcmp(t, "qvel")) { dst = st->qvel; cnt = &st->nqvel; }
    else if (!strcmp(t, "ctrl")) { dst = st->ctrl; cnt = &st->nctrl; }
    else return 0;
    while ((t = strtok_r(NULL, " \t\r\n", &save)) && *cnt < MAXSTATE) dst[(*cnt)++] = strtod(t, NULL);
  }
  return 1;
}

static void apply_state(const mjModel* m, mjData* d, const StateIn* st) {
  if (st->nqpos == m->nq) memcpy(d->qpos, st->qpos, sizeof(double) * m->nq);
  if (st->nqvel == m->nv) memcpy(d->qvel, st->qvel, sizeof(double) * m->nv);
  if (st->nctrl == m->nu) memcpy(d->ctrl, st->ctrl, sizeof(double) * m->nu);
}

static double reldev(double a, double b) {
  double s = fabs(a) > fabs(b) ? fabs(a) : fabs(b);
  double d = fabs(a - b) / (1.0 + s);
  return (d != d) ? INFINITY : d;
}

static int g_cmp_sensor = 0;   // apair: sensor data is part of the comparison
static char static_diff[2000];

static void sdiff(const char* f) {
  if (strlen(static_diff) + strlen(f) + 2 < sizeof static_diff) { if (static_diff[0]) strcat(static_diff, ","); strcat(static_diff, f); }
}

// bitwise comparison of all model arrays (only meaningful when the two descriptions declare the same elements in order)
static void compare_static(const mjModel* a, const mjModel* b) {
  static_diff[0] = 0;
  int sizes_ok = 1;
#define X(name) if (a->name != b->name) { sdiff(#name); sizes_ok = 0; }
  MJMODEL_SIZES
#undef X
  if (!sizes_ok) return;
  MJMODEL_POINTERS_PREAMBLE(a)
#define X(type, name, nr, nc) \
  if ((size_t)a->nr * (size_t)(nc) && memcmp(a->name, b->name, sizeof(type) * (size_t)a->nr * (size_t)(nc))) sdiff(#name);
  MJMODEL_POINTERS
#undef X
  if (memcmp(&a->opt, &b->opt, sizeof(mjOption))) sdiff("opt");
  if (memcmp(&a->stat, &b->stat, sizeof(mjStatistic))) sdiff("stat");
}

// largest relative deviation of a named array between two models, for the arrays that matter to the dynamics
static double static_numeric_dev(const mjModel* a, const mjModel* b) {
  double mx = 0;
#define CMP(name, n) if (a->n == b->n) for (int i = 0; i < (int)(a->n); i++) { double d = reldev(a->name[i], b->name[i]); if (d > mx) mx = d; }
  if (a->nbody == b->nbody) {
    for (int i = 0; i < 3 * a->nbody; i++) { double d = reldev(a->body_pos[i], b->body_pos[i]); if (d > mx) mx = d; d = reldev(a->body_ipos[i], b->body_ipos[i]); if (d > mx) mx = d; d = reldev(a->body_inertia[i], b->body_inertia[i]); if (d > mx) mx = d; }
    for (int i = 0; i < a->nbody; i++) { double d = reldev(a->body_mass[i], b->body_mass[i]); if (d > mx) mx = d; d = reldev(a->body_subtreemass[i], b->body_subtreemass[i]); if (d > mx) mx = d; }
    for (int i = 0; i < 2 * a->nbody; i++) { double d = reldev(a->body_invweight0[i], b->body_invweight0[i]); if (d > mx) mx = d; }
  }
  if (a->nv == b->nv) for (int i = 0; i < a->nv; i++) { double d = reldev(a->dof_invweight0[i], b->dof_invweight0[i]); if (d > mx) mx = d; d = reldev(a->dof_armature[i], b->dof_armature[i]); if (d > mx) mx = d; }
  if (a->nq == b->nq) for (int i = 0; i < a->nq; i++) { double d = reldev(a->qpos0[i], b->qpos0[i]); if (d > mx) mx = d; d = reldev(a->qpos_spring[i], b->qpos_spring[i]); if (d > mx) mx = d; }
  if (a->njnt == b->njnt) for (int i = 0; i < 2 * a->njnt; i++) { double d = reldev(a->jnt_range[i], b->jnt_range[i]); if (d > mx) mx = d; }
  if (a->ngeom == b->ngeom) {
    for (int i = 0; i < 3 * a->ngeom; i++) { double d = reldev(a->geom_pos[i], b->geom_pos[i]); if (d > mx) mx = d; }
    for (int i = 0; i < a->ngeom; i++) {   // q and -q are the same orientation
      double dp = 0, dm = 0;
      for (int j = 0; j < 4; j++) { double x = fabs(a->geom_quat[4 * i + j] - b->geom_quat[4 * i + j]), y = fabs(a->geom_quat[4 * i + j] + b->geom_quat[4 * i + j]); if (x > dp) dp = x; if (y > dm) dm = y; }
      double d = dp < dm ? dp : dm; if (d != d) d = INFINITY; if (d > mx) mx = d;
    }
  }
  if (a->ncam == b->ncam) {
    for (int i = 0; i < 3 * a->ncam; i++) { double d = reldev(a->cam_pos[i], b->cam_pos[i]); if (d > mx) mx = d; }
    for (int i = 0; i < a->ncam; i++) {
      double dp = 0, dm = 0;
      for (int j = 0; j < 4; j++) { double x = fabs(a->cam_quat[4 * i + j] - b->cam_quat[4 * i + j]), y = fabs(a->cam_quat[4 * i + j] + b->cam_quat[4 * i + j]); if (x > dp) dp = x; if (y > dm) dm = y; }
      double d = dp < dm ? dp : dm; if (d != d) d = INFINITY; if (d > mx) mx = d;
    }
  }
  if (a->nu == b->nu) for (int i = 0; i < a->nu; i++) { double d = reldev(a->actuator_acc0[i], b->actuator_acc0[i]); if (d > mx) mx = d; }
  if (a->ntendon == b->ntendon) for (int i = 0; i < a->ntendon; i++) { double d = reldev(a->tendon_length0[i], b->tendon_length0[i]); if (d > mx) mx = d; d = reldev(a->tendon_invweight0[i], b->tendon_invweight0[i]); if (d > mx) mx = d; }
#undef CMP
  return mx;
}

// name of the object a reference points to ("" for none / unnamed)
static const char* refname(const mjModel* m, int objtype, int id) {
  if (id < 0 || objtype < 0) return "";
  const char* n = mj_id2name(m, objtype, id);
  return n ? n : "";
}

static char refs_diff[256];
static void rdiff(const char* f) {
  if (!strstr(refs_diff, f) && strlen(refs_diff) + strlen(f) + 2 < sizeof refs_diff) { if (refs_diff[0]) strcat(refs_diff, ","); strcat(refs_diff, f); }
}

// do the by-name references of tendons, actuators, sensors, cameras and lights point to objects of the same NAME?
static void compare_refs(const mjModel* a, const mjModel* b) {
  refs_diff[0] = 0;
  if (a->ntendon == b->ntendon && a->nwrap == b->nwrap) {
    for (int i = 0; i < a->nwrap; i++) {
      if (a->wrap_type[i] != b->wrap_type[i]) { rdiff("tendon"); continue; }
      int ot = a->wrap_type[i] == mjWRAP_JOINT ? mjOBJ_JOINT : a->wrap_type[i] == mjWRAP_SITE ? mjOBJ_SITE :
               (a->wrap_type[i] == mjWRAP_SPHERE || a->wrap_type[i] == mjWRAP_CYLINDER) ? mjOBJ_GEOM : -1;
      if (ot >= 0 && strcmp(refname(a, ot, a->wrap_objid[i]), refname(b, ot, b->wrap_objid[i]))) rdiff("tendon");
    }
  } else rdiff("tendon-count");
  if (a->nu == b->nu) {
    for (int i = 0; i < a->nu; i++) {
      if (a->actuator_trntype[i] != b->actuator_trntype[i]) { rdiff("actuator"); continue; }
      int tt = a->actuator_trntype[i];
      int ot = (tt == mjTRN_JOINT || tt == mjTRN_JOINTINPARENT) ? mjOBJ_JOINT : tt == mjTRN_TENDON ? mjOBJ_TENDON :
               tt == mjTRN_SITE ? mjOBJ_SITE : tt == mjTRN_BODY ? mjOBJ_BODY : tt == mjTRN_SLIDERCRANK ? mjOBJ_SITE : -1;
      if (ot >= 0 && strcmp(refname(a, ot, a->actuator_trnid[2 * i]), refname(b, ot, b->actuator_trnid[2 * i]))) rdiff("actuator");
      if (ot == mjOBJ_SITE && strcmp(refname(a, ot, a->actuator_trnid[2 * i + 1]), refname(b, ot, b->actuator_trnid[2 * i + 1]))) rdiff("actuator");
    }
  } else rdiff("actuator-count");
  if (a->nsensor == b->nsensor) {
    for (int i = 0; i < a->nsensor; i++) {
      if (a->sensor_type[i] != b->sensor_type[i] || a->sensor_objtype[i] != b->sensor_objtype[i] || a->sensor_reftype[i] != b->sensor_reftype[i]) { rdiff("sensor"); continue; }
      if (a->sensor_objtype[i] != mjOBJ_BODY && a->sensor_objtype[i] != mjOBJ_XBODY &&
          strcmp(refname(a, a->sensor_objtype[i], a->sensor_objid[i]), refname(b, b->sensor_objtype[i], b->sensor_objid[i]))) rdiff("sensor");
      if (a->sensor_reftype[i] != mjOBJ_BODY && a->sensor_reftype[i] != mjOBJ_XBODY &&
          strcmp(refname(a, a->sensor_reftype[i], a->sensor_refid[i]), refname(b, b->sensor_reftype[i], b->sensor_refid[i]))) rdiff("sensor");
    }
  } else rdiff("sensor-count");
}

// step both models from the same state; compare what B keeps with A by name
static void compare_traj(mjModel* mA, mjModel* mB, int nstep, const StateIn* st, int do_static) {
  mjData* dA = mj_makeData(mA);
  mjData* dB = mj_makeData(mB);
  apply_state(mA, dA, st); apply_state(mB, dB, st);
  double mx = 0, mx0 = 0; int nmatched = 0;
  double qaccm = 0; mjData* dM = NULL;
  for (int k = 0; k <= nstep; k++) {
    if (k == 0) { mj_forward(mA, dA); mj_forward(mB, dB); } else { mj_step(mA, dA); mj_step(mB, dB); mj_forward(mA, dA); mj_forward(mB, dB); }
    int cnt = 0;
    for (int ib = 1; ib < mB->nbody; ib++) {
      const char* nm = mj_id2name(mB, mjOBJ_BODY, ib);
      if (!nm) continue;
      int ia = mj_name2id(mA, mjOBJ_BODY, nm);
      if (ia < 0) continue;
      cnt++;
      for (int j = 0; j < 3; j++) { double d = reldev(dA->xpos[3 * ia + j], dB->xpos[3 * ib + j]); if (d > mx) mx = d; }
      for (int j = 0; j < 9; j++) { double d = reldev(dA->xmat[9 * ia + j], dB->xmat[9 * ib + j]); if (d > mx) mx = d; }
    }
    for (int ib = 0; ib < mB->nsite; ib++) {
      const char* nm = mj_id2name(mB, mjOBJ_SITE, ib);
      if (!nm) continue;
      int ia = mj_name2id(mA, mjOBJ_SITE, nm);
      if (ia < 0) continue;
      for (int j = 0; j < 3; j++) { double d = reldev(dA->site_xpos[3 * ia + j], dB->site_xpos[3 * ib + j]); if (d > mx) mx = d; }
      for (int j = 0; j < 9; j++) { double d = reldev(dA->site_xmat[9 * ia + j], dB->site_xmat[9 * ib + j]); if (d > mx) mx = d; }
    }
    if (mA->nq == mB->nq) for (int j = 0; j < mA->nq; j++) { double d = reldev(dA->qpos[j], dB->qpos[j]); if (d > mx) mx = d; }
    if (g_cmp_sensor && mA->nsensordata == mB->nsensordata)
      for (int j = 0; j < mA->nsensordata; j++) { double d = reldev(dA->sensordata[j], dB->sensordata[j]); if (d > mx) mx = d; }
    nmatched = cnt;
    if (k == 0) mx0 = mx;
    // matched-state comparison: B evaluated at A's CURRENT state (not at its own integrated one), so that the accelerations of
    // the two descriptions are compared without the drift that a tiny difference accumulates along separately integrated paths
    if (mA->nq == mB->nq && mA->nv == mB->nv && mA->na == mB->na && mA->nu == mB->nu && k % 50 == 0) {
      if (!dM) dM = mj_makeData(mB);
      mju_copy(dM->qpos, dA->qpos, mA->nq); mju_copy(dM->qvel, dA->qvel, mA->nv);
      if (mA->na) mju_copy(dM->act, dA->act, mA->na);
      if (mA->nu) mju_copy(dM->ctrl, dA->ctrl, mA->nu);
      if (mA->nmocap == mB->nmocap && mA->nmocap) { mju_copy(dM->mocap_pos, dA->mocap_pos, 3 * mA->nmocap); mju_copy(dM->mocap_quat, dA->mocap_quat, 4 * mA->nmocap); }
      dM->time = dA->time;
      mj_forward(mB, dM);
      for (int j = 0; j < mA->nv; j++) {
        double sc = fabs(dA->qacc[j]) > 1 ? fabs(dA->qacc[j]) : 1;
        double d = fabs(dA->qacc[j] - dM->qacc[j]) / sc; if (d > qaccm) qaccm = d;
      }
    }
    if (getenv("C36_DEBUG") && (k == 0 || k == 1 || k == 2 || k == 10 || k == 50 || k == nstep)) {
      double dq = 0; if (mA->nv == mB->nv) for (int j = 0; j < mA->nv; j++) { double d = reldev(dA->qacc[j], dB->qacc[j]); if (d > dq) dq = d; }
      fprintf(stderr, "dbg k=%d mx=%.3g qaccdev=%.3g ncon=%d/%d nefc=%d/%d\n", k, mx, dq, dA->ncon, dB->ncon, dA->nefc, dB->nefc);
    }
  }
  // conditioning probe: the same model A from a state whose velocities are scaled by (1 + 1e-9); amp = (deviation of A's own
  // kept poses over the same horizon) / 1e-9 says how strongly this trajectory amplifies a relative perturbation, so that a
  // rewriting which is only accurate to the compiler's numerical accuracy (fusestatic: Jacobi eigen-decomposition) can be judged
  // relative to the conditioning of the scene and not by an absolute number
  double amp = 0;
  {
    mjData* dP = mj_makeData(mA);
    mjData* dQ = mj_makeData(mA);
    apply_state(mA, dP, st); apply_state(mA, dQ, st);
    for (int j = 0; j < mA->nv; j++) dQ->qvel[j] *= (1 + 1e-9);
    for (int j = 0; j < mA->nq; j++) if (mA->nq == mA->nv) dQ->qpos[j] *= (1 + 1e-9);
    double mp = 0;
    for (int k = 0; k <= nstep; k++) {
      if (k == 0) { mj_forward(mA, dP); mj_forward(mA, dQ); } else { mj_step(mA, dP); mj_step(mA, dQ); mj_forward(mA, dP); mj_forward(mA, dQ); }
      for (int ib = 1; ib < mA->nbody; ib++) {
        for (int j = 0; j < 3; j++) { double d = reldev(dP->xpos[3 * ib + j], dQ->xpos[3 * ib + j]); if (d > mp) mp = d; }
        for (int j = 0; j < 9; j++) { double d = reldev(dP->xmat[9 * ib + j], dQ->xmat[9 * ib + j]); if (d > mp) mp = d; }
      }
      for (int j = 0; j < mA->nq; j++) { double d = reldev(dP->qpos[j], dQ->qpos[j]); if (d > mp) mp = d; }
    }
    amp = mp / 1e-9;
    mj_deleteData(dP); mj_deleteData(dQ);
  }
  if (do_static) compare_static(mA, mB); else static_diff[0] = 0;
  compare_refs(mA, mB);
  // a simulation that blew up (bad qpos / qvel / qacc, followed by an automatic reset) is not comparable
  int nwarn = dA->warning[mjWARN_BADQPOS].number + dA->warning[mjWARN_BADQVEL].number + dA->warning[mjWARN_BADQACC].number +
              dB->warning[mjWARN_BADQPOS].number + dB->warning[mjWARN_BADQVEL].number + dB->warning[mjWARN_BADQACC].number;
  printf("maxdev=%.3g dev0=%.3g nmatched=%d nqA=%d nqB=%d numdev=%.3g unstable=%d refs=%s static=%s amp=%.3g qaccm=%.3g\n", mx, mx0, nmatched, (int)mA->nq, (int)mB->nq,
         static_numeric_dev(mA, mB), nwarn, refs_diff[0] ? refs_diff : "same", (do_static && !static_diff[0]) ? "same" : (do_static ? static_diff : "n/a"), amp, qaccm);
  mj_deleteData(dA); mj_deleteData(dB); if (dM) mj_deleteData(dM);
}

static void op_pair(char** tok, int n) {
  int nstep, nstate; char err[600];
  if (n != 2 || !geti(tok[0], &nstep) || !geti(tok[1], &nstate) || nstep < 0 || nstep > 5000 || nstate < 0 || nstate > 3) { printf("bad-op\n"); return; }
  static StateIn st;
  if (!read_state(&st, nstate)) { printf("bad-op\n"); return; }
  mjSpec* sA = NULL; mjSpec* sB = NULL;
  mjModel* mA = mjb_compile(stdin, &sA, err, sizeof err);
  char errB[600];
  mjModel* mB = mjb_compile(stdin, &sB, errB, sizeof errB);
  if (!mA || !mB) {
    for (char* c = err; *c; c++) if (*c == '\n') *c = ' ';
    for (char* c = errB; *c; c++) if (*c == '\n') *c = ' ';
    printf("error A:%s B:%s\n", mA ? "ok" : err, mB ? "ok" : errB);
  } else compare_traj(mA, mB, nstep, &st, 1);
  if (mA) { mj_deleteModel(mA); mj_deleteSpec(sA); }
  if (mB) { mj_deleteModel(mB); mj_deleteSpec(sB); }
}

// ---- apair: descriptions made of several specs joined by mjs_attach
#define MAXSPEC 8
static mjModel* build_attached(mjSpec** keep, int* nkeep, char* err, int errsz) {
  static char line[1 << 14];
  mjSpec* sp[MAXSPEC]; int nsp = 0; int failed = 0;
  *nkeep = 0;
  sp[nsp] = mjb_build(stdin, err, errsz);
  if (!sp[nsp]) failed = 1; else nsp++;
  while (rdline(line, sizeof line)) {
    char* w[12]; int k = 0; char* save; char* t = strtok_r(line, " \t\r\n", &save);
    while (t && k < 12) { w[k++] = t; t = strtok_r(NULL, " \t\r\n", &save); }
    if (!k || w[0][0] == '#') continue;
    if (!strcmp(w[0], "done")) break;
    if (!strcmp(w[0], "child")) {
      char e2[600];
      mjSpec* c = mjb_build(stdin, e2, sizeof e2);      // always consume the description
      if (failed) { if (c) mj_deleteSpec(c); continue; }
      if (!c) { snprintf(err, errsz, "child: %s", e2); failed = 1; continue; }
      if (nsp == MAXSPEC) { mj_deleteSpec(c); snprintf(err, errsz, "too many specs"); failed = 1; continue; }
      sp[nsp++] = c;
      continue;
    }
    if (failed) continue;
    int a, b;
    if (!strcmp(w[0], "deepcopy") && k == 3 && geti(w[1], &a) && geti(w[2], &b) && a >= 0 && a < nsp) { mjs_setDeepCopy(sp[a], b); continue; }
    if (!strcmp(w[0], "attach") && k == 9 && geti(w[1], &a) && geti(w[4], &b) && a >= 0 && a < nsp && b >= 0 && b < nsp) {
      int pt = !strcmp(w[2], "body") ? mjOBJ_BODY : !strcmp(w[2], "frame") ? mjOBJ_FRAME : !strcmp(w[2], "site") ? mjOBJ_SITE : -1;
      int ct = !strcmp(w[5], "body") ? mjOBJ_BODY : !strcmp(w[5], "frame") ? mjOBJ_FRAME : !strcmp(w[5], "model") ? mjOBJ_MODEL : -1;
      mjsElement* pe = pt < 0 ? NULL : mjs_findElement(sp[a], (mjtObj)pt, w[3]);
      const mjsElement* ce = ct < 0 ? NULL : ct == mjOBJ_MODEL ? sp[b]->element : mjs_findElement(sp[b], (mjtObj)ct, w[6]);
      if (!pe || !ce) { snprintf(err, errsz, "attach: element %s / %s not found", w[3], w[6]); failed = 1; continue; }
      if (!mjs_attach(pe, ce, strcmp(w[7], "~") ? w[7] : "", strcmp(w[8], "~") ? w[8] : "")) {
        snprintf(err, errsz, "attach: %s", mjs_getError(sp[a])); failed = 1;
      }
      continue;
    }
    snprintf(err, errsz, "bad directive %s", w[0]); failed = 1;
  }
  mjModel* m = NULL;
  if (!failed) {
    m = mj_compile(sp[0], NULL);
    if (!m) snprintf(err, errsz, "compile: %s", mjs_getError(sp[0]));
  }
  for (int i = 0; i < nsp; i++) keep[(*nkeep)++] = sp[i];
  return m;
}

static void op_apair(char** tok, int n) {
  int nstep, nstate; char err[700], errB[700];
  if (n != 2 || !geti(tok[0], &nstep) || !geti(tok[1], &nstate) || nstep < 0 || nstep > 5000 || nstate < 0 || nstate > 3) { printf("bad-op\n"); return; }
  static StateIn st;
  if (!read_state(&st, nstate)) { printf("bad-op\n"); return; }
  mjSpec* kA[MAXSPEC]; mjSpec* kB[MAXSPEC]; int nA = 0, nB = 0;
  err[0] = errB[0] = 0;
  mjModel* mA = build_attached(kA, &nA, err, sizeof err);
  mjModel* mB = build_attached(kB, &nB, errB, sizeof errB);
  if (!mA || !mB) {
    for (char* c = err; *c; c++) if (*c == '\n') *c = ' ';
    for (char* c = errB; *c; c++) if (*c == '\n') *c = ' ';
    printf("error A:%s B:%s\n", mA ? "ok" : err, mB ? "ok" : errB);
  } else { g_cmp_sensor = 1; compare_traj(mA, mB, nstep, &st, 1); g_cmp_sensor = 0; }
  if (mA) mj_deleteModel(mA);
  if (mB) mj_deleteModel(mB);
  for (int i = 0; i < nA; i++) mj_deleteSpec(kA[i]);
  for (int i = 0; i < nB; i++) mj_deleteSpec(kB[i]);
}

static unsigned lcg(unsigned* s) { *s = *s * 1664525u + 1013904223u; return *s >> 8; }
static double unit(unsigned* s) { return (lcg(s) % 1000000) / 1000000.0; }
static double range(unsigned* s, double lo, double hi) { return lo + (hi - lo) * unit(s); }

static void rquat(unsigned* s, double* q) {
  double n = 0;
  for (int i = 0; i < 4; i++) { q[i] = range(s, -1, 1); n += q[i] * q[i]; }
  n = sqrt(n); if (n < 1e-3) { q[0] = 1; q[1] = q[2] = q[3] = 0; n = 1; }
  for (int i = 0; i < 4; i++) q[i] /= n;
}

// ---- defaults: one parent class and one nested child class carrying geom / joint / site values
typedef struct { double friction[3], solref[2], margin, density, damping, armature, jstiff, ssize; int condim; float rgba[4]; } ClassVals;

static void rand_vals(unsigned* s, ClassVals* v) {
  v->friction[0] = range(s, 0.2, 1.5); v->friction[1] = range(s, 0.001, 0.05); v->friction[2] = range(s, 0.0001, 0.01);
  v->solref[0] = range(s, 0.01, 0.05); v->solref[1] = range(s, 0.5, 1.5);
  v->margin = range(s, 0, 0.02); v->density = range(s, 200, 3000);
  v->damping = range(s, 0.01, 1.0); v->armature = range(s, 0.001, 0.2); v->jstiff = range(s, 0, 5);
  v->ssize = range(s, 0.01, 0.05);
  v->condim = (lcg(s) % 2) ? 3 : 4;
  for (int i = 0; i < 4; i++) v->rgba[i] = (float)range(s, 0.1, 1.0);
}
static void set_geom(mjsGeom* g, const ClassVals* v) {
  memcpy(g->friction, v->friction, sizeof v->friction); memcpy(g->solref, v->solref, sizeof v->solref);
  g->margin = v->margin; g->density = v->density; g->condim = v->condim; memcpy(g->rgba, v->rgba, sizeof v->rgba);
}
static void set_joint(mjsJoint* j, const ClassVals* v) { j->damping[0] = v->damping; j->armature = v->armature; j->stiffness[0] = v->jstiff; }

static mjSpec* build_defaults(unsigned seed, int use_defaults) {
  unsigned s = seed;
  ClassVals pv, cv;
  rand_vals(&s, &pv); rand_vals(&s, &cv);
  // the child class overrides only some values of its parent
  ClassVals eff = pv;
  memcpy(eff.friction, cv.friction, sizeof cv.friction); eff.damping = cv.damping; eff.condim = cv.condim;
  mjSpec* sp = mj_makeSpec();
  mjsDefault* dp = NULL; mjsDefault* dc = NULL;
  if (use_defaults) {
    dp = mjs_addDefault(sp, "parentcls", NULL);
    set_geom(dp->geom, &pv); set_joint(dp->joint, &pv); dp->site->size[0] = pv.ssize;
    dc = mjs_addDefault(sp, "childcls", dp);     // inherits the parent's values at creation
    memcpy(dc->geom->friction, cv.friction, sizeof cv.friction); dc->joint->damping[0] = cv.damping; dc->geom->condim = cv.condim;
  }
  sp->option.gravity[2] = -9.81;
  mjsBody* w = mjs_findBody(sp, "world");
  int nb = 2 + (int)(lcg(&s) % 3);
  mjsBody* parent = w;
  for (int i = 0; i < nb; i++) {
    int cls = (int)(lcg(&s) % 3);   // 0: no class, 1: parent, 2: child
    const ClassVals* v = cls == 1 ? &pv : cls == 2 ? &eff : NULL;
    mjsDefault* d = cls == 1 ? dp : cls == 2 ? dc : NULL;
    mjsBody* b = mjs_addBody(parent, NULL);
    char nm[32]; snprintf(nm, sizeof nm, "b%d", i + 1); mjs_setName(b->element, nm);
    b->pos[0] = range(&s, -0.3, 0.3); b->pos[1] = range(&s, -0.3, 0.3); b->pos[2] = range(&s, 0.2, 0.6);
    mjsJoint* j = mjs_addJoint(b, use_defaults ? d : NULL);
    if (!use_defaults && v) set_joint(j, v);
    j->type = (lcg(&s) % 2) ? mjJNT_HINGE : mjJNT_SLIDE;
    j->axis[0] = range(&s, -1, 1); j->axis[1] = range(&s, -1, 1); j->axis[2] = range(&s, 0.1, 1);
    mjsGeom* g = mjs_addGeom(b, use_defaults ? d : NULL);
    if (!use_defaults && v) set_geom(g, v);
    g->type = (lcg(&s) % 2) ? mjGEOM_SPHERE : mjGEOM_CAPSULE;
    g->size[0] = range(&s, 0.03, 0.1); g->size[1] = range(&s, 0.05, 0.2);
    g->pos[0] = range(&s, -0.1, 0.1);
    mjsSite* st = mjs_addSite(b, use_defaults ? d : NULL);
    if (!use_defaults && v) st->size[0] = v->ssize;
    snprintf(nm, sizeof nm, "s%d", i + 1); mjs_setName(st->element, nm);
    if (lcg(&s) % 2) parent = b;
  }
  return sp;
}

// ---- attach: a child spec with a small tree attached to a frame of the parent vs the same tree written inline
static void add_subtree(mjsBody* root, unsigned* s, const char* prefix) {
  mjsBody* parent = root;
  int nb = 1 + (int)(lcg(s) % 3);
  for (int i = 0; i < nb; i++) {
    mjsBody* b = mjs_addBody(parent, NULL);
    char nm[48]; snprintf(nm, sizeof nm, "%ssub%d", prefix, i + 1); mjs_setName(b->element, nm);
    b->pos[0] = range(s, -0.3, 0.3); b->pos[1] = range(s, -0.3, 0.3); b->pos[2] = range(s, -0.3, 0.3);
    rquat(s, b->quat);
    mjsJoint* j = mjs_addJoint(b, NULL);
    snprintf(nm, sizeof nm, "%ssubj%d", prefix, i + 1); mjs_setName(j->element, nm);
    j->type = (lcg(s) % 3) ? mjJNT_HINGE : mjJNT_SLIDE;
    j->axis[0] = range(s, -1, 1); j->axis[1] = range(s, -1, 1); j->axis[2] = range(s, 0.1, 1);
    j->damping[0] = range(s, 0, 0.5);
    mjsGeom* g = mjs_addGeom(b, NULL);
    g->type = (lcg(s) % 2) ? mjGEOM_BOX : mjGEOM_CAPSULE;
    g->size[0] = range(s, 0.03, 0.1); g->size[1] = range(s, 0.03, 0.15); g->size[2] = range(s, 0.03, 0.1);
    g->contype = 0; g->conaffinity = 0;
    rquat(s, g->quat);
    mjsSite* st = mjs_addSite(b, NULL);
    snprintf(nm, sizeof nm, "%ssubs%d", prefix, i + 1); mjs_setName(st->element, nm);
    st->pos[0] = range(s, -0.1, 0.1);
    parent = b;
  }
}

static mjSpec* g_child = NULL;   // kept alive until the parent has been compiled

static mjSpec* build_attach(unsigned seed, int use_attach) {
  unsigned s = seed;
  mjSpec* sp = mj_makeSpec();
  mjsBody* w = mjs_findBody(sp, "world");
  mjsBody* base = mjs_addBody(w, NULL);
  mjs_setName(base->element, "base");
  base->pos[2] = 1.0;
  mjsJoint* bj = mjs_addJoint(base, NULL); bj->type = mjJNT_HINGE; bj->axis[0] = 0; bj->axis[1] = 1; bj->axis[2] = 0;
  mjs_setName(bj->element, "basej");
  mjsGeom* bg = mjs_addGeom(base, NULL); bg->type = mjGEOM_SPHERE; bg->size[0] = 0.1; bg->contype = 0; bg->conaffinity = 0;
  double fpos[3] = {range(&s, -0.2, 0.2), range(&s, -0.2, 0.2), range(&s, -0.2, 0.2)}, fquat[4];
  rquat(&s, fquat);
  mjsFrame* f = mjs_addFrame(base, NULL);
  memcpy(f->pos, fpos, sizeof fpos); memcpy(f->quat, fquat, sizeof fquat);
  unsigned ssub = s;
  if (use_attach) {
    mjSpec* child = mj_makeSpec();
    mjsBody* cw = mjs_findBody(child, "world");
    mjsBody* croot = mjs_addBody(cw, NULL);
    mjs_setName(croot->element, "root");
    mjsGeom* rg = mjs_addGeom(croot, NULL); rg->type = mjGEOM_SPHERE; rg->size[0] = 0.05; rg->contype = 0; rg->conaffinity = 0;
    add_subtree(croot, &ssub, "");
    if (!mjs_attach(f->element, croot->element, "att_", "")) { mj_deleteSpec(child); mj_deleteSpec(sp); return NULL; }
    g_child = child;
  } else {
    mjsBody* croot = mjs_addBody(base, NULL);
    mjs_setName(croot->element, "att_root");
    mjs_setFrame(croot->element, f);
    mjsGeom* rg = mjs_addGeom(croot, NULL); rg->type = mjGEOM_SPHERE; rg->size[0] = 0.05; rg->contype = 0; rg->conaffinity = 0;
    add_subtree(croot, &ssub, "att_");
  }
  return sp;
}

static void op_builtin_pair(char** tok, int n, int which) {
  int seed;
  if (n != 1 || !geti(tok[0], &seed) || seed < 0) { printf("bad-op\n"); return; }
  mjSpec* sA = which == 0 ? build_defaults((unsigned)seed, 0) : build_attach((unsigned)seed, 0);
  mjSpec* sB = which == 0 ? build_defaults((unsigned)seed, 1) : build_attach((unsigned)seed, 1);
  mjModel* mA = sA ? mj_compile(sA, NULL) : NULL;
  mjModel* mB = sB ? mj_compile(sB, NULL) : NULL;
  if (!mA || !mB) printf("error A:%s B:%s\n", mA ? "ok" : (sA ? "compile" : "build"), mB ? "ok" : (sB ? "compile" : "build"));
  else {
    static StateIn st; st.nqpos = st.nqvel = st.nctrl = 0;
    unsigned s = (unsigned)seed ^ 0x5bd1e995u;
    if (mA->nv <= MAXSTATE) { st.nqvel = mA->nv; for (int i = 0; i < mA->nv; i++) st.qvel[i] = range(&s, -1, 1); }
    compare_traj(mA, mB, 200, &st, 1);
  }
  if (mA) mj_deleteModel(mA);
  if (mB) mj_deleteModel(mB);
  if (sA) mj_deleteSpec(sA);
  if (sB) mj_deleteSpec(sB);
  if (g_child) { mj_deleteSpec(g_child); g_child = NULL; }
}

// ---- setconst
static void op_setconst(char** tok, int n) {
  int nstep, nstate; char err[600];
  if (n != 2 || !geti(tok[0], &nstep) || !geti(tok[1], &nstate) || nstep < 0 || nstep > 5000 || nstate < 0 || nstate > 3) { printf("bad-op\n"); return; }
  static StateIn st;
  if (!read_state(&st, nstate)) { printf("bad-op\n"); return; }
  mjSpec* sp = NULL;
  mjModel* m0 = mjb_compile(stdin, &sp, err, sizeof err);
  static char line[4096];
  int bad = 0;
  mjData* d0 = m0 ? mj_makeData(m0) : NULL;
  while (rdline(line, sizeof line)) {
    char* w[16]; int k = 0; char* save; char* t = strtok_r(line, " \t\r\n", &save);
    while (t && k < 16) { w[k++] = t; t = strtok_r(NULL, " \t\r\n", &save); }
    if (!k) continue;
    if (!strcmp(w[0], "endedit")) break;
    if (!m0) continue;
    if (k >= 5 && !strcmp(w[0], "edit") && !strcmp(w[1], "body")) {
      mjsBody* b = mjs_findBody(sp, w[2]); int id = mj_name2id(m0, mjOBJ_BODY, w[2]);
      if (!b || id < 0) { bad = 1; continue; }
      if (!strcmp(w[3], "pos") && k == 7) { for (int j = 0; j < 3; j++) { b->pos[j] = strtod(w[4 + j], NULL); m0->body_pos[3 * id + j] = b->pos[j]; } }
      else if (!strcmp(w[3], "gravcomp") && k == 5) { b->gravcomp = strtod(w[4], NULL); m0->body_gravcomp[id] = b->gravcomp; }
      else bad = 1;
    } else if (k == 5 && !strcmp(w[0], "edit") && !strcmp(w[1], "joint")) {
      mjsJoint* j = mjs_asJoint(mjs_findElement(sp, mjOBJ_JOINT, w[2])); int id = mj_name2id(m0, mjOBJ_JOINT, w[2]);
      if (!j || id < 0) { bad = 1; continue; }
      double v = strtod(w[4], NULL);
      int nd = m0->jnt_type[id] == mjJNT_FREE ? 6 : m0->jnt_type[id] == mjJNT_BALL ? 3 : 1;
      if (!strcmp(w[3], "armature")) { j->armature = v; for (int q = 0; q < nd; q++) m0->dof_armature[m0->jnt_dofadr[id] + q] = v; }
      else if (!strcmp(w[3], "stiffness")) { j->stiffness[0] = v; m0->jnt_stiffness[id] = v; }
      else bad = 1;
    } else bad = 1;
  }
  if (!m0) { for (char* c = err; *c; c++) if (*c == '\n') *c = ' '; printf("error %s\n", err); return; }
  if (bad) printf("bad-op\n");
  else {
    mj_setConst(m0, d0);                    // B: runtime edit + mj_setConst
    mjModel* mA = mj_compile(sp, NULL);     // A: recompile of the edited spec
    if (!mA) printf("error recompile\n");
    else { compare_traj(mA, m0, nstep, &st, 1); mj_deleteModel(mA); }
  }
  mj_deleteData(d0); mj_deleteModel(m0); mj_deleteSpec(sp);
}

int main(void) {
  char* line = NULL; size_t cap = 0; ssize_t len;
  size_t tcap = 256; char** tok = (char**)malloc(tcap * sizeof(char*));
  while ((len = getline(&line, &cap, stdin)) >= 0) {
    int n = 0; char* save; char* t = strtok_r(line, " \t\r\n", &save);
    while (t) {
      if ((size_t)n == tcap) { tcap *= 2; tok = (char**)realloc(tok, tcap * sizeof(char*)); }
      tok[n++] = t; t = strtok_r(NULL, " \t\r\n", &save);
    }
    if (!n) { printf("bad-op\n"); fflush(stdout); continue; }
    if (!strcmp(tok[0], "orient")) op_orient(tok + 1, n - 1);
    else if (!strcmp(tok[0], "frame")) op_frame(tok + 1, n - 1, 0);
    else if (!strcmp(tok[0], "frame2")) op_frame(tok + 1, n - 1, 1);
    else if (!strcmp(tok[0], "att")) op_att(tok + 1, n - 1);
    else if (!strcmp(tok[0], "pair")) op_pair(tok + 1, n - 1);
    else if (!strcmp(tok[0], "apair")) op_apair(tok + 1, n - 1);
    else if (!strcmp(tok[0], "defaults")) op_builtin_pair(tok + 1, n - 1, 0);
    else if (!strcmp(tok[0], "attach")) op_builtin_pair(tok + 1, n - 1, 1);
    else if (!strcmp(tok[0], "setconst")) op_setconst(tok + 1, n - 1);
    else printf("bad-op\n");
    fflush(stdout);
  }
  return 0;
}
