// C30 implementation-side driver: calls the *real* mju_isBad / mj_checkPos / mj_checkVel / mj_checkAcc of the
// tree build.  Same line protocol as lean/Drivers/C30.lean.
//
//   isbad <bits>                                     -> 0 | 1                  (mju_isBad on the bit pattern)
//   check <pos|vel|acc> <autoreset> <sleep> <number0> n <n> vec <bits>*n vec0 <bits>*n awake <k> <idx>*k
//        -> <number> <lastinfo> <reset 0/1> <forward 0/1> <vec bits>*n | ... fwd
//      A chain of n bodies with one slide joint each is built through the mjSpec API (nq = nv = n); the checked
//      vector, the warning record, the autoreset / sleep flags, qpos0 (for pos: vec0) and the awake-index list are
//      written into the real mjModel / mjData, then the real check function is called.  `reset` is observed
//      through d->time (set to 7 before the call, 0 after mj_resetData), `forward` through d->qfrc_bias (zeroed
//      before the call; gravity makes it non-zero after mj_forward; mj_resetData alone leaves it zero, also when
//      sleeping is enabled and the reset runs the kinematics).  After a forward the acceleration vector is whatever the
//      engine computed: printed as "fwd".
#include <math.h>
#include <setjmp.h>
#include <stdint.h>
#include <stdio.h>
#include <stdlib.h>
#include <string.h>
#include <mujoco/mujoco.h>

static jmp_buf jb;
static char errmsg[1024];
static void on_error(const char* msg) { snprintf(errmsg, sizeof errmsg, "%s", msg); longjmp(jb, 1); }
static void on_warning(const char* msg) { (void)msg; }

#define MAXN 64
static mjModel* models[MAXN + 1];

static mjModel* chain(int n) {
  if (n < 1 || n > MAXN) return NULL;
  if (models[n]) return models[n];
  mjSpec* s = mj_makeSpec();
  mjsBody* parent = mjs_findBody(s, "world");
  for (int k = 0; k < n; k++) {
    mjsBody* b = mjs_addBody(parent, NULL);
    b->pos[2] = 0.3;
    mjsJoint* j = mjs_addJoint(b, NULL);
    j->type = mjJNT_SLIDE;
    j->axis[0] = 0; j->axis[1] = 0; j->axis[2] = 1;
    mjsGeom* g = mjs_addGeom(b, NULL);
    g->type = mjGEOM_SPHERE;
    g->size[0] = 0.05;
    g->contype = 0; g->conaffinity = 0;
    parent = b;
  }
  mjModel* m = mj_compile(s, NULL);
  mj_deleteSpec(s);
  models[n] = m;
  return m;
}

static int parse_bits(const char* t, double* out) {
  if (!strcmp(t, "nan")) { *out = NAN; return 1; }
  if (strlen(t) != 16) return 0;
  char* end; uint64_t u = strtoull(t, &end, 16);
  if (*end) return 0;
  memcpy(out, &u, 8);
  return 1;
}
static void print_bits(double x) {
  if (x != x) { printf(" nan"); return; }
  uint64_t u; memcpy(&u, &x, 8); printf(" %016llx", (unsigned long long)u);
}

int main(void) {
  mju_user_error = on_error;
  mju_user_warning = on_warning;
  static char line[1 << 16];
  static char* tok[4096];
  while (fgets(line, sizeof line, stdin)) {
    int nt = 0; char* save; char* t = strtok_r(line, " \t\r\n", &save);
    while (t && nt < 4096) { tok[nt++] = t; t = strtok_r(NULL, " \t\r\n", &save); }
    if (setjmp(jb)) { printf("error %s\n", errmsg); fflush(stdout); continue; }
    if (nt == 2 && !strcmp(tok[0], "isbad")) {
      double x;
      if (!parse_bits(tok[1], &x)) { printf("bad-op\n"); fflush(stdout); continue; }
      printf("%d\n", mju_isBad(x));
    } else if (nt >= 7 && !strcmp(tok[0], "check")) {
      int W = !strcmp(tok[1], "pos") ? 0 : !strcmp(tok[1], "vel") ? 1 : !strcmp(tok[1], "acc") ? 2 : -1;
      int autoreset = atoi(tok[2]), sleep = atoi(tok[3]);
      long number0 = atol(tok[4]);
      int n = strcmp(tok[5], "n") ? -1 : atoi(tok[6]);
      mjModel* m = (W >= 0) ? chain(n) : NULL;
      // layout: 7 "vec" n values "vec0" n values "awake" k idx...
      if (!m || nt < 7 + 1 + n + 1 + n + 2 || strcmp(tok[7], "vec") || strcmp(tok[8 + n], "vec0") ||
          strcmp(tok[9 + 2 * n], "awake") || (autoreset | 1) != 1 || (sleep | 1) != 1 || number0 < 0) {
        printf("bad-op\n"); fflush(stdout); continue;
      }
      int k = atoi(tok[10 + 2 * n]);
      if (k < 0 || k > n || nt != 11 + 2 * n + k) { printf("bad-op\n"); fflush(stdout); continue; }
      double vec[MAXN], vec0[MAXN]; int awake[MAXN]; int ok = 1;
      for (int i = 0; i < n; i++) ok &= parse_bits(tok[8 + i], &vec[i]) && parse_bits(tok[9 + n + i], &vec0[i]);
      for (int i = 0; i < k; i++) { awake[i] = atoi(tok[11 + 2 * n + i]); ok &= awake[i] >= 0 && awake[i] < n; }
      if (!ok) { printf("bad-op\n"); fflush(stdout); continue; }
      m->opt.disableflags = autoreset ? 0 : mjDSBL_AUTORESET;
      m->opt.enableflags = sleep ? mjENBL_SLEEP : 0;
      for (int i = 0; i < n; i++) m->qpos0[i] = (W == 0) ? vec0[i] : 0;
      mjData* d = mj_makeData(m);
      mj_forward(m, d);
      int warn = W == 0 ? mjWARN_BADQPOS : W == 1 ? mjWARN_BADQVEL : mjWARN_BADQACC;
      mjtNum* target = W == 0 ? d->qpos : W == 1 ? d->qvel : d->qacc;
      for (int i = 0; i < n; i++) target[i] = vec[i];
      d->warning[warn].number = (int)number0;
      d->warning[warn].lastinfo = 0;
      d->nv_awake = k;
      for (int i = 0; i < k; i++) d->dof_awake_ind[i] = awake[i];
      d->time = 7;
      memset(d->qfrc_bias, 0, sizeof(mjtNum) * m->nv);
      if (W == 0) mj_checkPos(m, d); else if (W == 1) mj_checkVel(m, d); else mj_checkAcc(m, d);
      int reset = d->time == 0;
      int fwd = 0;
      for (int i = 0; i < m->nv; i++) fwd |= d->qfrc_bias[i] != 0;
      printf("%d %d %d %d", d->warning[warn].number, d->warning[warn].lastinfo, reset, fwd);
      target = W == 0 ? d->qpos : W == 1 ? d->qvel : d->qacc;
      if (fwd) printf(" fwd");
      else for (int i = 0; i < n; i++) print_bits(target[i]);
      printf("\n");
      mj_deleteData(d);
    } else {
      printf("bad-op\n");
    }
    fflush(stdout);
  }
  return 0;
}
