// C30 implementation-side driver: calls the *real* mju_isBad / mj_checkPos / mj_checkVel / mj_checkAcc of the
// tree build.  Same line protocol as lean/Drivers/C30.lean.
//
//   isbad <bits>                                     -> 0 | 1                  (mju_isBad on the bit pattern)
//   check <pos|vel|acc> <autoreset> <sleep> <number0> n <n> vec <bits>*n vec0 <bits>*n awake <k> <idx>*k
//        -> <number> <lastinfo> <reset 0/1> <forward 0/1> <vec bits>*n | ... fwd
//      A chain of n bodies with one slide joint each is built through the mjSpec API (nq = nv = n); the checked
//      vector, the warning record, the autoreset / sleep flags, qpos0 (for pos: vec0) and the awake-index list are
//      written into the real mjModel / mjData, then the real check function is called.  `reset` is observed
//      through d->time (set to 7 before the call, 0 after mj_resetData), `forward` through d->qfrc_bias (zeroed
//      before the call; gravity makes it non-zero after mj_forward; mj_resetData alone leaves it zero, also when
//      sleeping is enabled and the reset runs the kinematics).  After a forward the acceleration vector is whatever the
//      engine computed: printed as "fwd".
//   ctrlscan <clampoff> <number0> k <K> <kind>*K nu <nu> lim (<limited> <lo bits> <hi bits>)*nu ctrl <bits>*nu
//        -> <number> <lastinfo> <act_dot bits>*nu
//      K actuators whose control blocks have different lengths are built through the mjSpec API: `i` a general actuator
//      with integrator dynamics on a hinge (1 control, 1 activation), `s` an SO(3) orientation servo with integrator
//      dynamics on a ball joint (3 controls, 3 activations), `z` a dcmotor with input `none` (NO control, no
//      activation): nu = sum of the block lengths differs from nactuator = K.  Every control feeds an integrator, so
//      after the real mj_fwdActuation act_dot[k] IS the local control k the stage went on to use (after the clamp, and
//      zeroed when a bad control was found).  The per-slot limits are written into m->actuator_ctrllimited /
//      actuator_ctrlrange (nu x 1 / nu x 2), the warning record and d->ctrl into the real mjData.
#include <math.h>
#include <setjmp.h>
#include <stdint.h>
#include <stdio.h>
#include <stdlib.h>
#include <string.h>
#include <mujoco/mujoco.h>

static jmp_buf jb;
static char errmsg[1024];
static void on_error(const char* msg) { snprintf(errmsg, sizeof errmsg, "%s", msg); longjmp(jb, 1); }
static void on_warning(const char* msg) { (void)msg; }

#define MAXN 64
static mjModel* models[MAXN + 1];

static mjModel* chain(int n) {
  if (n < 1 || n > MAXN) return NULL;
  if (models[n]) return models[n];
  mjSpec* s = mj_makeSpec();
  mjsBody* parent = mjs_findBody(s, "world");
  for (int k = 0; k < n; k++) {
    mjsBody* b = mjs_addBody(parent, NULL);
    b->pos[2] = 0.3;
    mjsJoint* j = mjs_addJoint(b, NULL);
    j->type = mjJNT_SLIDE;
    j->axis[0] = 0; j->axis[1] = 0; j->axis[2] = 1;
    mjsGeom* g = mjs_addGeom(b, NULL);
    g->type = mjGEOM_SPHERE;
    g->size[0] = 0.05;
    g->contype = 0; g->conaffinity = 0;
    parent = b;
  }
  mjModel* m = mj_compile(s, NULL);
  mj_deleteSpec(s);
  models[n] = m;
  return m;
}

// model for a kind string such as "isiz"; cached
#define MAXK 8
static struct { char kinds[MAXK + 1]; mjModel* m; } cmodels[256];
static int ncmodels = 0;

static mjModel* ctrl_model(const char* kinds) {
  for (int c = 0; c < ncmodels; c++) if (!strcmp(cmodels[c].kinds, kinds)) return cmodels[c].m;
  mjSpec* s = mj_makeSpec();
  mjsBody* world = mjs_findBody(s, "world");
  int K = (int)strlen(kinds);
  for (int k = 0; k < K; k++) {
    char jn[32]; snprintf(jn, sizeof jn, "j%d", k);
    mjsBody* b = mjs_addBody(world, NULL);
    b->pos[0] = 0.5 * k; b->pos[2] = 1;
    mjsJoint* j = mjs_addJoint(b, NULL);
    mjs_setName(j->element, jn);
    j->type = kinds[k] == 's' ? mjJNT_BALL : mjJNT_HINGE;
    mjsGeom* g = mjs_addGeom(b, NULL);
    g->type = mjGEOM_BOX;
    g->size[0] = 0.1; g->size[1] = 0.05; g->size[2] = 0.02;
    g->pos[0] = 0.1;
    g->contype = 0; g->conaffinity = 0;
    mjsActuator* a = mjs_addActuator(s, NULL);
    a->trntype = mjTRN_JOINT;
    mjs_setString(a->target, jn);
    if (kinds[k] == 'i') {
      a->dyntype = mjDYN_INTEGRATOR;
      a->gainprm[0] = 2;
    } else if (kinds[k] == 's') {
      a->gaintype = mjGAIN_SO3; a->biastype = mjBIAS_SO3;
      a->gainprm[0] = 5; a->biasprm[1] = -5; a->biasprm[2] = -0.5;
      a->dyntype = mjDYN_INTEGRATOR;
    } else {
      a->gaintype = mjGAIN_DCMOTOR; a->biastype = mjBIAS_DCMOTOR; a->dyntype = mjDYN_DCMOTOR;
      a->gainprm[0] = 1; a->gainprm[1] = 0.5;
      a->dynprm[0] = 0;                       // no electrical time constant: no current state (the default dynprm[0] is 1)
      a->ctrlspec = mjINPUT_NONE;
      a->actearly = 1;
      a->actdim = 0;
    }
  }
  mjModel* m = mj_compile(s, NULL);
  mj_deleteSpec(s);
  if (ncmodels < 256) { snprintf(cmodels[ncmodels].kinds, MAXK + 1, "%s", kinds); cmodels[ncmodels].m = m; ncmodels++; }
  return m;
}

static int parse_bits(const char* t, double* out) {
  if (!strcmp(t, "nan")) { *out = NAN; return 1; }
  if (strlen(t) != 16) return 0;
  char* end; uint64_t u = strtoull(t, &end, 16);
  if (*end) return 0;
  memcpy(out, &u, 8);
  return 1;
}
static void print_bits(double x) {
  if (x != x) { printf(" nan"); return; }
  uint64_t u; memcpy(&u, &x, 8); printf(" %016llx", (unsigned long long)u);
}

int main(void) {
  mju_user_error = on_error;
  mju_user_warning = on_warning;
  static char line[1 << 16];
  static char* tok[4096];
  while (fgets(line, sizeof line, stdin)) {
    int nt = 0; char* save; char* t = strtok_r(line, " \t\r\n", &save);
    while (t && nt < 4096) { tok[nt++] = t; t = strtok_r(NULL, " \t\r\n", &save); }
    if (setjmp(jb)) { printf("error %s\n", errmsg); fflush(stdout); continue; }
    if (nt == 2 && !strcmp(tok[0], "isbad")) {
      double x;
      if (!parse_bits(tok[1], &x)) { printf("bad-op\n"); fflush(stdout); continue; }
      printf("%d\n", mju_isBad(x));
    } else if (nt >= 7 && !strcmp(tok[0], "check")) {
      int W = !strcmp(tok[1], "pos") ? 0 : !strcmp(tok[1], "vel") ? 1 : !strcmp(tok[1], "acc") ? 2 : -1;
      int autoreset = atoi(tok[2]), sleep = atoi(tok[3]);
      long number0 = atol(tok[4]);
      int n = strcmp(tok[5], "n") ? -1 : atoi(tok[6]);
      mjModel* m = (W >= 0) ? chain(n) : NULL;
      // layout: 7 "vec" n values "vec0" n values "awake" k idx...
      if (!m || nt < 7 + 1 + n + 1 + n + 2 || strcmp(tok[7], "vec") || strcmp(tok[8 + n], "vec0") ||
          strcmp(tok[9 + 2 * n], "awake") || (autoreset | 1) != 1 || (sleep | 1) != 1 || number0 < 0) {
        printf("bad-op\n"); fflush(stdout); continue;
      }
      int k = atoi(tok[10 + 2 * n]);
      if (k < 0 || k > n || nt != 11 + 2 * n + k) { printf("bad-op\n"); fflush(stdout); continue; }
      double vec[MAXN], vec0[MAXN]; int awake[MAXN]; int ok = 1;
      for (int i = 0; i < n; i++) ok &= parse_bits(tok[8 + i], &vec[i]) && parse_bits(tok[9 + n + i], &vec0[i]);
      for (int i = 0; i < k; i++) { awake[i] = atoi(tok[11 + 2 * n + i]); ok &= awake[i] >= 0 && awake[i] < n; }
      if (!ok) { printf("bad-op\n"); fflush(stdout); continue; }
      m->opt.disableflags = autoreset ? 0 : mjDSBL_AUTORESET;
      m->opt.enableflags = sleep ? mjENBL_SLEEP : 0;
      for (int i = 0; i < n; i++) m->qpos0[i] = (W == 0) ? vec0[i] : 0;
      mjData* d = mj_makeData(m);
      mj_forward(m, d);
      int warn = W == 0 ? mjWARN_BADQPOS : W == 1 ? mjWARN_BADQVEL : mjWARN_BADQACC;
      mjtNum* target = W == 0 ? d->qpos : W == 1 ? d->qvel : d->qacc;
      for (int i = 0; i < n; i++) target[i] = vec[i];
      d->warning[warn].number = (int)number0;
      d->warning[warn].lastinfo = 0;
      d->nv_awake = k;
      for (int i = 0; i < k; i++) d->dof_awake_ind[i] = awake[i];
      d->time = 7;
      memset(d->qfrc_bias, 0, sizeof(mjtNum) * m->nv);
      if (W == 0) mj_checkPos(m, d); else if (W == 1) mj_checkVel(m, d); else mj_checkAcc(m, d);
      int reset = d->time == 0;
      int fwd = 0;
      for (int i = 0; i < m->nv; i++) fwd |= d->qfrc_bias[i] != 0;
      printf("%d %d %d %d", d->warning[warn].number, d->warning[warn].lastinfo, reset, fwd);
      target = W == 0 ? d->qpos : W == 1 ? d->qvel : d->qacc;
      if (fwd) printf(" fwd");
      else for (int i = 0; i < n; i++) print_bits(target[i]);
      printf("\n");
      mj_deleteData(d);
    } else if (nt >= 8 && !strcmp(tok[0], "ctrlscan") && !strcmp(tok[3], "k")) {
      int clampoff = atoi(tok[1]); long number0 = atol(tok[2]); int K = atoi(tok[4]);
      char kinds[MAXK + 1]; int ok = (clampoff | 1) == 1 && number0 >= 0 && K >= 1 && K <= MAXK && nt >= 5 + K + 3;
      ok = ok && (!strcmp(tok[1], "0") || !strcmp(tok[1], "1"));
      int want = 0;
      for (int k = 0; ok && k < K; k++) {
        const char* t2 = tok[5 + k];
        if (strlen(t2) != 1 || !strchr("isz", t2[0])) { ok = 0; break; }
        kinds[k] = t2[0]; want += t2[0] == 'i' ? 1 : t2[0] == 's' ? 3 : 0;
      }
      if (ok) kinds[K] = 0;
      int p = 5 + K;
      int nu = (ok && !strcmp(tok[p], "nu")) ? atoi(tok[p + 1]) : -1;
      ok = ok && nu == want && !strcmp(tok[p + 2], "lim") && nt == p + 3 + 3 * nu + 1 + nu && !strcmp(tok[p + 3 + 3 * nu], "ctrl");
      double lo[3 * MAXK], hi[3 * MAXK], u[3 * MAXK]; int lim[3 * MAXK];
      for (int i = 0; ok && i < nu; i++) {
        const char* l = tok[p + 3 + 3 * i];
        ok = (!strcmp(l, "0") || !strcmp(l, "1")) && parse_bits(tok[p + 4 + 3 * i], &lo[i]) && parse_bits(tok[p + 5 + 3 * i], &hi[i]) &&
             parse_bits(tok[p + 4 + 3 * nu + i], &u[i]);
        lim[i] = l[0] == '1';
      }
      mjModel* m = ok ? ctrl_model(kinds) : NULL;
      if (!m || m->nu != nu || m->na != nu || m->nactuator != K) { printf("bad-op\n"); fflush(stdout); continue; }
      m->opt.disableflags = clampoff ? mjDSBL_CLAMPCTRL : 0;
      for (int i = 0; i < nu; i++) {
        m->actuator_ctrllimited[i] = (mjtBool)lim[i];
        m->actuator_ctrlrange[2 * i] = lo[i]; m->actuator_ctrlrange[2 * i + 1] = hi[i];
      }
      mjData* d = mj_makeData(m);
      mj_forward(m, d);
      for (int i = 0; i < nu; i++) d->ctrl[i] = u[i];
      d->warning[mjWARN_BADCTRL].number = (int)number0;
      d->warning[mjWARN_BADCTRL].lastinfo = 0;
      mj_fwdActuation(m, d);
      printf("%d %d", d->warning[mjWARN_BADCTRL].number, d->warning[mjWARN_BADCTRL].lastinfo);
      for (int i = 0; i < nu; i++) print_bits(d->act_dot[i]);
      printf("\n");
      mj_deleteData(d);
    } else {
      printf("bad-op\n");
    }
    fflush(stdout);
  }
  return 0;
}
