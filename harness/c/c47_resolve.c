// C47: which source does the tree's compiler use for a body's mass properties?
// Runs the REAL mjCBody::Compile of the tree (through the public mjs_* / mj_compile API) on a one-body spec
// assembled from the flags/numbers of each line and prints the compiled body_mass/body_ipos/body_iquat/
// body_inertia — the implementation side of the decision-table correspondence with the Lean model
// MjProof.LogChol.compileBody (lean/MjProof/Model/LogCholesky.lean, driver op `resolve`).
//
// A number = 16 hex digits of its IEEE bits.
//   probe geo                       -> obs <11>   InertiaFromGeom of the fixed geom (mass ipos iquat inertia)
//   probe eig <6 fullinertia>       -> obs <7>    mjuu_fullInertia: iquat(4) inertia(3)      | err <kind>
//   probe alt                       -> obs <4>    quaternion resolved from the fixed axis-angle alternative
//   probe frame                     -> obs <7>    compiled body_pos(3) body_quat(4) of the fixed body frame
//   resolve <ifg> <expl> <iposdef> <fulldef> <ialtquat> <hasgeo> <balance> <19 numbers> <29 observations>
//        numbers: mass ipos(3) iquat(4) inertia(3) fullinertia(6) boundmass boundinertia   (ipos / fullinertia are
//                 written only when iposdef / fulldef = 1; otherwise the NaN default of mjs_defaultBody stays)
//        observations geo(11) eig(7) altq(4) bpos(3) bquat(4): outputs of the probes, read by the Lean side only
//                                   -> ok <11> (mass ipos iquat inertia) | err <kind>
#include <stdio.h>
#include <stdlib.h>
#include <string.h>
#include <stdint.h>
#include <math.h>
#include <mujoco/mujoco.h>

static int unhex(const char* t, double* out) {
  if (!strcmp(t, "nan")) { *out = NAN; return 1; }
  if (strlen(t) != 16) return 0;
  uint64_t u = 0;
  for (int i = 0; i < 16; i++) {
    char c = t[i];
    int v;
    if (c >= '0' && c <= '9') v = c - '0';
    else if (c >= 'a' && c <= 'f') v = c - 'a' + 10;
    else return 0;
    u = (u << 4) | (uint64_t)v;
  }
  memcpy(out, &u, 8);
  return 1;
}

static void hx(double x) {
  if (x != x) { printf(" nan"); return; }
  uint64_t u;
  memcpy(&u, &x, 8);
  printf(" %016llx", (unsigned long long)u);
}

static const char* errkind(const char* msg) {
  if (strstr(msg, "fullinertia and inertial orientation")) return "fullAndOrientation";
  if (strstr(msg, "fullinertia and diagonal inertia")) return "fullAndDiag";
  if (strstr(msg, "in fullinertia")) return "eigFailed";
  if (strstr(msg, "cannot be negative")) return "negative";
  if (strstr(msg, "A + B >= C")) return "triangle";
  return NULL;
}

// the fixed parts of every spec
static const double BPOS[3] = {0.1, -0.2, 0.3};
static const double BQUAT[4] = {0.5, 0.5, 0.5, 0.5};
static const double AXISANGLE[4] = {0.0, 0.6, 0.8, 0.7};

static mjsBody* new_body(mjSpec* s) {
  s->compiler.degree = 0;
  mjsBody* b = mjs_addBody(mjs_findBody(s, "world"), NULL);
  mjs_setName(b->element, "b");
  memcpy(b->pos, BPOS, sizeof BPOS);
  memcpy(b->quat, BQUAT, sizeof BQUAT);
  return b;
}

static void add_geom(mjsBody* b) {
  mjsGeom* g = mjs_addGeom(b, NULL);
  g->type = mjGEOM_BOX;
  g->size[0] = 0.1; g->size[1] = 0.2; g->size[2] = 0.3;
  g->pos[0] = 0.05; g->pos[1] = 0.0; g->pos[2] = -0.02;
  g->quat[0] = 0.5; g->quat[1] = -0.5; g->quat[2] = 0.5; g->quat[3] = 0.5;
}

static void print_result(mjSpec* s, int n) {
  mjModel* m = mj_compile(s, NULL);
  if (!m) {
    const char* msg = mjs_getError(s);
    const char* k = errkind(msg ? msg : "");
    if (k) printf("err %s\n", k);
    else printf("err other:%.120s\n", msg ? msg : "?");
    return;
  }
  int id = mj_name2id(m, mjOBJ_BODY, "b");
  if (id < 0) { printf("err other:no-body\n"); mj_deleteModel(m); return; }
  printf(n == 11 ? "ok" : "obs");
  if (n == 11 || n == 110) {
    hx(m->body_mass[id]);
    for (int i = 0; i < 3; i++) hx(m->body_ipos[3 * id + i]);
    for (int i = 0; i < 4; i++) hx(m->body_iquat[4 * id + i]);
    for (int i = 0; i < 3; i++) hx(m->body_inertia[3 * id + i]);
  } else if (n == 7) {
    for (int i = 0; i < 4; i++) hx(m->body_iquat[4 * id + i]);
    for (int i = 0; i < 3; i++) hx(m->body_inertia[3 * id + i]);
  } else if (n == 4) {
    for (int i = 0; i < 4; i++) hx(m->body_iquat[4 * id + i]);
  } else if (n == 70) {
    for (int i = 0; i < 3; i++) hx(m->body_pos[3 * id + i]);
    for (int i = 0; i < 4; i++) hx(m->body_quat[4 * id + i]);
  }
  printf("\n");
  mj_deleteModel(m);
}

static void noerr(const char* msg) { (void)msg; }

int main(void) {
  char line[8192];
  mju_user_warning = noerr;
  while (fgets(line, sizeof line, stdin)) {
    char* tok[128];
    int n = 0;
    for (char* p = strtok(line, " \t\r\n"); p && n < 128; p = strtok(NULL, " \t\r\n")) tok[n++] = p;
    if (n == 0) { printf("bad-op\n"); continue; }
    if (!strcmp(tok[0], "probe") && n >= 2) {
      mjSpec* s = mj_makeSpec();
      mjsBody* b = new_body(s);
      if (!strcmp(tok[1], "geo") && n == 2) {
        add_geom(b);
        print_result(s, 110);
      } else if (!strcmp(tok[1], "eig") && n == 8) {
        int ok = 1;
        for (int i = 0; i < 6; i++) ok &= unhex(tok[2 + i], &b->fullinertia[i]);
        if (!ok) { printf("bad-op\n"); mj_deleteSpec(s); continue; }
        b->explicitinertial = 1;
        b->mass = 1;
        b->ipos[0] = b->ipos[1] = b->ipos[2] = 0;
        print_result(s, 7);
      } else if (!strcmp(tok[1], "alt") && n == 2) {
        b->explicitinertial = 1;
        b->mass = 1;
        b->ipos[0] = b->ipos[1] = b->ipos[2] = 0;
        b->inertia[0] = b->inertia[1] = b->inertia[2] = 1;
        b->ialt.type = mjORIENTATION_AXISANGLE;
        memcpy(b->ialt.axisangle, AXISANGLE, sizeof AXISANGLE);
        print_result(s, 4);
      } else if (!strcmp(tok[1], "frame") && n == 2) {
        print_result(s, 70);
      } else {
        printf("bad-op\n");
      }
      mj_deleteSpec(s);
      continue;
    }
    if (!strcmp(tok[0], "resolve") && n == 8 + 19 + 29) {
      int fl[7], ok = 1;
      for (int i = 0; i < 7; i++) {
        if (strlen(tok[1 + i]) != 1 || tok[1 + i][0] < '0' || tok[1 + i][0] > (i == 0 ? '2' : '1')) ok = 0;
        else fl[i] = tok[1 + i][0] - '0';
      }
      double x[19];
      for (int i = 0; ok && i < 19; i++) ok &= unhex(tok[8 + i], &x[i]);
      for (int i = 0; ok && i < 29; i++) { double d; ok &= unhex(tok[27 + i], &d); }
      if (!ok) { printf("bad-op\n"); continue; }
      mjSpec* s = mj_makeSpec();
      mjsBody* b = new_body(s);
      s->compiler.inertiafromgeom = (mjtInertiaFromGeom)fl[0];
      b->explicitinertial = (mjtBool)fl[1];
      b->mass = x[0];
      if (fl[2]) memcpy(b->ipos, x + 1, 3 * sizeof(double));
      memcpy(b->iquat, x + 4, 4 * sizeof(double));
      memcpy(b->inertia, x + 8, 3 * sizeof(double));
      if (fl[3]) memcpy(b->fullinertia, x + 11, 6 * sizeof(double));
      if (!fl[4]) {
        b->ialt.type = mjORIENTATION_AXISANGLE;
        memcpy(b->ialt.axisangle, AXISANGLE, sizeof AXISANGLE);
      }
      if (fl[5]) add_geom(b);
      s->compiler.balanceinertia = (mjtBool)fl[6];
      s->compiler.boundmass = x[17];
      s->compiler.boundinertia = x[18];
      print_result(s, 11);
      mj_deleteSpec(s);
      continue;
    }
    printf("bad-op\n");
  }
  return 0;
}
