// C16 implementation-side driver: calls the real ray-casting code of src/engine/engine_ray.c.
// engine_ray.c is #included so that the file-static ray_eliminate is reachable; the exported functions
// (mj_ray, mj_multiRay, mju_rayGeom, mj_rayMesh, mju_multiRayPrepare) used below are therefore the copies
// compiled in this TU from the same tree source with the same flags as the library build.
//
// Line protocol (stdin -> one line on stdout per command):
//   model                       followed by a model description (harness/mjbuild.h format) ending with "end",
//                               then optional lines  material <name> <r> <g> <b> <a>
//                                                    boxmesh <name> <hx> <hy> <hz>       (12-triangle box mesh)
//                               then                 compile
//                               -> "ok <ngeom> <nbody> <nq> <nmat> <nmesh>" | "error <msg>"
//   state <qpos...>             set qpos (exactly nq values), mj_forward -> "ok" | "error <msg>"
//   scene                       -> "<ngeom> ; geom ; ... | <nbody> ; bvhadr aabb[6] xipos[3] ximat[9] ; ..."; per geom: type body weld group matid galpha malpha contype conaffinity body_bvhadr rbound size[3] xpos[3] xmat[9]  (%.17g)
//   ray px py pz vx vy vz flg_static bodyexclude mask       mask = 6 chars 0/1 or "-" (geomgroup == NULL)
//                               -> "R <dist> <geomid> N <dist> <n0> <n1> <n2> G <dist> | <ngeom> ; <elim> <dist_i> <n0> <n1> <n2> ; ..."
//                                  R: mj_ray(geomid, normal=NULL)   N: mj_ray(geomid=NULL, normal)   G: mj_ray(geomid=NULL, normal=NULL)
//                                  per geom: ray_eliminate (real static function) and the per-geom distance/normal from
//                                  mju_rayGeom / mj_rayMesh on the geom's current pose.  Doubles are 16 hex digits.
//   multi px py pz flg_static bodyexclude mask cutoff nray v0x v0y v0z ...
//                               -> "M <dist_0> <geomid_0> ... | E <geom_eliminate flags from mju_multiRayPrepare> | N <dist> <n0> <n1> <n2> ..."
//                                  geomid entries are pre-filled with -7 (a ray that leaves its entry unwritten shows -7)
//   elim bodyid matid galpha0 malpha0 weld0 group flg_static bodyexclude mask
//                               -> "0" | "1": the real ray_eliminate on a one-geom model with these attributes
//   geomray type s0 s1 s2 p0 p1 p2 m0..m8 pnt0..2 vec0..2       (all 16-hex-digit doubles except type)
//                               -> "<dist> <distN> <n0> <n1> <n2>"  mju_rayGeom without / with a normal
#include <math.h>
#include <setjmp.h>
#include <stdint.h>
#include <stdio.h>
#include <stdlib.h>
#include <string.h>
#include <mujoco/mujoco.h>
#include "mjbuild.h"
#include "engine/engine_ray.c"

static jmp_buf errjmp;
static int errarmed = 0;
static char errmsg[512];
static void on_error(const char* msg) {
  strncpy(errmsg, msg, sizeof(errmsg) - 1);
  for (char* p = errmsg; *p; p++) if (*p == '\n') *p = ' ';
  if (errarmed) longjmp(errjmp, 1);
  fprintf(stderr, "mujoco error: %s\n", msg);
  exit(3);
}
static void on_warning(const char* msg) { (void)msg; }

static void perr(const char* kind, const char* msg) {
  printf("error %s", kind);
  for (const char* p = msg; *p; p++) putchar((*p == '\n' || *p == '\r') ? ' ' : *p);
  putchar('\n');
}
static void pbits(double x) {
  if (x != x) { printf("nan"); return; }
  uint64_t u; memcpy(&u, &x, 8); printf("%016llx", (unsigned long long)u);
}
static int rbits(const char* t, double* out) {
  if (!t) return 0;
  if (!strcmp(t, "nan")) { *out = NAN; return 1; }
  if (strlen(t) != 16) return 0;
  char* end; unsigned long long u = strtoull(t, &end, 16);
  if (*end) return 0;
  uint64_t v = u; memcpy(out, &v, 8); return 1;
}
static int rdbl(const char* t, double* out) {
  if (!t || !*t) return 0;
  char* end; *out = strtod(t, &end); return *end == 0;
}
static int rint_(const char* t, long* out) {
  if (!t || !*t || *t == '+') return 0;
  char* end; *out = strtol(t, &end, 10); return *end == 0;
}
// mask token: "-" -> NULL, else exactly mjNGROUP chars of 0/1
static int rmask(const char* t, mjtByte* buf, const mjtByte** out) {
  if (!t) return 0;
  if (!strcmp(t, "-")) { *out = NULL; return 1; }
  if (strlen(t) != mjNGROUP) return 0;
  for (int i = 0; i < mjNGROUP; i++) { if (t[i] != '0' && t[i] != '1') return 0; buf[i] = (mjtByte)(t[i] - '0'); }
  *out = buf; return 1;
}

static mjModel* M = NULL;
static mjData* D = NULL;
static mjSpec* S = NULL;

static void drop(void) {
  if (D) mj_deleteData(D); D = NULL;
  if (M) mj_deleteModel(M); M = NULL;
  if (S) mj_deleteSpec(S); S = NULL;
}

static int add_boxmesh(mjSpec* s, const char* name, double hx, double hy, double hz) {
  mjsMesh* me = mjs_addMesh(s, NULL);
  if (!me) return 0;
  if (mjs_setName(me->element, name)) return 0;
  float v[24]; int k = 0;
  for (int i = 0; i < 8; i++) {
    v[k++] = (float)((i & 1) ? hx : -hx); v[k++] = (float)((i & 2) ? hy : -hy); v[k++] = (float)((i & 4) ? hz : -hz);
  }
  // outward-facing triangles of the box with vertex index bits (x=1, y=2, z=4)
  static const int f[36] = {0, 2, 1, 1, 2, 3,  4, 5, 6, 5, 7, 6,  0, 1, 4, 1, 5, 4,
                            2, 6, 3, 3, 6, 7,  0, 4, 2, 2, 4, 6,  1, 3, 5, 3, 7, 5};
  mjs_setFloat(me->uservert, v, 24);
  mjs_setInt(me->userface, f, 36);
  return 1;
}

static void do_model(void) {
  static char line[1 << 14];
  drop();
  char err[1024];
  mjSpec* s = mjb_build(stdin, err, sizeof err);
  // consume the trailer up to "compile" even when the description was bad
  int bad = 0; char why[256] = "";
  while (fgets(line, sizeof line, stdin)) {
    char* tok[16]; int n = 0; char* save; char* t = strtok_r(line, " \t\r\n", &save);
    while (t && n < 16) { tok[n++] = t; t = strtok_r(NULL, " \t\r\n", &save); }
    if (!n) continue;
    if (!strcmp(tok[0], "compile")) break;
    if (!s) continue;
    if (!strcmp(tok[0], "material") && n == 6) {
      mjsMaterial* mt = mjs_addMaterial(s, NULL);
      double c[4]; int ok = mt != NULL;
      for (int i = 0; i < 4 && ok; i++) ok = rdbl(tok[2 + i], &c[i]);
      if (ok) ok = mjs_setName(mt->element, tok[1]) == 0;
      if (ok) for (int i = 0; i < 4; i++) mt->rgba[i] = (float)c[i];
      if (!ok) { bad = 1; snprintf(why, sizeof why, "bad material line"); }
    } else if (!strcmp(tok[0], "boxmesh") && n == 5) {
      double h[3]; int ok = 1;
      for (int i = 0; i < 3 && ok; i++) ok = rdbl(tok[2 + i], &h[i]);
      if (!ok || !add_boxmesh(s, tok[1], h[0], h[1], h[2])) { bad = 1; snprintf(why, sizeof why, "bad boxmesh line"); }
    } else { bad = 1; snprintf(why, sizeof why, "unknown trailer op %s", tok[0]); }
  }
  if (!s) { perr("build: ", err); return; }
  if (bad) { mj_deleteSpec(s); perr("", why); return; }
  errarmed = 1;
  if (setjmp(errjmp)) { errarmed = 0; perr("engine: ", errmsg); return; }
  mjModel* m = mj_compile(s, NULL);
  if (!m) { errarmed = 0; perr("compile: ", mjs_getError(s)); mj_deleteSpec(s); return; }
  mjData* d = mj_makeData(m);
  mj_forward(m, d);
  errarmed = 0;
  M = m; D = d; S = s;
  printf("ok %d %d %d %d %d\n", m->ngeom, m->nbody, (int)m->nq, m->nmat, m->nmesh);
}

static mjtNum geom_dist(int i, const mjtNum pnt[3], const mjtNum vec[3], mjtNum* normal) {
  int type = M->geom_type[i];
  if (type == mjGEOM_MESH) return mj_rayMesh(M, D, i, pnt, vec, normal);
  if (type == mjGEOM_HFIELD) return mj_rayHfield(M, D, i, pnt, vec, normal);
  return mju_rayGeom(D->geom_xpos + 3 * i, D->geom_xmat + 9 * i, M->geom_size + 3 * i, pnt, vec, type, normal);
}

int main(void) {
  mju_user_error = on_error;
  mju_user_warning = on_warning;
  static char line[1 << 20];
  static char* tok[1 << 16];
  while (fgets(line, sizeof line, stdin)) {
    int n = 0; char* save; char* t = strtok_r(line, " \t\r\n", &save);
    while (t && n < (1 << 16)) { tok[n++] = t; t = strtok_r(NULL, " \t\r\n", &save); }
    if (!n) { printf("bad-op\n"); continue; }
    const char* op = tok[0];
    if (!strcmp(op, "model") && n == 1) { do_model(); fflush(stdout); continue; }
    if (!strcmp(op, "elim") && n == 10) {
      long bodyid, matid, ga0, ma0, weld0, group, flg, bx; mjtByte mb[mjNGROUP]; const mjtByte* mask;
      if (!(rint_(tok[1], &bodyid) && rint_(tok[2], &matid) && rint_(tok[3], &ga0) && rint_(tok[4], &ma0) &&
            rint_(tok[5], &weld0) && rint_(tok[6], &group) && rint_(tok[7], &flg) && rint_(tok[8], &bx) &&
            rmask(tok[9], mb, &mask)) ||
          bodyid < 0 || bodyid > 64 || matid < -1 || matid > 3 || (ga0 | 1) != 1 || (ma0 | 1) != 1 ||
          (weld0 | 1) != 1 || (flg | 1) != 1) { printf("bad-op\n"); continue; }
      // a one-geom model carrying exactly the attributes ray_eliminate reads
      static mjModel fm; memset(&fm, 0, sizeof fm);
      int geom_bodyid[1] = {(int)bodyid}, geom_matid[1] = {(int)matid}, geom_group[1] = {(int)group};
      float geom_rgba[4] = {0.5f, 0.5f, 0.5f, ga0 ? 0.0f : 1.0f};
      float mat_rgba[16]; for (int i = 0; i < 16; i++) mat_rgba[i] = 1.0f;
      if (matid >= 0) mat_rgba[4 * matid + 3] = ma0 ? 0.0f : 0.25f;
      int body_weldid[65]; for (int i = 0; i < 65; i++) body_weldid[i] = i ? i : 0;
      body_weldid[bodyid] = weld0 ? 0 : (bodyid ? (int)bodyid : 1);
      fm.ngeom = 1; fm.nbody = 65; fm.nmat = 4;
      fm.geom_bodyid = geom_bodyid; fm.geom_matid = geom_matid; fm.geom_group = geom_group;
      fm.geom_rgba = geom_rgba; fm.mat_rgba = mat_rgba; fm.body_weldid = body_weldid;
      printf("%d\n", ray_eliminate(&fm, NULL, 0, mask, (mjtBool)flg, (int)bx));
      continue;
    }
    if (!strcmp(op, "geomray") && n == 23) {
      long type; double v[21]; int ok = rint_(tok[1], &type);
      for (int i = 0; i < 21 && ok; i++) ok = rbits(tok[2 + i], &v[i]);
      if (!ok) { printf("bad-op\n"); continue; }
      errarmed = 1;
      if (setjmp(errjmp)) { errarmed = 0; printf("error %s\n", errmsg); continue; }
      mjtNum nrm[3] = {7, 7, 7};
      mjtNum d0 = mju_rayGeom(v + 3, v + 6, v, v + 15, v + 18, (int)type, NULL);
      mjtNum d1 = mju_rayGeom(v + 3, v + 6, v, v + 15, v + 18, (int)type, nrm);
      errarmed = 0;
      pbits(d0); printf(" "); pbits(d1);
      for (int i = 0; i < 3; i++) { printf(" "); pbits(nrm[i]); }
      printf("\n");
      continue;
    }
    if (!M) { printf(!strcmp(op, "state") || !strcmp(op, "scene") || !strcmp(op, "ray") || !strcmp(op, "multi") ? "error no model\n" : "bad-op\n"); continue; }
    if (!strcmp(op, "state")) {
      if (n - 1 != M->nq) { printf("bad-op\n"); continue; }
      int ok = 1; for (int i = 0; i < M->nq && ok; i++) ok = rdbl(tok[1 + i], &D->qpos[i]);
      if (!ok) { printf("bad-op\n"); continue; }
      errarmed = 1;
      if (setjmp(errjmp)) { errarmed = 0; printf("error %s\n", errmsg); continue; }
      mj_forward(M, D);
      errarmed = 0;
      printf("ok\n");
      continue;
    }
    if (!strcmp(op, "scene") && n == 1) {
      printf("%d", M->ngeom);
      for (int i = 0; i < M->ngeom; i++) {
        int b = M->geom_bodyid[i], mt = M->geom_matid[i];
        printf(" ; %d %d %d %d %d %.9g %.9g %d %d %d %.17g", M->geom_type[i], b, M->body_weldid[b], M->geom_group[i], mt,
               (double)M->geom_rgba[4 * i + 3], mt >= 0 ? (double)M->mat_rgba[4 * mt + 3] : -1.0,
               M->geom_contype[i], M->geom_conaffinity[i], M->body_bvhadr[b], M->geom_rbound[i]);
        for (int k = 0; k < 3; k++) printf(" %.17g", M->geom_size[3 * i + k]);
        for (int k = 0; k < 3; k++) printf(" %.17g", D->geom_xpos[3 * i + k]);
        for (int k = 0; k < 9; k++) printf(" %.17g", D->geom_xmat[9 * i + k]);
      }
      // bodies: root node of the body BVH (centre, half sizes; in the body's inertial frame) and the inertial frame pose
      printf(" | %d", M->nbody);
      for (int b = 0; b < M->nbody; b++) {
        int adr = M->body_bvhadr[b];
        printf(" ; %d", adr);
        for (int k = 0; k < 6; k++) printf(" %.17g", adr >= 0 ? M->bvh_aabb[6 * adr + k] : 0.0);
        for (int k = 0; k < 3; k++) printf(" %.17g", D->xipos[3 * b + k]);
        for (int k = 0; k < 9; k++) printf(" %.17g", D->ximat[9 * b + k]);
      }
      printf("\n");
      continue;
    }
    if (!strcmp(op, "ray") && n == 10) {
      double pv[6]; long flg, bx; mjtByte mb[mjNGROUP]; const mjtByte* mask; int ok = 1;
      for (int i = 0; i < 6 && ok; i++) ok = rdbl(tok[1 + i], &pv[i]);
      ok = ok && rint_(tok[7], &flg) && rint_(tok[8], &bx) && rmask(tok[9], mb, &mask) && (flg | 1) == 1;
      if (!ok) { printf("bad-op\n"); continue; }
      errarmed = 1;
      if (setjmp(errjmp)) { errarmed = 0; printf("error %s\n", errmsg); continue; }
      int gid = -7; mjtNum nrm[3] = {7, 7, 7};
      mjtNum r0 = mj_ray(M, D, pv, pv + 3, mask, (mjtBool)flg, (int)bx, &gid, NULL);
      mjtNum r1 = mj_ray(M, D, pv, pv + 3, mask, (mjtBool)flg, (int)bx, NULL, nrm);
      mjtNum r2 = mj_ray(M, D, pv, pv + 3, mask, (mjtBool)flg, (int)bx, NULL, NULL);
      printf("R "); pbits(r0); printf(" %d N ", gid); pbits(r1);
      for (int i = 0; i < 3; i++) { printf(" "); pbits(nrm[i]); }
      printf(" G "); pbits(r2);
      printf(" | %d", M->ngeom);
      for (int i = 0; i < M->ngeom; i++) {
        mjtNum gn[3] = {7, 7, 7};
        mjtNum di = geom_dist(i, pv, pv + 3, NULL);
        mjtNum dn = geom_dist(i, pv, pv + 3, gn);
        printf(" ; %d ", ray_eliminate(M, D, i, mask, (mjtBool)flg, (int)bx));
        pbits(di); printf(" "); pbits(dn);
        for (int k = 0; k < 3; k++) { printf(" "); pbits(gn[k]); }
      }
      errarmed = 0;
      printf("\n");
      continue;
    }
    if (!strcmp(op, "multi") && n >= 9) {
      double p[3], cutoff; long flg, bx, nray; mjtByte mb[mjNGROUP]; const mjtByte* mask; int ok = 1;
      for (int i = 0; i < 3 && ok; i++) ok = rdbl(tok[1 + i], &p[i]);
      ok = ok && rint_(tok[4], &flg) && rint_(tok[5], &bx) && rmask(tok[6], mb, &mask) && rdbl(tok[7], &cutoff) &&
           rint_(tok[8], &nray) && (flg | 1) == 1 && nray >= 0 && nray <= 20000 && n == 9 + 3 * nray;
      if (!ok) { printf("bad-op\n"); continue; }
      mjtNum* vec = malloc(sizeof(mjtNum) * (3 * nray + 1));
      mjtNum* dist = malloc(sizeof(mjtNum) * (nray + 1));
      mjtNum* dist2 = malloc(sizeof(mjtNum) * (nray + 1));
      mjtNum* nrm = malloc(sizeof(mjtNum) * (3 * nray + 1));
      int* gid = malloc(sizeof(int) * (nray + 1));
      int* gel = malloc(sizeof(int) * (M->ngeom + 1));
      mjtNum* gba = malloc(sizeof(mjtNum) * (4 * M->ngeom + 1));
      for (int i = 0; i < 3 * nray && ok; i++) ok = rdbl(tok[9 + i], &vec[i]);
      if (!ok) { printf("bad-op\n"); goto multi_done; }
      for (int i = 0; i < nray; i++) { gid[i] = -7; dist[i] = -7; dist2[i] = -7; nrm[3 * i] = nrm[3 * i + 1] = nrm[3 * i + 2] = 7; }
      errarmed = 1;
      if (setjmp(errjmp)) { errarmed = 0; printf("error %s\n", errmsg); goto multi_done; }
      mj_multiRay(M, D, p, vec, mask, (mjtBool)flg, (int)bx, gid, dist, NULL, (int)nray, cutoff);
      mj_multiRay(M, D, p, vec, mask, (mjtBool)flg, (int)bx, NULL, dist2, nrm, (int)nray, cutoff);
      mju_multiRayPrepare(M, D, p, NULL, mask, (mjtBool)flg, (int)bx, cutoff, gba, gel);
      errarmed = 0;
      printf("M");
      for (int i = 0; i < nray; i++) { printf(" "); pbits(dist[i]); printf(" %d", gid[i]); }
      printf(" | E");
      for (int i = 0; i < M->ngeom; i++) printf(" %d", gel[i]);
      printf(" | N");
      for (int i = 0; i < nray; i++) { printf(" "); pbits(dist2[i]); for (int k = 0; k < 3; k++) { printf(" "); pbits(nrm[3 * i + k]); } }
      printf("\n");
    multi_done:
      free(vec); free(dist); free(dist2); free(nrm); free(gid); free(gel); free(gba);
      continue;
    }
    printf("bad-op\n");
  }
  drop();
  return 0;
}
