// C50 implementation-side driver: calls the real mjv_makeScene / mjv_updateScene of the tree build on
// generated models, with only geom visualization enabled, and prints the resulting abstract scene.
//
//   c50_scene <models-file>      models-file: model descriptions (harness/mjbuild.h format), each ending in "end"
//
// Line protocol (one line in, one line out):
//   consts                                     constants of the headers used by the model
//   poke <model> group <geom> <int>            m->geom_group[geom] = int                       -> ok
//   poke <model> rgba <geom> <r> <g> <b> <a>   m->geom_rgba (decimal floats)                   -> ok
//   poke <model> size <geom> <s0> <s1> <s2>    m->geom_size (decimal doubles)                  -> ok
//   poke <model> alpha <a>                     m->vis.map.alpha                                -> ok
//   qpos <model> <seed>                        pseudo-random qpos/qvel from seed, mj_forward   -> ok
//   step <model> <n>                           n × mj_step                                     -> ok
//   upd scene=<s> model=<k> cap=<n> catmask=<c> static=<b> transp=<b> groups=<6×0/1> sgroups=<6×0/1> [| <inputs>]
//        the scene <s> is created by mjv_makeScene(m, scn, cap) on first use (or when cap changes) and then
//        re-used, so it carries its history (status flag, previous camera).  sgroups fills the *other* group
//        arrays of mjvOption (site/joint/tendon/actuator/flex/skin) — a wrong-array read shows up.
//        Without "| inputs": prints "dump <inputs>" (what the geom pass reads), and performs the update.
//        With inputs: checks that they are bit-identical to what the real model/data/scene hold (else
//        "input-mismatch ..."), performs the update and prints
//          n=<ngeom> st=<status> w=<warnings> guard=<ok|OVERWRITTEN> | objid objtype category segid type dataid
//              size×3 pos×3 mat×9 rgba×4 (hex float32) ; ...
#include <setjmp.h>
#include <stdint.h>
#include <stdio.h>
#include <stdlib.h>
#include <string.h>
#include <mujoco/mujoco.h>
#include "mjbuild.h"

#define MAXMODEL 256
#define MAXSCENE 64
#define GUARD 4096

static jmp_buf errjmp;
static int errarmed = 0;
static char errmsg[512];
static int nwarn = 0;
static void on_error(const char* msg) {
  strncpy(errmsg, msg, sizeof(errmsg) - 1);
  for (char* p = errmsg; *p; p++) if (*p == '\n') *p = ' ';
  if (errarmed) longjmp(errjmp, 1);
  fprintf(stderr, "mujoco error: %s\n", msg);
  exit(3);
}
static void on_warning(const char* msg) { (void)msg; nwarn++; }

// ---- guard allocator (active only inside mjv_makeScene): every block is followed by GUARD bytes of 0xA5
typedef struct { unsigned char* p; size_t sz; } Block;
static Block blocks[1 << 12];
static int nblocks = 0;
static int guard_on = 0;
static void* guard_malloc(size_t sz) {
  size_t tot = (sz + GUARD + 63) & ~(size_t)63;
  unsigned char* p = (unsigned char*)aligned_alloc(64, tot);
  if (!p) return NULL;
  memset(p + sz, 0xA5, tot - sz < GUARD ? tot - sz : GUARD);
  if (guard_on && nblocks < (1 << 12)) { blocks[nblocks].p = p; blocks[nblocks].sz = sz; nblocks++; }
  return p;
}
static void guard_free(void* p) {
  for (int i = 0; i < nblocks; i++) if (blocks[i].p == p) { blocks[i] = blocks[--nblocks]; break; }
  free(p);
}
static int guard_intact(const void* p) {
  for (int i = 0; i < nblocks; i++) if (blocks[i].p == p) {
    for (size_t k = 0; k < GUARD; k++) if (blocks[i].p[blocks[i].sz + k] != 0xA5) return 0;
    return 1;
  }
  return 1;  // not a guarded block (NULL for capacity 0)
}

static void p64(double x) { uint64_t u; memcpy(&u, &x, 8); printf(" %016llx", (unsigned long long)u); }
static void p32(float x) { uint32_t u; memcpy(&u, &x, 4); printf(" %08x", (unsigned)u); }
static int eq64(const char* t, double x) { char b[32]; uint64_t u; memcpy(&u, &x, 8); snprintf(b, sizeof b, "%016llx", (unsigned long long)u); return !strcmp(t, b); }
static int eq32(const char* t, float x) { char b[32]; uint32_t u; memcpy(&u, &x, 4); snprintf(b, sizeof b, "%08x", (unsigned)u); return !strcmp(t, b); }

static mjModel* M[MAXMODEL];
static mjData* D[MAXMODEL];
static mjvCamera CAM[MAXMODEL];
static int nmodel = 0;
typedef struct { int used, cap; mjvScene scn; } Scene;
static Scene S[MAXSCENE];

static const char* kv(char** tok, int n, const char* key) {
  size_t L = strlen(key);
  for (int i = 0; i < n; i++) if (!strncmp(tok[i], key, L) && tok[i][L] == '=') return tok[i] + L + 1;
  return NULL;
}
static int mask6(const char* t, mjtByte* out) {
  if (!t || strlen(t) != mjNGROUP) return 0;
  for (int i = 0; i < mjNGROUP; i++) { if (t[i] != '0' && t[i] != '1') return 0; out[i] = (mjtByte)(t[i] - '0'); }
  return 1;
}
static int isint(const char* t) {
  if (!t || !*t) return 0;
  char* e; strtol(t, &e, 10); return *e == 0;
}

int main(int argc, char** argv) {
  mju_user_error = on_error;
  mju_user_warning = on_warning;
  mju_user_malloc = guard_malloc;
  mju_user_free = guard_free;
  if (argc < 2) { fprintf(stderr, "usage: c50_scene <models-file>\n"); return 2; }
  FILE* mf = fopen(argv[1], "r");
  if (!mf) { fprintf(stderr, "cannot open %s\n", argv[1]); return 2; }
  for (;;) {
    int c = fgetc(mf);
    while (c == '\n' || c == ' ') c = fgetc(mf);
    if (c == EOF) break;
    ungetc(c, mf);
    if (nmodel >= MAXMODEL) { fprintf(stderr, "too many models\n"); return 2; }
    char err[1024];
    errarmed = 1;
    if (setjmp(errjmp)) { fprintf(stderr, "model %d: engine error %s\n", nmodel, errmsg); return 2; }
    mjModel* m = mjb_compile(mf, NULL, err, sizeof err);
    if (!m) { fprintf(stderr, "model %d: %s\n", nmodel, err); return 2; }
    mjData* d = mj_makeData(m);
    mj_forward(m, d);
    errarmed = 0;
    M[nmodel] = m; D[nmodel] = d;
    mjv_defaultFreeCamera(m, &CAM[nmodel]);
    nmodel++;
  }
  fclose(mf);

  size_t capn = 1 << 22; char* line = (char*)malloc(capn);
  char** tok = (char**)malloc(sizeof(char*) * (1 << 18));
  while (fgets(line, (int)capn, stdin)) {
    int n = 0; char* save; char* t = strtok_r(line, " \t\r\n", &save);
    while (t && n < (1 << 18)) { tok[n++] = t; t = strtok_r(NULL, " \t\r\n", &save); }
    if (!n) { printf("bad-op\n"); continue; }
    errarmed = 1;
    if (setjmp(errjmp)) { printf("error %s\n", errmsg); errarmed = 0; continue; }
    if (!strcmp(tok[0], "consts") && n == 1) {
      printf("consts plane=%d sphere=%d capsule=%d cylinder=%d mesh=%d sdf=%d objgeom=%d static=%d dynamic=%d ngroup=%d planegrid=%d\n",
             mjGEOM_PLANE, mjGEOM_SPHERE, mjGEOM_CAPSULE, mjGEOM_CYLINDER, mjGEOM_MESH, mjGEOM_SDF, mjOBJ_GEOM, mjCAT_STATIC,
             mjCAT_DYNAMIC, mjNGROUP, mjMAXPLANEGRID);
      errarmed = 0; continue;
    }
    if (!strcmp(tok[0], "poke") || !strcmp(tok[0], "qpos") || !strcmp(tok[0], "step")) {
      if (n < 3 || !isint(tok[1])) { printf("bad-op\n"); continue; }
      int k = atoi(tok[1]);
      if (k < 0 || k >= nmodel) { printf("bad-op\n"); continue; }
      mjModel* m = M[k]; mjData* d = D[k];
      if (!strcmp(tok[0], "step")) {
        if (n != 3 || !isint(tok[2])) { printf("bad-op\n"); continue; }
        int ns = atoi(tok[2]);
        for (int i = 0; i < ns; i++) mj_step(m, d);
        printf("ok\n");
      } else if (!strcmp(tok[0], "qpos")) {
        if (n != 3 || !isint(tok[2])) { printf("bad-op\n"); continue; }
        unsigned long long s = strtoull(tok[2], NULL, 10) * 6364136223846793005ULL + 1442695040888963407ULL;
        mj_resetData(m, d);
        for (int i = 0; i < m->nq; i++) { s = s * 6364136223846793005ULL + 1442695040888963407ULL; d->qpos[i] += ((double)(s >> 11) / 9007199254740992.0 - 0.5) * 1.5; }
        for (int i = 0; i < m->nv; i++) { s = s * 6364136223846793005ULL + 1442695040888963407ULL; d->qvel[i] = ((double)(s >> 11) / 9007199254740992.0 - 0.5); }
        mj_normalizeQuat(m, d->qpos);
        mj_forward(m, d);
        printf("ok\n");
      } else {
        const char* f = tok[2];
        if (!strcmp(f, "alpha") && n == 4) { m->vis.map.alpha = (float)strtod(tok[3], NULL); printf("ok\n"); continue; }
        if (n < 5 || !isint(tok[3])) { printf("bad-op\n"); continue; }
        int g = atoi(tok[3]);
        if (g < 0 || g >= m->ngeom) { printf("bad-op\n"); continue; }
        if (!strcmp(f, "group") && n == 5 && isint(tok[4])) m->geom_group[g] = atoi(tok[4]);
        else if (!strcmp(f, "rgba") && n == 8) for (int j = 0; j < 4; j++) m->geom_rgba[4 * g + j] = (float)strtod(tok[4 + j], NULL);
        else if (!strcmp(f, "size") && n == 7) for (int j = 0; j < 3; j++) m->geom_size[3 * g + j] = strtod(tok[4 + j], NULL);
        else { printf("bad-op\n"); continue; }
        printf("ok\n");
      }
      errarmed = 0;
      continue;
    }
    if (strcmp(tok[0], "upd")) { printf("bad-op\n"); continue; }
    // ---- upd
    int bar = -1;
    for (int i = 1; i < n; i++) if (!strcmp(tok[i], "|")) { bar = i; break; }
    int nk = bar < 0 ? n : bar;
    const char *ss = kv(tok + 1, nk - 1, "scene"), *sm = kv(tok + 1, nk - 1, "model"), *sc = kv(tok + 1, nk - 1, "cap"),
               *scat = kv(tok + 1, nk - 1, "catmask"), *sst = kv(tok + 1, nk - 1, "static"), *str = kv(tok + 1, nk - 1, "transp"),
               *sg = kv(tok + 1, nk - 1, "groups"), *sog = kv(tok + 1, nk - 1, "sgroups");
    mjtByte gmask[mjNGROUP], omask[mjNGROUP];
    if (nk != 9 || !isint(ss) || !isint(sm) || !isint(sc) || !isint(scat) || !isint(sst) || !isint(str) || !mask6(sg, gmask) || !mask6(sog, omask)) {
      printf("bad-op\n"); continue;
    }
    int si = atoi(ss), k = atoi(sm), cap = atoi(sc), catmask = atoi(scat);
    if (si < 0 || si >= MAXSCENE || k < 0 || k >= nmodel || cap < 0 || cap > 100000 || catmask < 0 || catmask > 7) { printf("bad-op\n"); continue; }
    mjModel* m = M[k]; mjData* d = D[k];
    Scene* sc_ = &S[si];
    if (!sc_->used || sc_->cap != cap) {
      if (!sc_->used) mjv_defaultScene(&sc_->scn);
      guard_on = 1;
      mjv_makeScene(m, &sc_->scn, cap);
      guard_on = 0;
      sc_->used = 1; sc_->cap = cap;
    }
    mjvScene* scn = &sc_->scn;
    // options: everything off except the geom groups (and mjVIS_STATIC / mjVIS_TRANSPARENT as requested)
    mjvOption opt;
    mjv_defaultOption(&opt);
    memset(opt.flags, 0, sizeof opt.flags);
    opt.flags[mjVIS_STATIC] = (mjtByte)(atoi(sst) != 0);
    opt.flags[mjVIS_TRANSPARENT] = (mjtByte)(atoi(str) != 0);
    opt.label = mjLABEL_NONE; opt.frame = mjFRAME_NONE;
    for (int i = 0; i < mjNGROUP; i++) {
      opt.geomgroup[i] = gmask[i];
      opt.sitegroup[i] = 0;  // sites are a separate pass: kept off ("only geom visualization")
      opt.jointgroup[i] = omask[i]; opt.tendongroup[i] = 0; opt.actuatorgroup[i] = omask[i];
      opt.flexgroup[i] = omask[i]; opt.skingroup[i] = omask[i];
    }
    // ---- inputs of the geom pass
    int bad = 0; char what[128] = "";
    if (bar < 0) {
      printf("dump st0=%d alpha=", scn->status); {uint32_t u; memcpy(&u, &m->vis.map.alpha, 4); printf("%08x", u);}
      printf(" zfar="); {uint32_t u; memcpy(&u, &m->vis.map.zfar, 4); printf("%08x", u);}
      printf(" extent="); {uint64_t u; memcpy(&u, &m->stat.extent, 8); printf("%016llx", (unsigned long long)u);}
      printf(" cam");
      for (int c = 0; c < 2; c++) for (int j = 0; j < 3; j++) p32(scn->camera[c].pos[j]);
      printf(" n=%d", m->ngeom);
      for (int i = 0; i < m->ngeom; i++) {
        printf(" g %d %d %d %d %d", m->geom_type[i], m->geom_group[i], m->body_weldid[m->geom_bodyid[i]] == 0, m->geom_dataid[i], m->geom_matid[i]);
        for (int j = 0; j < 3; j++) p64(m->geom_size[3 * i + j]);
        for (int j = 0; j < 3; j++) p64(d->geom_xpos[3 * i + j]);
        for (int j = 0; j < 9; j++) p64(d->geom_xmat[9 * i + j]);
        for (int j = 0; j < 4; j++) p32(m->geom_rgba[4 * i + j]);
      }
    } else {
      char** in = tok + bar + 1; int ni = n - bar - 1; int p = 0;
#define NEED(c) if (!(c)) { bad = 1; snprintf(what, sizeof what, "token %d", p); }
      char b[64];
      NEED(ni >= 12);
      if (!bad) {
        snprintf(b, sizeof b, "st0=%d", scn->status); NEED(!strcmp(in[p], b)); p++;
        NEED(!strncmp(in[p], "alpha=", 6) && eq32(in[p] + 6, m->vis.map.alpha)); p++;
        NEED(!strncmp(in[p], "zfar=", 5) && eq32(in[p] + 5, m->vis.map.zfar)); p++;
        NEED(!strncmp(in[p], "extent=", 7) && eq64(in[p] + 7, m->stat.extent)); p++;
        NEED(!strcmp(in[p], "cam")); p++;
        for (int c = 0; c < 2; c++) for (int j = 0; j < 3; j++) { NEED(eq32(in[p], scn->camera[c].pos[j])); p++; }
        snprintf(b, sizeof b, "n=%d", m->ngeom); NEED(!strcmp(in[p], b)); p++;
        NEED(ni == 12 + 25 * m->ngeom);
      }
      for (int i = 0; i < m->ngeom && !bad; i++) {
        NEED(!strcmp(in[p], "g")); p++;
        int iv[5] = {m->geom_type[i], m->geom_group[i], m->body_weldid[m->geom_bodyid[i]] == 0, m->geom_dataid[i], m->geom_matid[i]};
        for (int j = 0; j < 5; j++) { snprintf(b, sizeof b, "%d", iv[j]); NEED(!strcmp(in[p], b)); p++; }
        for (int j = 0; j < 3; j++) { NEED(eq64(in[p], m->geom_size[3 * i + j])); p++; }
        for (int j = 0; j < 3; j++) { NEED(eq64(in[p], d->geom_xpos[3 * i + j])); p++; }
        for (int j = 0; j < 9; j++) { NEED(eq64(in[p], d->geom_xmat[9 * i + j])); p++; }
        for (int j = 0; j < 4; j++) { NEED(eq32(in[p], m->geom_rgba[4 * i + j])); p++; }
      }
    }
    // ---- the real call
    nwarn = 0;
    mjv_updateScene(m, d, &opt, NULL, &CAM[k], catmask, scn);
    int intact = guard_intact(scn->geoms) && guard_intact(scn->geomorder);
    if (bar < 0) { printf("\n"); errarmed = 0; continue; }
    if (bad) { printf("input-mismatch %s\n", what); errarmed = 0; continue; }
    { int hasmat = 0; for (int i = 0; i < m->ngeom; i++) if (m->geom_matid[i] >= 0) hasmat = 1;
      if (hasmat) { printf("unsupported-material\n"); errarmed = 0; continue; } }
    printf("n=%d st=%d w=%d guard=%s |", scn->ngeom, scn->status, nwarn, intact ? "ok" : "OVERWRITTEN");
    int lim = scn->ngeom < scn->maxgeom ? scn->ngeom : scn->maxgeom;   // never read outside the allocation
    for (int i = 0; i < lim; i++) {
      const mjvGeom* g = scn->geoms + i;
      printf(" %d %d %d %d %d %d", g->objid, g->objtype, g->category, g->segid, g->type, g->dataid);
      for (int j = 0; j < 3; j++) p32(g->size[j]);
      for (int j = 0; j < 3; j++) p32(g->pos[j]);
      for (int j = 0; j < 9; j++) p32(g->mat[j]);
      for (int j = 0; j < 4; j++) p32(g->rgba[j]);
      printf(" ;");
    }
    printf("\n");
    errarmed = 0;
  }
  return 0;
}
