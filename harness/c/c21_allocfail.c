// C21 implementation-side driver: allocation-fault injection on the *real* life-cycle functions of the tree
// (engine_io.c, engine_util_errmem.c, user_resource.cc, and mj_compile of user_model.cc) through the public
// mju_user_malloc / mju_user_free / mju_user_error / mju_user_warning callbacks.
//
// usage: c21_allocfail --model FILE [--fill BYTE]   (model description in the format of harness/mjbuild.h)
//   --fill BYTE: every block handed out by the allocator hook is filled with BYTE first (a debug-fill allocator:
//   mju_malloc promises nothing about the contents, so the outcome of a run must not depend on it; with a
//   non-zero BYTE a pointer / counter field read before it was written is a wild pointer / huge count, not 0)
// stdin ops, one output line each:
//   sizes                                   sizeof(mjModel) nbuffer sizeof(mjData) nbuffer narena mj_sizeModel sizeof(mjVFS)
//   run SCEN REGIME VARIANT FAILSET | s..   SCEN: makedata copydata copymodel loadmodel savemodel compile
//                                                 recompile copycompile makescene (these three: no sizes, oracle only)
//                                           REGIME: longjmp | returning   (what the installed error handler does)
//                                           VARIANT: asis | trymalloc      (only names the model variant; ignored here)
//                                           FAILSET: 0-based indices of the mju_malloc calls that fail ("-" = none)
//                                           s..: the sizes the model side uses (checked against the real ones)
// Every run happens in a forked child; every allocator / handler event is written to a pipe at once, so the
// trace prefix survives a crash.  Blocks are page-granular mmaps; a freed block becomes PROT_NONE, so a use
// after free faults like a NULL dereference does.
// output:  trace=<events> out=<returned|jumped|FAULT> live=<ids still allocated|-|?> [err=<0|1> for compile]
//   events: a<size> ok allocation (its id = 1-based index of the call), x<size> failed, f<id> free, E error
//   handler, W warning handler, DF<id> free of a freed / unknown block, S end of the set-up part of a scenario
//   (FAILSET indices count the mju_malloc calls after S; block ids count every call)
// scenarios beyond the engine ones:
//   compile      fresh spec built, mj_compile, mj_deleteModel, mj_deleteSpec
//   recompile    set-up: spec, mj_compile, mj_makeData, a few steps; then mj_recompile(spec, NULL, m, d) in place.
//                rc 0: the caller deletes d and m; rc -1: mj_recompile has deleted them; error handler reached
//                (mjCModel::MakeData runs outside the compiler's own handler): the caller, who still owns m and d,
//                deletes them
//   copycompile  spec, mj_copySpec, compile the copy, compile the original twice (second time over a compiled
//                spec: Clear() path), delete everything
//   makescene    mjv_defaultScene, mjv_makeScene(m, scn, 64), mjv_freeScene (also after an error)
#include <pthread.h>
#include <setjmp.h>
#include <stdint.h>
#include <stdio.h>
#include <stdlib.h>
#include <string.h>
#include <sys/mman.h>
#include <sys/wait.h>
#include <unistd.h>

#include <mujoco/mujoco.h>
#include "mjbuild.h"

static void wr(int fd, const char* s) { size_t n = strlen(s); while (n) { ssize_t k = write(fd, s, n); if (k <= 0) break; s += k; n -= k; } }

// ------------------------------------------------------------------ hooks
#define MAXBLK 65536
typedef struct { void* p; size_t map; void* base; int freed; int id; } Blk;
static Blk g_blk[MAXBLK];
static int g_nblk = 0, g_calls = 0, g_fd = -1, g_df = 0;
static int g_allcalls = 0, g_armed = 1, g_fill = -1;
static unsigned char g_fail[MAXBLK];
static pthread_mutex_t g_mu = PTHREAD_MUTEX_INITIALIZER;
static int g_nev = 0;

static void ev(const char* s) {
  if (g_fd >= 0 && g_nev < 20000) { wr(g_fd, g_nev ? "," : ""); wr(g_fd, s); }
  g_nev++;
}

static void* hook_malloc(size_t size) {
  pthread_mutex_lock(&g_mu);
  int idx = g_armed ? g_calls++ : -1;
  int id = ++g_allcalls;
  char b[64];
  if (size == 0 || (idx >= 0 && idx < MAXBLK && g_fail[idx]) || g_nblk >= MAXBLK) {
    snprintf(b, sizeof b, "x%zu", size); ev(b);
    pthread_mutex_unlock(&g_mu);
    return NULL;
  }
  size_t pg = 4096, body = (size + 63) & ~(size_t)63, total = ((body + pg - 1) / pg) * pg;
  unsigned char* base = mmap(NULL, total + 2 * pg, PROT_READ | PROT_WRITE, MAP_PRIVATE | MAP_ANONYMOUS, -1, 0);
  if (base == MAP_FAILED) { snprintf(b, sizeof b, "x%zu", size); ev(b); pthread_mutex_unlock(&g_mu); return NULL; }
  mprotect(base, pg, PROT_NONE);
  mprotect(base + pg + total, pg, PROT_NONE);
  if (g_fill >= 0) memset(base + pg, g_fill, total);
  Blk k = {base + pg + total - body, total, base, 0, id};
  g_blk[g_nblk++] = k;
  snprintf(b, sizeof b, "a%zu", size); ev(b);
  pthread_mutex_unlock(&g_mu);
  return k.p;
}

static void hook_free(void* p) {
  pthread_mutex_lock(&g_mu);
  char b[64];
  int found = -1;
  for (int i = g_nblk - 1; i >= 0; i--) if (g_blk[i].p == p) { found = i; break; }
  if (found < 0 || g_blk[found].freed) {
    snprintf(b, sizeof b, "DF%d", found < 0 ? 0 : g_blk[found].id); ev(b);
    g_df++;
  } else {
    g_blk[found].freed = 1;
    mprotect((unsigned char*)g_blk[found].base + 4096, g_blk[found].map, PROT_NONE);
    snprintf(b, sizeof b, "f%d", g_blk[found].id); ev(b);
  }
  pthread_mutex_unlock(&g_mu);
}

static jmp_buf g_jb;
static int g_regime_longjmp = 1;
static void on_error(const char* msg) {
  (void)msg;
  pthread_mutex_lock(&g_mu); ev("E"); pthread_mutex_unlock(&g_mu);
  if (g_regime_longjmp) longjmp(g_jb, 1);
}
static void on_warning(const char* msg) { (void)msg; pthread_mutex_lock(&g_mu); ev("W"); pthread_mutex_unlock(&g_mu); }

// ------------------------------------------------------------------ scenarios
static mjModel* g_m = NULL;
static mjSpec* g_spec = NULL;
static mjData* g_src = NULL;
static void* g_mjb = NULL; static int g_mjbsz = 0;
static const char* g_modelfile = NULL;

#define MAXFAIL 8
typedef struct { char scen[16]; int longjmp_; int nfail; int fail[MAXFAIL]; } RunArg;
typedef struct { RunArg* ops; int n; } Batch;

static void reset_hooks_state(const RunArg* r) {
  for (int i = 0; i < g_nblk; i++) munmap(g_blk[i].base, g_blk[i].map + 2 * 4096);
  g_nblk = 0; g_calls = 0; g_df = 0; g_nev = 0; g_allcalls = 0; g_armed = 1;
  memset(g_fail, 0, sizeof g_fail);
  for (int i = 0; i < r->nfail; i++) g_fail[r->fail[i]] = 1;
}

// one op inside the child; the result is written to fd and terminated by \001
static void run_one(const RunArg* r, int fd) {
  char b[256];
  alarm(120);
  reset_hooks_state(r);
  g_regime_longjmp = r->longjmp_;
  int is_compile = !strcmp(r->scen, "compile");
  wr(fd, "trace=");
  mju_user_malloc = hook_malloc;
  mju_user_free = hook_free;
  mju_user_error = on_error;
  mju_user_warning = on_warning;
  const char* volatile out = "returned";
  volatile int err = 0;
  int has_err = is_compile || !strcmp(r->scen, "recompile") || !strcmp(r->scen, "copycompile");
  static mjSpec* s_sp; static mjModel* s_m; static mjData* s_d; static mjvScene s_scn; static int s_stage;
  s_sp = NULL; s_m = NULL; s_d = NULL; s_stage = 0;
  if (setjmp(g_jb)) {
    out = "jumped";
    if (!strcmp(r->scen, "recompile") && s_stage == 1) {
      // the error handler was reached from mj_recompile (outside mjCModel::Compile): the caller still owns m and d
      mj_deleteData(s_d);
      mj_deleteModel(s_m);
      mj_deleteSpec(s_sp);
      err = 4;
    } else if (!strcmp(r->scen, "makescene")) {
      mjv_freeScene(&s_scn);
    }
  } else if (!strcmp(r->scen, "recompile")) {
    char e2[512];
    g_armed = 0;
    FILE* f = fopen(g_modelfile, "r");
    s_sp = f ? mjb_build(f, e2, sizeof e2) : NULL;
    if (f) fclose(f);
    s_m = s_sp ? mj_compile(s_sp, NULL) : NULL;
    s_d = s_m ? mj_makeData(s_m) : NULL;
    if (!s_d) err = 3;
    else {
      for (int i = 0; i < 3; i++) mj_step(s_m, s_d);
      pthread_mutex_lock(&g_mu); ev("S"); pthread_mutex_unlock(&g_mu);
      g_armed = 1;
      s_stage = 1;
      int rc = mj_recompile(s_sp, NULL, s_m, s_d);
      s_stage = 2;
      if (rc == 0) { mj_deleteData(s_d); mj_deleteModel(s_m); err = 0; }
      else { err = mjs_getError(s_sp)[0] ? 1 : 2; }
      mj_deleteSpec(s_sp);
    }
  } else if (!strcmp(r->scen, "copycompile")) {
    char e2[512];
    FILE* f = fopen(g_modelfile, "r");
    mjSpec* sp = f ? mjb_build(f, e2, sizeof e2) : NULL;
    if (f) fclose(f);
    if (!sp) err = 3;
    else {
      mjSpec* sp2 = mj_copySpec(sp);
      mjModel* ma = sp2 ? mj_compile(sp2, NULL) : NULL;
      if (sp2 && !ma) err = mjs_getError(sp2)[0] ? 1 : 2;
      mjModel* mb = mj_compile(sp, NULL);
      if (!mb && err != 2) err = mjs_getError(sp)[0] ? 1 : 2;
      mjModel* mc = mj_compile(sp, NULL);
      if (!mc && err != 2) err = mjs_getError(sp)[0] ? 1 : 2;
      if (!sp2) err = 5;
      mj_deleteModel(mc); mj_deleteModel(mb); mj_deleteModel(ma);
      if (sp2) mj_deleteSpec(sp2);
      mj_deleteSpec(sp);
    }
  } else if (!strcmp(r->scen, "makescene")) {
    if (g_fill >= 0) memset(&s_scn, g_fill, sizeof s_scn);
    mjv_defaultScene(&s_scn);
    mjv_makeScene(g_m, &s_scn, 64);
    mjv_freeScene(&s_scn);
  } else if (!strcmp(r->scen, "makedata")) {
    mjData* d = mj_makeData(g_m);
    if (d) mj_deleteData(d);
  } else if (!strcmp(r->scen, "copydata")) {
    mjData* d = mj_copyData(NULL, g_m, g_src);
    if (d) mj_deleteData(d);
  } else if (!strcmp(r->scen, "copymodel")) {
    mjModel* m2 = mj_copyModel(NULL, g_m);
    if (m2) mj_deleteModel(m2);
  } else if (!strcmp(r->scen, "loadmodel")) {
    mjModel* m2 = mj_loadModelBuffer(g_mjb, g_mjbsz);
    if (m2) mj_deleteModel(m2);
  } else if (!strcmp(r->scen, "savemodel")) {
    char path[128];
    snprintf(path, sizeof path, "/tmp/c21_%d.mjb", (int)getpid());
    mj_saveModel(g_m, path, NULL, 0);
    unlink(path);
  } else if (is_compile) {
    // a fresh spec built, compiled and deleted entirely under the hooks (C++ `new` is not intercepted)
    char e2[512];
    FILE* f = fopen(g_modelfile, "r");
    mjSpec* sp = f ? mjb_build(f, e2, sizeof e2) : NULL;
    if (f) fclose(f);
    if (!sp) err = 3;   // the spec could not be built
    else {
      mjModel* m2 = mj_compile(sp, NULL);
      err = m2 ? 0 : 1;
      if (!m2 && !mjs_getError(sp)[0]) err = 2;   // failure without a message
      if (m2) mj_deleteModel(m2);
      mj_deleteSpec(sp);
    }
  }
  mju_user_malloc = NULL; mju_user_free = NULL;
  snprintf(b, sizeof b, " out=%s live=", out);
  wr(fd, b);
  int any = 0;
  for (int i = 0; i < g_nblk; i++) if (!g_blk[i].freed) { snprintf(b, sizeof b, "%s%d", any ? "," : "", g_blk[i].id); wr(fd, b); any = 1; }
  if (!any) wr(fd, "-");
  if (has_err) { snprintf(b, sizeof b, " err=%d", (int)err); wr(fd, b); }
  if (g_df) wr(fd, " doublefree=1");
  wr(fd, "\001");
}

static void child(void* a, int fd) {
  Batch* bt = a;
  dup2(fd, 2);
  g_fd = fd;
  for (int i = 0; i < bt->n; i++) run_one(&bt->ops[i], fd);
  _exit(0);
}

static char* in_child(void (*f)(void*, int), void* arg, char* status, size_t nstatus) {
  int pf[2];
  if (pipe(pf)) { snprintf(status, nstatus, "pipe-failed"); return strdup(""); }
  fflush(stdout);
  pid_t pid = fork();
  if (pid == 0) { close(pf[0]); f(arg, pf[1]); _exit(0); }
  close(pf[1]);
  size_t cap = 1 << 16, len = 0; char* buf = malloc(cap);
  for (;;) {
    if (len + 4096 > cap) { cap *= 2; buf = realloc(buf, cap); }
    ssize_t k = read(pf[0], buf + len, 4095);
    if (k <= 0) break;
    len += k;
  }
  buf[len] = 0;
  close(pf[0]);
  int st = 0; waitpid(pid, &st, 0);
  if (WIFSIGNALED(st)) snprintf(status, nstatus, "sig%d", WTERMSIG(st));
  else snprintf(status, nstatus, "exit%d", WEXITSTATUS(st));
  return buf;
}

static void quiet_error(const char* msg) { fprintf(stderr, "c21 harness: mju_error during set-up: %s\n", msg); _exit(3); }
static void quiet_warning(const char* msg) { (void)msg; }

int main(int argc, char** argv) {
  static char line[1 << 16];
  setvbuf(stdout, NULL, _IOLBF, 0);
  mju_user_error = quiet_error;
  mju_user_warning = quiet_warning;
  if ((argc != 3 && argc != 5) || strcmp(argv[1], "--model") || (argc == 5 && strcmp(argv[3], "--fill"))) {
    fprintf(stderr, "usage: c21_allocfail --model FILE [--fill BYTE]\n"); return 2;
  }
  if (argc == 5) {
    char* e; long v = strtol(argv[4], &e, 0);
    if (*e || e == argv[4] || v < 0 || v > 255) { fprintf(stderr, "bad --fill\n"); return 2; }
    g_fill = (int)v;
  }
  {
    FILE* f = fopen(argv[2], "r");
    char err[512];
    g_modelfile = argv[2];
    if (!f) { fprintf(stderr, "cannot open %s\n", argv[2]); return 2; }
    g_m = mjb_compile(f, &g_spec, err, sizeof err);
    fclose(f);
    if (!g_m) { fprintf(stderr, "model: %s\n", err); return 2; }
    g_src = mj_makeData(g_m);
    g_mjbsz = (int)mj_sizeModel(g_m);
    g_mjb = malloc(g_mjbsz);
    mj_saveModel(g_m, NULL, g_mjb, g_mjbsz);
  }
  size_t real[7] = {sizeof(mjModel), (size_t)g_m->nbuffer, sizeof(mjData), (size_t)g_src->nbuffer, (size_t)g_m->narena,
                    (size_t)g_mjbsz, sizeof(mjVFS)};
  // read every op first: consecutive `run` ops are executed in batches inside one forked child each; a child
  // that dies marks the op it was executing as FAULT and the rest of the batch is restarted in a new child
  enum { K_OUT, K_RUN };
  typedef struct { int kind; char* text; RunArg arg; } Op;
  Op* ops = NULL; int nops = 0, cap = 0;
  while (fgets(line, sizeof line, stdin)) {
    if (nops == cap) { cap = cap ? 2 * cap : 256; ops = realloc(ops, sizeof(Op) * cap); }
    Op* op = &ops[nops++];
    op->kind = K_OUT; op->text = NULL;
    char* nl = strchr(line, '\n'); if (nl) *nl = 0;
    char* bar = strchr(line, '|');
    char* szstr = NULL;
    if (bar) { *bar = 0; szstr = bar + 1; }
    char* tok[64]; int n = 0; char* save; char* t = strtok_r(line, " \t\r", &save);
    while (t && n < 64) { tok[n++] = t; t = strtok_r(NULL, " \t\r", &save); }
    if (n == 1 && !strcmp(tok[0], "sizes")) {
      char b[300];
      snprintf(b, sizeof b, "sizes model=%zu mbuf=%zu data=%zu dbuf=%zu arena=%zu save=%zu vfs=%zu", real[0], real[1], real[2], real[3], real[4], real[5], real[6]);
      op->text = strdup(b);
      continue;
    }
    if (n == 5 && !strcmp(tok[0], "run")) {
      const char* scen = tok[1];
      int lj = !strcmp(tok[2], "longjmp");
      static const char* SC[] = {"makedata", "copydata", "copymodel", "loadmodel", "savemodel", "compile", "recompile",
                                 "copycompile", "makescene"};
      int known = 0;
      for (int i = 0; i < 9; i++) known |= !strcmp(scen, SC[i]);
      if ((!lj && strcmp(tok[2], "returning")) || (strcmp(tok[3], "asis") && strcmp(tok[3], "trymalloc")) || !known) { op->text = strdup("bad-op"); continue; }
      RunArg a; memset(&a, 0, sizeof a);
      snprintf(a.scen, sizeof a.scen, "%s", scen);
      a.longjmp_ = lj;
      int bad = 0;
      if (strcmp(tok[4], "-")) {
        char* s2; char* u = strtok_r(tok[4], ",", &s2);
        while (u) {
          char* e; long v = strtol(u, &e, 10);
          if (*e || e == u || v < 0 || v >= MAXBLK || a.nfail >= MAXFAIL) { bad = 1; break; }
          a.fail[a.nfail++] = (int)v;
          u = strtok_r(NULL, ",", &s2);
        }
      }
      if (bad) { op->text = strdup("bad-op"); continue; }
      // the sizes announced to the model must be the real ones
      if (szstr) {
        size_t want[5]; int nw = 0;
        if (!strcmp(scen, "makedata") || !strcmp(scen, "copydata")) { want[0] = real[2]; want[1] = real[3]; want[2] = real[4]; nw = 3; }
        else if (!strcmp(scen, "copymodel") || !strcmp(scen, "loadmodel")) { want[0] = real[0]; want[1] = real[1]; nw = 2; }
        else if (!strcmp(scen, "savemodel")) { want[0] = real[5]; want[1] = real[6]; nw = 2; }
        else if (!strcmp(scen, "compile")) { for (int q = 0; q < 5; q++) want[q] = real[q]; nw = 5; }
        int i = 0, ok = 1; char* s3; char* u = strtok_r(szstr, " \t\r", &s3);
        while (u) { if (i >= nw || strtoull(u, NULL, 10) != want[i]) ok = 0; i++; u = strtok_r(NULL, " \t\r", &s3); }
        if (!ok || i != nw) { op->text = strdup("sizes-mismatch"); continue; }
      } else if (strcmp(scen, "compile") && strcmp(scen, "recompile") && strcmp(scen, "copycompile") && strcmp(scen, "makescene")) {
        op->text = strdup("bad-op"); continue;
      }
      op->kind = K_RUN; op->arg = a;
      continue;
    }
    op->text = strdup("bad-op");
  }
  int i = 0;
  while (i < nops) {
    if (ops[i].kind == K_OUT) { puts(ops[i].text); i++; continue; }
    int j = i;
    RunArg batch[32]; int nb = 0;
    while (j < nops && ops[j].kind == K_RUN && nb < 32) batch[nb++] = ops[j++].arg;
    Batch bt = {batch, nb};
    char st[32];
    char* rep = in_child(child, &bt, st, sizeof st);
    char* p = rep; int done = 0;
    while (done < nb) {
      char* e = strchr(p, '\001');
      if (e) {
        *e = 0;
        for (char* c = p; *c; c++) if (*c == '\n') *c = '~';
        printf("%s\n", p);
        p = e + 1; done++;
      } else {
        // the child died while executing this op: keep the trace prefix
        char* sp = strpbrk(p, " \n");
        if (sp) *sp = 0;
        printf("%s out=FAULT live=?\n", strncmp(p, "trace=", 6) ? "trace=" : p);
        done++;
        break;
      }
    }
    free(rep);
    i += done;
  }
  return 0;
}
