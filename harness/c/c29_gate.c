// c29_gate.c — implementation-side driver of check C29 for the GATES of gravity compensation (checks/c29.py).
// Calls the real code of the tree: mj_compile (through harness/mjbuild.h), mj_setConst (-> setFixed, which derives
// ngravcomp / flg_gravcomp from body_gravcomp), mj_forward.  One model at a time, one mjData.
// stdin: commands, one per line; stdout: one result line per command.
//   model  (followed by description lines ... end)   -> "ok nbody N nv V nu U" | "error <msg>"
//   flags                                            -> "<ngravcomp> <flg_gravcomp>"      (the model constants)
//   setgc v...                                       -> ok     write body_gravcomp (nbody numbers; decimal or x<hex bits>)
//   setconst                                         -> ok     mj_setConst(m, d)  (re-derives the constants; resets d->qpos)
//   setopt disableflags|enableflags <int>            -> ok
//   set qpos|qvel|ctrl|xfrc_applied|qfrc_applied v...-> ok     (prefix may be shorter than the array)
//   forward                                          -> ok
//   get qfrc_gravcomp|qfrc_passive|qfrc_smooth|qfrc_actuator|qfrc_spring|qfrc_damper|qfrc_bias|body_gravcomp
//                                                    -> "n: <16-hex IEEE bits>..."
// Engine errors (mju_error) are caught and reported as "error <msg>".
#include <math.h>
#include <setjmp.h>
#include <stdint.h>
#include <stdio.h>
#include <stdlib.h>
#include <string.h>
#include <mujoco/mujoco.h>
#include "mjbuild.h"

static mjModel* m = NULL;
static mjSpec* spec = NULL;
static mjData* d = NULL;
static jmp_buf jb;
static int jb_armed = 0;
static char lasterr[1024];

static void on_error(const char* msg) {
  snprintf(lasterr, sizeof lasterr, "%s", msg);
  for (char* c = lasterr; *c; c++) if (*c == '\n') *c = ' ';
  if (jb_armed) longjmp(jb, 1);
  fprintf(stderr, "unguarded mju_error: %s\n", msg);
  exit(3);
}
static void on_warning(const char* msg) { (void)msg; }

static double parse_num(const char* t) {
  if (t[0] == 'x') { uint64_t u = strtoull(t + 1, NULL, 16); double x; memcpy(&x, &u, 8); return x; }
  return strtod(t, NULL);
}

static void print_vec(const mjtNum* v, long n) {
  printf("%ld:", n);
  for (long i = 0; i < n; i++) {
    double x = v[i];
    if (x != x) printf(" nan");
    else { uint64_t u; memcpy(&u, &x, 8); printf(" %016llx", (unsigned long long)u); }
  }
  printf("\n");
}

static int write_vec(mjtNum* v, long cap, char** tok, int n) {
  if (n > cap) return 0;
  for (int i = 0; i < n; i++) v[i] = parse_num(tok[i]);
  return 1;
}

int main(void) {
  mju_user_error = on_error;
  mju_user_warning = on_warning;
  static char line[1 << 20];
  static char* tok[1 << 16];
  while (fgets(line, sizeof line, stdin)) {
    int n = 0; char* save; char* t = strtok_r(line, " \t\r\n", &save);
    while (t && n < (1 << 16)) { tok[n++] = t; t = strtok_r(NULL, " \t\r\n", &save); }
    if (!n) { printf("bad-op\n"); fflush(stdout); continue; }
    const char* op = tok[0];
    jb_armed = 1;
    if (setjmp(jb)) { jb_armed = 0; printf("error %s\n", lasterr); fflush(stdout); continue; }
    if (!strcmp(op, "model")) {
      if (d) { mj_deleteData(d); d = NULL; }
      if (m) { mj_deleteModel(m); m = NULL; }
      if (spec) { mj_deleteSpec(spec); spec = NULL; }
      char err[1024];
      m = mjb_compile(stdin, &spec, err, sizeof err);
      if (m) d = mj_makeData(m);
      if (!m) printf("error %s\n", err);
      else if (!d) printf("error makeData\n");
      else printf("ok nbody %d nv %d nu %d\n", (int)m->nbody, (int)m->nv, (int)m->nu);
    } else if (!m || !d) {
      printf("error no model\n");
    } else if (!strcmp(op, "flags") && n == 1) {
      printf("%lld %d\n", (long long)m->ngravcomp, (int)m->flg_gravcomp);
    } else if (!strcmp(op, "setgc")) {
      printf((n - 1 == m->nbody && write_vec(m->body_gravcomp, m->nbody, tok + 1, n - 1)) ? "ok\n" : "bad-op\n");
    } else if (!strcmp(op, "setconst") && n == 1) {
      mj_setConst(m, d);
      printf("ok\n");
    } else if (!strcmp(op, "setopt") && n == 3) {
      if (!strcmp(tok[1], "disableflags")) { m->opt.disableflags = (int)strtol(tok[2], NULL, 0); printf("ok\n"); }
      else if (!strcmp(tok[1], "enableflags")) { m->opt.enableflags = (int)strtol(tok[2], NULL, 0); printf("ok\n"); }
      else printf("bad-op\n");
    } else if (!strcmp(op, "set") && n >= 2) {
      mjtNum* v = NULL; long cap = 0;
      if (!strcmp(tok[1], "qpos")) { v = d->qpos; cap = m->nq; }
      else if (!strcmp(tok[1], "qvel")) { v = d->qvel; cap = m->nv; }
      else if (!strcmp(tok[1], "ctrl")) { v = d->ctrl; cap = m->nu; }
      else if (!strcmp(tok[1], "xfrc_applied")) { v = d->xfrc_applied; cap = 6 * m->nbody; }
      else if (!strcmp(tok[1], "qfrc_applied")) { v = d->qfrc_applied; cap = m->nv; }
      printf((v && write_vec(v, cap, tok + 2, n - 2)) ? "ok\n" : "bad-op\n");
    } else if (!strcmp(op, "forward") && n == 1) {
      mj_forward(m, d);
      printf("ok\n");
    } else if (!strcmp(op, "get") && n == 2) {
      if (!strcmp(tok[1], "qfrc_gravcomp")) print_vec(d->qfrc_gravcomp, m->nv);
      else if (!strcmp(tok[1], "qfrc_passive")) print_vec(d->qfrc_passive, m->nv);
      else if (!strcmp(tok[1], "qfrc_smooth")) print_vec(d->qfrc_smooth, m->nv);
      else if (!strcmp(tok[1], "qfrc_actuator")) print_vec(d->qfrc_actuator, m->nv);
      else if (!strcmp(tok[1], "qfrc_spring")) print_vec(d->qfrc_spring, m->nv);
      else if (!strcmp(tok[1], "qfrc_damper")) print_vec(d->qfrc_damper, m->nv);
      else if (!strcmp(tok[1], "qfrc_bias")) print_vec(d->qfrc_bias, m->nv);
      else if (!strcmp(tok[1], "body_gravcomp")) print_vec(m->body_gravcomp, m->nbody);
      else printf("bad-op\n");
    } else {
      printf("bad-op\n");
    }
    jb_armed = 0;
    fflush(stdout);
  }
  return 0;
}
