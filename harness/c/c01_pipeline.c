// c01_pipeline.c — implementation-side driver of C01 / C04 over the tree build.
// Calls the real pipeline functions of /repo in-process and observes / perturbs EVERY member of mjData by name.
// stdin: "model" + description (harness/mjbuild.h format, terminated by "end"), then one command per line;
// stdout: one result line per command.  A new "model" frees the previous model and all data slots.
//
//   model ... end                 -> "ok nq .. nv .. ..." | "error <msg>"
//   data <k> | deldata <k>        make / delete the mjData in slot k
//   fields <k>                    every observable (pseudo-)field name with its byte size
//   set <k> <field> v...          write values (doubles: decimal or x<16hex>; ints decimal) into the prefix of a field
//   setm <opt-field> v            write an mjOption field of the model (disableflags enableflags integrator solver cone
//                                 jacobian iterations noslip_iterations ls_iterations timestep impratio sleep_tolerance)
//   get <k> <field>               elements (doubles as 16-hex bits, ints decimal, bytes decimal)
//   call <k> <fn> [a] [b]         forward inverse step step1 step2 forwardSkip(a,b) inverseSkip(a,b) fwdPosition sensorPos
//                                 energyPos fwdVelocity sensorVel energyVel fwdActuation fwdAcceleration fwdConstraint sensorAcc
//                                 checkPos checkVel checkAcc Euler implicit RungeKutta(a) EulerSkip(a) implicitSkip(a)
//                                 compareFwdInv invPosition invVelocity invConstraint resetData resetKey(a) kinematics
//                                 rnePostConstraint subtreeVel   -> ok | error <msg>
//                                 leaf calls of the constraint stage (second layer of the footprint table):
//                                 mulJacVec_efcb mulJacVec_jar_warmstart mulJacVec_jar_qacc mulM_Ma_warmstart
//                                 constraintUpdate_jar(a=seed) constraintUpdate_efcb constraintUpdate_null(a=seed)
//                                 solPGS solCG solNewton solNoSlip dispatch solNoSlip_island(a=island) dualFinish
//                                 (a "jar" / "Ma" local of the caller is a harness buffer; as an INPUT it is filled from `seed`)
//   copydata <dst> <src> | copystate <dst> <src> <sig> | getstate <k> <sig> | setstate <k> <sig> v... | statesize <sig>
//   xferstate <dst> <src> <sig>   mj_getState(src) ; mj_setState(dst)   (through a state vector)
//   poison <k> <seed> f...        junk into exactly the listed fields; "$arena" = the unallocated part of the arena+stack
//   cmp <a> <b> f...              names among the listed fields whose content differs between slots a and b ("=" if none);
//                                 "*" = every field
//   lazydef <flag> c...           declare lazily evaluated caches: the fields c... are meaningful only while <flag> != 0
//   cmpl <a> <b> f...             like cmp, but a declared cache field counts as different only when its flag is set in
//                                 both slots and the contents differ (a flag mismatch shows up on the flag field itself)
//   hash <k> f...                 64-bit FNV over the listed fields ("*" = every field)
//   scalar <k> <name>             any scalar member, decimal
//   setcb <0|1>                   install / remove a control callback (counts its calls; sets ctrl[0] = 0.125 when nu > 0)
//   cbcount                       number of control-callback calls since the last query
//   errors                        number of mju_error / mju_warning calls since the last query, last error text
// Pseudo fields: sensordata@sensPos / @sensVel / @sensAcc (entries of sensors with that needstage), energy@ePos (energy[0]),
// energy@eVel (energy[1]), contact (semantic members of each mjContact; padding and the solver's cone-Hessian scratch H excluded).
#include <math.h>
#include <setjmp.h>
#include <stdint.h>
#include <stdio.h>
#include <stdlib.h>
#include <string.h>
#include <mujoco/mujoco.h>
#include <mujoco/mjxmacro.h>
#include "mjbuild.h"
#include "engine/engine_solver.h"
#include "engine/engine_thread.h"
#undef MJ_M
#undef MJ_D
#define MJ_M(n) m->n
#define MJ_D(n) d->n

#define NSLOT 16
static mjModel* m = NULL;
static mjSpec* spec = NULL;
static mjData* D[NSLOT];
static jmp_buf jb;
static int jb_armed = 0;
static char lasterr[1024];
static int nerr = 0, nwarn = 0;

static void on_error(const char* msg) {
  snprintf(lasterr, sizeof lasterr, "%s", msg);
  for (char* c = lasterr; *c; c++) if (*c == '\n') *c = ' ';
  nerr++;
  if (jb_armed) longjmp(jb, 1);
  fprintf(stderr, "unguarded mju_error: %s\n", msg);
  exit(3);
}
static void on_warning(const char* msg) { (void)msg; nwarn++; }
static int ncb = 0;
static void control_cb(const mjModel* mm, mjData* dd) { ncb++; if (mm->nu > 0) dd->ctrl[0] = 0.125; }

// ---------------------------------------------------------------- field table
// type: 0 double, 1 int, 2 byte, 3 8-byte unsigned, 5 opaque bytes, 6 contact array
typedef struct { char* p; size_t n; } Seg;
typedef struct { char name[64]; int type; int nseg; Seg* seg; long count; } Field;
#define MAXF 400
static Field F[MAXF];
static int nF;

static void freeF(void) { for (int i = 0; i < nF; i++) free(F[i].seg); nF = 0; }

static Field* addF(const char* name, int type, void* p, size_t nbytes, long count) {
  if (nF >= MAXF) { fprintf(stderr, "field table full\n"); exit(4); }
  Field* f = &F[nF++];
  snprintf(f->name, sizeof f->name, "%s", name);
  f->type = type; f->nseg = 0; f->seg = NULL; f->count = count;
  if (p && nbytes) { f->seg = (Seg*)malloc(sizeof(Seg)); f->seg[0].p = (char*)p; f->seg[0].n = nbytes; f->nseg = 1; }
  return f;
}
static void addSeg(Field* f, void* p, size_t n) {
  f->seg = (Seg*)realloc(f->seg, sizeof(Seg) * (f->nseg + 1));
  f->seg[f->nseg].p = (char*)p; f->seg[f->nseg].n = n; f->nseg++;
}

#define TC_mjtNum 0
#define TC_int 1
#define TC_mjtBool 2
#define TC_mjtByte 2
#define TC_uintptr_t 3
#define TC_size_t 3
#define TC_mjtSize 3
#define TC_uint64_t 3
#define TC_mjContact 6
#define TC_mjSolverStat 5
#define TC_mjWarningStat 5
#define TC_mjTimerStat 5
#define TCODE(t) TC_##t
static size_t esize(int t) { return t == 0 ? 8 : t == 1 ? 4 : t == 2 ? 1 : t == 3 ? 8 : 1; }

static Field* findF(const char* name);
static void fields_data(mjData* d) {
  freeF();
#define X(type, name, nr, nc) addF(#name, TCODE(type), d->name, sizeof(type) * (size_t)(m->nr) * (size_t)(nc), (long)(m->nr) * (long)(nc));
#define XNV X
  MJDATA_POINTERS
#undef XNV
#undef X
#define X(type, name, nr, nc) addF(#name, TCODE(type), d->name, d->name ? sizeof(type) * (size_t)(nr) * (size_t)(nc) : 0, d->name ? (long)(nr) * (long)(nc) : 0);
#define XNV X
  MJDATA_ARENA_POINTERS
#undef XNV
#undef X
#define X(type, name) addF(#name, TCODE(type), &d->name, sizeof(type), 1);
  MJDATA_SCALAR
#undef X
#define X(type, name, nr, nc) addF(#name, TCODE(type), d->name, sizeof(type) * (size_t)(nr) * (size_t)(nc), (long)(nr) * (long)(nc));
  MJDATA_VECTOR
#undef X
  // members of struct mjData_ that no X-macro lists
  addF("threadlock", 2, &d->threadlock, sizeof(d->threadlock), 1);
  addF("buffer", 3, &d->buffer, sizeof(void*), 1);
  addF("arena", 3, &d->arena, sizeof(void*), 1);
  addF("signature", 3, &d->signature, sizeof(d->signature), 1);
  // pseudo fields: slices
  const char* sn[3] = {"sensordata@sensPos", "sensordata@sensVel", "sensordata@sensAcc"};
  int st[3] = {mjSTAGE_POS, mjSTAGE_VEL, mjSTAGE_ACC};
  for (int s = 0; s < 3; s++) {
    Field* f = addF(sn[s], 0, NULL, 0, 0);
    for (int i = 0; i < m->nsensor; i++)
      if (m->sensor_needstage[i] == st[s]) { addSeg(f, d->sensordata + m->sensor_adr[i], 8 * (size_t)m->sensor_dim[i]); f->count += m->sensor_dim[i]; }
  }
  addF("energy@ePos", 0, &d->energy[0], 8, 1);
  addF("energy@eVel", 0, &d->energy[1], 8, 1);
  // wrap arrays: only the entries of the current tendon paths are meaningful
  for (int w = 0; w < 2; w++) {
    Field* f = findF(w ? "wrap_xpos" : "wrap_obj");
    if (!f) continue;
    free(f->seg); f->seg = NULL; f->nseg = 0; f->count = 0;
    for (int i = 0; i < m->ntendon; i++) {
      long adr = d->ten_wrapadr[i], num = d->ten_wrapnum[i];
      if (adr < 0 || num <= 0 || adr + num > m->nwrap) continue;
      if (w) addSeg(f, d->wrap_xpos + 3 * adr, 8 * 3 * (size_t)num); else addSeg(f, d->wrap_obj + adr, 4 * (size_t)num);
      f->count += (w ? 3 : 1) * num;
    }
  }
  // constraint Jacobian: dense models use the first nefc*nv entries of efc_J, sparse models the entries the row
  // descriptors designate; the rest of the (over-)allocation is never written
  {
    Field* fj = findF("efc_J"); Field* fc = findF("efc_J_colind");
    long nJ = d->nJ, nefc = d->nefc, nv = m->nv;
    if (fj && fj->nseg && nJ > 0 && nefc >= 0) {
      free(fj->seg); fj->seg = NULL; fj->nseg = 0; fj->count = 0;
      if (fc) { free(fc->seg); fc->seg = NULL; fc->nseg = 0; fc->count = 0; }
      if (!mj_isSparse(m)) {
        long n = nefc * nv; if (n > nJ) n = nJ;
        if (n > 0) { addSeg(fj, d->efc_J, 8 * (size_t)n); fj->count = n; }
      } else if (d->efc_J_rowadr && d->efc_J_rownnz) {
        for (long i = 0; i < nefc; i++) {
          long adr = d->efc_J_rowadr[i], nnz = d->efc_J_rownnz[i];
          if (adr < 0 || nnz <= 0 || adr + nnz > nJ) continue;
          addSeg(fj, d->efc_J + adr, 8 * (size_t)nnz); fj->count += nnz;
          if (fc && d->efc_J_colind) { addSeg(fc, d->efc_J_colind + adr, 4 * (size_t)nnz); fc->count += nnz; }
        }
      }
    }
  }
  // model-level validity flags (read-only): sparse Jacobian in use, actuation enabled
  static unsigned char mflag[2];
  mflag[0] = (unsigned char)mj_isSparse(m);
  mflag[1] = (unsigned char)!(m->opt.disableflags & mjDSBL_ACTUATION);
  addF("m@sparse", 2, &mflag[0], 1, 1);
  addF("m@actuation", 2, &mflag[1], 1, 1);
}

static Field* findF(const char* name) {
  for (int i = 0; i < nF; i++) if (!strcmp(F[i].name, name)) return &F[i];
  return NULL;
}

static uint64_t fnv(uint64_t h, const void* p, size_t n) {
  const unsigned char* c = (const unsigned char*)p;
  for (size_t i = 0; i < n; i++) { h ^= c[i]; h *= 1099511628211ULL; }
  return h;
}

// canonical bytes of a contact (padding excluded)
static uint64_t hash_contact(uint64_t h, const mjContact* c) {
  h = fnv(h, &c->dist, 8); h = fnv(h, c->pos, 24); h = fnv(h, c->frame, 72); h = fnv(h, &c->includemargin, 8);
  h = fnv(h, c->friction, 40); h = fnv(h, c->solref, sizeof c->solref); h = fnv(h, c->solreffriction, sizeof c->solreffriction);
  h = fnv(h, c->solimp, sizeof c->solimp); h = fnv(h, &c->mu, 8);   // c->H: cone-Hessian scratch of the solver, not a result
  h = fnv(h, &c->dim, 4); h = fnv(h, &c->geom1, 4); h = fnv(h, &c->geom2, 4); h = fnv(h, c->geom, sizeof c->geom);
  h = fnv(h, c->flex, sizeof c->flex); h = fnv(h, c->elem, sizeof c->elem); h = fnv(h, c->vert, sizeof c->vert);
  h = fnv(h, &c->exclude, 4); h = fnv(h, &c->efc_address, 4);
  return h;
}

static uint64_t hash_field(uint64_t h, Field* f) {
  h = fnv(h, f->name, strlen(f->name));
  if (f->type == 6) {
    for (int s = 0; s < f->nseg; s++) {
      size_t n = f->seg[s].n / sizeof(mjContact);
      for (size_t i = 0; i < n; i++) h = hash_contact(h, ((const mjContact*)f->seg[s].p) + i);
    }
    return h;
  }
  for (int s = 0; s < f->nseg; s++) h = fnv(h, f->seg[s].p, f->seg[s].n);
  return h;
}

static uint64_t rng_s;
static uint64_t rnd(void) { rng_s ^= rng_s << 13; rng_s ^= rng_s >> 7; rng_s ^= rng_s << 17; return rng_s; }

static void poison_field(Field* f) {
  if (!strncmp(f->name, "m@", 2)) return;
  for (int s = 0; s < f->nseg; s++) {
    char* p = f->seg[s].p; size_t n = f->seg[s].n;
    if (f->type == 0) { for (size_t k = 0; k < n / 8; k++) ((double*)p)[k] = (double)(int64_t)(rnd() % 2001) - 1000.0 + 0.37; }
    else if (f->type == 1) { for (size_t k = 0; k < n / 4; k++) ((int*)p)[k] = (int)(rnd() % 7); }
    else if (f->type == 2) { for (size_t k = 0; k < n; k++) p[k] = (char)(rnd() % 2); }
    else if (f->type == 3) { for (size_t k = 0; k < n / 8; k++) ((uint64_t*)p)[k] = rnd() % 7; }
    else if (f->type == 6) {
      size_t nc = n / sizeof(mjContact);
      for (size_t i = 0; i < nc; i++) {
        mjContact* c = ((mjContact*)p) + i;
        c->dist = (double)(rnd() % 100) * 0.01 - 0.5;
        for (int k = 0; k < 3; k++) c->pos[k] += 0.37;
        for (int k = 0; k < 9; k++) c->frame[k] = (double)(rnd() % 200) * 0.01 - 1;
        for (int k = 0; k < 5; k++) c->friction[k] = (double)(rnd() % 100) * 0.01;
        c->includemargin += 0.11; c->mu += 0.3;
      }
    }
    else for (size_t k = 0; k < n; k++) p[k] = (char)(rnd() % 4);   // statistics structs: small junk (their doubles stay tiny)
  }
}

#define SLOT(i) (((i) >= 0 && (i) < NSLOT) ? D[i] : NULL)

// the callback mj_fwdConstraint hands to mju_dispatch is static; this one makes the same three-way choice
static void island_task(const mjModel* mm, mjData* dd, void* arg, int thread_id, int island) {
  (void)arg; (void)thread_id;
  if (mm->opt.solver == mjSOL_NEWTON) mj_solNewton_island(mm, dd, island, mm->opt.iterations);
  else if (mm->opt.solver == mjSOL_CG) mj_solCG_island(mm, dd, island, mm->opt.iterations);
  else mj_solPGS_island(mm, dd, island, mm->opt.iterations);
}

// a local vector of the calling function: harness-owned, filled deterministically when it is an input
static mjtNum* local_vec(size_t n, int seed, int fill) {
  static mjtNum* buf = NULL; static size_t cap = 0;
  if (n + 1 > cap) { free(buf); cap = n + 1; buf = (mjtNum*)malloc(sizeof(mjtNum) * cap); }
  if (fill) {
    uint64_t s = (uint64_t)seed * 2654435761ULL + 88172645463325252ULL;
    for (size_t i = 0; i < n; i++) { s ^= s << 13; s ^= s >> 7; s ^= s << 17; buf[i] = ((double)(int64_t)(s % 4001) - 2000.0) / 1000.0; }
  }
  return buf;
}

static int do_leaf(mjData* d, const char* fn, int a) {
  int nit = m->opt.noslip_iterations;
  mjtNum cost = 0;
  // the dual solvers need efc_AR, which the position stage builds only for PGS / noslip models: not applicable otherwise
  int dual = !strcmp(fn, "solPGS") || !strcmp(fn, "solNoSlip") || !strcmp(fn, "solNoSlip_island") ||
             (!strcmp(fn, "dispatch") && m->opt.solver == mjSOL_PGS);
  if (dual && (!d->efc_AR || d->nefc == 0)) return 2;
  if (!strncmp(fn, "solNoSlip", 9) && nit <= 0) return 2;
  if (!strcmp(fn, "mulJacVec_efcb")) mj_mulJacVec(m, d, d->efc_b, d->qacc_smooth);
  else if (!strcmp(fn, "mulJacVec_jar_warmstart")) mj_mulJacVec(m, d, local_vec(d->nefc, 0, 0), d->qacc_warmstart);
  else if (!strcmp(fn, "mulJacVec_jar_qacc")) mj_mulJacVec(m, d, local_vec(d->nefc, 0, 0), d->qacc);
  else if (!strcmp(fn, "mulM_Ma_warmstart")) mj_mulM(m, d, local_vec(m->nv, 0, 0), d->qacc_warmstart);
  else if (!strcmp(fn, "constraintUpdate_jar")) mj_constraintUpdate(m, d, local_vec(d->nefc, a, 1), &cost, 0);
  else if (!strcmp(fn, "constraintUpdate_efcb")) mj_constraintUpdate(m, d, d->efc_b, &cost, 0);
  else if (!strcmp(fn, "constraintUpdate_null")) mj_constraintUpdate(m, d, local_vec(d->nefc, a, 1), NULL, 0);
  else if (!strcmp(fn, "solPGS")) mj_solPGS(m, d, m->opt.iterations);
  else if (!strcmp(fn, "solCG")) mj_solCG(m, d, m->opt.iterations);
  else if (!strcmp(fn, "solNewton")) mj_solNewton(m, d, m->opt.iterations);
  else if (!strcmp(fn, "solNoSlip")) mj_solNoSlip(m, d, nit);
  else if (!strcmp(fn, "dispatch")) mju_dispatch(m, d, island_task, NULL, d->nisland);
  else if (!strcmp(fn, "solNoSlip_island")) { if (a >= 0 && a < d->nisland) mj_solNoSlip_island(m, d, a, nit); }
  else if (!strcmp(fn, "dualFinish")) mj_dualFinish(m, d);
  else return 0;
  return 1;
}

static int do_call(mjData* d, const char* fn, int a, int b) {
  if (!strcmp(fn, "forward")) mj_forward(m, d);
  else if (!strcmp(fn, "inverse")) mj_inverse(m, d);
  else if (!strcmp(fn, "step")) mj_step(m, d);
  else if (!strcmp(fn, "step1")) mj_step1(m, d);
  else if (!strcmp(fn, "step2")) mj_step2(m, d);
  else if (!strcmp(fn, "forwardSkip")) mj_forwardSkip(m, d, a, b);
  else if (!strcmp(fn, "inverseSkip")) mj_inverseSkip(m, d, a, b);
  else if (!strcmp(fn, "fwdPosition")) mj_fwdPosition(m, d);
  else if (!strcmp(fn, "sensorPos")) mj_sensorPos(m, d);
  else if (!strcmp(fn, "energyPos")) mj_energyPos(m, d);
  else if (!strcmp(fn, "fwdVelocity")) mj_fwdVelocity(m, d);
  else if (!strcmp(fn, "sensorVel")) mj_sensorVel(m, d);
  else if (!strcmp(fn, "energyVel")) mj_energyVel(m, d);
  else if (!strcmp(fn, "fwdActuation")) mj_fwdActuation(m, d);
  else if (!strcmp(fn, "fwdAcceleration")) mj_fwdAcceleration(m, d);
  else if (!strcmp(fn, "fwdConstraint")) mj_fwdConstraint(m, d);
  else if (!strcmp(fn, "sensorAcc")) mj_sensorAcc(m, d);
  else if (!strcmp(fn, "checkPos")) mj_checkPos(m, d);
  else if (!strcmp(fn, "checkVel")) mj_checkVel(m, d);
  else if (!strcmp(fn, "checkAcc")) mj_checkAcc(m, d);
  else if (!strcmp(fn, "Euler")) mj_Euler(m, d);
  else if (!strcmp(fn, "implicit")) mj_implicit(m, d);
  else if (!strcmp(fn, "RungeKutta")) mj_RungeKutta(m, d, a);
  else if (!strcmp(fn, "EulerSkip")) mj_EulerSkip(m, d, a);
  else if (!strcmp(fn, "implicitSkip")) mj_implicitSkip(m, d, a);
  else if (!strcmp(fn, "compareFwdInv")) mj_compareFwdInv(m, d);
  else if (!strcmp(fn, "invPosition")) mj_invPosition(m, d);
  else if (!strcmp(fn, "invVelocity")) mj_invVelocity(m, d);
  else if (!strcmp(fn, "invConstraint")) mj_invConstraint(m, d);
  else if (!strcmp(fn, "resetData")) mj_resetData(m, d);
  else if (!strcmp(fn, "resetKey")) mj_resetDataKeyframe(m, d, a);
  else if (!strcmp(fn, "kinematics")) mj_kinematics(m, d);
  else if (!strcmp(fn, "rnePostConstraint")) mj_rnePostConstraint(m, d);
  else if (!strcmp(fn, "subtreeVel")) mj_subtreeVel(m, d);
  else return do_leaf(d, fn, a);
  return 1;
}

static int field_differs(Field* fa, Field* fb) {
  if (fa->type == 6) {
    uint64_t ha = hash_field(1469598103934665603ULL, fa), hb = hash_field(1469598103934665603ULL, fb);
    return ha != hb;
  }
  if (fa->nseg != fb->nseg) return 1;
  for (int s = 0; s < fa->nseg; s++) {
    if (fa->seg[s].n != fb->seg[s].n) return 1;
    if (memcmp(fa->seg[s].p, fb->seg[s].p, fa->seg[s].n)) return 1;
  }
  return 0;
}

// lazily evaluated caches: cache field name -> flag field name
#define MAXLAZY 32
static char lazy_cache[MAXLAZY][64], lazy_flag[MAXLAZY][64];
static int nlazy = 0;
static const char* lazy_flag_of(const char* name) {
  for (int i = 0; i < nlazy; i++) if (!strcmp(lazy_cache[i], name)) return lazy_flag[i];
  return NULL;
}
static int flag_set(Field* f) {
  for (int s = 0; s < f->nseg; s++) for (size_t k = 0; k < f->seg[s].n; k++) if (f->seg[s].p[k]) return 1;
  return 0;
}

// snapshot of a field table (cmp needs two tables at once)
static Field FA[MAXF];
static int nFA;
static void snapshot_table(void) {
  for (int i = 0; i < nFA; i++) free(FA[i].seg);
  nFA = nF;
  for (int i = 0; i < nF; i++) {
    FA[i] = F[i];
    FA[i].seg = (Seg*)malloc(sizeof(Seg) * (F[i].nseg ? F[i].nseg : 1));
    memcpy(FA[i].seg, F[i].seg, sizeof(Seg) * F[i].nseg);
  }
}

int main(void) {
  mju_user_error = on_error;
  mju_user_warning = on_warning;
  static char line[1 << 20];
  static char* tok[1 << 16];
  while (fgets(line, sizeof line, stdin)) {
    int n = 0; char* save; char* t = strtok_r(line, " \t\r\n", &save);
    while (t && n < (1 << 16)) { tok[n++] = t; t = strtok_r(NULL, " \t\r\n", &save); }
    if (!n) { printf("bad-op\n"); fflush(stdout); continue; }
    const char* op = tok[0];
    jb_armed = 1;
    if (setjmp(jb)) { jb_armed = 0; printf("error %s\n", lasterr); fflush(stdout); continue; }
    if (!strcmp(op, "model")) {
      for (int i = 0; i < NSLOT; i++) if (D[i]) { mj_deleteData(D[i]); D[i] = NULL; }
      if (m) { mj_deleteModel(m); m = NULL; }
      if (spec) { mj_deleteSpec(spec); spec = NULL; }
      nlazy = 0;
      char err[1024];
      m = mjb_compile(stdin, &spec, err, sizeof err);
      if (!m) printf("error %s\n", err);
      else printf("ok nq %d nv %d na %d nu %d nmocap %d nbody %d ngeom %d njnt %d nsensordata %d neq %d ntree %d nkey %d nhistory %d nuserdata %d narena %llu\n",
                  (int)m->nq, (int)m->nv, (int)m->na, (int)m->nu, (int)m->nmocap, (int)m->nbody, (int)m->ngeom, (int)m->njnt,
                  (int)m->nsensordata, (int)m->neq, (int)m->ntree, (int)m->nkey, (int)m->nhistory, (int)m->nuserdata,
                  (unsigned long long)m->narena);
    } else if (!m) {
      printf("error no model\n");
    } else if (!strcmp(op, "data") && n == 2) {
      int k = atoi(tok[1]);
      if (k < 0 || k >= NSLOT) printf("bad-op\n");
      else { if (D[k]) mj_deleteData(D[k]); D[k] = mj_makeData(m); printf(D[k] ? "ok\n" : "error makeData\n"); }
    } else if (!strcmp(op, "deldata") && n == 2) {
      int k = atoi(tok[1]);
      if (SLOT(k)) { mj_deleteData(D[k]); D[k] = NULL; printf("ok\n"); } else printf("bad-op\n");
    } else if (!strcmp(op, "fields") && n == 2) {
      mjData* d = SLOT(atoi(tok[1]));
      if (!d) { printf("bad-op\n"); fflush(stdout); continue; }
      fields_data(d);
      for (int i = 0; i < nF; i++) { size_t nb = 0; for (int s = 0; s < F[i].nseg; s++) nb += F[i].seg[s].n; printf("%s%s:%zu", i ? " " : "", F[i].name, nb); }
      printf("\n");
    } else if (!strcmp(op, "setm") && n == 3) {
      const char* f = tok[1];
      if (!strcmp(f, "disableflags")) m->opt.disableflags = (int)strtol(tok[2], NULL, 0);
      else if (!strcmp(f, "enableflags")) m->opt.enableflags = (int)strtol(tok[2], NULL, 0);
      else if (!strcmp(f, "integrator")) m->opt.integrator = atoi(tok[2]);
      else if (!strcmp(f, "solver")) m->opt.solver = atoi(tok[2]);
      else if (!strcmp(f, "cone")) m->opt.cone = atoi(tok[2]);
      else if (!strcmp(f, "jacobian")) m->opt.jacobian = atoi(tok[2]);
      else if (!strcmp(f, "iterations")) m->opt.iterations = atoi(tok[2]);
      else if (!strcmp(f, "noslip_iterations")) m->opt.noslip_iterations = atoi(tok[2]);
      else if (!strcmp(f, "ls_iterations")) m->opt.ls_iterations = atoi(tok[2]);
      else if (!strcmp(f, "timestep")) m->opt.timestep = strtod(tok[2], NULL);
      else if (!strcmp(f, "impratio")) m->opt.impratio = strtod(tok[2], NULL);
      else if (!strcmp(f, "sleep_tolerance")) m->opt.sleep_tolerance = strtod(tok[2], NULL);
      else { printf("bad-op\n"); fflush(stdout); continue; }
      printf("ok\n");
    } else if ((!strcmp(op, "set") || !strcmp(op, "get")) && n >= 3) {
      mjData* d = SLOT(atoi(tok[1]));
      if (!d) { printf("bad-op\n"); fflush(stdout); continue; }
      fields_data(d);
      Field* f = findF(tok[2]);
      if (!f || f->type > 3) { printf("bad-op\n"); fflush(stdout); continue; }
      if (!strcmp(op, "get")) {
        printf("%ld:", f->count);
        for (int s = 0; s < f->nseg; s++) {
          size_t ne = f->seg[s].n / esize(f->type);
          for (size_t i = 0; i < ne; i++) {
            if (f->type == 0) { double x = ((double*)f->seg[s].p)[i]; uint64_t u; memcpy(&u, &x, 8); printf(" %016llx", (unsigned long long)u); }
            else if (f->type == 1) printf(" %d", ((int*)f->seg[s].p)[i]);
            else if (f->type == 2) printf(" %d", (int)((unsigned char*)f->seg[s].p)[i]);
            else printf(" %llu", (unsigned long long)((uint64_t*)f->seg[s].p)[i]);
          }
        }
        printf("\n");
      } else {
        long want = n - 3, done = 0;
        if (want > f->count) { printf("bad-op\n"); fflush(stdout); continue; }
        for (int s = 0; s < f->nseg && done < want; s++) {
          size_t ne = f->seg[s].n / esize(f->type);
          for (size_t i = 0; i < ne && done < want; i++, done++) {
            const char* v = tok[3 + done];
            if (f->type == 0) {
              double x;
              if (!strcmp(v, "nan")) x = NAN; else if (!strcmp(v, "inf")) x = INFINITY; else if (!strcmp(v, "-inf")) x = -INFINITY;
              else if (v[0] == 'x') { uint64_t u = strtoull(v + 1, NULL, 16); memcpy(&x, &u, 8); }
              else x = strtod(v, NULL);
              ((double*)f->seg[s].p)[i] = x;
            } else if (f->type == 1) ((int*)f->seg[s].p)[i] = (int)strtol(v, NULL, 0);
            else if (f->type == 2) ((unsigned char*)f->seg[s].p)[i] = (unsigned char)strtol(v, NULL, 0);
            else ((uint64_t*)f->seg[s].p)[i] = strtoull(v, NULL, 0);
          }
        }
        printf("ok\n");
      }
    } else if (!strcmp(op, "call") && n >= 3) {
      mjData* d = SLOT(atoi(tok[1]));
      if (!d) { printf("bad-op\n"); fflush(stdout); continue; }
      int a = n > 3 ? atoi(tok[3]) : 0, b = n > 4 ? atoi(tok[4]) : 0;
      int rc = do_call(d, tok[2], a, b);
      printf(rc == 1 ? "ok\n" : rc == 2 ? "na\n" : "bad-op\n");
    } else if (!strcmp(op, "copydata") && n == 3) {
      mjData* a = SLOT(atoi(tok[1])); mjData* b = SLOT(atoi(tok[2]));
      if (!a || !b) printf("bad-op\n"); else { mj_copyData(a, m, b); printf("ok\n"); }
    } else if (!strcmp(op, "copystate") && n == 4) {
      mjData* a = SLOT(atoi(tok[1])); mjData* b = SLOT(atoi(tok[2]));
      if (!a || !b) printf("bad-op\n"); else { mj_copyState(m, b, a, (int)strtol(tok[3], NULL, 0)); printf("ok\n"); }
    } else if (!strcmp(op, "xferstate") && n == 4) {
      mjData* a = SLOT(atoi(tok[1])); mjData* b = SLOT(atoi(tok[2])); int sig = (int)strtol(tok[3], NULL, 0);
      if (!a || !b) { printf("bad-op\n"); fflush(stdout); continue; }
      int sz = (int)mj_stateSize(m, sig); double* v = (double*)malloc(sizeof(double) * (sz + 1));
      mj_getState(m, b, v, sig); mj_setState(m, a, v, sig); free(v); printf("ok\n");
    } else if (!strcmp(op, "statesize") && n == 2) {
      printf("%d\n", (int)mj_stateSize(m, (int)strtol(tok[1], NULL, 0)));
    } else if (!strcmp(op, "getstate") && n == 3) {
      mjData* d = SLOT(atoi(tok[1])); int sig = (int)strtol(tok[2], NULL, 0);
      if (!d) { printf("bad-op\n"); fflush(stdout); continue; }
      int sz = (int)mj_stateSize(m, sig); double* v = (double*)malloc(sizeof(double) * (sz + 1));
      mj_getState(m, d, v, sig);
      printf("%d:", sz);
      for (int i = 0; i < sz; i++) { uint64_t u; memcpy(&u, v + i, 8); printf(" %016llx", (unsigned long long)u); }
      printf("\n"); free(v);
    } else if (!strcmp(op, "setstate") && n >= 3) {
      mjData* d = SLOT(atoi(tok[1])); int sig = (int)strtol(tok[2], NULL, 0);
      if (!d) { printf("bad-op\n"); fflush(stdout); continue; }
      int sz = (int)mj_stateSize(m, sig);
      if (sz != n - 3) printf("bad-op\n");
      else {
        double* v = (double*)malloc(sizeof(double) * (sz + 1));
        for (int i = 0; i < sz; i++) { if (tok[3 + i][0] == 'x') { uint64_t u = strtoull(tok[3 + i] + 1, NULL, 16); memcpy(v + i, &u, 8); } else v[i] = strtod(tok[3 + i], NULL); }
        mj_setState(m, d, v, sig); free(v); printf("ok\n");
      }
    } else if (!strcmp(op, "poison") && n >= 3) {
      mjData* d = SLOT(atoi(tok[1]));
      if (!d) { printf("bad-op\n"); fflush(stdout); continue; }
      rng_s = strtoull(tok[2], NULL, 0) * 2654435761ULL + 88172645463325252ULL;
      fields_data(d);
      int bad = 0;
      for (int i = 3; i < n; i++) {
        if (!strcmp(tok[i], "$arena")) {
          unsigned char* a = (unsigned char*)d->arena;
          size_t lo = d->parena, hi = d->narena - d->pstack;
          for (size_t k = lo; k < hi; k++) a[k] = (unsigned char)rnd();
          continue;
        }
        Field* f = findF(tok[i]);
        if (!f) { bad = 1; break; }
        poison_field(f);
      }
      printf(bad ? "bad-op\n" : "ok\n");
    } else if (!strcmp(op, "lazydef") && n >= 3) {
      int ok = 1;
      for (int j = 2; j < n; j++) {
        if (nlazy >= MAXLAZY) { ok = 0; break; }
        snprintf(lazy_cache[nlazy], 64, "%s", tok[j]); snprintf(lazy_flag[nlazy], 64, "%s", tok[1]); nlazy++;
      }
      printf(ok ? "ok\n" : "bad-op\n");
    } else if ((!strcmp(op, "cmp") || !strcmp(op, "cmpl")) && n >= 4) {
      mjData* a = SLOT(atoi(tok[1])); mjData* b = SLOT(atoi(tok[2]));
      if (!a || !b) { printf("bad-op\n"); fflush(stdout); continue; }
      int lazy = !strcmp(op, "cmpl");
      fields_data(a); snapshot_table(); fields_data(b);
      int any = 0, bad = 0;
      int all = !strcmp(tok[3], "*");
      int cnt = all ? nF : n - 3;
      for (int j = 0; j < cnt && !bad; j++) {
        Field* fb = all ? &F[j] : findF(tok[3 + j]);
        if (!fb) { bad = 1; break; }
        Field* fa = &FA[fb - F];
        if (!field_differs(fa, fb)) continue;
        if (lazy) {
          const char* fl = lazy_flag_of(fb->name);
          if (fl) {
            Field* flb = findF(fl);
            if (!flb) { bad = 1; break; }
            Field* fla = &FA[flb - F];
            if (!(flag_set(fla) && flag_set(flb))) continue;   // an invalid cache is not part of the value
          }
        }
        printf("%s%s", any ? " " : "", fb->name); any = 1;
      }
      if (bad) printf("%sbad-op\n", any ? " " : ""); else printf(any ? "\n" : "=\n");
    } else if (!strcmp(op, "hash") && n >= 3) {
      mjData* d = SLOT(atoi(tok[1]));
      if (!d) { printf("bad-op\n"); fflush(stdout); continue; }
      fields_data(d);
      uint64_t h = 1469598103934665603ULL; int bad = 0;
      if (!strcmp(tok[2], "*")) { for (int i = 0; i < nF; i++) h = hash_field(h, &F[i]); }
      else for (int j = 2; j < n; j++) { Field* f = findF(tok[j]); if (!f) { bad = 1; break; } h = hash_field(h, f); }
      if (bad) printf("bad-op\n"); else printf("%016llx\n", (unsigned long long)h);
    } else if (!strcmp(op, "scalar") && n == 3) {
      mjData* d = SLOT(atoi(tok[1]));
      if (!d) { printf("bad-op\n"); fflush(stdout); continue; }
      fields_data(d);
      Field* f = findF(tok[2]);
      if (!f || f->nseg != 1 || f->count != 1) printf("bad-op\n");
      else if (f->type == 0) printf("%.17g\n", *(double*)f->seg[0].p);
      else if (f->type == 1) printf("%d\n", *(int*)f->seg[0].p);
      else if (f->type == 2) printf("%d\n", (int)*(unsigned char*)f->seg[0].p);
      else printf("%llu\n", (unsigned long long)*(uint64_t*)f->seg[0].p);
    } else if (!strcmp(op, "setcb") && n == 2) {
      mjcb_control = atoi(tok[1]) ? control_cb : NULL; printf("ok\n");
    } else if (!strcmp(op, "cbcount")) {
      printf("%d\n", ncb); ncb = 0;
    } else if (!strcmp(op, "errors")) {
      printf("%d %d %s\n", nerr, nwarn, nerr ? lasterr : "-");
      nerr = 0; nwarn = 0;
    } else {
      printf("bad-op\n");
    }
    jb_armed = 0;
    fflush(stdout);
  }
  return 0;
}
