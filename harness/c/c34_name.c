// C34 implementation-side driver: compiles models through the mjSpec C API of the tree build and calls the
// real mj_name2id / mj_id2name / mj_hashString.  Same line protocol as lean/Drivers/C34.lean (stateful):
//
//   model M=<hex|-> [W=<hex>] T<objtype>=<hex|->,<hex|->,... ... | <ordered lists, ignored here>
//        -> "ok nnames_map=<n> map=<int,...> names=<hex> <adrfield>:<count>:<adr,...> ..."   (fields sorted by name)
//           or "compile-error <message>"
//   q <objtype> <hex|->       -> mj_name2id on the current model
//   i <objtype> <id>          -> mj_id2name on the current model: "null" or hex
//   h <hex|-> <n>             -> mj_hashString(s, n)   (n: uint64, n > 0)
//
// Names are hex-encoded byte strings without NUL; "-" is the empty string.  The name tables
// (names, names_map, name_*adr) are dumped raw from mjModel; the list of name_*adr fields and their counts is
// taken from the MJMODEL_POINTERS X-macro of the tree (not from _getnumadr).
#include <ctype.h>
#include <stdint.h>
#include <stdio.h>
#include <stdlib.h>
#include <string.h>
#include <mujoco/mujoco.h>
#include <mujoco/mjxmacro.h>
#include <mujoco/mjplugin.h>
#include "engine/engine_name.h"

#define MAXT 64
static char* line;
static size_t cap = 1 << 24;
static mjModel* cur = NULL;

static void on_warning(const char* msg) { (void)msg; }
static void on_error(const char* msg) { printf("mju_error %s\n", msg); fflush(stdout); exit(3); }

// decode hex (or "-") into a freshly malloc'ed NUL-terminated string; NULL if malformed or contains a NUL byte
static char* unhex(const char* s, size_t len) {
  if (len == 1 && s[0] == '-') { char* r = malloc(1); r[0] = 0; return r; }
  if (len == 0 || len % 2) return NULL;
  char* r = malloc(len / 2 + 1);
  for (size_t k = 0; k < len / 2; k++) {
    int v = 0;
    for (int d = 0; d < 2; d++) {
      char c = s[2 * k + d]; int x;
      if (c >= '0' && c <= '9') x = c - '0'; else if (c >= 'a' && c <= 'f') x = c - 'a' + 10; else { free(r); return NULL; }
      v = v * 16 + x;
    }
    if (v == 0) { free(r); return NULL; }
    r[k] = (char)v;
  }
  r[len / 2] = 0;
  return r;
}
static void puthex(const char* s, size_t n) {
  if (n == 0) { putchar('-'); return; }
  for (size_t k = 0; k < n; k++) printf("%02x", (unsigned char)s[k]);
}

typedef struct { char** v; int n, cap; } strlist;
static void sl_push(strlist* l, char* s) {
  if (l->n == l->cap) { l->cap = l->cap ? 2 * l->cap : 8; l->v = realloc(l->v, l->cap * sizeof(char*)); }
  l->v[l->n++] = s;
}
static void sl_free(strlist* l) { for (int i = 0; i < l->n; i++) free(l->v[i]); free(l->v); l->v = NULL; l->n = l->cap = 0; }
// k-th named entry (or NULL)
static const char* named(const strlist* l, int k) {
  for (int i = 0; i < l->n; i++) if (l->v[i][0]) { if (k == 0) return l->v[i]; k--; }
  return NULL;
}
static int nnamed(const strlist* l) { int c = 0; for (int i = 0; i < l->n; i++) c += l->v[i][0] != 0; return c; }

// dummy plugin so that plugin instances (mjOBJ_PLUGIN) can be created
static int pl_nstate(const mjModel* m, int instance) { (void)m; (void)instance; return 0; }
static int pl_init(const mjModel* m, mjData* d, int instance) { (void)m; (void)d; (void)instance; return 0; }
static void pl_reset(const mjModel* m, mjtNum* s, void* p, int instance) { (void)m; (void)s; (void)p; (void)instance; }
static void pl_compute(const mjModel* m, mjData* d, int instance, int cap_) { (void)m; (void)d; (void)instance; (void)cap_; }

static int setname(mjsElement* e, const char* nm, char* err, size_t nerr, mjSpec* s) {
  if (!nm[0]) return 0;
  if (mjs_setName(e, nm) != 0) { snprintf(err, nerr, "setName: %s", mjs_getError(s)); return -1; }
  return 0;
}

// build the spec from the parsed lists; returns NULL and fills err on failure
static mjModel* build(const char* mname, const char* wname, strlist* T, char* err, size_t nerr) {
  mjSpec* s = mj_makeSpec();
  mjModel* m = NULL;
  err[0] = 0;
#define FAIL(...) do { snprintf(err, nerr, __VA_ARGS__); goto done; } while (0)
#define NAME(el, nm) do { if (setname((el), (nm), err, nerr, s)) goto done; } while (0)
  if (mname[0]) mjs_setString(s->modelname, mname);
  mjsBody* world = mjs_findBody(s, "world");
  if (!world) FAIL("no world body");
  if (wname) NAME(world->element, wname);
  const char* worldname = wname ? wname : "world";

  // bodies: flat children of the world, explicit inertia so that joints are legal
  int nb = T[mjOBJ_BODY].n;
  mjsBody** bodies = calloc(nb + 1, sizeof(mjsBody*));
  for (int i = 0; i < nb; i++) {
    mjsBody* b = mjs_addBody(world, NULL);
    b->mass = 1; b->inertia[0] = b->inertia[1] = b->inertia[2] = 1; b->explicitinertial = 1;
    b->pos[0] = 0.5 * (i + 1);
    NAME(b->element, T[mjOBJ_BODY].v[i]);
    bodies[i] = b;
  }
  mjsBody* host = nb ? bodies[0] : world;   // carries joints (never the world)
  for (int i = 0; i < T[mjOBJ_JOINT].n; i++) {
    if (!nb) FAIL("bad-spec: joint without body");
    mjsJoint* j = mjs_addJoint(bodies[i % nb], NULL);
    int k = (i / nb) % 6;                      // <= 6 dofs per body: slides along x,y,z then hinges about x,y,z
    j->type = k < 3 ? mjJNT_SLIDE : mjJNT_HINGE;
    j->axis[0] = (k % 3) == 0; j->axis[1] = (k % 3) == 1; j->axis[2] = (k % 3) == 2;
    j->armature = 0.1;
    NAME(j->element, T[mjOBJ_JOINT].v[i]);
  }
  for (int i = 0; i < T[mjOBJ_GEOM].n; i++) {
    mjsGeom* g = mjs_addGeom(i % 2 ? host : (nb ? bodies[i % nb] : world), NULL);
    g->type = mjGEOM_SPHERE; g->size[0] = 0.1;
    NAME(g->element, T[mjOBJ_GEOM].v[i]);
  }
  for (int i = 0; i < T[mjOBJ_SITE].n; i++) {
    mjsSite* x = mjs_addSite(i % 3 ? host : world, NULL);
    x->pos[0] = 0.01 * i;
    NAME(x->element, T[mjOBJ_SITE].v[i]);
  }
  for (int i = 0; i < T[mjOBJ_CAMERA].n; i++) {
    mjsCamera* x = mjs_addCamera(i % 2 ? host : world, NULL);
    NAME(x->element, T[mjOBJ_CAMERA].v[i]);
  }
  for (int i = 0; i < T[mjOBJ_LIGHT].n; i++) {
    mjsLight* x = mjs_addLight(i % 2 ? world : host, NULL);
    NAME(x->element, T[mjOBJ_LIGHT].v[i]);
  }
  for (int i = 0; i < T[mjOBJ_MESH].n; i++) {
    mjsMesh* x = mjs_addMesh(s, NULL);
    float v[12] = {0, 0, 0, 1, 0, 0, 0, 1, 0, 0, 0, 1};
    int f[12] = {0, 2, 1, 0, 1, 3, 0, 3, 2, 1, 2, 3};
    mjs_setFloat(x->uservert, v, 12);
    mjs_setInt(x->userface, f, 12);
    NAME(x->element, T[mjOBJ_MESH].v[i]);
  }
  for (int i = 0; i < T[mjOBJ_HFIELD].n; i++) {
    mjsHField* x = mjs_addHField(s);
    float d[4] = {0, 1, 1, 0};
    x->nrow = 2; x->ncol = 2; mjs_setFloat(x->userdata, d, 4);
    x->size[0] = x->size[1] = x->size[2] = x->size[3] = 1;
    NAME(x->element, T[mjOBJ_HFIELD].v[i]);
  }
  for (int i = 0; i < T[mjOBJ_TEXTURE].n; i++) {
    mjsTexture* x = mjs_addTexture(s);
    x->type = mjTEXTURE_2D; x->builtin = mjBUILTIN_FLAT; x->width = 2; x->height = 2; x->nchannel = 3;
    NAME(x->element, T[mjOBJ_TEXTURE].v[i]);
  }
  for (int i = 0; i < T[mjOBJ_MATERIAL].n; i++) {
    mjsMaterial* x = mjs_addMaterial(s, NULL);
    NAME(x->element, T[mjOBJ_MATERIAL].v[i]);
  }
  for (int i = 0; i < T[mjOBJ_SKIN].n; i++) {
    mjsSkin* x = mjs_addSkin(s);
    const char* bn = named(&T[mjOBJ_BODY], 0);
    if (!bn) bn = worldname;
    float v[9] = {0, 0, 0, 1, 0, 0, 0, 1, 0}; int f[3] = {0, 1, 2};
    float bp[3] = {0, 0, 0}, bq[4] = {1, 0, 0, 0}; int vid[3] = {0, 1, 2}; float vw[3] = {1, 1, 1};
    mjs_setFloat(x->vert, v, 9); mjs_setInt(x->face, f, 3);
    mjs_appendString(x->bodyname, bn);
    mjs_setFloat(x->bindpos, bp, 3); mjs_setFloat(x->bindquat, bq, 4);
    mjs_appendIntVec(x->vertid, vid, 3); mjs_appendFloatVec(x->vertweight, vw, 3);
    NAME(x->element, T[mjOBJ_SKIN].v[i]);
  }
  for (int i = 0; i < T[mjOBJ_FLEX].n; i++) {
    mjsFlex* x = mjs_addFlex(s);
    const char* bn = named(&T[mjOBJ_BODY], 0);
    if (!bn) FAIL("bad-spec: flex needs a named body");
    double v[6] = {0, 0, 0, 0.3, 0, 0}; int e[2] = {0, 1};
    x->dim = 1;
    mjs_setDouble(x->vert, v, 6); mjs_setInt(x->elem, e, 2);
    mjs_appendString(x->vertbody, bn); mjs_appendString(x->vertbody, bn);
    NAME(x->element, T[mjOBJ_FLEX].v[i]);
  }
  // contact pairs: k-th pair uses the k-th pair (a<b) of named geoms
  {
    int ng = nnamed(&T[mjOBJ_GEOM]), a = 0, b = 1;
    for (int i = 0; i < T[mjOBJ_PAIR].n; i++) {
      if (b >= ng) FAIL("bad-spec: not enough named geoms for pairs");
      mjsPair* x = mjs_addPair(s, NULL);
      mjs_setString(x->geomname1, named(&T[mjOBJ_GEOM], a));
      mjs_setString(x->geomname2, named(&T[mjOBJ_GEOM], b));
      NAME(x->element, T[mjOBJ_PAIR].v[i]);
      if (++b >= ng) { a++; b = a + 1; }
    }
  }
  // excludes: k-th exclude uses the k-th pair (a<b) of named bodies, the world being entry -1
  {
    int nn = nnamed(&T[mjOBJ_BODY]), a = -1, b = 0;
    for (int i = 0; i < T[mjOBJ_EXCLUDE].n; i++) {
      if (b >= nn) FAIL("bad-spec: not enough named bodies for excludes");
      mjsExclude* x = mjs_addExclude(s);
      mjs_setString(x->bodyname1, a < 0 ? worldname : named(&T[mjOBJ_BODY], a));
      mjs_setString(x->bodyname2, named(&T[mjOBJ_BODY], b));
      NAME(x->element, T[mjOBJ_EXCLUDE].v[i]);
      if (++b >= nn) { a++; b = a + 1; }
    }
  }
  const char* jn = named(&T[mjOBJ_JOINT], 0);
  for (int i = 0; i < T[mjOBJ_EQUALITY].n; i++) {
    if (!jn) FAIL("bad-spec: equality needs a named joint");
    mjsEquality* x = mjs_addEquality(s, NULL);
    x->type = mjEQ_JOINT; x->objtype = mjOBJ_JOINT;
    mjs_setString(x->name1, named(&T[mjOBJ_JOINT], i % nnamed(&T[mjOBJ_JOINT])));
    NAME(x->element, T[mjOBJ_EQUALITY].v[i]);
  }
  for (int i = 0; i < T[mjOBJ_TENDON].n; i++) {
    if (!jn) FAIL("bad-spec: tendon needs a named joint");
    mjsTendon* x = mjs_addTendon(s, NULL);
    mjs_wrapJoint(x, named(&T[mjOBJ_JOINT], i % nnamed(&T[mjOBJ_JOINT])), 1.0);
    NAME(x->element, T[mjOBJ_TENDON].v[i]);
  }
  for (int i = 0; i < T[mjOBJ_ACTUATOR].n; i++) {
    if (!jn) FAIL("bad-spec: actuator needs a named joint");
    mjsActuator* x = mjs_addActuator(s, NULL);
    x->trntype = mjTRN_JOINT;
    mjs_setString(x->target, named(&T[mjOBJ_JOINT], i % nnamed(&T[mjOBJ_JOINT])));
    NAME(x->element, T[mjOBJ_ACTUATOR].v[i]);
  }
  for (int i = 0; i < T[mjOBJ_SENSOR].n; i++) {
    mjsSensor* x = mjs_addSensor(s);
    x->type = mjSENS_CLOCK; x->objtype = mjOBJ_UNKNOWN; x->datatype = mjDATATYPE_REAL; x->needstage = mjSTAGE_POS; x->dim = 1;
    NAME(x->element, T[mjOBJ_SENSOR].v[i]);
  }
  for (int i = 0; i < T[mjOBJ_NUMERIC].n; i++) {
    mjsNumeric* x = mjs_addNumeric(s);
    double d = i; x->size = 1; mjs_setDouble(x->data, &d, 1);
    NAME(x->element, T[mjOBJ_NUMERIC].v[i]);
  }
  for (int i = 0; i < T[mjOBJ_TEXT].n; i++) {
    mjsText* x = mjs_addText(s);
    mjs_setString(x->data, "t");
    NAME(x->element, T[mjOBJ_TEXT].v[i]);
  }
  for (int i = 0; i < T[mjOBJ_TUPLE].n; i++) {
    mjsTuple* x = mjs_addTuple(s);
    int ot = mjOBJ_BODY; double prm = 0;
    mjs_setInt(x->objtype, &ot, 1); mjs_appendString(x->objname, worldname); mjs_setDouble(x->objprm, &prm, 1);
    NAME(x->element, T[mjOBJ_TUPLE].v[i]);
  }
  for (int i = 0; i < T[mjOBJ_KEY].n; i++) {
    mjsKey* x = mjs_addKey(s);
    x->time = i;
    NAME(x->element, T[mjOBJ_KEY].v[i]);
  }
  if (T[mjOBJ_PLUGIN].n) {
    if (mjs_activatePlugin(s, "verif.c34.dummy") != 0) FAIL("activatePlugin failed");
    for (int i = 0; i < T[mjOBJ_PLUGIN].n; i++) {
      mjsPlugin* x = mjs_addPlugin(s);
      mjs_setString(x->plugin_name, "verif.c34.dummy");
      x->active = 1;
      NAME(x->element, T[mjOBJ_PLUGIN].v[i]);
    }
  }
  m = mj_compile(s, NULL);
  if (!m) snprintf(err, nerr, "%s", mjs_getError(s));
done:
  free(bodies);
  mj_deleteSpec(s);
  return m;
}

typedef struct { const char* name; const int* adr; int n; } field;
static int fcmp(const void* a, const void* b) { return strcmp(((const field*)a)->name, ((const field*)b)->name); }

static void dump(const mjModel* m) {
  field f[128]; int nf = 0;
#define X(type_, fname_, nr_, nc_) \
  if (!strncmp(#fname_, "name_", 5) && strlen(#fname_) > 8 && !strcmp(#fname_ + strlen(#fname_) - 3, "adr") && nf < 128) { \
    f[nf].name = #fname_; f[nf].adr = (const int*)(const void*)m->fname_; f[nf].n = (int)m->nr_; nf++; }
  MJMODEL_POINTERS
#undef X
  qsort(f, nf, sizeof(field), fcmp);
  printf("ok nnames_map=%lld map=", (long long)m->nnames_map);
  if (!m->nnames_map) putchar('-');
  for (long long k = 0; k < (long long)m->nnames_map; k++) printf(k ? ",%d" : "%d", m->names_map[k]);
  printf(" names="); puthex(m->names, (size_t)m->nnames);
  for (int k = 0; k < nf; k++) {
    printf(" %s:%d:", f[k].name, f[k].n);
    if (!f[k].n) putchar('-');
    for (int i = 0; i < f[k].n; i++) printf(i ? ",%d" : "%d", f[k].adr[i]);
  }
  putchar('\n');
}

int main(void) {
  mju_user_warning = on_warning;
  mju_user_error = on_error;
  mjpPlugin pl; mjp_defaultPlugin(&pl);
  pl.name = "verif.c34.dummy"; pl.capabilityflags = mjPLUGIN_PASSIVE;
  pl.nstate = pl_nstate; pl.init = pl_init; pl.reset = pl_reset; pl.compute = pl_compute;
  mjp_registerPlugin(&pl);

  line = malloc(cap);
  static char err[2048];
  while (fgets(line, cap, stdin)) {
    size_t L = strlen(line);
    while (L && (line[L - 1] == '\n' || line[L - 1] == '\r')) line[--L] = 0;
    char* bar = strchr(line, '|');
    if (bar) *bar = 0;                      // the ordered lists after '|' are for the model side only
    char* save; char* tok = strtok_r(line, " ", &save);
    if (!tok) { printf("bad-op\n"); continue; }
    if (!strcmp(tok, "model")) {
      strlist T[MAXT]; memset(T, 0, sizeof(T));
      char* mname = NULL; char* wname = NULL; int bad = 0;
      while (!bad && (tok = strtok_r(NULL, " ", &save))) {
        char* eq = strchr(tok, '=');
        if (!eq) { bad = 1; break; }
        *eq = 0; const char* val = eq + 1;
        if (!strcmp(tok, "M")) { if (mname) bad = 1; else { mname = unhex(val, strlen(val)); if (!mname) bad = 1; } }
        else if (!strcmp(tok, "W")) { if (wname) bad = 1; else { wname = unhex(val, strlen(val)); if (!wname || !wname[0]) bad = 1; } }
        else if (tok[0] == 'T' && isdigit((unsigned char)tok[1])) {
          char* end; long t = strtol(tok + 1, &end, 10);
          if (*end || t <= 0 || t >= mjNOBJECT || t >= MAXT || T[t].n || t == mjOBJ_XBODY || t == mjOBJ_DOF) { bad = 1; break; }
          const char* p = val;
          while (1) {
            const char* c = strchr(p, ',');
            size_t n = c ? (size_t)(c - p) : strlen(p);
            char* nm = unhex(p, n);
            if (!nm) { bad = 1; break; }
            sl_push(&T[t], nm);
            if (!c) break;
            p = c + 1;
          }
        } else bad = 1;
      }
      if (bad || !mname) { printf("bad-op\n"); }
      else {
        if (cur) { mj_deleteModel(cur); cur = NULL; }
        cur = build(mname, wname, T, err, sizeof(err));
        if (cur) dump(cur);
        else { for (char* c = err; *c; c++) if (*c == '\n') *c = ' '; printf("compile-error %s\n", err); }
      }
      for (int t = 0; t < MAXT; t++) sl_free(&T[t]);
      free(mname); free(wname);
    } else if (!strcmp(tok, "q")) {
      char* a = strtok_r(NULL, " ", &save); char* b = strtok_r(NULL, " ", &save); char* c = strtok_r(NULL, " ", &save);
      char* end; long t = a ? strtol(a, &end, 10) : 0;
      char* nm = (a && b && !c && !*end && a[0]) ? unhex(b, strlen(b)) : NULL;
      if (!nm || !cur || t < -1000 || t > 1000) { printf("bad-op\n"); free(nm); continue; }
      printf("%d\n", mj_name2id(cur, (int)t, nm));
      free(nm);
    } else if (!strcmp(tok, "i")) {
      char* a = strtok_r(NULL, " ", &save); char* b = strtok_r(NULL, " ", &save); char* c = strtok_r(NULL, " ", &save);
      char *e1 = "x", *e2 = "x";
      long t = a ? strtol(a, &e1, 10) : 0; long id = b ? strtol(b, &e2, 10) : 0;
      if (!a || !b || c || *e1 || *e2 || !cur || t < -1000 || t > 1000 || id < -2000000000L || id > 2000000000L) { printf("bad-op\n"); continue; }
      const char* r = mj_id2name(cur, (int)t, (int)id);
      if (!r) printf("null\n"); else { puthex(r, strlen(r)); putchar('\n'); }
    } else if (!strcmp(tok, "h")) {
      char* a = strtok_r(NULL, " ", &save); char* b = strtok_r(NULL, " ", &save); char* c = strtok_r(NULL, " ", &save);
      char* e = "x"; unsigned long long n = 0;
      if (b && isdigit((unsigned char)b[0])) n = strtoull(b, &e, 10);
      char* nm = (a && b && !c && !*e && n > 0) ? unhex(a, strlen(a)) : NULL;
      if (!nm) { printf("bad-op\n"); continue; }
      printf("%llu\n", (unsigned long long)mj_hashString(nm, (uint64_t)n));
      free(nm);
    } else printf("bad-op\n");
    fflush(stdout);
  }
  if (cur) mj_deleteModel(cur);
  return 0;
}
