// C15 implementation-side driver: calls the real convex narrow phase of the tree
// (src/engine/engine_collision_convex.c, src/engine/engine_collision_gjk.c) in-process.
//
// All doubles on the wire are the 16 hex digits of their IEEE bit pattern (`nan` for NaN).
// Geom kinds: sphere capsule ellipsoid cylinder box mesh (+ point / line for `supp`: the shrunken supports that
// mjc_ccd installs for spheres and capsules).
//
//   supp <kind> s0 s1 s2 p0 p1 p2 m0..m8 d0 d1 d2
//        -> "r0 r1 r2 <vertindex>"      the support function that mjc_initCCDObj installs for a geom of this
//           kind/size/pose (an mjModel/mjData pair holding exactly one geom is handed to mjc_initCCDObj; point/line:
//           mjc_pointSupport / mjc_lineSupport), called as obj.support(res, &obj, dir)
//   msupp nv v0x v0y v0z ... p0 p1 p2 m0..m8 d0 d1 d2 cached
//        -> "r0 r1 r2 <vertindex>"      mjc_meshSupport (exhaustive) on the given float vertices, obj.vertindex = cached
//   pair <kind1> s[3] p[3] q[4] <kind2> s[3] p[3] q[4] tol iters cutoff distmax margin
//        a two-geom model is compiled through the mjSpec API (both geoms in the world body), mj_kinematics is run,
//        opt.ccd_tolerance / opt.ccd_iterations are set, then on that model
//        -> "G <t1> size[3] xpos[3] xmat[9] <t2> size[3] xpos[3] xmat[9]          (what the engine actually uses)
//            C  <dist> <nx> <separated> <gjk_it> <epa_it> <epa_status> x1[3] x2[3]  mjc_ccd(obj1,obj2), max_contacts=1, dist_cutoff=cutoff
//            CS ...                                                                   mjc_ccd(obj2,obj1)
//            D  <ccdpath> <dist> fromto[6]        mj_geomDistance(m,d,0,1,distmax,fromto)  ccdpath = dispatch goes to mjc_ccd
//            DS <ccdpath> <dist> fromto[6]        mj_geomDistance(m,d,1,0,distmax,fromto)
//            V  <n> {dist pos[3] normal[3]}*n     mjc_Convex(m,d,con,0,1,margin)
//            VS <n> {...}                         mjc_Convex(m,d,con,1,0,margin)"
//        mesh kind: `mesh nv v0x v0y v0z ...` replaces `s[3]` (vertices as doubles; a convex point set whose hull the
//        compiler cannot compute here — qhull is stubbed — so the engine uses the exhaustive vertex search);
//        the G record then carries `mesh nv verts(float→double)...` instead of size.
// Malformed lines -> "bad-op".  Engine errors -> "error <msg>".
#include <math.h>
#include <setjmp.h>
#include <stdint.h>
#include <stdio.h>
#include <stdlib.h>
#include <string.h>
#include <float.h>
#include <mujoco/mujoco.h>
#include "engine/engine_collision_convex.h"
#include "engine/engine_collision_gjk.h"
#include "engine/engine_collision_driver.h"
#include "engine/engine_collision_primitive.h"

static jmp_buf errjmp;
static int errarmed = 0;
static char errmsg[512];
static void on_error(const char* msg) {
  strncpy(errmsg, msg, sizeof(errmsg) - 1);
  for (char* p = errmsg; *p; p++) if (*p == '\n') *p = ' ';
  if (errarmed) longjmp(errjmp, 1);
  fprintf(stderr, "mujoco error: %s\n", msg);
  exit(3);
}
static int nwarn = 0;
static void on_warning(const char* msg) { (void)msg; nwarn++; }

static void pbits(double x) {
  if (x != x) { printf("nan"); return; }
  uint64_t u; memcpy(&u, &x, 8); printf("%016llx", (unsigned long long)u);
}
static void pvec(const double* v, int n) { for (int i = 0; i < n; i++) { putchar(' '); pbits(v[i]); } }
static int rbits(const char* t, double* out) {
  if (!t) return 0;
  if (!strcmp(t, "nan")) { *out = NAN; return 1; }
  if (strlen(t) != 16) return 0;
  for (const char* p = t; *p; p++) if (!((*p >= '0' && *p <= '9') || (*p >= 'a' && *p <= 'f'))) return 0;
  unsigned long long u = strtoull(t, NULL, 16);
  uint64_t v = u; memcpy(out, &v, 8); return 1;
}
static int rint_(const char* t, long* out) {
  if (!t || !*t || *t == '+') return 0;
  char* end; *out = strtol(t, &end, 10); return *end == 0;
}

#define MAXTOK 4096
static char* tok[MAXTOK];
static int ntok, itok;
static const char* next(void) { return itok < ntok ? tok[itok++] : NULL; }
static int rvec(double* v, int n) { for (int i = 0; i < n; i++) if (!rbits(next(), v + i)) return 0; return 1; }

enum { K_SPHERE, K_CAPSULE, K_ELLIPSOID, K_CYLINDER, K_BOX, K_MESH, K_POINT, K_LINE, K_BAD };
static int kind_of(const char* t) {
  if (!t) return K_BAD;
  if (!strcmp(t, "sphere")) return K_SPHERE;
  if (!strcmp(t, "capsule")) return K_CAPSULE;
  if (!strcmp(t, "ellipsoid")) return K_ELLIPSOID;
  if (!strcmp(t, "cylinder")) return K_CYLINDER;
  if (!strcmp(t, "box")) return K_BOX;
  if (!strcmp(t, "mesh")) return K_MESH;
  if (!strcmp(t, "point")) return K_POINT;
  if (!strcmp(t, "line")) return K_LINE;
  return K_BAD;
}
static int geomtype_of(int k) {
  switch (k) {
    case K_SPHERE: case K_POINT: return mjGEOM_SPHERE;
    case K_CAPSULE: case K_LINE: return mjGEOM_CAPSULE;
    case K_ELLIPSOID: return mjGEOM_ELLIPSOID;
    case K_CYLINDER: return mjGEOM_CYLINDER;
    case K_BOX: return mjGEOM_BOX;
    case K_MESH: return mjGEOM_MESH;
  }
  return -1;
}
static const char* kindname(int geomtype) {
  switch (geomtype) {
    case mjGEOM_SPHERE: return "sphere";
    case mjGEOM_CAPSULE: return "capsule";
    case mjGEOM_ELLIPSOID: return "ellipsoid";
    case mjGEOM_CYLINDER: return "cylinder";
    case mjGEOM_BOX: return "box";
    case mjGEOM_MESH: return "mesh";
  }
  return "?";
}

// ---------------------------------------------------------------- supp
static void do_supp(void) {
  int k = kind_of(next());
  double size[3], pos[3], mat[9], dir[3];
  if (k == K_BAD || k == K_MESH || !rvec(size, 3) || !rvec(pos, 3) || !rvec(mat, 9) || !rvec(dir, 3) || next()) {
    puts("bad-op"); return;
  }
  // one-geom model/data views: mjc_initCCDObj reads geom_size, geom_type (model) and geom_xpos, geom_xmat (data)
  mjModel m; mjData d;
  memset(&m, 0, sizeof(m)); memset(&d, 0, sizeof(d));
  int gtype = geomtype_of(k), dataid = -1;
  m.ngeom = 1; m.geom_size = size; m.geom_type = &gtype; m.geom_dataid = &dataid;
  d.geom_xpos = pos; d.geom_xmat = mat;
  mjCCDObj obj;
  mjc_initCCDObj(&obj, &m, &d, 0, 0);
  if (k == K_POINT) obj.support = mjc_pointSupport;   // as mjc_ccd does for spheres
  if (k == K_LINE) obj.support = mjc_lineSupport;     // as mjc_ccd does for capsules
  double res[3] = {NAN, NAN, NAN};
  obj.support(res, &obj, dir);
  pbits(res[0]); pvec(res + 1, 2); printf(" %d\n", obj.vertindex);
}

static void do_msupp(void) {
  long nv;
  if (!rint_(next(), &nv) || nv < 1 || nv > 1000) { puts("bad-op"); return; }
  float* fv = (float*)malloc(sizeof(float) * 3 * nv);
  double x, pos[3], mat[9], dir[3]; long cached;
  for (int i = 0; i < 3 * nv; i++) { if (!rbits(next(), &x)) { free(fv); puts("bad-op"); return; } fv[i] = (float)x; }
  if (!rvec(pos, 3) || !rvec(mat, 9) || !rvec(dir, 3) || !rint_(next(), &cached) || cached < -1 || cached >= nv || next()) {
    free(fv); puts("bad-op"); return;
  }
  mjModel m; mjData d;
  memset(&m, 0, sizeof(m)); memset(&d, 0, sizeof(d));
  double size[3] = {0, 0, 0};
  int gtype = mjGEOM_MESH, dataid = 0, graphadr = -1, vertadr = 0, polyadr = 0, vertnum = (int)nv, polynum = 0;
  m.ngeom = 1; m.nmesh = 1; m.geom_size = size; m.geom_type = &gtype; m.geom_dataid = &dataid;
  m.mesh_graphadr = &graphadr; m.mesh_vertadr = &vertadr; m.mesh_polyadr = &polyadr; m.mesh_vertnum = &vertnum;
  m.mesh_vert = fv; m.mesh_polynum = &polynum;
  d.geom_xpos = pos; d.geom_xmat = mat;
  mjCCDObj obj;
  mjc_initCCDObj(&obj, &m, &d, 0, 0);
  obj.vertindex = (int)cached;
  double res[3] = {NAN, NAN, NAN};
  obj.support(res, &obj, dir);
  pbits(res[0]); pvec(res + 1, 2); printf(" %d\n", obj.vertindex);
  free(fv);
}

// ---------------------------------------------------------------- pair
typedef struct { int kind; double size[3], pos[3], quat[4]; int nv; double* verts; } GeomIn;

static int read_geom(GeomIn* g) {
  g->kind = kind_of(next()); g->verts = NULL; g->nv = 0;
  if (g->kind == K_BAD || g->kind == K_POINT || g->kind == K_LINE) return 0;
  if (g->kind == K_MESH) {
    long nv;
    if (!rint_(next(), &nv) || nv < 4 || nv > 1000) return 0;
    g->nv = (int)nv; g->verts = (double*)malloc(sizeof(double) * 3 * nv);
    if (!rvec(g->verts, 3 * (int)nv)) return 0;
    g->size[0] = g->size[1] = g->size[2] = 0;
  } else if (!rvec(g->size, 3)) return 0;
  return rvec(g->pos, 3) && rvec(g->quat, 4);
}

static int add_geom(mjSpec* s, const GeomIn* gi, const char* name) {
  mjsBody* w = mjs_findBody(s, "world");
  if (!w) return 0;
  mjsGeom* g = mjs_addGeom(w, NULL);
  if (!g) return 0;
  mjs_setName(g->element, name);
  g->type = (mjtGeom)geomtype_of(gi->kind);
  for (int i = 0; i < 3; i++) { g->size[i] = gi->size[i]; g->pos[i] = gi->pos[i]; }
  for (int i = 0; i < 4; i++) g->quat[i] = gi->quat[i];
  if (gi->kind == K_MESH) {
    mjsMesh* me = mjs_addMesh(s, NULL);
    if (!me) return 0;
    char mname[32]; snprintf(mname, sizeof(mname), "m_%s", name);
    mjs_setName(me->element, mname);
    float* fv = (float*)malloc(sizeof(float) * 3 * gi->nv);
    for (int i = 0; i < 3 * gi->nv; i++) fv[i] = (float)gi->verts[i];
    mjs_setFloat(me->uservert, fv, 3 * gi->nv);
    free(fv);
    mjs_setString(g->meshname, mname);
  }
  return 1;
}

static void print_geom(const mjModel* m, const mjData* d, int g) {
  int t = m->geom_type[g];
  printf(" %s", kindname(t));
  if (t == mjGEOM_MESH) {
    int id = m->geom_dataid[g], adr = m->mesh_vertadr[id], nv = m->mesh_vertnum[id];
    printf(" %d", nv);
    for (int i = 0; i < 3 * nv; i++) { putchar(' '); pbits((double)m->mesh_vert[3 * adr + i]); }
  } else {
    pvec(m->geom_size + 3 * g, 3);
  }
  pvec(d->geom_xpos + 3 * g, 3); pvec(d->geom_xmat + 9 * g, 9);
}

static void run_ccd(const mjModel* m, mjData* d, int ga, int gb, double tol, int iters, double cutoff) {
  mj_markStack(d);
  mjCCDConfig config; mjCCDStatus status;
  memset(&status, 0, sizeof(status));
  config.max_iterations = iters; config.tolerance = tol;
  config.npolygonmax = 0; config.nmeshdegmax = 0;
  config.max_contacts = 1; config.dist_cutoff = cutoff;
  config.buffer = mj_stackAllocByte(d, mjc_ccdSize(0, 0, iters), sizeof(mjtNum));
  mjCCDObj o1, o2;
  mjc_initCCDObj(&o1, m, d, ga, 0);
  mjc_initCCDObj(&o2, m, d, gb, 0);
  double dist = mjc_ccd(&config, &status, &o1, &o2);
  mj_freeStack(d);
  putchar(' '); pbits(dist);
  printf(" %d %d %d %d %d", status.nx, status.separated, status.gjk_iterations, status.epa_iterations,
         (int)status.epa_status);
  if (status.nx > 0) { pvec(status.x1, 3); pvec(status.x2, 3); }
  else { double z[6] = {0, 0, 0, 0, 0, 0}; pvec(z, 6); }
}

static void run_dist(const mjModel* m, mjData* d, int ga, int gb, double cutoff) {
  int t1 = m->geom_type[ga], t2 = m->geom_type[gb];
  int a = t1 > t2 ? t2 : t1, b = t1 > t2 ? t1 : t2;
  mjfCollision f = mjCOLLISIONFUNC[a][b];
  int ccdpath = (f == mjc_Convex || f == mjc_BoxBox) && !(m->opt.disableflags & mjDSBL_NATIVECCD);
  double fromto[6] = {NAN, NAN, NAN, NAN, NAN, NAN};
  double dist = mj_geomDistance(m, d, ga, gb, cutoff, fromto);
  printf(" %d ", ccdpath); pbits(dist); pvec(fromto, 6);
}

static void run_convex(const mjModel* m, mjData* d, int ga, int gb, double margin) {
  mjPreContact con[mjMAXCONPAIR];
  memset(con, 0, sizeof(con));
  int n = mjc_Convex(m, d, con, ga, gb, margin);
  printf(" %d", n);
  for (int i = 0; i < n && i < mjMAXCONPAIR; i++) {
    putchar(' '); pbits(con[i].dist); pvec(con[i].pos, 3); pvec(con[i].normal, 3);
  }
}

static void do_pair(void) {
  GeomIn g1, g2; double tol, cutoff, distmax, margin; long iters;
  int ok = read_geom(&g1) && read_geom(&g2) && rbits(next(), &tol) && rint_(next(), &iters) &&
           rbits(next(), &cutoff) && rbits(next(), &distmax) && rbits(next(), &margin) && !next() &&
           iters >= 1 && iters <= 100000 && tol >= 0 && cutoff >= 0 && distmax >= 0 && margin >= 0;
  if (!ok) { puts("bad-op"); free(g1.verts); free(g2.verts); return; }
  mjSpec* volatile s = NULL; mjModel* volatile m = NULL; mjData* volatile d = NULL;
  errarmed = 1;
  if (setjmp(errjmp)) {
    errarmed = 0;
    printf("error %s\n", errmsg);
  } else {
    s = mj_makeSpec();
    if (!add_geom(s, &g1, "a") || !add_geom(s, &g2, "b")) { printf("error cannot add geoms\n"); goto done; }
    m = mj_compile(s, NULL);
    if (!m) { printf("error compile: %s\n", mjs_getError(s)); goto done; }
    if (m->ngeom != 2) { printf("error ngeom=%d\n", (int)m->ngeom); goto done; }
    m->opt.ccd_tolerance = tol; m->opt.ccd_iterations = (int)iters;
    d = mj_makeData(m);
    mj_kinematics(m, d);
    printf("G"); print_geom(m, d, 0); print_geom(m, d, 1);
    printf(" C");  run_ccd(m, d, 0, 1, tol, (int)iters, cutoff);
    printf(" CS"); run_ccd(m, d, 1, 0, tol, (int)iters, cutoff);
    printf(" D");  run_dist(m, d, 0, 1, distmax);
    printf(" DS"); run_dist(m, d, 1, 0, distmax);
    printf(" V");  run_convex(m, d, 0, 1, margin);
    printf(" VS"); run_convex(m, d, 1, 0, margin);
    putchar('\n');
  }
done:
  errarmed = 0;
  if (d) mj_deleteData(d);
  if (m) mj_deleteModel(m);
  if (s) mj_deleteSpec(s);
  free(g1.verts); free(g2.verts);
}

int main(void) {
  mju_user_error = on_error;
  mju_user_warning = on_warning;
  size_t cap = 1 << 20; char* line = (char*)malloc(cap);
  while (1) {
    size_t len = 0; int c;
    while ((c = getchar()) != EOF && c != '\n') {
      if (len + 2 > cap) { cap *= 2; line = (char*)realloc(line, cap); }
      line[len++] = (char)c;
    }
    if (c == EOF && len == 0) break;
    line[len] = 0;
    ntok = 0; itok = 0;
    for (char* p = strtok(line, " \t\r"); p && ntok < MAXTOK; p = strtok(NULL, " \t\r")) tok[ntok++] = p;
    const char* op = next();
    if (!op) puts("bad-op");
    else if (!strcmp(op, "supp")) do_supp();
    else if (!strcmp(op, "msupp")) do_msupp();
    else if (!strcmp(op, "pair")) do_pair();
    else puts("bad-op");
    fflush(stdout);
    if (c == EOF) break;
  }
  return 0;
}
