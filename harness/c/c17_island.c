// C17 implementation-side driver: calls the exported union-find / flood-fill helpers of
// src/engine/engine_island.c and the real mj_island (through mj_forward / mj_step on scenes built with the
// mjSpec C API).  Same line protocol as lean/Drivers/C17.lean for `dsu` and `ff`; `scene` lines dump the
// engine's island arrays together with the raw constraint data (efc_type, efc_id, Jacobian non-zeros per
// row) from which checks/c17.py derives the model input and the independent oracle.
#include <math.h>
#include <setjmp.h>
#include <stdio.h>
#include <stdlib.h>
#include <string.h>
#include <sys/wait.h>
#include <unistd.h>
#include <mujoco/mujoco.h>
#include "engine/engine_island.h"

static jmp_buf errjmp;
static int errarmed = 0;
static char errmsg[512];
static void on_error(const char* msg) {
  strncpy(errmsg, msg, sizeof(errmsg) - 1);
  if (errarmed) longjmp(errjmp, 1);
  fprintf(stderr, "mujoco error: %s\n", msg);
  exit(3);
}
static void on_warning(const char* msg) { (void)msg; }

#define CANARY 0x5a5a5a5a

static void print_ints(const int* a, int n) {
  for (int i = 0; i < n; i++) printf(i ? " %d" : "%d", a[i]);
}

// ------------------------------------------------------------------ tokenising helpers
static int parse_int(const char* tok, long* out) {
  char* end; if (!tok || !*tok) return 0;
  long v = strtol(tok, &end, 10);
  if (*end) return 0;
  *out = v; return 1;
}

// split `s` in place on character c; returns number of pieces (pointers in out, at most cap)
static int split(char* s, char c, char** out, int cap) {
  int n = 0; out[n++] = s;
  for (char* p = s; *p; p++) if (*p == c) { *p = 0; if (n < cap) out[n++] = p + 1; else return -1; }
  return n;
}

// parse a whitespace separated int list; returns count or -1 on malformed token
static int parse_list(char* s, int** out) {
  int cap = 16, n = 0; int* a = malloc(cap * sizeof(int));
  char* save; for (char* tok = strtok_r(s, " \t\r\n", &save); tok; tok = strtok_r(NULL, " \t\r\n", &save)) {
    long v; if (!parse_int(tok, &v)) { free(a); return -1; }
    if (n == cap) { cap *= 2; a = realloc(a, cap * sizeof(int)); }
    a[n++] = (int)v;
  }
  *out = a; return n;
}

// ------------------------------------------------------------------ dsu sessions
static void do_dsu(char* line) {
  static char* segs[1 << 16];
  int nseg = split(line, ';', segs, 1 << 16);
  if (nseg < 1) { printf("bad-op\n"); return; }
  int* hd; int nh = parse_list(segs[0] + 3, &hd);   // after "dsu"
  if (nh < 1 || hd[0] < 0 || nh != hd[0] + 1) { if (nh >= 0) free(hd); printf("bad-op\n"); return; }
  int n = hd[0];
  int* dofnum = hd + 1;
  // validate all ops first (the model rejects the whole line)
  typedef struct { int kind, a, b; } op_t;
  op_t* ops = malloc((nseg + 1) * sizeof(op_t));
  int nops = 0, bad = 0;
  for (int i = 1; i < nseg && !bad; i++) {
    char* save; char* k = strtok_r(segs[i], " \t\r\n", &save);
    char* x = strtok_r(NULL, " \t\r\n", &save);
    char* y = strtok_r(NULL, " \t\r\n", &save);
    char* z = strtok_r(NULL, " \t\r\n", &save);
    long a, b;
    if (k && (!strcmp(k, "m") || !strcmp(k, "q")) && parse_int(x, &a) && parse_int(y, &b) && !z &&
        a >= -1 && a < n && b >= -1 && b < n) { ops[nops++] = (op_t){k[0] == 'm' ? 0 : 3, (int)a, (int)b}; }
    else if (k && !strcmp(k, "r") && parse_int(x, &a) && !y && a >= 0 && a < n && x[0] != '-' && x[0] != '+') { ops[nops++] = (op_t){1, (int)a, 0}; }
    else if (k && !strcmp(k, "A") && !x) { ops[nops++] = (op_t){2, 0, 0}; }
    else bad = 1;
  }
  if (bad) { printf("bad-op\n"); free(ops); free(hd); return; }
  // parent and island with canaries on both sides
  int* pbuf = malloc((n + 2) * sizeof(int)); int* parent = pbuf + 1;
  int* ibuf = malloc((n + 2) * sizeof(int)); int* island = ibuf + 1;
  pbuf[0] = pbuf[n + 1] = ibuf[0] = ibuf[n + 1] = CANARY;
  for (int i = 0; i < n; i++) parent[i] = -1;
  for (int i = 0; i < nops; i++) {
    if (i) printf(" | ");
    if (ops[i].kind == 0 || ops[i].kind == 3) {
      errarmed = 1;
      if (setjmp(errjmp)) { errarmed = 0; printf("error"); continue; }
      mj_dsuMerge(parent, ops[i].a, ops[i].b);
      errarmed = 0;
      printf("ok"); if (ops[i].kind == 0) for (int j = 0; j < n; j++) printf(" %d", parent[j]);
    } else if (ops[i].kind == 1) {
      if (parent[ops[i].a] < 0) { printf("undef"); continue; }   // documented precondition of mj_dsuRoot
      int r = mj_dsuRoot(parent, ops[i].a);
      printf("%d : ", r); print_ints(parent, n);
    } else {
      int nidof = -12345;
      for (int j = 0; j < n; j++) island[j] = -777;   // poison: never-written entries would show
      int nisland = mj_dsuAssign(island, parent, dofnum, n, &nidof);
      printf("%d %d : ", nisland, nidof); print_ints(island, n); printf(" : "); print_ints(parent, n);
    }
    if (pbuf[0] != CANARY || pbuf[n + 1] != CANARY || ibuf[0] != CANARY || ibuf[n + 1] != CANARY) printf(" canary-overwritten");
  }
  printf("\n");
  free(pbuf); free(ibuf); free(ops); free(hd);
}

// ------------------------------------------------------------------ flood fill
static void do_ff(char* line) {
  char* f[8];
  int nf = split(line, ':', f, 8);
  if (nf != 4) { printf("bad-op\n"); return; }
  int *hd = NULL, *nnz = NULL, *adr = NULL, *col = NULL;
  int nh = parse_list(f[0] + 2, &hd), nn = parse_list(f[1], &nnz), na = parse_list(f[2], &adr), nc = parse_list(f[3], &col);
  int ok = nh == 1 && nn >= 0 && na >= 0 && nc >= 0 && hd[0] >= 0 && nn == hd[0] && na == hd[0];
  int nr = ok ? hd[0] : 0;
  long tot = 0;
  for (int i = 0; ok && i < nr; i++) {
    if (nnz[i] < 0 || adr[i] < 0 || (long)adr[i] + nnz[i] > nc) ok = 0;
    tot += nnz[i];
  }
  for (int i = 0; ok && i < nc; i++) if (col[i] < 0 || col[i] >= nr) ok = 0;
  if (!ok) { printf("bad-op\n"); goto done; }
  {
    int* ibuf = malloc((nr + 2) * sizeof(int)); int* island = ibuf + 1;
    int* sbuf = malloc((tot + 3) * sizeof(int)); int* stack = sbuf + 1;
    ibuf[0] = ibuf[nr + 1] = sbuf[0] = sbuf[tot + 1] = sbuf[tot + 2] = CANARY;
    for (int i = 0; i < nr; i++) island[i] = -777;
    int nisland = mj_floodFill(island, nr, nnz, adr, col, stack);
    printf("%d : ", nisland); print_ints(island, nr);
    // stack capacity: sum of rownnz entries (the documented nnz), checked by the canary right behind it
    if (ibuf[0] != CANARY || ibuf[nr + 1] != CANARY || sbuf[0] != CANARY || sbuf[tot + 1] != CANARY) printf(" canary-overwritten");
    printf("\n");
    free(ibuf); free(sbuf);
  }
done:
  if (nh >= 0) free(hd); if (nn >= 0) free(nnz); if (na >= 0) free(adr); if (nc >= 0) free(col);
}

// ------------------------------------------------------------------ scenes
static unsigned long long rs;
static double rnd(void) {   // xorshift64*, uniform in [0,1)
  rs ^= rs >> 12; rs ^= rs << 25; rs ^= rs >> 27;
  return (double)((rs * 2685821657736338717ULL) >> 11) / 9007199254740992.0;
}
static double runi(double a, double b) { return a + (b - a) * rnd(); }
static int rint_(int n) { int v = (int)(rnd() * n); return v >= n ? n - 1 : v; }

static void rand_axis(double* ax) {
  double n;
  do { for (int i = 0; i < 3; i++) ax[i] = runi(-1, 1); n = ax[0]*ax[0] + ax[1]*ax[1] + ax[2]*ax[2]; } while (n < 0.05 || n > 1);
}

static void add_shape(mjsBody* b, int condim, double scale) {
  mjsGeom* g = mjs_addGeom(b, NULL);
  int t = rint_(3);
  g->type = t == 0 ? mjGEOM_SPHERE : t == 1 ? mjGEOM_CAPSULE : mjGEOM_BOX;
  g->size[0] = scale * runi(0.08, 0.14); g->size[1] = scale * runi(0.08, 0.14); g->size[2] = scale * runi(0.08, 0.14);
  if (t != 0) { double q[4] = {runi(-1,1), runi(-1,1), runi(-1,1), runi(-1,1)}; double n = sqrt(q[0]*q[0]+q[1]*q[1]+q[2]*q[2]+q[3]*q[3]) + 1e-9;
                for (int i = 0; i < 4; i++) g->quat[i] = q[i] / n; }
  g->condim = condim;
}

// scene SEED NFREE NCHAIN NEQ NJEQ NTENDON JAC CONE STEPS SPREAD NFLEX
//   JAC 0 dense 1 sparse; CONE 0 pyramidal 1 elliptic
static FILE* so;   // output of the current scene (memory stream inside the forked child)
static void sprint_ints(const int* a, int n) { for (int i = 0; i < n; i++) fprintf(so, i ? " %d" : "%d", a[i]); }

static void scene_body(char* line) {
  int* a; int na = parse_list(line + 5, &a);
  if (na != 11) { if (na >= 0) free(a); fprintf(so, "bad-op\n"); return; }
  for (int i = 0; i < 11; i++) if (a[i] < 0) { free(a); fprintf(so, "bad-op\n"); return; }
  int seed = a[0], nfree = a[1], nchain = a[2], neq = a[3], njeq = a[4], ntendon = a[5], jac = a[6], cone = a[7], steps = a[8], spread = a[9], nflex = a[10];
  free(a);
  if (nfree > 400 || nchain > 200 || steps > 1000 || nflex > 20) { fprintf(so, "bad-op\n"); return; }
  rs = 0x9E3779B97F4A7C15ULL ^ ((unsigned long long)seed * 0xD1B54A32D192ED03ULL + 12345);
  for (int i = 0; i < 5; i++) rnd();

  mjSpec* s = mj_makeSpec();
  mjsBody* world = mjs_findBody(s, "world");
  mjsGeom* floor = mjs_addGeom(world, NULL);
  floor->type = mjGEOM_PLANE; floor->size[0] = 50; floor->size[1] = 50; floor->size[2] = 0.1;
  floor->condim = 3;
  char name[64];
  int nbody = 0;
  double L = 0.12 * (1 + spread) * (1 + sqrt((double)(nfree + 2 * nchain)));   // side of the populated square
  static const int condims[4] = {1, 3, 4, 6};
  // free bodies: some resting on / penetrating the floor, some floating, some overlapping each other
  for (int i = 0; i < nfree; i++) {
    mjsBody* b = mjs_addBody(world, NULL);
    snprintf(name, sizeof(name), "b%d", nbody++); mjs_setName(b->element, name);
    b->pos[0] = runi(0, L); b->pos[1] = runi(0, L);
    b->pos[2] = rnd() < 0.6 ? runi(0.03, 0.12) : runi(0.3, 1.2);
    mjs_addFreeJoint(b);
    add_shape(b, condims[rint_(4)], 1.0);
    if (rnd() < 0.2) add_shape(b, condims[rint_(4)], 0.8);
  }
  // chains: 1-3 links hanging from the world, hinge/slide joints with limits and friction loss
  int njnt = 0;
  for (int c = 0; c < nchain; c++) {
    int nlink = 1 + rint_(3);
    mjsBody* parent = world;
    double px = runi(0, L), py = runi(0, L), pz = runi(0.15, 0.6);
    for (int k = 0; k < nlink; k++) {
      mjsBody* b = mjs_addBody(parent, NULL);
      snprintf(name, sizeof(name), "b%d", nbody++); mjs_setName(b->element, name);
      if (k == 0) { b->pos[0] = px; b->pos[1] = py; b->pos[2] = pz; }
      else { b->pos[0] = runi(-0.2, 0.2); b->pos[1] = runi(-0.2, 0.2); b->pos[2] = runi(-0.25, -0.05); }
      int nj = 1 + (rnd() < 0.3);
      for (int q = 0; q < nj; q++) {
        mjsJoint* j = mjs_addJoint(b, NULL);
        snprintf(name, sizeof(name), "j%d", njnt++); mjs_setName(j->element, name);
        j->type = rnd() < 0.75 ? mjJNT_HINGE : mjJNT_SLIDE;
        rand_axis(j->axis);
        double r = rnd();
        if (r < 0.35) { j->limited = mjLIMITED_TRUE; j->range[0] = runi(0.05, 0.3); j->range[1] = j->range[0] + runi(0.1, 1); }   // violated at qpos0
        else if (r < 0.5) { j->limited = mjLIMITED_TRUE; j->range[0] = -1; j->range[1] = 1; }                                      // inactive
        if (rnd() < 0.35) j->frictionloss = runi(0.01, 0.5);
      }
      add_shape(b, condims[rint_(4)], 1.0);
      parent = b;
    }
  }
  // connect / weld equalities between random bodies (or a body and the world)
  for (int e = 0; e < neq && nbody > 0; e++) {
    mjsEquality* eq = mjs_addEquality(s, NULL);
    eq->type = rnd() < 0.5 ? mjEQ_CONNECT : mjEQ_WELD;
    eq->objtype = mjOBJ_BODY;
    int b1 = rint_(nbody), b2 = rint_(nbody + 1);
    snprintf(name, sizeof(name), "b%d", b1); mjs_setString(eq->name1, name);
    if (b2 == nbody || b2 == b1) mjs_setString(eq->name2, "world");
    else { snprintf(name, sizeof(name), "b%d", b2); mjs_setString(eq->name2, name); }
    if (eq->type == mjEQ_CONNECT) { eq->data[0] = runi(-0.1, 0.1); eq->data[1] = runi(-0.1, 0.1); eq->data[2] = runi(-0.1, 0.1); }
    if (rnd() < 0.15) eq->active = 0;
  }
  // joint equalities (generic Jacobian scan in treeNext)
  for (int e = 0; e < njeq && njnt > 1; e++) {
    mjsEquality* eq = mjs_addEquality(s, NULL);
    eq->type = mjEQ_JOINT; eq->objtype = mjOBJ_JOINT;
    int j1 = rint_(njnt), j2 = rint_(njnt);
    snprintf(name, sizeof(name), "j%d", j1); mjs_setString(eq->name1, name);
    if (j2 != j1 && rnd() < 0.85) { snprintf(name, sizeof(name), "j%d", j2); mjs_setString(eq->name2, name); }
    eq->data[0] = runi(-0.2, 0.2); eq->data[1] = runi(0.5, 1.5);
  }
  // fixed tendons over joints of several chains, with friction loss and/or a violated limit
  for (int t = 0; t < ntendon && njnt > 0; t++) {
    mjsTendon* td = mjs_addTendon(s, NULL);
    int k = 1 + rint_(3);
    int used[3] = {-1, -1, -1};
    for (int q = 0; q < k; q++) {
      int j = rint_(njnt), dup = 0;
      for (int u = 0; u < q; u++) if (used[u] == j) dup = 1;
      if (dup) { used[q] = -1; continue; }
      used[q] = j;
      snprintf(name, sizeof(name), "j%d", j);
      mjs_wrapJoint(td, name, (rnd() < 0.5 ? -1 : 1) * runi(0.3, 1.5));
    }
    double r = rnd();
    if (r < 0.6) td->frictionloss = runi(0.01, 0.3);
    if (r > 0.4) { td->limited = mjLIMITED_TRUE; td->range[0] = runi(0.05, 0.2); td->range[1] = td->range[0] + 1; }
  }
  // flexes: small cloth patches (dim 2) or cables (dim 1); every vertex is its own body with three sliders, i.e. its
  // own kinematic tree.  Stiffness-active flexes couple all their vertex trees without any constraint row.
  for (int f = 0; f < nflex; f++) {
    int nx = 2 + rint_(2), ny = 2 + rint_(2);
    int dim = rnd() < 0.8 ? 2 : 1;
    if (dim == 1) ny = 1;
    double ox = runi(0, L), oy = runi(0, L), oz = runi(0.0, 0.05);
    char names[2048] = "";
    for (int i = 0; i < nx; i++) for (int j = 0; j < ny; j++) {
      mjsBody* b = mjs_addBody(world, NULL);
      snprintf(name, sizeof(name), "f%dv%d", f, i * ny + j); mjs_setName(b->element, name);
      strcat(names, name); strcat(names, " ");
      b->pos[0] = ox + 0.1 * i; b->pos[1] = oy + 0.1 * j; b->pos[2] = oz + (rnd() < 0.5 ? 0.0 : runi(0.03, 0.3));
      b->mass = 0.01; b->inertia[0] = b->inertia[1] = b->inertia[2] = 1e-5;
      for (int ax = 0; ax < 3; ax++) { mjsJoint* jn = mjs_addJoint(b, NULL); jn->type = mjJNT_SLIDE; jn->axis[0] = ax == 0; jn->axis[1] = ax == 1; jn->axis[2] = ax == 2; }
    }
    mjsFlex* fx = mjs_addFlex(s);
    snprintf(name, sizeof(name), "flex%d", f); mjs_setName(fx->element, name);
    fx->dim = dim; fx->radius = 0.02; fx->thickness = 0.01;
    double r = rnd();
    if (r < 0.7) { fx->young = 1e4; int e2 = rnd() < 0.8 ? 3 : (rnd() < 0.5 ? 1 : 2); if (dim == 2) fx->elastic2d = e2; }   // else: no stiffness
    fx->condim = condims[rint_(2)];
    double* vert = calloc(3 * nx * ny, sizeof(double));
    mjs_setDouble(fx->vert, vert, 3 * nx * ny); free(vert);
    int elem[64], k = 0;
    if (dim == 2) for (int i = 0; i < nx - 1; i++) for (int j = 0; j < ny - 1; j++) {
      int a0 = i * ny + j, b0 = (i + 1) * ny + j, c0 = i * ny + j + 1, d0 = (i + 1) * ny + j + 1;
      elem[k++] = a0; elem[k++] = b0; elem[k++] = c0; elem[k++] = b0; elem[k++] = d0; elem[k++] = c0;
    } else for (int i = 0; i < nx - 1; i++) { elem[k++] = i; elem[k++] = i + 1; }
    mjs_setInt(fx->elem, elem, k);
    mjs_setStringVec(fx->vertbody, names);
    if (rnd() < 0.4) {   // edge-length equality: one scalar row per edge, tree pattern changes per row
      mjsEquality* eq = mjs_addEquality(s, NULL);
      eq->type = mjEQ_FLEX; eq->objtype = mjOBJ_FLEX;
      mjs_setString(eq->name1, name);
    }
  }
  s->option.disableflags |= mjDSBL_ISLAND;   // mj_compile runs the engine: keep island discovery out of it (enabled below)
  s->memory = (mjtSize)1 << 29;   // 512 MB arena+stack: large scenes must not run into resource errors
  s->option.jacobian = jac ? mjJAC_SPARSE : mjJAC_DENSE;
  s->option.cone = cone ? mjCONE_ELLIPTIC : mjCONE_PYRAMIDAL;

  errarmed = 1;
  mjModel* m = NULL; mjData* d = NULL;
  if (setjmp(errjmp)) {
    errarmed = 0;
    for (char* c = errmsg; *c; c++) if (*c == '\n' || *c == '\r') *c = ' ';
    fprintf(so, "engine-error %s\n", errmsg);
    if (d) mj_deleteData(d); if (m) mj_deleteModel(m); mj_deleteSpec(s);
    return;
  }
  m = mj_compile(s, NULL);
  if (!m) {
    errarmed = 0;
    char msg[400]; strncpy(msg, mjs_getError(s), sizeof(msg) - 1); msg[sizeof(msg) - 1] = 0;
    for (char* c = msg; *c; c++) if (*c == '\n' || *c == '\r') *c = ' ';
    fprintf(so, "compile-error %s\n", msg); mj_deleteSpec(s); return;
  }
  m->opt.disableflags &= ~mjDSBL_ISLAND;
  d = mj_makeData(m);
  for (int k = 0; k < steps; k++) mj_step(m, d);
  mj_fwdPosition(m, d);   // position stage only: constraints + mj_island, no solver
  errarmed = 0;

  int nv = m->nv, nefc = d->nefc, ntree = m->ntree, nisland = d->nisland;
  fprintf(so, "ntree=%d nv=%d nefc=%d ncon=%d nisland=%d nidof=%d sparse=%d warn=%d", ntree, nv, nefc, d->ncon, nisland, d->nidof,
         mj_isSparse(m), d->warning[mjWARN_CNSTRFULL].number + d->warning[mjWARN_CONTACTFULL].number);
  fprintf(so, " | dof_treeid "); sprint_ints(m->dof_treeid, nv);
  fprintf(so, " | tree_dofnum "); sprint_ints(m->tree_dofnum, ntree);
  fprintf(so, " | tree_dofadr "); sprint_ints(m->tree_dofadr, ntree);
  fprintf(so, " | eq_type "); sprint_ints(m->eq_type, m->neq);
  fprintf(so, " | tree_awake "); sprint_ints(d->tree_awake, ntree);
  // raw flex data: rigid dim stiffness!=0 bendingadr interp, and the trees of the vertex bodies
  fprintf(so, " | flexinfo ");
  for (int f = 0; f < m->nflex; f++) {
    int sadr = m->flex_stiffnessadr[f];
    fprintf(so, f ? " ; %d %d %d %d %d" : "%d %d %d %d %d", (int)m->flex_rigid[f], m->flex_dim[f],
           sadr >= 0 ? (m->flex_stiffness[sadr] != 0) : -1, m->flex_bendingadr[f], (int)m->flex_interp[f]);
  }
  fprintf(so, " | flextrees ");
  for (int f = 0; f < m->nflex; f++) {
    if (f) fprintf(so, " ;");
    for (int v = 0; v < m->flex_vertnum[f]; v++) fprintf(so, " %d", m->body_treeid[m->flex_vertbodyid[m->flex_vertadr[f] + v]]);
  }
  fprintf(so, " | efc_type "); sprint_ints(d->efc_type, nefc);
  fprintf(so, " | efc_id "); sprint_ints(d->efc_id, nefc);
  // dofs with a non-zero Jacobian entry, per row (values; for sparse J the stored entries that are non-zero)
  fprintf(so, " | rowdofs ");
  for (int i = 0; i < nefc; i++) {
    if (i) fprintf(so, " ;");
    if (mj_isSparse(m)) {
      for (int k = 0; k < d->efc_J_rownnz[i]; k++)
        if (d->efc_J[d->efc_J_rowadr[i] + k] != 0) fprintf(so, " %d", d->efc_J_colind[d->efc_J_rowadr[i] + k]);
    } else {
      for (int j = 0; j < nv; j++) if (d->efc_J[(size_t)i * nv + j] != 0) fprintf(so, " %d", j);
    }
  }
  // structural information for contacts: trees of the two geoms' bodies
  fprintf(so, " | contact_trees ");
  for (int c = 0; c < d->ncon; c++) {
    int g1 = d->contact[c].geom[0], g2 = d->contact[c].geom[1];
    int t1 = g1 >= 0 ? m->body_treeid[m->geom_bodyid[g1]] : -9, t2 = g2 >= 0 ? m->body_treeid[m->geom_bodyid[g2]] : -9;
    fprintf(so, c ? " ; %d %d" : "%d %d", t1, t2);
  }
  if (nisland > 0) {
#define DUMP(name, n) fprintf(so, " | " #name " "); sprint_ints(d->name, n);
    DUMP(tree_island, ntree) DUMP(island_ntree, nisland) DUMP(island_itreeadr, nisland) DUMP(map_itree2tree, ntree)
    DUMP(dof_island, nv) DUMP(island_nv, nisland) DUMP(island_idofadr, nisland) DUMP(map_dof2idof, nv)
    DUMP(map_idof2dof, nv) DUMP(island_dofadr, nisland) DUMP(efc_island, nefc) DUMP(island_nefc, nisland)
    DUMP(island_iefcadr, nisland) DUMP(map_efc2iefc, nefc) DUMP(map_iefc2efc, nefc)
    DUMP(island_ne, nisland) DUMP(island_nf, nisland) DUMP(iefc_type, nefc) DUMP(iefc_id, nefc)
#undef DUMP
  }
  fprintf(so, "\n");
  mj_deleteData(d); mj_deleteModel(m); mj_deleteSpec(s);
}


// every scene runs in a forked child, so that a crash of the engine is reported for that scene only
static void do_scene(char* line) {
  fflush(stdout);
  int fd[2];
  if (pipe(fd)) { printf("infra-error pipe\n"); return; }
  pid_t pid = fork();
  if (pid == 0) {
    close(fd[0]);
    char* buf = NULL; size_t len = 0;
    so = open_memstream(&buf, &len);
    scene_body(line);
    fflush(so);
    size_t off = 0;
    while (off < len) { ssize_t w = write(fd[1], buf + off, len - off); if (w <= 0) _exit(4); off += w; }
    _exit(0);
  }
  close(fd[1]);
  size_t cap = 1 << 16, len = 0; char* buf = malloc(cap);
  for (;;) {
    if (len + 4096 > cap) { cap *= 2; buf = realloc(buf, cap); }
    ssize_t r = read(fd[0], buf + len, cap - len);
    if (r <= 0) break;
    len += r;
  }
  close(fd[0]);
  int st = 0; waitpid(pid, &st, 0);
  if (WIFEXITED(st) && WEXITSTATUS(st) == 0 && len > 0 && buf[len - 1] == '\n') fwrite(buf, 1, len, stdout);
  else if (WIFSIGNALED(st)) printf("crash signal=%d\n", WTERMSIG(st));
  else printf("crash exit=%d\n", WIFEXITED(st) ? WEXITSTATUS(st) : -1);
  free(buf);
}

int main(void) {
  mju_user_error = on_error;
  mju_user_warning = on_warning;
  size_t cap = 1 << 24; char* line = malloc(cap);
  while (fgets(line, cap, stdin)) {
    size_t len = strlen(line);
    while (len && (line[len - 1] == '\n' || line[len - 1] == '\r')) line[--len] = 0;
    char* p = line; while (*p == ' ') p++;
    if (!strncmp(p, "dsu", 3) && (p[3] == ' ' || p[3] == 0)) do_dsu(p);
    else if (!strncmp(p, "ff", 2) && (p[2] == ' ' || p[2] == ':')) do_ff(p);
    else if (!strncmp(p, "scene ", 6)) do_scene(p);
    else printf("bad-op\n");
    fflush(stdout);
  }
  return 0;
}
