// C17 implementation-side driver: calls the exported union-find / flood-fill helpers of
// src/engine/engine_island.c and the real mj_island (through mj_forward / mj_step on scenes built with the
// mjSpec C API).  Same line protocol as lean/Drivers/C17.lean for `dsu` and `ff`; `scene` lines dump the
// engine's island arrays together with the raw constraint data (efc_type, efc_id, Jacobian non-zeros per
// row) from which checks/c17.py derives the model input and the independent oracle.
#include <math.h>
#include <setjmp.h>
#include <stdio.h>
#include <stdlib.h>
#include <string.h>
#include <mujoco/mujoco.h>
#include "engine/engine_island.h"

static jmp_buf errjmp;
static int errarmed = 0;
static char errmsg[512];
static void on_error(const char* msg) {
  strncpy(errmsg, msg, sizeof(errmsg) - 1);
  if (errarmed) longjmp(errjmp, 1);
  fprintf(stderr, "mujoco error: %s\n", msg);
  exit(3);
}
static void on_warning(const char* msg) { (void)msg; }

#define CANARY 0x5a5a5a5a

static void print_ints(const int* a, int n) {
  for (int i = 0; i < n; i++) printf(i ? " %d" : "%d", a[i]);
}

// ------------------------------------------------------------------ tokenising helpers
static int parse_int(const char* tok, long* out) {
  char* end; if (!tok || !*tok) return 0;
  long v = strtol(tok, &end, 10);
  if (*end) return 0;
  *out = v; return 1;
}

// split `s` in place on character c; returns number of pieces (pointers in out, at most cap)
static int split(char* s, char c, char** out, int cap) {
  int n = 0; out[n++] = s;
  for (char* p = s; *p; p++) if (*p == c) { *p = 0; if (n < cap) out[n++] = p + 1; else return -1; }
  return n;
}

// parse a whitespace separated int list; returns count or -1 on malformed token
static int parse_list(char* s, int** out) {
  int cap = 16, n = 0; int* a = malloc(cap * sizeof(int));
  char* save; for (char* tok = strtok_r(s, " \t\r\n", &save); tok; tok = strtok_r(NULL, " \t\r\n", &save)) {
    long v; if (!parse_int(tok, &v)) { free(a); return -1; }
    if (n == cap) { cap *= 2; a = realloc(a, cap * sizeof(int)); }
    a[n++] = (int)v;
  }
  *out = a; return n;
}

// ------------------------------------------------------------------ dsu sessions
static void do_dsu(char* line) {
  static char* segs[1 << 16];
  int nseg = split(line, ';', segs, 1 << 16);
  if (nseg < 1) { printf("bad-op\n"); return; }
  int* hd; int nh = parse_list(segs[0] + 3, &hd);   // after "dsu"
  if (nh < 1 || hd[0] < 0 || nh != hd[0] + 1) { if (nh >= 0) free(hd); printf("bad-op\n"); return; }
  int n = hd[0];
  int* dofnum = hd + 1;
  // validate all ops first (the model rejects the whole line)
  typedef struct { int kind, a, b; } op_t;
  op_t* ops = malloc((nseg + 1) * sizeof(op_t));
  int nops = 0, bad = 0;
  for (int i = 1; i < nseg && !bad; i++) {
    char* save; char* k = strtok_r(segs[i], " \t\r\n", &save);
    char* x = strtok_r(NULL, " \t\r\n", &save);
    char* y = strtok_r(NULL, " \t\r\n", &save);
    char* z = strtok_r(NULL, " \t\r\n", &save);
    long a, b;
    if (k && !strcmp(k, "m") && parse_int(x, &a) && parse_int(y, &b) && !z &&
        a >= -1 && a < n && b >= -1 && b < n) { ops[nops++] = (op_t){0, (int)a, (int)b}; }
    else if (k && !strcmp(k, "r") && parse_int(x, &a) && !y && a >= 0 && a < n && x[0] != '-' && x[0] != '+') { ops[nops++] = (op_t){1, (int)a, 0}; }
    else if (k && !strcmp(k, "A") && !x) { ops[nops++] = (op_t){2, 0, 0}; }
    else bad = 1;
  }
  if (bad) { printf("bad-op\n"); free(ops); free(hd); return; }
  // parent and island with canaries on both sides
  int* pbuf = malloc((n + 2) * sizeof(int)); int* parent = pbuf + 1;
  int* ibuf = malloc((n + 2) * sizeof(int)); int* island = ibuf + 1;
  pbuf[0] = pbuf[n + 1] = ibuf[0] = ibuf[n + 1] = CANARY;
  for (int i = 0; i < n; i++) parent[i] = -1;
  for (int i = 0; i < nops; i++) {
    if (i) printf(" | ");
    if (ops[i].kind == 0) {
      errarmed = 1;
      if (setjmp(errjmp)) { errarmed = 0; printf("error"); continue; }
      mj_dsuMerge(parent, ops[i].a, ops[i].b);
      errarmed = 0;
      printf("ok"); for (int j = 0; j < n; j++) printf(" %d", parent[j]);
    } else if (ops[i].kind == 1) {
      if (parent[ops[i].a] < 0) { printf("undef"); continue; }   // documented precondition of mj_dsuRoot
      int r = mj_dsuRoot(parent, ops[i].a);
      printf("%d : ", r); print_ints(parent, n);
    } else {
      int nidof = -12345;
      for (int j = 0; j < n; j++) island[j] = -777;   // poison: never-written entries would show
      int nisland = mj_dsuAssign(island, parent, dofnum, n, &nidof);
      printf("%d %d : ", nisland, nidof); print_ints(island, n); printf(" : "); print_ints(parent, n);
    }
    if (pbuf[0] != CANARY || pbuf[n + 1] != CANARY || ibuf[0] != CANARY || ibuf[n + 1] != CANARY) printf(" canary-overwritten");
  }
  printf("\n");
  free(pbuf); free(ibuf); free(ops); free(hd);
}

// ------------------------------------------------------------------ flood fill
static void do_ff(char* line) {
  char* f[8];
  int nf = split(line, ':', f, 8);
  if (nf != 4) { printf("bad-op\n"); return; }
  int *hd = NULL, *nnz = NULL, *adr = NULL, *col = NULL;
  int nh = parse_list(f[0] + 2, &hd), nn = parse_list(f[1], &nnz), na = parse_list(f[2], &adr), nc = parse_list(f[3], &col);
  int ok = nh == 1 && nn >= 0 && na >= 0 && nc >= 0 && hd[0] >= 0 && nn == hd[0] && na == hd[0];
  int nr = ok ? hd[0] : 0;
  long tot = 0;
  for (int i = 0; ok && i < nr; i++) {
    if (nnz[i] < 0 || adr[i] < 0 || (long)adr[i] + nnz[i] > nc) ok = 0;
    tot += nnz[i];
  }
  for (int i = 0; ok && i < nc; i++) if (col[i] < 0 || col[i] >= nr) ok = 0;
  if (!ok) { printf("bad-op\n"); goto done; }
  {
    int* ibuf = malloc((nr + 2) * sizeof(int)); int* island = ibuf + 1;
    int* sbuf = malloc((tot + 3) * sizeof(int)); int* stack = sbuf + 1;
    ibuf[0] = ibuf[nr + 1] = sbuf[0] = sbuf[tot + 1] = sbuf[tot + 2] = CANARY;
    for (int i = 0; i < nr; i++) island[i] = -777;
    int nisland = mj_floodFill(island, nr, nnz, adr, col, stack);
    printf("%d : ", nisland); print_ints(island, nr);
    // stack capacity: sum of rownnz entries (the documented nnz), checked by the canary right behind it
    if (ibuf[0] != CANARY || ibuf[nr + 1] != CANARY || sbuf[0] != CANARY || sbuf[tot + 1] != CANARY) printf(" canary-overwritten");
    printf("\n");
    free(ibuf); free(sbuf);
  }
done:
  if (nh >= 0) free(hd); if (nn >= 0) free(nnz); if (na >= 0) free(adr); if (nc >= 0) free(col);
}

// ------------------------------------------------------------------ scenes
static unsigned long long rs;
static double rnd(void) {   // xorshift64*, uniform in [0,1)
  rs ^= rs >> 12; rs ^= rs << 25; rs ^= rs >> 27;
  return (double)((rs * 2685821657736338717ULL) >> 11) / 9007199254740992.0;
}
static double runi(double a, double b) { return a + (b - a) * rnd(); }
static int rint_(int n) { int v = (int)(rnd() * n); return v >= n ? n - 1 : v; }

static void rand_axis(double* ax) {
  double n;
  do { for (int i = 0; i < 3; i++) ax[i] = runi(-1, 1); n = ax[0]*ax[0] + ax[1]*ax[1] + ax[2]*ax[2]; } while (n < 0.05 || n > 1);
}

static void add_shape(mjsBody* b, int condim, double scale) {
  mjsGeom* g = mjs_addGeom(b, NULL);
  int t = rint_(3);
  g->type = t == 0 ? mjGEOM_SPHERE : t == 1 ? mjGEOM_CAPSULE : mjGEOM_BOX;
  g->size[0] = scale * runi(0.08, 0.14); g->size[1] = scale * runi(0.08, 0.14); g->size[2] = scale * runi(0.08, 0.14);
  if (t != 0) { double q[4] = {runi(-1,1), runi(-1,1), runi(-1,1), runi(-1,1)}; double n = sqrt(q[0]*q[0]+q[1]*q[1]+q[2]*q[2]+q[3]*q[3]) + 1e-9;
                for (int i = 0; i < 4; i++) g->quat[i] = q[i] / n; }
  g->condim = condim;
}

// scene SEED NFREE NCHAIN NEQ NJEQ NTENDON JAC CONE STEPS SPREAD
//   JAC 0 dense 1 sparse; CONE 0 pyramidal 1 elliptic
static void do_scene(char* line) {
  int* a; int na = parse_list(line + 5, &a);
  if (na != 10) { if (na >= 0) free(a); printf("bad-op\n"); return; }
  for (int i = 0; i < 10; i++) if (a[i] < 0) { free(a); printf("bad-op\n"); return; }
  int seed = a[0], nfree = a[1], nchain = a[2], neq = a[3], njeq = a[4], ntendon = a[5], jac = a[6], cone = a[7], steps = a[8], spread = a[9];
  free(a);
  if (nfree > 400 || nchain > 200 || steps > 1000) { printf("bad-op\n"); return; }
  rs = 0x9E3779B97F4A7C15ULL ^ ((unsigned long long)seed * 0xD1B54A32D192ED03ULL + 12345);
  for (int i = 0; i < 5; i++) rnd();

  mjSpec* s = mj_makeSpec();
  mjsBody* world = mjs_findBody(s, "world");
  mjsGeom* floor = mjs_addGeom(world, NULL);
  floor->type = mjGEOM_PLANE; floor->size[0] = 50; floor->size[1] = 50; floor->size[2] = 0.1;
  floor->condim = 3;
  char name[64];
  int nbody = 0;
  double L = 0.12 * (1 + spread) * (1 + sqrt((double)(nfree + 2 * nchain)));   // side of the populated square
  static const int condims[4] = {1, 3, 4, 6};
  // free bodies: some resting on / penetrating the floor, some floating, some overlapping each other
  for (int i = 0; i < nfree; i++) {
    mjsBody* b = mjs_addBody(world, NULL);
    snprintf(name, sizeof(name), "b%d", nbody++); mjs_setName(b->element, name);
    b->pos[0] = runi(0, L); b->pos[1] = runi(0, L);
    b->pos[2] = rnd() < 0.6 ? runi(0.03, 0.12) : runi(0.3, 1.2);
    mjs_addFreeJoint(b);
    add_shape(b, condims[rint_(4)], 1.0);
    if (rnd() < 0.2) add_shape(b, condims[rint_(4)], 0.8);
  }
  // chains: 1-3 links hanging from the world, hinge/slide joints with limits and friction loss
  int njnt = 0;
  for (int c = 0; c < nchain; c++) {
    int nlink = 1 + rint_(3);
    mjsBody* parent = world;
    double px = runi(0, L), py = runi(0, L), pz = runi(0.15, 0.6);
    for (int k = 0; k < nlink; k++) {
      mjsBody* b = mjs_addBody(parent, NULL);
      snprintf(name, sizeof(name), "b%d", nbody++); mjs_setName(b->element, name);
      if (k == 0) { b->pos[0] = px; b->pos[1] = py; b->pos[2] = pz; }
      else { b->pos[0] = runi(-0.2, 0.2); b->pos[1] = runi(-0.2, 0.2); b->pos[2] = runi(-0.25, -0.05); }
      int nj = 1 + (rnd() < 0.3);
      for (int q = 0; q < nj; q++) {
        mjsJoint* j = mjs_addJoint(b, NULL);
        snprintf(name, sizeof(name), "j%d", njnt++); mjs_setName(j->element, name);
        j->type = rnd() < 0.75 ? mjJNT_HINGE : mjJNT_SLIDE;
        rand_axis(j->axis);
        double r = rnd();
        if (r < 0.35) { j->limited = mjLIMITED_TRUE; j->range[0] = runi(0.05, 0.3); j->range[1] = j->range[0] + runi(0.1, 1); }   // violated at qpos0
        else if (r < 0.5) { j->limited = mjLIMITED_TRUE; j->range[0] = -1; j->range[1] = 1; }                                      // inactive
        if (rnd() < 0.35) j->frictionloss = runi(0.01, 0.5);
      }
      add_shape(b, condims[rint_(4)], 1.0);
      parent = b;
    }
  }
  // connect / weld equalities between random bodies (or a body and the world)
  for (int e = 0; e < neq && nbody > 0; e++) {
    mjsEquality* eq = mjs_addEquality(s, NULL);
    eq->type = rnd() < 0.5 ? mjEQ_CONNECT : mjEQ_WELD;
    eq->objtype = mjOBJ_BODY;
    int b1 = rint_(nbody), b2 = rint_(nbody + 1);
    snprintf(name, sizeof(name), "b%d", b1); mjs_setString(eq->name1, name);
    if (b2 == nbody || b2 == b1) mjs_setString(eq->name2, "world");
    else { snprintf(name, sizeof(name), "b%d", b2); mjs_setString(eq->name2, name); }
    if (eq->type == mjEQ_CONNECT) { eq->data[0] = runi(-0.1, 0.1); eq->data[1] = runi(-0.1, 0.1); eq->data[2] = runi(-0.1, 0.1); }
    if (rnd() < 0.15) eq->active = 0;
  }
  // joint equalities (generic Jacobian scan in treeNext)
  for (int e = 0; e < njeq && njnt > 1; e++) {
    mjsEquality* eq = mjs_addEquality(s, NULL);
    eq->type = mjEQ_JOINT; eq->objtype = mjOBJ_JOINT;
    int j1 = rint_(njnt), j2 = rint_(njnt);
    snprintf(name, sizeof(name), "j%d", j1); mjs_setString(eq->name1, name);
    if (j2 != j1 && rnd() < 0.85) { snprintf(name, sizeof(name), "j%d", j2); mjs_setString(eq->name2, name); }
    eq->data[0] = runi(-0.2, 0.2); eq->data[1] = runi(0.5, 1.5);
  }
  // fixed tendons over joints of several chains, with friction loss and/or a violated limit
  for (int t = 0; t < ntendon && njnt > 0; t++) {
    mjsTendon* td = mjs_addTendon(s, NULL);
    int k = 1 + rint_(3);
    int used[3] = {-1, -1, -1};
    for (int q = 0; q < k; q++) {
      int j = rint_(njnt), dup = 0;
      for (int u = 0; u < q; u++) if (used[u] == j) dup = 1;
      if (dup) { used[q] = -1; continue; }
      used[q] = j;
      snprintf(name, sizeof(name), "j%d", j);
      mjs_wrapJoint(td, name, (rnd() < 0.5 ? -1 : 1) * runi(0.3, 1.5));
    }
    double r = rnd();
    if (r < 0.6) td->frictionloss = runi(0.01, 0.3);
    if (r > 0.4) { td->limited = mjLIMITED_TRUE; td->range[0] = runi(0.05, 0.2); td->range[1] = td->range[0] + 1; }
  }
  s->option.jacobian = jac ? mjJAC_SPARSE : mjJAC_DENSE;
  s->option.cone = cone ? mjCONE_ELLIPTIC : mjCONE_PYRAMIDAL;

  errarmed = 1;
  mjModel* m = NULL; mjData* d = NULL;
  if (setjmp(errjmp)) {
    errarmed = 0;
    printf("engine-error %s\n", errmsg);
    if (d) mj_deleteData(d); if (m) mj_deleteModel(m); mj_deleteSpec(s);
    return;
  }
  m = mj_compile(s, NULL);
  if (!m) { errarmed = 0; printf("compile-error %s\n", mjs_getError(s)); mj_deleteSpec(s); return; }
  m->opt.disableflags &= ~mjDSBL_ISLAND;
  d = mj_makeData(m);
  for (int k = 0; k < steps; k++) mj_step(m, d);
  mj_forward(m, d);
  errarmed = 0;

  int nv = m->nv, nefc = d->nefc, ntree = m->ntree, nisland = d->nisland;
  printf("ntree=%d nv=%d nefc=%d ncon=%d nisland=%d nidof=%d sparse=%d warn=%d", ntree, nv, nefc, d->ncon, nisland, d->nidof,
         mj_isSparse(m), d->warning[mjWARN_CNSTRFULL].number + d->warning[mjWARN_CONTACTFULL].number);
  printf(" | dof_treeid "); print_ints(m->dof_treeid, nv);
  printf(" | tree_dofnum "); print_ints(m->tree_dofnum, ntree);
  printf(" | tree_dofadr "); print_ints(m->tree_dofadr, ntree);
  printf(" | efc_type "); print_ints(d->efc_type, nefc);
  printf(" | efc_id "); print_ints(d->efc_id, nefc);
  // dofs with a non-zero Jacobian entry, per row (values; for sparse J the stored entries that are non-zero)
  printf(" | rowdofs ");
  for (int i = 0; i < nefc; i++) {
    if (i) printf(" ;");
    if (mj_isSparse(m)) {
      for (int k = 0; k < d->efc_J_rownnz[i]; k++)
        if (d->efc_J[d->efc_J_rowadr[i] + k] != 0) printf(" %d", d->efc_J_colind[d->efc_J_rowadr[i] + k]);
    } else {
      for (int j = 0; j < nv; j++) if (d->efc_J[(size_t)i * nv + j] != 0) printf(" %d", j);
    }
  }
  // structural information for contacts: trees of the two geoms' bodies
  printf(" | contact_trees ");
  for (int c = 0; c < d->ncon; c++) {
    int g1 = d->contact[c].geom[0], g2 = d->contact[c].geom[1];
    int t1 = g1 >= 0 ? m->body_treeid[m->geom_bodyid[g1]] : -9, t2 = g2 >= 0 ? m->body_treeid[m->geom_bodyid[g2]] : -9;
    printf(c ? " ; %d %d" : "%d %d", t1, t2);
  }
  if (nisland > 0) {
#define DUMP(name, n) printf(" | " #name " "); print_ints(d->name, n);
    DUMP(tree_island, ntree) DUMP(island_ntree, nisland) DUMP(island_itreeadr, nisland) DUMP(map_itree2tree, ntree)
    DUMP(dof_island, nv) DUMP(island_nv, nisland) DUMP(island_idofadr, nisland) DUMP(map_dof2idof, nv)
    DUMP(map_idof2dof, nv) DUMP(island_dofadr, nisland) DUMP(efc_island, nefc) DUMP(island_nefc, nisland)
    DUMP(island_iefcadr, nisland) DUMP(map_efc2iefc, nefc) DUMP(map_iefc2efc, nefc)
    DUMP(island_ne, nisland) DUMP(island_nf, nisland) DUMP(iefc_type, nefc) DUMP(iefc_id, nefc)
#undef DUMP
  }
  printf("\n");
  mj_deleteData(d); mj_deleteModel(m); mj_deleteSpec(s);
}

int main(void) {
  mju_user_error = on_error;
  mju_user_warning = on_warning;
  size_t cap = 1 << 24; char* line = malloc(cap);
  while (fgets(line, cap, stdin)) {
    size_t len = strlen(line);
    while (len && (line[len - 1] == '\n' || line[len - 1] == '\r')) line[--len] = 0;
    char* p = line; while (*p == ' ') p++;
    if (!strncmp(p, "dsu", 3) && (p[3] == ' ' || p[3] == 0)) do_dsu(p);
    else if (!strncmp(p, "ff", 2) && (p[2] == ' ' || p[2] == ':')) do_ff(p);
    else if (!strncmp(p, "scene ", 6)) do_scene(p);
    else printf("bad-op\n");
    fflush(stdout);
  }
  return 0;
}
