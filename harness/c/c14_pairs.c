// C14 implementation-side driver (DESIGN.md §5.C14).  Calls the *real* collision driver of the tree:
// engine_collision_driver.c is #included so that its file-static functions (mj_SAP, makeAAMM, canCollide,
// mj_filterSphere, getMargin, getGap, contactSort, bfsort, filterCollisionPair ...) are reachable; nothing of
// the driver is re-implemented here.  Two observation hooks, both through public extension points:
//   * every non-NULL entry of the public table mjCOLLISIONFUNC is wrapped by a recorder, so the exact sequence
//     of (g1, g2, margin) that the driver hands to the narrow phase is observed;
//   * the call `mju_eig3(eigval, frame, quat, cov)` inside mj_broadphase is routed (macro) through a wrapper that
//     calls the real mju_eig3 and keeps a copy of `frame`, so the harness can call the static makeAAMM with the
//     frame the broad phase really used.
//
// stateless ops (same line protocol as lean/Drivers/C14.lean, used by ctx.differential):
//   sap <axis> <maxpair> <n> <6n hex doubles, column-major xmin.. ymin.. zmin.. xmax.. ymax.. zmax..>
//        -> "<ret> i:j i:j ..."                 (static mj_SAP)
//   bfsort s0 s1 ...                             -> sorted signatures (static bfsort / uintcmp)
//   csort <ngeom> t0 .. t(ngeom-1) <n> a0 b0 a1 b1 ...   -> tags after contactSort of n geom:geom contacts
//   ccmp <ngeom> t0 .. <a0 b0 a1 b1>             -> contactcompare value
// scene ops (engine oracle; output is one JSON line per `run`):
//   model ... end      -> "ok <nbody> <ngeom> <nq> <nmocap> <npair> <nexclude>" | "error <msg>"
//   qpos v...  mocap_pos v...  mocap_quat v...  flags <disable> <enable>  omargin <v>   -> ok
//   run                -> JSON
#include <math.h>
#include <setjmp.h>
#include <stdint.h>
#include <stdio.h>
#include <stdlib.h>
#include <string.h>
#include <mujoco/mujoco.h>
#include "engine/engine_util_solve.h"
#include "mjbuild.h"

static mjtNum g_frame[9];
static int g_frame_set = 0;
static int g_partial = 0;
static int c14_eig3(mjtNum eigval[3], mjtNum eigvec[9], mjtNum quat[4], const mjtNum mat[9]) {
  int r = mju_eig3(eigval, eigvec, quat, mat);
  memcpy(g_frame, eigvec, sizeof g_frame);
  g_frame_set = 1;
  return r;
}
#define mju_eig3 c14_eig3
#include "engine/engine_collision_driver.c"
#undef mju_eig3

// ------------------------------------------------------------------------------------------ error handling
static jmp_buf jb;
static int jb_armed = 0;
static char lasterr[1024];
static void on_error(const char* msg) {
  snprintf(lasterr, sizeof lasterr, "%s", msg);
  for (char* c = lasterr; *c; c++) if (*c == '\n' || *c == '"' || *c == '\\') *c = ' ';
  if (jb_armed) longjmp(jb, 1);
  fprintf(stderr, "unguarded mju_error: %s\n", msg);
  exit(3);
}
static void on_warning(const char* msg) { (void)msg; }

// ------------------------------------------------------------------------------------------ narrow-phase recorder
static mjfCollision g_orig[mjNGEOMTYPES][mjNGEOMTYPES];
typedef struct { int g1, g2; mjtNum margin; int ncon; } Call;
static Call* g_calls = NULL;
static int g_ncall = 0, g_capcall = 0, g_recording = 0;
static int hook(const mjModel* m, mjData* d, mjPreContact* con, int g1, int g2, mjtNum margin) {
  int r = g_orig[m->geom_type[g1]][m->geom_type[g2]](m, d, con, g1, g2, margin);
  if (g_recording) {
    if (g_ncall == g_capcall) { g_capcall = g_capcall ? 2 * g_capcall : 1024; g_calls = realloc(g_calls, g_capcall * sizeof(Call)); }
    g_calls[g_ncall].g1 = g1; g_calls[g_ncall].g2 = g2; g_calls[g_ncall].margin = margin; g_calls[g_ncall].ncon = r;
    g_ncall++;
  }
  return r;
}
static void install_hooks(void) {
  for (int i = 0; i < mjNGEOMTYPES; i++)
    for (int j = 0; j < mjNGEOMTYPES; j++) {
      g_orig[i][j] = mjCOLLISIONFUNC[i][j];
      if (mjCOLLISIONFUNC[i][j]) mjCOLLISIONFUNC[i][j] = hook;
    }
}

static uint64_t bits(double x) { uint64_t u; memcpy(&u, &x, 8); return u; }
static double frombits(const char* t) { uint64_t u = strtoull(t, NULL, 16); double x; memcpy(&x, &u, 8); return x; }

// ------------------------------------------------------------------------------------------ scratch mjData for stack users
static mjModel* g_sm = NULL;
static mjData* g_sd = NULL;
static void scratch(void) {
  if (g_sd) return;
  mjSpec* s = mj_makeSpec();
  s->memory = 64 << 20;
  mjsBody* w = mjs_findBody(s, "world");
  mjsBody* b = mjs_addBody(w, NULL);
  mjsGeom* g = mjs_addGeom(b, NULL);
  g->type = mjGEOM_SPHERE; g->size[0] = 0.1;
  mjs_addFreeJoint(b);
  g_sm = mj_compile(s, NULL);
  if (!g_sm) { fprintf(stderr, "scratch model failed: %s\n", mjs_getError(s)); exit(2); }
  g_sd = mj_makeData(g_sm);
  mj_deleteSpec(s);
}

// ------------------------------------------------------------------------------------------ stateless ops
static void op_sap(char** tok, int n) {
  if (n < 4) { printf("bad-op\n"); return; }
  int axis = atoi(tok[1]), maxpair = atoi(tok[2]), nb = atoi(tok[3]);
  if (nb < 0 || n != 4 + 6 * nb) { printf("bad-op\n"); return; }
  scratch();
  mjtNum* aamm = malloc(sizeof(mjtNum) * (6 * nb + 1));
  for (int i = 0; i < 6 * nb; i++) aamm[i] = frombits(tok[4 + i]);
  int cap = maxpair > 0 ? maxpair : 1;
  int* pair = malloc(sizeof(int) * (cap + 2));
  pair[cap] = 0x5a5a5a5a;  // canary
  mj_markStack(g_sd);
  int r = mj_SAP(g_sd, aamm, nb, axis, pair, maxpair);
  mj_freeStack(g_sd);
  if (pair[cap] != 0x5a5a5a5a) { printf("canary-overwritten\n"); free(aamm); free(pair); return; }
  printf("%d", r);
  for (int i = 0; i < r; i++) printf(" %d:%d", (pair[i] >> 16) & 0xFFFF, pair[i] & 0xFFFF);
  printf("\n");
  free(aamm); free(pair);
}

static void op_bfsort(char** tok, int n) {
  int k = n - 1;
  int* a = malloc(sizeof(int) * (k + 1)); int* b = malloc(sizeof(int) * (k + 1));
  for (int i = 0; i < k; i++) {
    char* e; long long v = strtoll(tok[1 + i], &e, 10);
    if (*e || v < 0 || v > 0xFFFFFFFFLL) { printf("bad-op\n"); free(a); free(b); return; }
    a[i] = (int)(unsigned)v;
  }
  bfsort(a, b, k, NULL);
  for (int i = 0; i < k; i++) printf(i ? " %u" : "%u", (unsigned)a[i]);
  printf("\n");
  free(a); free(b);
}

// csort/ccmp: a fake mjModel that only carries geom_type (the only field contactcompare reads)
static void op_csort(char** tok, int n, int cmp_only) {
  if (n < 2) { printf("bad-op\n"); return; }
  int ng = atoi(tok[1]);
  if (ng < 0 || n < 2 + ng + (cmp_only ? 4 : 1)) { printf("bad-op\n"); return; }
  mjModel* fm = calloc(1, sizeof(mjModel));
  int* types = malloc(sizeof(int) * (ng + 1));
  for (int i = 0; i < ng; i++) types[i] = atoi(tok[2 + i]);
  fm->geom_type = types; fm->ngeom = ng;
  int p = 2 + ng, k;
  if (cmp_only) k = 2; else { k = atoi(tok[p]); p++; }
  if (k < 0 || n != p + 2 * k) { printf("bad-op\n"); free(fm); free(types); return; }
  mjContact* c = calloc(k + 1, sizeof(mjContact)); mjContact* buf = calloc(k + 1, sizeof(mjContact));
  for (int i = 0; i < k; i++) {
    int a = atoi(tok[p + 2 * i]), b = atoi(tok[p + 2 * i + 1]);
    if (a < 0 || a >= ng || b < 0 || b >= ng) { printf("bad-op\n"); free(fm); free(types); free(c); free(buf); return; }
    c[i].geom[0] = a; c[i].geom[1] = b; c[i].elem[0] = c[i].elem[1] = c[i].vert[0] = c[i].vert[1] = -1;
    c[i].flex[0] = c[i].flex[1] = -1;
    c[i].dim = i;  // tag
  }
  if (cmp_only) printf("%d\n", contactcompare(c, c + 1, fm));
  else {
    contactSort(c, buf, k, fm);
    for (int i = 0; i < k; i++) printf(i ? " %d" : "%d", c[i].dim);
    printf("\n");
  }
  free(fm); free(types); free(c); free(buf);
}

// ------------------------------------------------------------------------------------------ scene
static mjModel* m = NULL;
static mjData* d = NULL;
static mjData* d2 = NULL;

static void pi(const char* k, const int* a, int n) {
  printf("\"%s\":[", k);
  for (int i = 0; i < n; i++) printf(i ? ",%d" : "%d", a[i]);
  printf("],");
}

static int contacts_equal(const mjData* a, const mjData* b) {
  if (a->ncon != b->ncon) return 0;
  for (int i = 0; i < a->ncon; i++) {
    const mjContact* x = a->contact + i; const mjContact* y = b->contact + i;
    if (x->geom[0] != y->geom[0] || x->geom[1] != y->geom[1] || x->dim != y->dim) return 0;
    if (bits(x->dist) != bits(y->dist) || bits(x->includemargin) != bits(y->includemargin)) return 0;
    for (int k = 0; k < 3; k++) if (bits(x->pos[k]) != bits(y->pos[k])) return 0;
    for (int k = 0; k < 9; k++) if (bits(x->frame[k]) != bits(y->frame[k])) return 0;
    for (int k = 0; k < 5; k++) if (bits(x->friction[k]) != bits(y->friction[k])) return 0;
  }
  return 1;
}

static void pos_stage(const mjModel* mm, mjData* dd) {
  mj_kinematics(mm, dd);
  mj_comPos(mm, dd);
  mj_camlight(mm, dd);
  mj_flex(mm, dd);
  mj_tendon(mm, dd);
}

static void op_run(void) {
  int nbody = m->nbody, ngeom = m->ngeom;
  pos_stage(m, d);
  // ---- 1. the real collision pass, narrow-phase calls recorded
  g_ncall = 0; g_recording = 1; g_frame_set = 0;
  mj_collision(m, d);
  g_recording = 0;
  int ncall = g_ncall;
  g_partial = 1;
  printf("{");
  printf("\"nbody\":%d,\"ngeom\":%d,\"npair\":%d,\"nexclude\":%d,\"nflex\":%d,\"disable\":%d,\"enable\":%d,\"nmocap\":%d,\"o_margin\":%.17g,",
         nbody, ngeom, m->npair, m->nexclude, m->nflex, m->opt.disableflags, m->opt.enableflags, m->nmocap, m->opt.o_margin);
  pi("body_weldid", m->body_weldid, nbody); pi("body_parentid", m->body_parentid, nbody);
  pi("body_dofnum", m->body_dofnum, nbody); pi("body_geomadr", m->body_geomadr, nbody);
  pi("body_geomnum", m->body_geomnum, nbody); pi("body_contype", m->body_contype, nbody);
  pi("body_conaffinity", m->body_conaffinity, nbody); pi("body_bvhadr", m->body_bvhadr, nbody);
  pi("body_mocapid", m->body_mocapid, nbody);
  pi("geom_type", m->geom_type, ngeom); pi("geom_contype", m->geom_contype, ngeom);
  pi("geom_conaffinity", m->geom_conaffinity, ngeom); pi("geom_bodyid", m->geom_bodyid, ngeom);
  pi("pair_signature", m->pair_signature, m->npair); pi("pair_geom1", m->pair_geom1, m->npair);
  pi("pair_geom2", m->pair_geom2, m->npair); pi("pair_dim", m->pair_dim, m->npair);
  pi("exclude_signature", m->exclude_signature, m->nexclude);
  printf("\"geom_margin\":[");
  for (int i = 0; i < ngeom; i++) printf(i ? ",%.17g" : "%.17g", m->geom_margin[i]);
  printf("],\"geom_gap\":[");
  for (int i = 0; i < ngeom; i++) printf(i ? ",%.17g" : "%.17g", m->geom_gap[i]);
  printf("],\"pair_margin\":[");
  for (int i = 0; i < m->npair; i++) printf(i ? ",%.17g" : "%.17g", m->pair_margin[i]);
  printf("],\"pair_gap\":[");
  for (int i = 0; i < m->npair; i++) printf(i ? ",%.17g" : "%.17g", m->pair_gap[i]);
  printf("],\"pair_friction\":[");
  for (int i = 0; i < 5 * m->npair; i++) printf(i ? ",%.17g" : "%.17g", m->pair_friction[i]);
  printf("],");
  // collision-function table (after hooks: non-NULL iff original non-NULL)
  printf("\"func\":[");
  for (int i = 0; i < mjNGEOMTYPES; i++) for (int j = 0; j < mjNGEOMTYPES; j++)
    printf((i || j) ? ",%d" : "%d", mjCOLLISIONFUNC[i][j] != NULL);
  printf("],");
  // recorded narrow-phase calls
  printf("\"calls\":[");
  for (int i = 0; i < ncall; i++)
    printf(i ? ",[%d,%d,\"%016llx\",%d]" : "[%d,%d,\"%016llx\",%d]", g_calls[i].g1, g_calls[i].g2,
           (unsigned long long)bits(g_calls[i].margin), g_calls[i].ncon);
  printf("],");
  // contacts
  printf("\"contacts\":[");
  for (int i = 0; i < d->ncon; i++) {
    const mjContact* c = d->contact + i;
    printf(i ? ",[%d,%d,%.17g,%.17g,%d,%d,%.17g,%.17g,%.17g]" : "[%d,%d,%.17g,%.17g,%d,%d,%.17g,%.17g,%.17g]",
           c->geom[0], c->geom[1], c->dist, c->includemargin, c->dim, c->exclude, c->friction[0], c->friction[2], c->friction[3]);
  }
  printf("],\"warn_contactfull\":%d,", d->warning[mjWARN_CONTACTFULL].number);

  // ---- 2. broad phase alone (exported mj_broadphase of this TU) + the AAMMs it used (static makeAAMM, same frame)
  {
    int nbf = nbody + m->nflex;
    int maxp = (nbf * (nbf - 1)) / 2;
    mj_markStack(d);
    int* bfp = mjSTACKALLOC(d, maxp + 1, int);
    g_frame_set = 0;
    int nb = mj_broadphase(m, d, bfp, maxp);
    printf("\"bfpair\":[");
    for (int i = 0; i < nb; i++) printf(i ? ",%u" : "%u", (unsigned)bfp[i]);
    printf("],\"bfmax\":%d,", maxp);
    printf("\"bfid\":[");
    int nc = 0;
    for (int i = 1; i < nbf; i++) if (canCollide(m, i)) { printf(nc ? ",%d" : "%d", i); nc++; }
    printf("],\"frame_set\":%d,\"aamm\":[", g_frame_set);
    if (g_frame_set && nc > 1) {
      mjtNum* aamm = mjSTACKALLOC(d, 6 * nc, mjtNum);
      int k = 0;
      for (int i = 1; i < nbf; i++) if (canCollide(m, i)) {
        makeAAMM(m, d, aamm + 0 * nc + k, aamm + 1 * nc + k, aamm + 2 * nc + k,
                 aamm + 3 * nc + k, aamm + 4 * nc + k, aamm + 5 * nc + k, i, g_frame);
        k++;
      }
      for (int i = 0; i < 6 * nc; i++) printf(i ? ",\"%016llx\"" : "\"%016llx\"", (unsigned long long)bits(aamm[i]));
    }
    printf("],");
    mj_freeStack(d);
  }

  // ---- 3. geometric filter outcomes of the real static functions (inputs of the modelled driver)
  printf("\"near\":[");   // dynamic pairs (ipair = -1) that pass mj_filterSphere with the geom margins
  {
    int first = 1;
    for (int a = 0; a < ngeom; a++) for (int b = 0; b < ngeom; b++) {
      if (a == b) continue;
      mjtNum mg = getMargin(m, a, b, -1) + getGap(m, a, b, -1);
      if (!mj_filterSphere(m, d, a, b, mg)) { printf(first ? "[%d,%d]" : ",[%d,%d]", a, b); first = 0; }
    }
  }
  printf("],\"nearpair\":[");
  {
    int first = 1;
    for (int k = 0; k < m->npair; k++) {
      int a = m->pair_geom1[k], b = m->pair_geom2[k];
      mjtNum mg = getMargin(m, a, b, k) + getGap(m, a, b, k);
      if (!mj_filterSphere(m, d, a, b, mg)) { printf(first ? "%d" : ",%d", k); first = 0; }
    }
  }
  printf("],");

  // ---- 4. brute force: every unordered geom pair through the narrow-phase function of the table, with the
  //         margin rule of the documentation (geom margins+gaps; pair margin+gap for explicit pairs)
  printf("\"brute\":[");
  {
    int first = 1;
    mj_markStack(d);
    mjPreContact* con = mjSTACKALLOC(d, 256, mjPreContact);
    for (int a = 0; a < ngeom; a++) for (int b = a + 1; b < ngeom; b++) {
      int g1 = a, g2 = b;
      if (m->geom_type[g1] > m->geom_type[g2]) { g1 = b; g2 = a; }
      mjfCollision f = g_orig[m->geom_type[g1]][m->geom_type[g2]];
      if (!f) continue;
      mjtNum mg = mj_assignMargin(m, m->geom_margin[g1] + m->geom_margin[g2]) + m->geom_gap[g1] + m->geom_gap[g2];
      int nc = f(m, d, con, g1, g2, mg);
      mjtNum mind = 1e300;
      for (int i = 0; i < nc; i++) if (con[i].dist < mind) mind = con[i].dist;
      if (nc > 0) { printf(first ? "[%d,%d,%d,%.17g,%.17g]" : ",[%d,%d,%d,%.17g,%.17g]", g1, g2, nc, mind, mg); first = 0; }
    }
    printf("],\"brutepair\":[");
    first = 1;
    for (int k = 0; k < m->npair; k++) {
      int g1 = m->pair_geom1[k], g2 = m->pair_geom2[k];
      if (m->geom_type[g1] > m->geom_type[g2]) { int t = g1; g1 = g2; g2 = t; }
      mjfCollision f = g_orig[m->geom_type[g1]][m->geom_type[g2]];
      if (!f) continue;
      mjtNum mg = mj_assignMargin(m, m->pair_margin[k]) + m->pair_gap[k];
      int nc = f(m, d, con, g1, g2, mg);
      mjtNum mind = 1e300;
      for (int i = 0; i < nc; i++) if (con[i].dist < mind) mind = con[i].dist;
      if (nc > 0) { printf(first ? "[%d,%d,%d,%d,%.17g,%.17g]" : ",[%d,%d,%d,%d,%.17g,%.17g]", k, g1, g2, nc, mind, mg); first = 0; }
    }
    mj_freeStack(d);
  }
  printf("],");

  // ---- 5. determinism: repeat on the same mjData, and on an mjData with a different history
  {
    mjData* dc = mj_copyData(NULL, m, d);
    mj_collision(m, d);
    int same1 = contacts_equal(dc, d);
    // different history: d2 was stepped from another state, then receives the same positions
    if (!d2) d2 = mj_makeData(m);
    for (int i = 0; i < m->nq; i++) d2->qpos[i] = m->qpos0[i];
    for (int i = 0; i < m->nv; i++) d2->qvel[i] = 0.1 * (i + 1);
    {
      // islands off while making history: an explicit pair between two static geoms yields a contact that mj_island rejects
      // with mju_error (outside this property); the history only has to dirty arena / stack / warm-start state
      int saved = m->opt.disableflags;
      ((mjModel*)m)->opt.disableflags |= mjDSBL_ISLAND;
      for (int s = 0; s < 3; s++) mj_step(m, d2);
      ((mjModel*)m)->opt.disableflags = saved;
    }
    memcpy(d2->qpos, d->qpos, sizeof(mjtNum) * m->nq);
    memcpy(d2->mocap_pos, d->mocap_pos, sizeof(mjtNum) * 3 * m->nmocap);
    memcpy(d2->mocap_quat, d->mocap_quat, sizeof(mjtNum) * 4 * m->nmocap);
    pos_stage(m, d2);
    mj_collision(m, d2);
    int same2 = contacts_equal(dc, d2);
    printf("\"repeat_equal\":%d,\"history_equal\":%d,\"ncon\":%d", same1, same2, dc->ncon);
    mj_deleteData(dc);
  }
  printf("}\n");
  g_partial = 0;
}

int main(void) {
  mju_user_error = on_error;
  mju_user_warning = on_warning;
  install_hooks();
  size_t cap = 1 << 24;
  char* line = malloc(cap);
  char** tok = malloc(sizeof(char*) * (1 << 20));
  static char err[2048];
  while (fgets(line, cap, stdin)) {
    size_t L = strlen(line);
    if (L && line[L - 1] == '\n') line[L - 1] = 0;
    int n = 0; char* save; char* t = strtok_r(line, " \t\r\n", &save);
    while (t && n < (1 << 20)) { tok[n++] = t; t = strtok_r(NULL, " \t\r\n", &save); }
    if (!n) { printf("bad-op\n"); fflush(stdout); continue; }
    jb_armed = 1;
    if (setjmp(jb)) {
      jb_armed = 0; g_recording = 0;
      // the engine longjmp'ed out of a stack frame: the mjData stack is unusable, make fresh ones
      if (m) { mjData* nd = mj_makeData(m); if (d) { memcpy(nd->qpos, d->qpos, sizeof(mjtNum) * m->nq);
               memcpy(nd->mocap_pos, d->mocap_pos, sizeof(mjtNum) * 3 * m->nmocap);
               memcpy(nd->mocap_quat, d->mocap_quat, sizeof(mjtNum) * 4 * m->nmocap); mj_deleteData(d); } d = nd;
               if (d2) { mj_deleteData(d2); d2 = NULL; } }
      if (g_sd) { mj_deleteData(g_sd); g_sd = mj_makeData(g_sm); }
      printf("%s{\"error\":\"%s\"}\n", g_partial ? "\n" : "", lasterr); g_partial = 0; fflush(stdout); continue;
    }
    if (!strcmp(tok[0], "sap")) op_sap(tok, n);
    else if (!strcmp(tok[0], "bfsort")) op_bfsort(tok, n);
    else if (!strcmp(tok[0], "csort")) op_csort(tok, n, 0);
    else if (!strcmp(tok[0], "ccmp")) op_csort(tok, n, 1);
    else if (!strcmp(tok[0], "model")) {
      if (d) mj_deleteData(d);
      if (d2) mj_deleteData(d2);
      if (m) mj_deleteModel(m);
      d = d2 = NULL; m = NULL;
      // read the whole description (up to "end") first, so that a rejected description never desynchronises the protocol
      char* desc = NULL; size_t dlen = 0; FILE* mf = open_memstream(&desc, &dlen);
      while (fgets(line, cap, stdin)) { fputs(line, mf); if (!strncmp(line, "end", 3) && (line[3] == '\n' || line[3] == 0)) break; }
      fclose(mf);
      FILE* in = fmemopen(desc, dlen, "r");
      m = mjb_compile(in, NULL, err, sizeof err);
      fclose(in); free(desc);
      if (!m) { for (char* c = err; *c; c++) if (*c == '\n') *c = ' '; printf("error %s\n", err); }
      else {
        d = mj_makeData(m);
        printf("ok %d %d %d %d %d %d\n", m->nbody, m->ngeom, m->nq, m->nmocap, m->npair, m->nexclude);
      }
    }
    else if (strcmp(tok[0], "qpos") && strcmp(tok[0], "mocap_pos") && strcmp(tok[0], "mocap_quat") && strcmp(tok[0], "flags") &&
             strcmp(tok[0], "omargin") && strcmp(tok[0], "run")) printf("bad-op\n");
    else if (!m) printf("error no model\n");
    else if (!strcmp(tok[0], "qpos")) {
      if (n - 1 != m->nq) printf("error qpos size %d != %d\n", n - 1, m->nq);
      else { for (int i = 0; i < m->nq; i++) d->qpos[i] = strtod(tok[1 + i], NULL); printf("ok\n"); }
    }
    else if (!strcmp(tok[0], "mocap_pos")) {
      if (n - 1 != 3 * m->nmocap) printf("error mocap_pos size\n");
      else { for (int i = 0; i < 3 * m->nmocap; i++) d->mocap_pos[i] = strtod(tok[1 + i], NULL); printf("ok\n"); }
    }
    else if (!strcmp(tok[0], "mocap_quat")) {
      if (n - 1 != 4 * m->nmocap) printf("error mocap_quat size\n");
      else { for (int i = 0; i < 4 * m->nmocap; i++) d->mocap_quat[i] = strtod(tok[1 + i], NULL); printf("ok\n"); }
    }
    else if (!strcmp(tok[0], "flags") && n == 3) { m->opt.disableflags = atoi(tok[1]); m->opt.enableflags = atoi(tok[2]); printf("ok\n"); }
    else if (!strcmp(tok[0], "omargin") && n == 2) { m->opt.o_margin = strtod(tok[1], NULL); printf("ok\n"); }
    else if (!strcmp(tok[0], "run")) op_run();
    else printf("bad-op\n");
    jb_armed = 0;
    fflush(stdout);
  }
  return 0;
}
