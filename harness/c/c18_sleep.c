// C18 implementation-side driver.  Calls the real sleeping code of the tree (src/engine/engine_sleep.c is
// #included so that the static mj_sleepTrees / treeCanSleep are reachable; everything else is the tree
// build) on real mjModel/mjData objects built through harness/mjbuild.h.  Same line protocol as
// lean/Drivers/C18.lean for the model ops; the `s*` commands drive whole-engine scenes for the oracle
// of checks/c18.py (no model counterpart).
#include <math.h>
#include <setjmp.h>
#include <stdint.h>
#include <stdio.h>
#include <stdlib.h>
#include <string.h>
#include <mujoco/mujoco.h>
#include <mujoco/mjxmacro.h>
#include "engine/engine_sleep.c"
#include "engine/engine_forward.h"
#include "mjbuild.h"
#undef MJ_M
#undef MJ_D
#define MJ_M(n) m->n
#define MJ_D(n) d->n

static mjModel* m = NULL;
static mjSpec* spec = NULL;
static mjData* d = NULL;
static jmp_buf jb;
static int jb_armed = 0;
static char lasterr[1024];

static void on_error(const char* msg) {
  snprintf(lasterr, sizeof lasterr, "%s", msg);
  for (char* c = lasterr; *c; c++) if (*c == '\n') *c = ' ';
  if (jb_armed) longjmp(jb, 1);
  fprintf(stderr, "unguarded mju_error: %s\n", msg);
  exit(3);
}
static void on_warning(const char* msg) { (void)msg; }

static const char* errname(void) {
  if (strstr(lasterr, "invalid tree")) return "invalid-tree";
  if (strstr(lasterr, "invalid sleep state index")) return "invalid-next";
  if (strstr(lasterr, "is not in a cycle")) return "not-cycle";
  if (strstr(lasterr, "contact between sleeping bodies")) return "both-asleep";
  if (strstr(lasterr, "which is already asleep")) return "already-asleep";
  if (strstr(lasterr, "which is not ready to sleep")) return "not-ready";
  if (strstr(lasterr, "found sleeping tree")) return "sleeping-in-island";
  return "other-error";
}

// ------------------------------------------------------------------ parsing
#define MAXSEG 32
#define MAXTOK 8192
static char* seg[MAXSEG];
static int nseg;
static long tokv[MAXTOK];

static int split_segs(char* line) {
  nseg = 0; seg[nseg++] = line;
  for (char* p = line; *p; p++) if (*p == '|') { *p = 0; if (nseg < MAXSEG) seg[nseg++] = p + 1; else return 0; }
  return 1;
}
// parse ints of a segment (copy, since strtok destroys); returns count or -1
static int parse_ints(const char* s, long* out, int cap) {
  char buf[1 << 16]; snprintf(buf, sizeof buf, "%s", s);
  int n = 0; char* save;
  for (char* t = strtok_r(buf, " \t\r\n", &save); t; t = strtok_r(NULL, " \t\r\n", &save)) {
    char* end; long v = strtol(t, &end, 10);
    if (*end || n >= cap) return -1;
    if (t[0] == '+') return -1;
    out[n++] = v;
  }
  return n;
}
static int parse_nats(const char* s, long* out, int cap) {
  int n = parse_ints(s, out, cap);
  for (int i = 0; i < n; i++) if (out[i] < 0) return -1;
  // reject "-0"
  if (strchr(s, '-')) return -1;
  return n;
}
static int parse_hex(const char* s, double* out, int cap) {
  char buf[1 << 16]; snprintf(buf, sizeof buf, "%s", s);
  int n = 0; char* save;
  for (char* t = strtok_r(buf, " \t\r\n", &save); t; t = strtok_r(NULL, " \t\r\n", &save)) {
    if (strlen(t) != 16 || n >= cap) return -1;
    for (char* c = t; *c; c++) if (!((*c >= '0' && *c <= '9') || (*c >= 'a' && *c <= 'f'))) return -1;
    uint64_t u = strtoull(t, NULL, 16); memcpy(out + n, &u, 8); n++;
  }
  return n;
}
// groups "a b / c d": fills flat values and group lengths; empty segment = 0 groups
static int parse_groups(const char* s, long* flat, int* glen, int capg, int* nflat) {
  char buf[1 << 16]; snprintf(buf, sizeof buf, "%s", s);
  int only_ws = 1; for (char* c = buf; *c; c++) if (*c != ' ' && *c != '\t' && *c != '\n' && *c != '\r') only_ws = 0;
  *nflat = 0;
  if (only_ws) return 0;
  int ng = 0; char* p = buf;
  while (1) {
    char* q = strchr(p, '/'); if (q) *q = 0;
    int k = parse_nats(p, flat + *nflat, MAXTOK - *nflat);
    if (k < 0 || ng >= capg) return -1;
    glen[ng++] = k; *nflat += k;
    if (!q) break;
    p = q + 1;
  }
  return ng;
}

static FILE* OUT = NULL;
#define printf(...) fprintf(OUT ? OUT : stdout, __VA_ARGS__)
static void print_ints(const int* a, int n) { for (int i = 0; i < n; i++) printf(i ? " %d" : "%d", a[i]); }
static void print_hex(const double* a, int n) {
  for (int i = 0; i < n; i++) { uint64_t u; memcpy(&u, a + i, 8); printf(i ? " %016llx" : "%016llx", (unsigned long long)u); }
}
static int iszero_bytes(const double* p) { uint64_t u; memcpy(&u, p, 8); return u == 0; }
static void print_nzflags(const double* a, int n) { for (int i = 0; i < n; i++) printf(i ? " %d" : "%d", !iszero_bytes(a + i)); }

// the line's TA must have exactly ntree entries; copies it into d->tree_asleep
static int load_ta(const char* s) {
  int n = parse_ints(s, tokv, MAXTOK);
  if (n != m->ntree) return 0;
  for (int i = 0; i < n; i++) if (tokv[i] < -1000000 || tokv[i] > 1000000) return 0;
  for (int i = 0; i < n; i++) d->tree_asleep[i] = (int)tokv[i];
  return 1;
}
// segment must equal the given int array of the compiled model
static int same_ints(const char* s, const int* a, int n) {
  long v[MAXTOK]; int k = parse_ints(s, v, MAXTOK);
  if (k != n) return 0;
  for (int i = 0; i < n; i++) if (v[i] != a[i]) return 0;
  return 1;
}

// ------------------------------------------------------------------ realising per-tree fact codes
static int saved_policy[4096];
static void clear_inputs(void) {
  mju_zero(d->qvel, m->nv); mju_zero(d->qfrc_applied, m->nv); mju_zero(d->xfrc_applied, 6 * m->nbody);
  for (int i = 0; i < m->ntree; i++) m->tree_sleep_policy[i] = saved_policy[i];
}
static double force_val(long code) { return code == 1 ? 1.0 : (code == 2 ? -0.0 : 0.0); }
// codes p x q v of tree t; tol = sleep tolerance in force for the velocity boundary codes
static int apply_codes(int t, const long* c, double tol) {
  if (c[0] > 5 || c[1] > 2 || c[2] > 2 || c[3] > 4) return 0;
  m->tree_sleep_policy[t] = c[0] == 1 ? mjSLEEP_NEVER : c[0] == 2 ? mjSLEEP_AUTO_NEVER : c[0] == 3 ? mjSLEEP_ALLOWED :
                            c[0] == 4 ? mjSLEEP_INIT : c[0] == 5 ? mjSLEEP_AUTO : mjSLEEP_AUTO_ALLOWED;
  int badr = m->tree_bodyadr[t], bnum = m->tree_bodynum[t], vadr = m->tree_dofadr[t], vnum = m->tree_dofnum[t];
  if (bnum < 1 || vnum < 1) return 0;
  d->xfrc_applied[6 * (badr + bnum - 1) + 3] = force_val(c[1]);
  d->qfrc_applied[vadr] = force_val(c[2]);
  int iv = vadr + vnum - 1;
  double len = m->dof_length[iv], v = 0;
  if (c[3] == 1) v = -0.0;
  else if (c[3] == 4) v = 1.0;
  else if (c[3] == 2 || c[3] == 3) {
    // smallest double with len*v >= tol (bisection on the representable doubles), or its predecessor
    double lo = 0, hi = tol / len * 2 + 1e-300;
    if (!(tol > 0) || !(len * hi >= tol)) { v = c[3] == 2 ? 0.5 * tol : 2 * tol + 1; }
    else {
      for (int it = 0; it < 200 && nextafter(lo, hi) < hi; it++) { double mid = lo + (hi - lo) / 2; if (len * mid >= tol) hi = mid; else lo = mid; }
      v = c[3] == 3 ? hi : lo;
    }
    if (c[3] == 2) v = -v;   // sign must not matter
  }
  d->qvel[iv] = v;
  return 1;
}

// ------------------------------------------------------------------ model
static int geom_of_body[4096];

static void free_model(void) {
  if (d) { mj_deleteData(d); d = NULL; }
  if (m) { mj_deleteModel(m); m = NULL; }
  if (spec) { mj_deleteSpec(spec); spec = NULL; }
}

static void do_model(char* desc) {
  free_model();
  size_t len = strlen(desc);
  for (size_t i = 0; i < len; i++) if (desc[i] == ';') desc[i] = '\n';
  char* text = malloc(len + 8); memcpy(text, desc, len); memcpy(text + len, "\nend\n", 6);
  FILE* f = fmemopen(text, len + 5, "r");
  char err[1024];
  m = mjb_compile(f, &spec, err, sizeof err);
  fclose(f); free(text);
  if (!m) { printf("model-error %s\n", err); return; }
  d = mj_makeData(m);
  if (!d || m->ntree > 4096 || m->nbody > 4096) { printf("model-error makeData\n"); free_model(); return; }
  for (int i = 0; i < m->ntree; i++) saved_policy[i] = m->tree_sleep_policy[i];
  for (int b = 0; b < m->nbody; b++) { geom_of_body[b] = -1; for (int g = 0; g < m->ngeom; g++) if (m->geom_bodyid[g] == b) { geom_of_body[b] = g; break; } }
  printf("model-ok ntree %d nbody %d nv %d njnt %d nq %d ngeom %d", m->ntree, m->nbody, (int)m->nv, m->njnt, (int)m->nq, m->ngeom);
#define DUMP(name, arr, n) printf(" | " name " "); print_ints(arr, n);
  DUMP("body_treeid", m->body_treeid, m->nbody) DUMP("body_parentid", m->body_parentid, m->nbody)
  DUMP("body_rootid", m->body_rootid, m->nbody) DUMP("body_mocapid", m->body_mocapid, m->nbody)
  DUMP("dof_bodyid", m->dof_bodyid, m->nv) DUMP("tree_dofadr", m->tree_dofadr, m->ntree)
  DUMP("tree_dofnum", m->tree_dofnum, m->ntree) DUMP("body_jntadr", m->body_jntadr, m->nbody)
  DUMP("body_jntnum", m->body_jntnum, m->nbody) DUMP("jnt_dofadr", m->jnt_dofadr, m->njnt)
  DUMP("jnt_qposadr", m->jnt_qposadr, m->njnt) DUMP("jnt_type", m->jnt_type, m->njnt)
  DUMP("tree_bodyadr", m->tree_bodyadr, m->ntree) DUMP("tree_bodynum", m->tree_bodynum, m->ntree)
  DUMP("tree_sleep_policy", m->tree_sleep_policy, m->ntree) DUMP("geom_bodyid", m->geom_bodyid, m->ngeom)
  DUMP("dof_treeid", m->dof_treeid, m->nv) DUMP("jnt_bodyid", m->jnt_bodyid, m->njnt)
  DUMP("pair_geom1", m->pair_geom1, (int)m->npair) DUMP("pair_geom2", m->pair_geom2, (int)m->npair)
  DUMP("eq_type", m->eq_type, (int)m->neq)
  printf(" | dof_length "); print_hex(m->dof_length, m->nv);
  printf("\n");
}

// ------------------------------------------------------------------ model ops
static void set_sleep_flag(int en) {
  if (en) m->opt.enableflags |= mjENBL_SLEEP; else m->opt.enableflags &= ~mjENBL_SLEEP;
}

static void op_cycle(void) {
  long a[4]; if (nseg != 2 || parse_ints(seg[0] + 5, a, 4) != 1 || !load_ta(seg[1])) { printf("bad-op\n"); return; }
  if (a[0] < -1000000 || a[0] > 1000000) { printf("bad-op\n"); return; }
  printf("%d\n", mj_sleepCycle(d->tree_asleep, m->ntree, (int)a[0]));
}

static void print_wake(int nwoke, int failed, const char* sep) {
  if (failed) printf("err %s%s", errname(), sep); else printf("ok %d%s", nwoke, sep);
  print_ints(d->tree_asleep, m->ntree);
}

static void op_wakeisland(void) {
  long a[4]; if (nseg != 2 || parse_ints(seg[0] + 10, a, 4) != 2 || !load_ta(seg[1])) { printf("bad-op\n"); return; }
  volatile int nw = 0, failed = 0;
  if (setjmp(jb)) failed = 1; else { jb_armed = 1; nw = mj_wakeIsland(d->tree_asleep, m->ntree, (int)a[0], (int)a[1], NULL, 0); }
  jb_armed = 0;
  print_wake(nw, failed, " | "); printf("\n");
}

static void op_hist(void) {
  if (nseg != 3 || !load_ta(seg[1])) { printf("bad-op\n"); return; }
  // validate all ops first
  char buf[1 << 16]; snprintf(buf, sizeof buf, "%s", seg[2]);
  char* ops[4096]; int nops = 0; ops[nops++] = buf;
  for (char* p = buf; *p; p++) if (*p == ';') { *p = 0; if (nops < 4096) ops[nops++] = p + 1; }
  for (int k = 0; k < nops; k++) {
    char tmp[4096]; snprintf(tmp, sizeof tmp, "%s", ops[k]); char* save; char* t = strtok_r(tmp, " \t\r\n", &save);
    if (!t) { printf("bad-op\n"); return; }
    long v[256]; const char* restp = ops[k] + (t - tmp) + strlen(t);
    if (!strcmp(t, "S")) { int c = parse_nats(restp, v, 256); if (c < 1) { printf("bad-op\n"); return; } for (int i = 0; i < c; i++) if (v[i] >= m->ntree) { printf("bad-op\n"); return; } }
    else if (!strcmp(t, "W")) { if (parse_ints(restp, v, 256) != 2) { printf("bad-op\n"); return; } }
    else if (!strcmp(t, "C")) { if (parse_ints(restp, v, 256) != 1) { printf("bad-op\n"); return; } }
    else { printf("bad-op\n"); return; }
  }
  for (int k = 0; k < nops; k++) {
    char tmp[4096]; snprintf(tmp, sizeof tmp, "%s", ops[k]); char* save; char* t = strtok_r(tmp, " \t\r\n", &save);
    long v[256]; const char* restp = ops[k] + (t - tmp) + strlen(t);
    if (k) printf(" ; ");
    if (!strcmp(t, "S")) {
      int c = parse_nats(restp, v, 256); int tree[256]; for (int i = 0; i < c; i++) tree[i] = (int)v[i];
      volatile int failed = 0;
      if (setjmp(jb)) failed = 1; else { jb_armed = 1; mj_sleepTrees(m, d, tree, c); }
      jb_armed = 0;
      if (failed) printf("err %s ", errname()); else printf("ok ");
      print_ints(d->tree_asleep, m->ntree);
    } else if (!strcmp(t, "W")) {
      parse_ints(restp, v, 256);
      volatile int nw = 0, failed = 0;
      if (setjmp(jb)) failed = 1; else { jb_armed = 1; nw = mj_wakeIsland(d->tree_asleep, m->ntree, (int)v[0], (int)v[1], NULL, 0); }
      jb_armed = 0;
      print_wake(nw, failed, " ");
    } else {
      parse_ints(restp, v, 256);
      printf("%d", mj_sleepCycle(d->tree_asleep, m->ntree, (int)v[0]));
    }
  }
  printf("\n");
}

static int check_dofs(const char* snv, const char* sadr, const char* snum) {
  long v[4]; if (parse_nats(snv, v, 4) != 1 || v[0] != m->nv) return 0;
  return same_ints(sadr, m->tree_dofadr, m->ntree) && same_ints(snum, m->tree_dofnum, m->ntree);
}

static void op_sleeptrees(void) {
  long t[256];
  int c = nseg == 5 ? parse_nats(seg[0] + 10, t, 256) : -1;
  if (c < 1 || !load_ta(seg[1]) || !check_dofs(seg[2], seg[3], seg[4])) { printf("bad-op\n"); return; }
  int tree[256]; for (int i = 0; i < c; i++) { if (t[i] >= m->ntree) { printf("bad-op\n"); return; } tree[i] = (int)t[i]; }
  for (int i = 0; i < m->nv; i++) d->qvel[i] = d->qacc[i] = 1.0;
  volatile int failed = 0;
  if (setjmp(jb)) failed = 1; else { jb_armed = 1; mj_sleepTrees(m, d, tree, c); }
  jb_armed = 0;
  if (failed) printf("err %s | ", errname()); else printf("ok | ");
  print_ints(d->tree_asleep, m->ntree); printf(" | "); print_nzflags(d->qvel, m->nv); printf(" | "); print_nzflags(d->qacc, m->nv);
  printf("\n");
}

// islands / rest laid out the way mj_island does; returns 0 on malformed input
static int isl_ntree[4096], isl_adr[4096], map_i2t[4096];
static int load_islands(const char* sisl, const char* srest, int* nisland) {
  long flat[MAXTOK]; int glen[4096]; int nflat;
  int ng = parse_groups(sisl, flat, glen, 4096, &nflat);
  if (ng < 0) return 0;
  int pos = 0;
  for (int g = 0, k = 0; g < ng; g++) {
    if (glen[g] < 1) return 0;
    isl_adr[g] = pos; isl_ntree[g] = glen[g];
    for (int j = 0; j < glen[g]; j++, k++) { if (flat[k] >= m->ntree || pos >= 4096) return 0; map_i2t[pos++] = (int)flat[k]; }
  }
  long rest[MAXTOK]; int nr = parse_nats(srest, rest, MAXTOK);
  if (nr < 0) return 0;
  for (int j = 0; j < nr; j++) { if (rest[j] >= m->ntree || pos >= 4096) return 0; map_i2t[pos++] = (int)rest[j]; }
  // mj_sleep iterates j = start .. ntree-1 over map_itree2tree: the line must fill it exactly (when there are islands)
  if (ng > 0 && pos != m->ntree) return 0;
  *nisland = ng;
  return 1;
}

static void op_sleep(void) {
  long h[4];
  if (nseg != 8 || parse_nats(seg[0] + 5, h, 4) != 3 || h[0] > 1 || h[2] > 1 || !load_ta(seg[1]) || !check_dofs(seg[5], seg[6], seg[7])) { printf("bad-op\n"); return; }
  long flat[MAXTOK]; int glen[4096]; int nflat;
  int ng = parse_groups(seg[2], flat, glen, 4096, &nflat);
  int nisland;
  if (ng != m->ntree || !load_islands(seg[3], seg[4], &nisland)) { printf("bad-op\n"); return; }
  for (int t = 0; t < ng; t++) if (glen[t] != 4) { printf("bad-op\n"); return; }
  double tol = h[2] ? 1e-4 : 0.0;
  clear_inputs();
  for (int t = 0; t < ng; t++) if (!apply_codes(t, flat + 4 * t, tol)) { clear_inputs(); printf("bad-op\n"); return; }
  for (int i = 0; i < m->nv; i++) d->qacc[i] = 1.0;
  double savetol = m->opt.sleep_tolerance; m->opt.sleep_tolerance = tol;
  int saveflags = m->opt.enableflags; set_sleep_flag((int)h[0]);
  // island structure as mj_island leaves it
  int* s_ntree = d->island_ntree; int* s_adr = d->island_itreeadr; int* s_map = d->map_itree2tree;
  int s_nisland = d->nisland, s_nefc = d->nefc;
  d->island_ntree = isl_ntree; d->island_itreeadr = isl_adr; d->map_itree2tree = map_i2t;
  d->nisland = nisland; d->nefc = (int)h[1];
  volatile int ns = 0, failed = 0;
  if (setjmp(jb)) failed = 1; else { jb_armed = 1; ns = mj_sleep(m, d); }
  jb_armed = 0;
  d->island_ntree = s_ntree; d->island_itreeadr = s_adr; d->map_itree2tree = s_map; d->nisland = s_nisland; d->nefc = s_nefc;
  m->opt.sleep_tolerance = savetol; m->opt.enableflags = saveflags;
  // nslept is not observable after an error (the handler does not return): count from the array instead
  if (failed) { printf("err %s ", errname()); } else printf("ok ");
  if (failed) {
    // trees slept before the error = completed mj_sleepTrees calls; recover from the protocol: report k as the
    // model does (number of trees of the completed calls).  A completed call leaves a closed cycle.
    printf("?");
  } else printf("%d", ns);
  printf(" | "); print_ints(d->tree_asleep, m->ntree); printf(" | "); print_nzflags(d->qvel, m->nv); printf("\n");
  clear_inputs();
}

static void op_wake(void) {
  long h[4];
  if (nseg != 4 || parse_nats(seg[0] + 4, h, 4) != 2 || h[0] > 1 || h[1] > m->ntree || !load_ta(seg[1])) { printf("bad-op\n"); return; }
  long st[MAXTOK]; int ns = parse_nats(seg[2], st, MAXTOK);
  long flat[MAXTOK]; int glen[4096]; int nflat;
  int ng = parse_groups(seg[3], flat, glen, 4096, &nflat);
  if (ns != m->ntree || ng != m->ntree) { printf("bad-op\n"); return; }
  for (int t = 0; t < ng; t++) if (glen[t] != 4 || st[t] > 1) { printf("bad-op\n"); return; }
  clear_inputs();
  for (int t = 0; t < ng; t++) if (!apply_codes(t, flat + 4 * t, 0.0)) { clear_inputs(); printf("bad-op\n"); return; }
  for (int t = 0; t < ns; t++) d->tree_awake[t] = (int)st[t];
  int s_nta = d->ntree_awake; d->ntree_awake = (int)h[1];
  int saveflags = m->opt.enableflags; set_sleep_flag((int)h[0]);
  volatile int nw = 0, failed = 0;
  if (setjmp(jb)) failed = 1; else { jb_armed = 1; nw = mj_wake(m, d); }
  jb_armed = 0;
  m->opt.enableflags = saveflags; d->ntree_awake = s_nta;
  print_wake(nw, failed, " | "); printf("\n");
  clear_inputs();
  mj_updateSleep(m, d);
}

static void op_wakecol(void) {
  long h[4];
  if (nseg != 6 || parse_nats(seg[0] + 7, h, 4) != 1 || h[0] > 1 || !load_ta(seg[1])) { printf("bad-op\n"); return; }
  long st[MAXTOK]; int ns = parse_nats(seg[2], st, MAXTOK);
  long flat[MAXTOK]; int glen[4096]; int nflat;
  int ng = parse_groups(seg[3], flat, glen, 4096, &nflat);
  long ba[MAXTOK]; int nba = parse_ints(seg[5], ba, MAXTOK);
  if (ns != m->ntree || ng < 0 || !same_ints(seg[4], m->body_treeid, m->nbody) || nba != m->nbody) { printf("bad-op\n"); return; }
  for (int t = 0; t < ns; t++) if (st[t] > 1) { printf("bad-op\n"); return; }
  for (int g = 0; g < ng; g++) {
    if (glen[g] != 2 || flat[2 * g] >= m->nbody || flat[2 * g + 1] >= m->nbody ||
        geom_of_body[flat[2 * g]] < 0 || geom_of_body[flat[2 * g + 1]] < 0) { printf("bad-op\n"); return; }
  }
  if ((size_t)ng * sizeof(mjContact) > m->narena / 2) { printf("bad-op\n"); return; }
  for (int t = 0; t < ns; t++) d->tree_awake[t] = (int)st[t];
  for (int b = 0; b < m->nbody; b++) d->body_awake[b] = (int)ba[b];
  // fabricate the contact list (only the fields mj_wakeCollision reads for geom-geom contacts)
  mj_resetData(m, d); load_ta(seg[1]);
  for (int t = 0; t < ns; t++) d->tree_awake[t] = (int)st[t];
  for (int b = 0; b < m->nbody; b++) d->body_awake[b] = (int)ba[b];
  d->contact = (mjContact*)d->arena; d->ncon = ng;
  for (int g = 0; g < ng; g++) {
    mjContact* c = d->contact + g; memset(c, 0, sizeof *c);
    c->geom[0] = c->geom1 = geom_of_body[flat[2 * g]]; c->geom[1] = c->geom2 = geom_of_body[flat[2 * g + 1]];
    c->flex[0] = c->flex[1] = c->elem[0] = c->elem[1] = c->vert[0] = c->vert[1] = -1;
  }
  int saveflags = m->opt.enableflags; set_sleep_flag((int)h[0]);
  volatile int nw = 0, failed = 0;
  if (setjmp(jb)) failed = 1; else { jb_armed = 1; nw = mj_wakeCollision(m, d); }
  jb_armed = 0;
  m->opt.enableflags = saveflags; d->ncon = 0;
  print_wake(nw, failed, " | "); printf("\n");
  int keep[4096]; memcpy(keep, d->tree_asleep, sizeof(int) * m->ntree);
  mj_resetData(m, d);
}

static int check_topo(int first) {
  return same_ints(seg[first], m->body_treeid, m->nbody) && same_ints(seg[first + 1], m->body_parentid, m->nbody) &&
         same_ints(seg[first + 2], m->body_rootid, m->nbody) && same_ints(seg[first + 3], m->body_mocapid, m->nbody) &&
         same_ints(seg[first + 4], m->dof_bodyid, m->nv);
}

static void op_update(void) {
  long h[4];
  if (nseg != 8 || parse_nats(seg[0] + 6, h, 4) != 1 || h[0] > 1 || !load_ta(seg[1]) || !check_topo(3)) { printf("bad-op\n"); return; }
  long old[MAXTOK]; int no = parse_ints(seg[2], old, MAXTOK);
  if (no != m->nbody) { printf("bad-op\n"); return; }
  for (int b = 0; b < m->nbody; b++) d->body_awake[b] = (int)old[b];
  // junk in the outputs so that stale values cannot pass for computed ones
  for (int i = 0; i < m->ntree; i++) d->tree_awake[i] = 77;
  for (int b = 0; b < m->nbody; b++) d->body_awake_ind[b] = d->parent_awake_ind[b] = -7;
  for (int i = 0; i < m->nv; i++) d->dof_awake_ind[i] = -7;
  d->ntree_awake = d->nbody_awake = d->nparent_awake = d->nv_awake = -7;
  mj_updateSleepInit(m, d, (int)h[0]);
  print_ints(d->tree_awake, m->ntree); printf(" | %d | ", d->ntree_awake);
  print_ints(d->body_awake, m->nbody); printf(" | ");
  if (d->nbody_awake < 0 || d->nbody_awake > m->nbody || d->nparent_awake < 0 || d->nparent_awake > m->nbody ||
      d->nv_awake < 0 || d->nv_awake > m->nv) { printf("counts-out-of-range\n"); return; }
  print_ints(d->body_awake_ind, d->nbody_awake); printf(" | ");
  print_ints(d->parent_awake_ind, d->nparent_awake); printf(" | ");
  print_ints(d->dof_awake_ind, d->nv_awake); printf("\n");
  mj_resetData(m, d);
}

static void op_advance(void) {
  long h[4]; double tl[4];
  if (nseg != 18 || parse_nats(seg[0] + 7, h, 4) != 1 || h[0] > 1 || parse_hex(seg[1], tl, 4) != 2) { printf("bad-op\n"); return; }
  // only slide/hinge models: one qpos per joint, nq = njnt = nv
  for (int j = 0; j < m->njnt; j++) if (m->jnt_type[j] != mjJNT_SLIDE && m->jnt_type[j] != mjJNT_HINGE) { printf("bad-op\n"); return; }
  if (m->nq != m->njnt || !check_topo(7) || !same_ints(seg[12], m->tree_dofadr, m->ntree) || !same_ints(seg[13], m->tree_dofnum, m->ntree) ||
      !same_ints(seg[15], m->body_jntadr, m->nbody) || !same_ints(seg[16], m->body_jntnum, m->nbody) ||
      !same_ints(seg[17], m->jnt_dofadr, m->njnt)) { printf("bad-op\n"); return; }
  static double qpos[MAXTOK], qvel[MAXTOK], qacc[MAXTOK], dl[MAXTOK];
  if (parse_hex(seg[3], qpos, MAXTOK) != m->nq || parse_hex(seg[4], qvel, MAXTOK) != m->nv || parse_hex(seg[5], qacc, MAXTOK) != m->nv ||
      parse_hex(seg[14], dl, MAXTOK) != m->nv) { printf("bad-op\n"); return; }
  for (int i = 0; i < m->nv; i++) if (memcmp(dl + i, m->dof_length + i, 8)) { printf("bad-op\n"); return; }
  for (int j = 0; j < m->njnt; j++) if (m->jnt_qposadr[j] != j) { printf("bad-op\n"); return; }
  long flat[MAXTOK]; int glen[4096]; int nflat;
  int ng = parse_groups(seg[6], flat, glen, 4096, &nflat);
  if (ng != m->ntree) { printf("bad-op\n"); return; }
  for (int t = 0; t < ng; t++) if (glen[t] != 3) { printf("bad-op\n"); return; }
  int saveflags = m->opt.enableflags; set_sleep_flag((int)h[0]);
  int savedis = m->opt.disableflags; m->opt.disableflags |= mjDSBL_EULERDAMP;
  double savetol = m->opt.sleep_tolerance, savedt = m->opt.timestep;
  m->opt.sleep_tolerance = tl[0]; m->opt.timestep = tl[1];
  volatile int failed = 0;
  if (setjmp(jb)) failed = 1;
  else {
    jb_armed = 1;
    mj_resetData(m, d);
    mj_forward(m, d);                       // valid position-stage data for the mj_forwardSkip inside mj_advance
    if (!load_ta(seg[2])) { jb_armed = 0; printf("bad-op\n"); goto restore; }
    clear_inputs();
    for (int t = 0; t < ng; t++) { long c[4] = {flat[3 * t], flat[3 * t + 1], flat[3 * t + 2], 0}; if (!apply_codes(t, c, 0.0)) { jb_armed = 0; printf("bad-op\n"); goto restore; } }
    mju_copy(d->qpos, qpos, m->nq); mju_copy(d->qvel, qvel, m->nv); mju_copy(d->qacc, qacc, m->nv);
    mj_updateSleep(m, d);
    d->nefc = 0; d->nisland = 0; d->ncon = 0;
    mj_Euler(m, d);
  }
  jb_armed = 0;
  if (failed) printf("err %s ? | ", errname()); else printf("ok ");
  if (!failed) {
    // nslept is not returned by mj_Euler: count the trees that went from awake to asleep
    long ta0[MAXTOK]; parse_ints(seg[2], ta0, MAXTOK); int k = 0;
    for (int t = 0; t < m->ntree; t++) k += (ta0[t] < 0 && d->tree_asleep[t] >= 0);
    printf("%d | ", k);
  }
  print_ints(d->tree_asleep, m->ntree); printf(" | "); print_hex(d->qpos, m->nq); printf(" | "); print_hex(d->qvel, m->nv); printf("\n");
restore:
  m->opt.enableflags = saveflags; m->opt.disableflags = savedis; m->opt.sleep_tolerance = savetol; m->opt.timestep = savedt;
  clear_inputs();
  { volatile int f2 = 0; if (setjmp(jb)) f2 = 1; else { jb_armed = 1; mj_resetData(m, d); } jb_armed = 0; (void)f2; }
}

// ------------------------------------------------------------------ scenes (oracle side only)
typedef struct { const char* name; int type; void* ptr; long n; } Field;
#define MAXF 1024
static Field F[MAXF];
static int nF;
static int tcode_mjtNum = 0, tcode_int = 1, tcode_mjtByte = 2, tcode_mjtBool = 2, tcode_float = 4, tcode_uintptr_t = 3,
           tcode_mjtSize = 3, tcode_size_t = 3, tcode_mjContact = 5, tcode_mjWarningStat = 5, tcode_mjTimerStat = 5,
           tcode_mjSolverStat = 5, tcode_char = 2, tcode_mjtObj = 1, tcode_uint64_t = 3, tcode_double = 0, tcode_mjtSleepState = 1;
static void addf(const char* name, int type, void* ptr, long n) { if (nF < MAXF) { F[nF].name = name; F[nF].type = type; F[nF].ptr = ptr; F[nF].n = n; nF++; } }
static void fields_data(void) {
  nF = 0;
#define X(type, name, nr, nc) addf(#name, tcode_##type, d->name, (long)(m->nr) * (long)(nc));
#define XNV X
  MJDATA_POINTERS
#undef XNV
#undef X
#define X(type, name, nr, nc) addf(#name, tcode_##type, d->name, d->name ? (long)(nr) * (long)(nc) : 0);
#define XNV X
  MJDATA_ARENA_POINTERS
#undef XNV
#undef X
}
static size_t tsize(int t) { return t == 0 ? 8 : t == 1 ? 4 : t == 2 ? 1 : t == 3 ? 8 : t == 4 ? 4 : 0; }
static uint64_t fnv(uint64_t h, const void* p, size_t n) { const unsigned char* c = p; for (size_t i = 0; i < n; i++) { h ^= c[i]; h *= 1099511628211ULL; } return h; }
static Field* findf(const char* name) { for (int i = 0; i < nF; i++) if (!strcmp(F[i].name, name)) return &F[i]; return NULL; }

// Hash of the results of a step: every buffer array of mjData (MJDATA_POINTERS) except the sleep countdown
// tree_asleep itself, the rows [0, nefc) of the defining efc arrays, and the semantic fields of the contacts.
// Other arena arrays are skipped: the arena is not cleared between steps, their unused parts are unspecified
// (efc_state included: not every solver writes every row).
static int narena_first = -1;
static int hashed_arena(const char* nm) {
  static const char* ok[] = {"efc_type", "efc_id", "efc_pos", "efc_vel", "efc_aref", "efc_force", "efc_D", "efc_R", "efc_margin", NULL};
  for (int i = 0; ok[i]; i++) if (!strcmp(nm, ok[i])) return 1;
  return 0;
}
static uint64_t hash_outputs(char* firstdiff_names, size_t cap) {
  (void)firstdiff_names; (void)cap;
  fields_data();
  if (narena_first < 0) { nF = 0;
#define X(type, name, nr, nc) addf(#name, tcode_##type, d->name, 0);
#define XNV X
    MJDATA_POINTERS
#undef XNV
#undef X
    narena_first = nF; fields_data(); }
  uint64_t h = 1469598103934665603ULL;
  for (int i = 0; i < nF; i++) {
    const char* nm = F[i].name;
    if (!F[i].ptr || tsize(F[i].type) == 0) continue;
    if (!strcmp(nm, "tree_asleep") || !strcmp(nm, "plugin_data") || !strcmp(nm, "plugin") || !strcmp(nm, "contact")) continue;
    if (i >= narena_first && !hashed_arena(nm)) continue;
    h = fnv(h, nm, strlen(nm));
    h = fnv(h, F[i].ptr, (size_t)F[i].n * tsize(F[i].type));
  }
  h = fnv(h, &d->ncon, sizeof(int)); h = fnv(h, &d->nefc, sizeof(int)); h = fnv(h, &d->nisland, sizeof(int));
  for (int i = 0; i < d->ncon; i++) {
    mjContact* c = d->contact + i;
    h = fnv(h, &c->dist, 8); h = fnv(h, c->pos, 24); h = fnv(h, c->frame, 72); h = fnv(h, &c->includemargin, 8);
    h = fnv(h, c->friction, 40); h = fnv(h, &c->dim, 4); h = fnv(h, &c->geom1, 4); h = fnv(h, &c->geom2, 4);
    h = fnv(h, &c->exclude, 4); h = fnv(h, &c->efc_address, 4);
  }
  h = fnv(h, d->energy, 16); h = fnv(h, &d->time, 8);
  return h;
}

// per-field hashes (to name the first differing field between two runs)
static void print_field_hashes(void) {
  fields_data();
  for (int i = 0; i < nF; i++) {
    if (!F[i].ptr || tsize(F[i].type) == 0 || !strcmp(F[i].name, "contact") || !strcmp(F[i].name, "plugin_data") || !strcmp(F[i].name, "plugin")) continue;
    if (narena_first >= 0 && i >= narena_first && !hashed_arena(F[i].name)) continue;
    printf(" %s:%016llx", F[i].name, (unsigned long long)fnv(1469598103934665603ULL, F[i].ptr, (size_t)F[i].n * tsize(F[i].type)));
  }
  printf(" ncon:%d nefc:%d nisland:%d", d->ncon, d->nefc, d->nisland);
}

static void print_record(void) {
  print_ints(d->tree_asleep, m->ntree); printf(" / "); print_hex(d->qpos, m->nq); printf(" / "); print_hex(d->qvel, m->nv);
  printf(" / %016llx / %d %d %d %d %d", (unsigned long long)hash_outputs(NULL, 0), d->ncon, d->ntree_awake, d->nbody_awake, d->nv_awake, d->nisland);
  printf(" / "); print_ints(d->tree_awake, m->ntree);
  printf(" / "); print_ints(d->body_awake, m->nbody);
  // touching tree pairs among the contacts that reach the constraint stage (exclude == 0)
  printf(" / -");
  for (int i = 0; i < d->ncon; i++) {
    mjContact* c = d->contact + i;
    if (c->geom[0] < 0 || c->geom[1] < 0) continue;
    printf(" %d:%d:%d", m->body_treeid[m->geom_bodyid[c->geom[0]]], m->body_treeid[m->geom_bodyid[c->geom[1]]], c->exclude);
  }
}

static void do_scene(char* op, char* rest) {
  char* tok[4096]; int n = 0; char* save;
  for (char* t = strtok_r(rest, " \t\r\n", &save); t && n < 4096; t = strtok_r(NULL, " \t\r\n", &save)) tok[n++] = t;
  volatile int failed = 0;
  if (setjmp(jb)) { jb_armed = 0; if (OUT) { fclose(OUT); OUT = NULL; } printf("error %s\n", lasterr); return; }
  jb_armed = 1;
  if (!strcmp(op, "sflag") && n == 1) { set_sleep_flag(atoi(tok[0])); printf("ok\n"); }
  else if (!strcmp(op, "sopt") && n == 2) {
    if (!strcmp(tok[0], "sleep_tolerance")) m->opt.sleep_tolerance = strtod(tok[1], NULL);
    else if (!strcmp(tok[0], "timestep")) m->opt.timestep = strtod(tok[1], NULL);
    else if (!strcmp(tok[0], "integrator")) m->opt.integrator = atoi(tok[1]);
    else if (!strcmp(tok[0], "disableflags")) m->opt.disableflags = atoi(tok[1]);
    else if (!strcmp(tok[0], "enableflags")) m->opt.enableflags = atoi(tok[1]);
    else { jb_armed = 0; printf("bad-op\n"); return; }
    printf("ok\n");
  }
  else if (!strcmp(op, "sreset") && n == 0) { mj_resetData(m, d); printf("ok\n"); }
  else if (!strcmp(op, "sforward") && n == 0) { mj_forward(m, d); printf("ok "); print_record(); printf("\n"); }
  else if (!strcmp(op, "sset") && n >= 3) {
    // sset <field> <offset> v...   (doubles as decimal or x<hex>)
    fields_data(); Field* f = findf(tok[0]); long off = atol(tok[1]);
    if (!f || f->type != 0 || off < 0 || off + (n - 2) > f->n) { jb_armed = 0; printf("bad-op\n"); return; }
    for (int i = 2; i < n; i++) {
      double x;
      if (tok[i][0] == 'x') { uint64_t u = strtoull(tok[i] + 1, NULL, 16); memcpy(&x, &u, 8); } else x = strtod(tok[i], NULL);
      ((double*)f->ptr)[off + i - 2] = x;
    }
    printf("ok\n");
  }
  else if (!strcmp(op, "sseti") && n >= 3) {
    fields_data(); Field* f = findf(tok[0]); long off = atol(tok[1]);
    if (!f || (f->type != 1 && f->type != 2) || off < 0 || off + (n - 2) > f->n) { jb_armed = 0; printf("bad-op\n"); return; }
    for (int i = 2; i < n; i++) { if (f->type == 1) ((int*)f->ptr)[off + i - 2] = atoi(tok[i]); else ((unsigned char*)f->ptr)[off + i - 2] = (unsigned char)atoi(tok[i]); }
    printf("ok\n");
  }
  else if (!strcmp(op, "sstep") && n == 1) {
    // records are buffered: an engine error in the middle of the run must not leave a partial line
    int reps = atoi(tok[0]);
    static char* mbuf = NULL; static size_t mlen = 0;
    if (OUT) { fclose(OUT); OUT = NULL; }
    free(mbuf); mbuf = NULL; mlen = 0;
    OUT = open_memstream(&mbuf, &mlen);
    printf("ok");
    for (int r = 0; r < reps; r++) { mj_step(m, d); printf(r ? " ; " : " "); print_record(); }
    printf("\n");
    fclose(OUT); OUT = NULL;
    fputs(mbuf, stdout);
  }
  else if (!strcmp(op, "sfields") && n == 0) { printf("ok"); print_field_hashes(); printf("\n"); }
  else if (!strcmp(op, "sstate") && n == 0) { printf("ok "); print_record(); printf("\n"); }
  else { jb_armed = 0; printf("bad-op\n"); return; }
  jb_armed = 0; (void)failed;
}

int main(void) {
  mju_user_error = on_error;
  mju_user_warning = on_warning;
  static char line[1 << 20];
  while (fgets(line, sizeof line, stdin)) {
    size_t L = strlen(line); while (L && (line[L - 1] == '\n' || line[L - 1] == '\r')) line[--L] = 0;
    char* p = line; while (*p == ' ') p++;
    if (!strncmp(p, "const", 5) && (p[5] == 0 || p[5] == ' ')) {
      char* q = p + 5; while (*q == ' ') q++;
      if (*q) printf("bad-op\n");
      else printf("minawake %d kawake %d states %d %d %d\n", mjMINAWAKE, kAwake, (int)mjS_STATIC, (int)mjS_ASLEEP, (int)mjS_AWAKE);
    } else if (!strncmp(p, "model ", 6)) {
      volatile int failed = 0;
      if (setjmp(jb)) { jb_armed = 0; failed = 1; printf("model-error %s\n", lasterr); }
      else { jb_armed = 1; do_model(p + 6); jb_armed = 0; }
      (void)failed;
    } else if (p[0] == 's' && (!strncmp(p, "sflag", 5) || !strncmp(p, "sopt", 4) || !strncmp(p, "sreset", 6) || !strncmp(p, "sforward", 8) ||
               !strncmp(p, "sset", 4) || !strncmp(p, "sstep", 5) || !strncmp(p, "sfields", 7) || !strncmp(p, "sstate", 6))) {
      if (!m) { printf("bad-op\n"); fflush(stdout); continue; }
      char* sp = strchr(p, ' '); char empty[1] = {0};
      if (sp) *sp = 0;
      do_scene(p, sp ? sp + 1 : empty);
    } else if (!m) {
      printf("bad-op\n");
    } else {
      if (!split_segs(p)) { printf("bad-op\n"); fflush(stdout); continue; }
      char* s0 = seg[0];
      if (!strncmp(s0, "cycle ", 6)) op_cycle();
      else if (!strncmp(s0, "wakeisland ", 11)) op_wakeisland();
      else if (!strncmp(s0, "hist", 4) && (s0[4] == 0 || s0[4] == ' ')) { char* q = s0 + 4; while (*q == ' ') q++; if (*q) printf("bad-op\n"); else op_hist(); }
      else if (!strncmp(s0, "sleeptrees ", 11)) op_sleeptrees();
      else if (!strncmp(s0, "sleep ", 6)) op_sleep();
      else if (!strncmp(s0, "wakecol ", 8)) op_wakecol();
      else if (!strncmp(s0, "wake ", 5)) op_wake();
      else if (!strncmp(s0, "update ", 7)) op_update();
      else if (!strncmp(s0, "advance ", 8)) op_advance();
      else printf("bad-op\n");
    }
    fflush(stdout);
  }
  free_model();
  return 0;
}
