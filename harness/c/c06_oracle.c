// c06_oracle.c — implementation side of property C06 (inertia, bias force, inverse dynamics).
//
// Everything here calls the REAL code of the tree build (libmujoco_verif.so) on models compiled through the
// mjSpec API (harness/mjbuild.h).  No inertia / factorisation / Newton-Euler arithmetic is re-implemented: the
// harness only moves data in and out.  The identities are judged in checks/c06.py.
//
// float tokens are 16 hex digits of the IEEE-754 bits ("nan" for NaN); ints are decimal.
//
//   model <description lines joined by '|'>   -> ok nq .. nv .. nbody .. njnt .. nC .. ntendon ..   | error <msg>
//   set qpos|qvel|qacc|mocap_pos|mocap_quat v..   -> ok
//   fwd                    mj_fwdPosition + mj_fwdVelocity                          -> ok | error <msg>
//  correspondence records (left of "->" is the op line of lean/Drivers/C06.lean, right the engine's result):
//   mulM v..               mj_mulM(m, d, res, v)            -> MULM <pattern> M .. v ..   -> res
//   fullM                  mj_fullM(m, d, dst)              -> FULLM <pattern> M ..       -> dst (row major)
//   factor                 mj_factorM(m, d)                 -> FACTOR <pattern> M ..      -> qLD nC .. dinv nv ..
//   solveM k y..           mj_solveM(m, d, x, y, k)         -> SOLVE <pattern> qLD .. dinv .. y .. -> x
//  oracle data:
//   dump                   key count values groups: pattern ints, dof_parentid, dof_simplenum, dof_bodyid, M, qLD,
//                          dinv, fullM, crbM (mj_fullM after mj_crb alone; M is rebuilt by mj_makeM afterwards),
//                          arm (dof_armature + mj_actuatorArmature), tenarm, tenJ (dense ntendon x nv), body_mass,
//                          body_inertia, xipos, ximat, qfrc_bias, rne0 (mj_rne flg_acc=0), tbias (mj_tendonBias on
//                          zeros), cinert
//   integ dt v..           mj_integratePos(m, d->qpos, v, dt) in place                  -> ok
//   mq                     -> fullM nv*nv .. xipos 3nb .. qfrc_bias nv .. tenJ nt*nv ..   (light dump for the Lagrangian check)
//   jac b                  mj_jacBodyCom(m, d, jacp, jacr, b)                        -> jacp 3nv .. jacr 3nv ..
//   round v(nv) y(nv)      Mv = mj_mulM(v); x1 = mj_solveM(Mv); x2 = mj_solveM(y); r2 = mj_mulM(x2)   -> Mv x1 x2 r2
//   rne flg                mj_rne(m, d, flg, res) with the current d->qacc           -> nv floats
//   cross vel(6) v(6) f(6) mju_crossMotion(vel, v), mju_crossForce(vel, f)           -> 6 + 6 floats
//   inert inertia(3) quat(4) dif(3) mass v(6)
//                          mju_quat2Mat, mju_inertCom, mju_mulInertVec               -> mat 9 .. cinert 10 .. res 6 ..
#define _GNU_SOURCE
#include <math.h>
#include <setjmp.h>
#include <stdint.h>
#include <stdio.h>
#include <stdlib.h>
#include <string.h>
#include <mujoco/mujoco.h>
#include "mjbuild.h"
#include "engine/engine_core_smooth.h"
#include "engine/engine_core_util.h"
#include "engine/engine_support.h"
#include "engine/engine_util_spatial.h"

static mjModel* m = NULL;
static mjSpec* spec = NULL;
static mjData* d = NULL;
static jmp_buf jb;
static int jb_armed = 0;
static char lasterr[1024];

static void on_error(const char* msg) {
  snprintf(lasterr, sizeof lasterr, "%s", msg);
  for (char* c = lasterr; *c; c++) if (*c == '\n') *c = ' ';
  if (jb_armed) longjmp(jb, 1);
  fprintf(stderr, "unguarded mju_error: %s\n", msg);
  exit(3);
}
static void on_warning(const char* msg) { (void)msg; }

static void pbits(double x) {
  uint64_t u; memcpy(&u, &x, 8);
  if (x != x) printf(" nan"); else printf(" %016llx", (unsigned long long)u);
}
static void pvec(const char* key, const double* p, int n) {
  printf(" %s %d", key, n);
  for (int i = 0; i < n; i++) pbits(p[i]);
}
static void pivec(const char* key, const int* p, int n) {
  printf(" %s %d", key, n);
  for (int i = 0; i < n; i++) printf(" %d", p[i]);
}
static int getf(const char* t, double* x) {
  if (!strcmp(t, "nan")) { *x = NAN; return 1; }
  if (strlen(t) != 16) return 0;
  char* e; uint64_t u = strtoull(t, &e, 16);
  if (*e) return 0;
  memcpy(x, &u, 8); return 1;
}
static int getv(char** tok, int n, double* x) {
  for (int i = 0; i < n; i++) if (!getf(tok[i], &x[i])) return 0;
  return 1;
}

static void ppattern(void) {
  int nv = (int)m->nv, nC = (int)m->nC;
  printf(" n 1 %d", nv);
  pivec("rownnz", m->M_rownnz, nv);
  pivec("rowadr", m->M_rowadr, nv);
  pivec("colind", m->M_colind, nC);
}

static void op_dump(void) {
  int nv = (int)m->nv, nC = (int)m->nC, nb = (int)m->nbody, nt = (int)m->ntendon;
  printf("dump");
  ppattern();
  pivec("dof_parentid", m->dof_parentid, nv);
  pivec("dof_simplenum", m->dof_simplenum, nv);
  pivec("dof_bodyid", m->dof_bodyid, nv);
  pivec("body_parentid", m->body_parentid, nb);
  pvec("M", d->M, nC);
  pvec("qLD", d->qLD, nC);
  pvec("dinv", d->qLDiagInv, nv);
  double* full = (double*)calloc((size_t)nv * nv + 1, sizeof(double));
  mj_fullM(m, d, full);
  pvec("fullM", full, nv * nv);
  // composite-rigid-body part alone, then rebuild M exactly as the pipeline does
  mj_crb(m, d);
  mj_fullM(m, d, full);
  pvec("crbM", full, nv * nv);
  mj_makeM(m, d);
  free(full);
  double* arm = (double*)calloc(nv + 1, sizeof(double));
  for (int i = 0; i < nv; i++) arm[i] = m->dof_armature[i] + mj_actuatorArmature(m, mjOBJ_JOINT, m->dof_jntid[i]);
  pvec("arm", arm, nv);
  free(arm);
  double* ta = (double*)calloc(nt + 1, sizeof(double));
  double* tj = (double*)calloc((size_t)nt * nv + 1, sizeof(double));
  for (int k = 0; k < nt; k++) {
    ta[k] = m->tendon_armature[k] + mj_actuatorArmature(m, mjOBJ_TENDON, k);
    int adr = m->ten_J_rowadr[k];
    for (int j = 0; j < m->ten_J_rownnz[k]; j++) tj[(size_t)k * nv + m->ten_J_colind[adr + j]] = d->ten_J[adr + j];
  }
  pvec("tenarm", ta, nt);
  pvec("tenJ", tj, nt * nv);
  free(ta); free(tj);
  pvec("body_mass", m->body_mass, nb);
  pvec("body_inertia", m->body_inertia, 3 * nb);
  pvec("xipos", d->xipos, 3 * nb);
  pvec("ximat", d->ximat, 9 * nb);
  pvec("cinert", d->cinert, 10 * nb);
  pvec("qfrc_bias", d->qfrc_bias, nv);
  double* r0 = (double*)calloc(nv + 1, sizeof(double));
  mj_rne(m, d, 0, r0);
  pvec("rne0", r0, nv);
  mju_zero(r0, nv);
  mj_tendonBias(m, d, r0);
  pvec("tbias", r0, nv);
  free(r0);
  printf("\n");
}

int main(void) {
  mju_user_error = on_error;
  mju_user_warning = on_warning;
  static char line[1 << 22];
  static char* tok[1 << 18];
  while (fgets(line, sizeof line, stdin)) {
    size_t L = strlen(line);
    if (!strncmp(line, "model ", 6)) {
      jb_armed = 1;
      if (setjmp(jb)) { jb_armed = 0; printf("error %s\n", lasterr); fflush(stdout); continue; }
      if (d) { mj_deleteData(d); d = NULL; }
      if (m) { mj_deleteModel(m); m = NULL; }
      if (spec) { mj_deleteSpec(spec); spec = NULL; }
      for (size_t i = 6; i < L; i++) if (line[i] == '|') line[i] = '\n';
      FILE* f = fmemopen(line + 6, L - 6, "r");
      char err[1024];
      m = mjb_compile(f, &spec, err, sizeof err);
      fclose(f);
      for (char* c = err; *c; c++) if (*c == '\n' || *c == '\r') *c = ' ';
      if (!m) printf("error %s\n", err);
      else {
        d = mj_makeData(m);
        printf("ok nq %d nv %d nbody %d njnt %d nC %d ntendon %d nmocap %d", (int)m->nq, (int)m->nv, (int)m->nbody,
               (int)m->njnt, (int)m->nC, (int)m->ntendon, (int)m->nmocap);
        pivec("jnt_type", m->jnt_type, (int)m->njnt);   // lets the generator verify its joint order (bodies are renumbered depth-first)
        printf("\n");
      }
      jb_armed = 0;
      fflush(stdout);
      continue;
    }
    int n = 0; char* save; char* t = strtok_r(line, " \t\r\n", &save);
    while (t && n < (1 << 18)) { tok[n++] = t; t = strtok_r(NULL, " \t\r\n", &save); }
    if (!n) { printf("bad-op\n"); fflush(stdout); continue; }
    const char* op = tok[0];
    // ---- model-free kernels
    if (!strcmp(op, "cross")) {
      double x[18];
      if (n != 19 || !getv(tok + 1, 18, x)) { printf("bad-op\n"); fflush(stdout); continue; }
      double a[6], b[6];
      mju_crossMotion(a, x, x + 6);
      mju_crossForce(b, x, x + 12);
      printf("cross"); pvec("motion", a, 6); pvec("force", b, 6); printf("\n");
      fflush(stdout); continue;
    }
    if (!strcmp(op, "inert")) {
      double x[17];
      if (n != 18 || !getv(tok + 1, 17, x)) { printf("bad-op\n"); fflush(stdout); continue; }
      double mat[9], ci[10], res[6];
      mju_quat2Mat(mat, x + 3);
      mju_inertCom(ci, x, mat, x + 7, x[10]);
      mju_mulInertVec(res, ci, x + 11);
      printf("inert"); pvec("mat", mat, 9); pvec("cinert", ci, 10); pvec("res", res, 6); printf("\n");
      fflush(stdout); continue;
    }
    if (!m || !d) { printf("bad-op\n"); fflush(stdout); continue; }
    int nv = (int)m->nv, nC = (int)m->nC;
    jb_armed = 1;
    if (setjmp(jb)) { jb_armed = 0; printf("error %s\n", lasterr); fflush(stdout); continue; }
    if (!strcmp(op, "set") && n >= 2) {
      double* dst = NULL; int cnt = 0;
      if (!strcmp(tok[1], "qpos")) { dst = d->qpos; cnt = (int)m->nq; }
      else if (!strcmp(tok[1], "qvel")) { dst = d->qvel; cnt = nv; }
      else if (!strcmp(tok[1], "qacc")) { dst = d->qacc; cnt = nv; }
      else if (!strcmp(tok[1], "mocap_pos")) { dst = d->mocap_pos; cnt = 3 * (int)m->nmocap; }
      else if (!strcmp(tok[1], "mocap_quat")) { dst = d->mocap_quat; cnt = 4 * (int)m->nmocap; }
      if (!dst || n - 2 != cnt) printf("bad-op\n");
      else {
        double* tmp = (double*)malloc(sizeof(double) * (cnt + 1));
        if (!getv(tok + 2, cnt, tmp)) printf("bad-op\n");
        else { memcpy(dst, tmp, sizeof(double) * cnt); printf("ok\n"); }
        free(tmp);
      }
    } else if (!strcmp(op, "fwd") && n == 1) {
      mj_fwdPosition(m, d);
      mj_fwdVelocity(m, d);
      printf("ok\n");
    } else if (!strcmp(op, "mulM") && n == 1 + nv) {
      double* v = (double*)malloc(sizeof(double) * (nv + 1));
      double* r = (double*)malloc(sizeof(double) * (nv + 1));
      if (!getv(tok + 1, nv, v)) printf("bad-op\n");
      else {
        mj_mulM(m, d, r, v);
        printf("MULM"); ppattern(); pvec("M", d->M, nC); pvec("v", v, nv);
        printf(" ->"); for (int i = 0; i < nv; i++) pbits(r[i]); printf("\n");
      }
      free(v); free(r);
    } else if (!strcmp(op, "fullM") && n == 1) {
      double* full = (double*)calloc((size_t)nv * nv + 1, sizeof(double));
      mj_fullM(m, d, full);
      printf("FULLM"); ppattern(); pvec("M", d->M, nC);
      printf(" ->"); for (int i = 0; i < nv * nv; i++) pbits(full[i]); printf("\n");
      free(full);
    } else if (!strcmp(op, "factor") && n == 1) {
      mj_factorM(m, d);
      printf("FACTOR"); ppattern(); pvec("M", d->M, nC);
      printf(" ->"); pvec("qLD", d->qLD, nC); pvec("dinv", d->qLDiagInv, nv); printf("\n");
    } else if (!strcmp(op, "solveM") && n >= 2) {
      int k = atoi(tok[1]);
      if (k < 1 || k > 8 || n != 2 + k * nv) printf("bad-op\n");
      else {
        double* y = (double*)malloc(sizeof(double) * (k * nv + 1));
        double* x = (double*)malloc(sizeof(double) * (k * nv + 1));
        if (!getv(tok + 2, k * nv, y)) printf("bad-op\n");
        else {
          mj_solveM(m, d, x, y, k);
          printf("SOLVE"); ppattern(); pvec("qLD", d->qLD, nC); pvec("dinv", d->qLDiagInv, nv); pvec("y", y, k * nv);
          printf(" ->"); for (int i = 0; i < k * nv; i++) pbits(x[i]); printf("\n");
        }
        free(y); free(x);
      }
    } else if (!strcmp(op, "round") && n == 1 + 2 * nv) {
      double* v = (double*)malloc(sizeof(double) * (2 * nv + 1));
      double* r = (double*)malloc(sizeof(double) * (4 * nv + 1));
      if (!getv(tok + 1, 2 * nv, v)) printf("bad-op\n");
      else {
        mj_mulM(m, d, r, v);                       // r   = M v
        mj_solveM(m, d, r + nv, r, 1);             // x1  = M^-1 (M v)
        mj_solveM(m, d, r + 2 * nv, v + nv, 1);    // x2  = M^-1 y
        mj_mulM(m, d, r + 3 * nv, r + 2 * nv);     // r2  = M (M^-1 y)
        printf("round"); pvec("Mv", r, nv); pvec("x1", r + nv, nv); pvec("x2", r + 2 * nv, nv); pvec("r2", r + 3 * nv, nv);
        printf("\n");
      }
      free(v); free(r);
    } else if (!strcmp(op, "integ") && n == 2 + nv) {
      double dt; double* v = (double*)malloc(sizeof(double) * (nv + 1));
      if (!getf(tok[1], &dt) || !getv(tok + 2, nv, v)) printf("bad-op\n");
      else { mj_integratePos(m, d->qpos, v, dt); printf("ok\n"); }
      free(v);
    } else if (!strcmp(op, "mq") && n == 1) {
      double* full = (double*)calloc((size_t)nv * nv + 1, sizeof(double));
      mj_fullM(m, d, full);
      printf("mq"); pvec("fullM", full, nv * nv); pvec("xipos", d->xipos, 3 * (int)m->nbody);
      pvec("qfrc_bias", d->qfrc_bias, nv);
      int nt = (int)m->ntendon;
      double* tj = (double*)calloc((size_t)nt * nv + 1, sizeof(double));
      for (int k = 0; k < nt; k++) {
        int adr = m->ten_J_rowadr[k];
        for (int j = 0; j < m->ten_J_rownnz[k]; j++) tj[(size_t)k * nv + m->ten_J_colind[adr + j]] = d->ten_J[adr + j];
      }
      pvec("tenJ", tj, nt * nv);
      printf("\n");
      free(full); free(tj);
    } else if (!strcmp(op, "dump") && n == 1) {
      op_dump();
    } else if (!strcmp(op, "jac") && n == 2) {
      int b = atoi(tok[1]);
      if (b < 0 || b >= m->nbody) printf("bad-op\n");
      else {
        double* jp = (double*)calloc(3 * nv + 1, sizeof(double));
        double* jr = (double*)calloc(3 * nv + 1, sizeof(double));
        mj_jacBodyCom(m, d, jp, jr, b);
        printf("jac"); pvec("jacp", jp, 3 * nv); pvec("jacr", jr, 3 * nv); printf("\n");
        free(jp); free(jr);
      }
    } else if (!strcmp(op, "rne") && n == 2) {
      int flg = atoi(tok[1]);
      double* r = (double*)calloc(nv + 1, sizeof(double));
      mj_rne(m, d, flg, r);
      printf("rne"); pvec("res", r, nv); printf("\n");
      free(r);
    } else {
      printf("bad-op\n");
    }
    jb_armed = 0;
    fflush(stdout);
  }
  return 0;
}
