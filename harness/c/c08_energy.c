// c08_energy.c — implementation side of C08 (DESIGN.md §5.C08): energy / momentum oracles and the kinetic-energy tie.
// Calls the real code of the tree only: mj_step (RK4), mj_forward, mj_energyPos/Vel (through mjENBL_ENERGY),
// mj_subtreeVel, mj_fullM, mju_mulSymVecSparse, mju_dot, mju_sym2dense, mj_integratePos.
//
//   model ... end                    build a model (harness/mjbuild.h)                -> ok nq nv nbody npoly | error ..
//   state <nq> <nv> qpos.. qvel..    remember the initial state (decimal %.17g)       -> ok
//   drift <h> <nsteps> <ncheck>      RK4 from the remembered state, energy flag on; energy and momenta at ncheck+1
//                                    equally spaced checkpoints (nsteps % ncheck == 0)  -> {json}; "maxang" = largest
//                                    rotational displacement of a sprung ball / free joint seen at any step
//   keline                           mj_forward at the remembered state; prints the `ke` op line built from the
//                                    engine's own arrays, preceded by the bits of energy[1]: "<e1> ke ..."
//   ke <nv> rownnz*nv rowadr*nv <nM> colind*nM M*nM v*nv       (floats = 16 hex digits; same protocol as lean/Drivers/C08.lean)
//                                    -> e <hex> | mv <hex>*nv | dense <hex>*(nv*nv)   using mju_mulSymVecSparse, mju_dot, mju_sym2dense
//   epline                           mj_forward at the remembered state (energy flag on); prints the `ep` op line built from the
//                                    engine's own arrays (same protocol as lean/Drivers/C08.lean), preceded by the bits of
//                                    energy[0], nv and the bits of qfrc_spring: "<e0> <nv> <qfrc_spring*nv> ep ..."; the
//                                    displacement vectors of ball / free joints come from the engine's mju_subQuat / mju_sub3 /
//                                    mju_norm3.  "skip <why>" if the model is outside the modelled scope (sleep, flex, damping)
//   gradpot <eps>                    central finite differences of energy[0] along every dof (mj_integratePos) at the
//                                    remembered qpos with qvel = 0, and the generalized force qfrc_passive - qfrc_bias -> {json}
//   staged <item>...                 staged / skipped pipeline calls and state edits on the SAME (already used) mjData, energy flag on,
//                                    starting from the remembered state.  Items: F0 F1 = mj_forwardSkip(mjSTAGE_NONE, skipsensor 0/1),
//                                    P0 P1 = mj_forwardSkip(mjSTAGE_POS, .), A0 = mj_forwardSkip(mjSTAGE_VEL, 0), I0 = mj_inverseSkip(NONE),
//                                    J0 = mj_inverseSkip(mjSTAGE_POS), T = mj_step1, S = mj_step, V v*nv = overwrite qvel,
//                                    Q dq*nv = mj_integratePos(qpos, dq, 1).  -> [json record per pipeline call]: energy of the used
//                                    data, energy of a fresh mjData after mj_forward at the same (qpos, qvel), qvel, mj_fullM of the used data
#include <math.h>
#include <setjmp.h>
#include <stdint.h>
#include <stdio.h>
#include <stdlib.h>
#include <string.h>
#include <mujoco/mujoco.h>
#include "mjbuild.h"
#include "engine/engine_util_sparse.h"

static jmp_buf jb;
static int jb_armed = 0;
static char lasterr[1024];
static void on_error(const char* msg) {
  snprintf(lasterr, sizeof lasterr, "%s", msg);
  for (char* c = lasterr; *c; c++) if (*c == '\n') *c = ' ';
  if (jb_armed) longjmp(jb, 1);
  fprintf(stderr, "unguarded mju_error: %s\n", msg);
  exit(3);
}
static void on_warning(const char* msg) { (void)msg; }

static int parse_hex(const char* s, double* out) {
  if (!strcmp(s, "nan")) { *out = NAN; return 1; }
  if (strlen(s) != 16) return 0;
  uint64_t u = 0;
  for (int i = 0; i < 16; i++) {
    char c = s[i]; int d;
    if (c >= '0' && c <= '9') d = c - '0';
    else if (c >= 'a' && c <= 'f') d = c - 'a' + 10;
    else return 0;
    u = (u << 4) | (uint64_t)d;
  }
  memcpy(out, &u, 8);
  return 1;
}
static int parse_nat(const char* s, long* out) {
  if (!*s || strlen(s) > 9) return 0;
  for (const char* c = s; *c; c++) if (*c < '0' || *c > '9') return 0;
  *out = strtol(s, NULL, 10);
  return 1;
}
static void put_hex(double x) {
  if (x != x) { printf("nan"); return; }
  uint64_t u; memcpy(&u, &x, 8);
  printf("%016llx", (unsigned long long)u);
}
static void put_num(double x) {
  if (x != x) printf("NaN");
  else if (isinf(x)) printf(x > 0 ? "Infinity" : "-Infinity");
  else printf("%.17g", x);
}
static void put_nums(const char* key, const double* v, long n, int last) {
  printf("\"%s\":[", key);
  for (long i = 0; i < n; i++) { if (i) printf(","); put_num(v[i]); }
  printf(last ? "]" : "],");
}

static mjModel* m = NULL;
static mjSpec* spec = NULL;
static mjData* d = NULL;
static double* s_qpos = NULL; static double* s_qvel = NULL;

// ---------------------------------------------------------------- ke (synthetic; same op on the Lean side)
static void op_ke(char** tok, int n) {
  long nv, nM;
  if (n < 2 || !parse_nat(tok[1], &nv) || nv > 4096) { printf("bad-op\n"); return; }
  if (n < 2 + 2 * nv + 1 || !parse_nat(tok[2 + 2 * nv], &nM) || nM > (1 << 22) || n != 3 + 2 * nv + 2 * nM + nv) { printf("bad-op\n"); return; }
  int* rownnz = calloc(nv + 1, sizeof(int)); int* rowadr = calloc(nv + 1, sizeof(int)); int* colind = calloc(nM + 1, sizeof(int));
  double* M = calloc(nM + 1, 8); double* v = calloc(nv + 1, 8); double* res = calloc(nv + 1, 8); double* dense = calloc(nv * nv + 1, 8);
  int bad = 0;
  for (long i = 0; i < nv && !bad; i++) {
    long a, b;
    if (!parse_nat(tok[2 + i], &a) || !parse_nat(tok[2 + nv + i], &b)) bad = 1; else { rownnz[i] = (int)a; rowadr[i] = (int)b; }
  }
  char** t = tok + 3 + 2 * nv;
  for (long k = 0; k < nM && !bad; k++) { long c; if (!parse_nat(t[k], &c)) bad = 1; else colind[k] = (int)c; }
  for (long k = 0; k < nM && !bad; k++) if (!parse_hex(t[nM + k], M + k)) bad = 1;
  for (long i = 0; i < nv && !bad; i++) if (!parse_hex(t[2 * nM + i], v + i)) bad = 1;
  // refuse storage the C loops would index out of range with, or that is not lower-triangular with the diagonal last
  for (long i = 0; i < nv && !bad; i++) {
    if (rownnz[i] < 1 || rowadr[i] + rownnz[i] > nM) { bad = 1; break; }
    for (int k = 0; k < rownnz[i]; k++) {
      int c = colind[rowadr[i] + k];
      if (k == rownnz[i] - 1 ? c != i : c >= i) bad = 1;
    }
  }
  if (bad) { printf("bad-op\n"); goto done; }
  mju_mulSymVecSparse(res, M, v, (int)nv, rownnz, rowadr, colind);
  double e = 0.5 * mju_dot(res, v, (int)nv);
  mju_sym2dense(dense, M, (int)nv, rownnz, rowadr, colind);
  printf("e "); put_hex(e); printf(" | mv");
  for (long i = 0; i < nv; i++) { printf(" "); put_hex(res[i]); }
  printf(" | dense");
  for (long i = 0; i < nv * nv; i++) { printf(" "); put_hex(dense[i]); }
  printf("\n");
done:
  free(rownnz); free(rowadr); free(colind); free(M); free(v); free(res); free(dense);
}

static void load_state(void) {
  mj_resetData(m, d);
  memcpy(d->qpos, s_qpos, sizeof(double) * m->nq);
  memcpy(d->qvel, s_qvel, sizeof(double) * m->nv);
}

static void op_keline(void) {
  load_state();
  m->opt.enableflags |= mjENBL_ENERGY;
  mj_forward(m, d);
  int nv = m->nv;
  put_hex(d->energy[1]);
  printf(" ke %d", nv);
  for (int i = 0; i < nv; i++) printf(" %d", m->M_rownnz[i]);
  for (int i = 0; i < nv; i++) printf(" %d", m->M_rowadr[i]);
  printf(" %d", (int)m->nC);
  for (int k = 0; k < m->nC; k++) printf(" %d", m->M_colind[k]);
  for (int k = 0; k < m->nC; k++) { printf(" "); put_hex(d->M[k]); }
  for (int i = 0; i < nv; i++) { printf(" "); put_hex(d->qvel[i]); }
  printf("\n");
}

// momenta of the whole system from mj_subtreeVel (body 0 = world subtree = everything)
static void momenta(double P[3], double L[3], double com[3]) {
  mj_subtreeVel(m, d);
  double mass = m->body_subtreemass[0];
  for (int k = 0; k < 3; k++) { P[k] = mass * d->subtree_linvel[k]; L[k] = d->subtree_angmom[k]; com[k] = d->subtree_com[k]; }
}

static void dump_bodies(const char* key) {
  printf("\"%s\":[", key);
  for (int i = 1; i < m->nbody; i++) {
    printf(i > 1 ? ",{" : "{");
    printf("\"mass\":"); put_num(m->body_mass[i]); printf(",");
    put_nums("inertia", m->body_inertia + 3 * i, 3, 0);
    put_nums("xipos", d->xipos + 3 * i, 3, 0);
    put_nums("ximat", d->ximat + 9 * i, 9, 0);
    put_nums("rootcom", d->subtree_com + 3 * m->body_rootid[i], 3, 0);
    put_nums("cvel", d->cvel + 6 * i, 6, 1);
    printf("}");
  }
  printf("],");
}

// largest rotational spring displacement (radians) over the ball / free joints that carry a spring: the spring potential
// of a quaternion joint is a function of the SHORTEST rotation to the reference, which has a kink at pi (cut locus); a
// trajectory that reaches it is outside the smooth regime in which a Runge-Kutta order can be observed
static double spring_angle_max(void) {
  double mx = 0;
  for (int j = 0; j < m->njnt; j++) {
    int type = m->jnt_type[j];
    if (type != mjJNT_BALL && type != mjJNT_FREE) continue;
    if (m->jnt_stiffness[j] == 0 && mju_isZero(m->jnt_stiffnesspoly + mjNPOLY * j, mjNPOLY)) continue;
    int padr = m->jnt_qposadr[j] + (type == mjJNT_FREE ? 3 : 0);
    double quat[4], dif[3];
    mju_copy4(quat, d->qpos + padr);
    mju_normalize4(quat);
    mju_subQuat(dif, quat, m->qpos_spring + padr);
    double a = mju_norm3(dif);
    if (a > mx) mx = a;
  }
  return mx;
}

static void op_drift(double h, long nsteps, long ncheck) {
  load_state();
  m->opt.timestep = h;
  m->opt.integrator = mjINT_RK4;
  m->opt.enableflags |= mjENBL_ENERGY;
  long per = nsteps / ncheck;
  double* E0 = malloc(8 * (ncheck + 1)); double* E1 = malloc(8 * (ncheck + 1));
  double* P = malloc(8 * 3 * (ncheck + 1)); double* L = malloc(8 * 3 * (ncheck + 1)); double* C = malloc(8 * 3 * (ncheck + 1));
  printf("{");
  double maxang = spring_angle_max();
  for (long c = 0; c <= ncheck; c++) {
    mj_forward(m, d);
    E0[c] = d->energy[0]; E1[c] = d->energy[1];
    momenta(P + 3 * c, L + 3 * c, C + 3 * c);
    if (c == 0) dump_bodies("bodies0");
    if (c == ncheck) { dump_bodies("bodies1"); break; }
    for (long s = 0; s < per; s++) {
      mj_step(m, d);
      double a = spring_angle_max();
      if (a > maxang) maxang = a;
    }
  }
  // independent evaluation of the kinetic energy at the final state: dense M from mj_fullM
  int nv = m->nv;
  double* full = malloc(8 * (nv * nv + 1));
  mj_fullM(m, d, full);
  put_nums("fullM", full, (long)nv * nv, 0);
  put_nums("qvel1", d->qvel, nv, 0);
  put_nums("Epot", E0, ncheck + 1, 0); put_nums("Ekin", E1, ncheck + 1, 0);
  put_nums("P", P, 3 * (ncheck + 1), 0); put_nums("L", L, 3 * (ncheck + 1), 0); put_nums("com", C, 3 * (ncheck + 1), 0);
  printf("\"mass\":"); put_num(m->body_subtreemass[0]);
  printf(",\"maxang\":"); put_num(maxang);
  printf(",\"nefc\":%d,\"ncon\":%d,\"time\":", d->nefc, d->ncon); put_num(d->time);
  printf(",\"warn\":%d}\n", d->warning[mjWARN_BADQACC].number + d->warning[mjWARN_BADQPOS].number + d->warning[mjWARN_BADQVEL].number);
  free(E0); free(E1); free(P); free(L); free(C); free(full);
}

static void put_radial(double re, const double dif[3]) {
  printf(" "); put_hex(re);
  printf(" "); put_hex(mju_norm3(dif));
  for (int k = 0; k < 3; k++) { printf(" "); put_hex(dif[k]); }
}

static void op_epline(void) {
  load_state();
  m->opt.enableflags |= mjENBL_ENERGY;
  mj_forward(m, d);
  int nv = m->nv;
  // scope of the Lean model
  const char* why = NULL;
  if (m->opt.enableflags & mjENBL_SLEEP) why = "sleep";
  if (m->nflex) why = "flex";
  for (int i = 0; i < m->ntendon && !why; i++)
    if (m->tendon_damping[i] != 0 || !mju_isZero(m->tendon_dampingpoly + mjNPOLY * i, mjNPOLY)) why = "tendon damping";
  for (int i = 0; i < m->nu && !why; i++)
    if (m->actuator_damping[i] != 0 || !mju_isZero(m->actuator_dampingpoly + mjNPOLY * i, mjNPOLY)) why = "actuator damping";
  if (mjNPOLY != 2) why = "mjNPOLY";
  if (why) { printf("skip %s\n", why); return; }
  put_hex(d->energy[0]);
  printf(" %d", nv);
  for (int i = 0; i < nv; i++) { printf(" "); put_hex(d->qfrc_spring[i]); }
  printf(" ep %d %d", nv, (m->opt.disableflags & mjDSBL_GRAVITY) ? 0 : 1);
  for (int k = 0; k < 3; k++) { printf(" "); put_hex(m->opt.gravity[k]); }
  printf(" %d", (int)m->nbody - 1);
  for (int b = 1; b < m->nbody; b++) {
    printf(" "); put_hex(m->body_mass[b]);
    for (int k = 0; k < 3; k++) { printf(" "); put_hex(d->xipos[3 * b + k]); }
  }
  printf(" %d %d", (m->opt.disableflags & mjDSBL_SPRING) ? 0 : 1, (int)m->njnt);
  // joints in the order both engine loops visit them (bodies in order, joints of a body in order)
  int seen = 0;
  for (int b = 0; b < m->nbody; b++) {
    for (int j = m->body_jntadr[b]; j < m->body_jntadr[b] + m->body_jntnum[b]; j++) {
      seen++;
      int padr = m->jnt_qposadr[j], dadr = m->jnt_dofadr[j], type = m->jnt_type[j];
      printf(" %s %d", type == mjJNT_FREE ? "f" : type == mjJNT_BALL ? "b" : "s", dadr);
      printf(" "); put_hex(m->jnt_stiffness[j]);
      for (int k = 0; k < mjNPOLY; k++) { printf(" "); put_hex(m->jnt_stiffnesspoly[mjNPOLY * j + k]); }
      if (type == mjJNT_FREE) {
        double dif[3];
        mju_sub3(dif, d->qpos + padr, m->qpos_spring + padr);
        put_radial(mju_norm3(dif), dif);
        padr += 3;
      }
      if (type == mjJNT_FREE || type == mjJNT_BALL) {
        double dif[3], quat[4];
        mju_copy4(quat, d->qpos + padr);
        mju_normalize4(quat);
        mju_subQuat(dif, quat, m->qpos_spring + padr);
        // mj_energyPos takes the quaternion as it is in qpos, mj_springdamper a re-normalised copy
        double dife[3];
        mju_subQuat(dife, d->qpos + padr, m->qpos_spring + padr);
        put_radial(mju_norm3(dife), dif);
      } else {
        printf(" "); put_hex(d->qpos[padr]); printf(" "); put_hex(m->qpos_spring[padr]);
      }
    }
  }
  if (seen != m->njnt) { printf(" joint-order-mismatch"); }
  printf(" %d", (int)m->ntendon);
  for (int i = 0; i < m->ntendon; i++) {
    printf(" "); put_hex(m->tendon_stiffness[i]);
    for (int k = 0; k < mjNPOLY; k++) { printf(" "); put_hex(m->tendon_stiffnesspoly[mjNPOLY * i + k]); }
    printf(" "); put_hex(d->ten_length[i]);
    printf(" "); put_hex(m->tendon_lengthspring[2 * i]); printf(" "); put_hex(m->tendon_lengthspring[2 * i + 1]);
    printf(" %d", m->ten_J_rownnz[i]);
    for (int k = m->ten_J_rowadr[i]; k < m->ten_J_rowadr[i] + m->ten_J_rownnz[i]; k++) {
      printf(" %d ", m->ten_J_colind[k]); put_hex(d->ten_J[k]);
    }
  }
  printf("\n");
}

static mjData* d2 = NULL;
static void op_staged(char** tok, int n) {
  int nv = m->nv, nq = m->nq;
  // validate first
  for (int i = 1; i < n; ) {
    const char* t = tok[i];
    if (!strcmp(t, "V") || !strcmp(t, "Q")) { if (i + nv >= n) { printf("bad-op\n"); return; } i += 1 + nv; }
    else if (!strcmp(t, "F0") || !strcmp(t, "F1") || !strcmp(t, "P0") || !strcmp(t, "P1") || !strcmp(t, "A0") || !strcmp(t, "I0") ||
             !strcmp(t, "J0") || !strcmp(t, "T") || !strcmp(t, "S")) i++;
    else { printf("bad-op\n"); return; }
  }
  if (!d2) d2 = mj_makeData(m);
  m->opt.enableflags |= mjENBL_ENERGY;
  load_state();
  double* full = malloc(8 * ((size_t)nv * nv + 1)); double* dq = calloc(nv + 1, 8);
  printf("[");
  int first = 1;
  for (int i = 1; i < n; ) {
    const char* t = tok[i];
    if (!strcmp(t, "V")) { for (int k = 0; k < nv; k++) d->qvel[k] = strtod(tok[i + 1 + k], NULL); i += 1 + nv; continue; }
    if (!strcmp(t, "Q")) {
      for (int k = 0; k < nv; k++) dq[k] = strtod(tok[i + 1 + k], NULL);
      mj_integratePos(m, d->qpos, dq, 1.0);
      i += 1 + nv; continue;
    }
    if (!strcmp(t, "F0")) mj_forwardSkip(m, d, mjSTAGE_NONE, 0);
    else if (!strcmp(t, "F1")) mj_forwardSkip(m, d, mjSTAGE_NONE, 1);
    else if (!strcmp(t, "P0")) mj_forwardSkip(m, d, mjSTAGE_POS, 0);
    else if (!strcmp(t, "P1")) mj_forwardSkip(m, d, mjSTAGE_POS, 1);
    else if (!strcmp(t, "A0")) mj_forwardSkip(m, d, mjSTAGE_VEL, 0);
    else if (!strcmp(t, "I0")) mj_inverseSkip(m, d, mjSTAGE_NONE, 0);
    else if (!strcmp(t, "J0")) mj_inverseSkip(m, d, mjSTAGE_POS, 0);
    else if (!strcmp(t, "T")) mj_step1(m, d);
    else mj_step(m, d);
    i++;
    // reference: a fresh mjData, full mj_forward at the same state
    mj_resetData(m, d2);
    memcpy(d2->qpos, d->qpos, sizeof(double) * nq);
    memcpy(d2->qvel, d->qvel, sizeof(double) * nv);
    d2->time = d->time;
    mj_forward(m, d2);
    mj_fullM(m, d, full);
    printf(first ? "{" : ",{"); first = 0;
    printf("\"c\":\"%s\",\"e0\":", t); put_num(d->energy[0]); printf(",\"e1\":"); put_num(d->energy[1]);
    printf(",\"r0\":"); put_num(d2->energy[0]); printf(",\"r1\":"); put_num(d2->energy[1]); printf(",");
    put_nums("qvel", d->qvel, nv, 0);
    put_nums("fullM", full, (long)nv * nv, 1);
    printf("}");
  }
  printf("]\n");
  free(full); free(dq);
}

static void op_gradpot(double eps) {
  int nv = m->nv, nq = m->nq;
  m->opt.enableflags |= mjENBL_ENERGY;
  double* g = calloc(nv + 1, 8); double* frc = calloc(nv + 1, 8); double* dq = calloc(nv + 1, 8);
  load_state();
  mju_zero(d->qvel, nv);
  mj_forward(m, d);
  for (int i = 0; i < nv; i++) frc[i] = d->qfrc_passive[i] - d->qfrc_bias[i];
  double e0 = d->energy[0];
  for (int i = 0; i < nv; i++) {
    double ep[2];
    for (int s = 0; s < 2; s++) {
      memcpy(d->qpos, s_qpos, sizeof(double) * nq);
      mju_zero(dq, nv); dq[i] = s ? -1 : 1;
      mj_integratePos(m, d->qpos, dq, eps);
      mju_zero(d->qvel, nv);
      mj_forward(m, d);
      ep[s] = d->energy[0];
    }
    g[i] = (ep[0] - ep[1]) / (2 * eps);
  }
  printf("{"); put_nums("grad", g, nv, 0); put_nums("force", frc, nv, 0);
  printf("\"epot\":"); put_num(e0); printf("}\n");
  free(g); free(frc); free(dq);
}

int main(void) {
  mju_user_error = on_error;
  mju_user_warning = on_warning;
  static char line[1 << 24];
  static char* tok[1 << 20];
  while (fgets(line, sizeof line, stdin)) {
    int n = 0; char* save; char* t = strtok_r(line, " \t\r\n", &save);
    while (t && n < (1 << 20)) { tok[n++] = t; t = strtok_r(NULL, " \t\r\n", &save); }
    if (!n) { printf("bad-op\n"); fflush(stdout); continue; }
    const char* op = tok[0];
    jb_armed = 1;
    if (setjmp(jb)) { jb_armed = 0; printf("error %s\n", lasterr); fflush(stdout); continue; }
    if (!strcmp(op, "ke")) op_ke(tok, n);
    else if (!strcmp(op, "model")) {
      if (d) { mj_deleteData(d); d = NULL; }
      if (d2) { mj_deleteData(d2); d2 = NULL; }
      if (m) { mj_deleteModel(m); m = NULL; }
      if (spec) { mj_deleteSpec(spec); spec = NULL; }
      free(s_qpos); free(s_qvel); s_qpos = s_qvel = NULL;
      char err[1024];
      m = mjb_compile(stdin, &spec, err, sizeof err);
      if (m) d = mj_makeData(m);
      if (!m || !d) printf("error %s\n", m ? "makeData" : err);
      else {
        s_qpos = calloc(m->nq + 1, 8); s_qvel = calloc(m->nv + 1, 8);
        memcpy(s_qpos, m->qpos0, 8 * m->nq);
        printf("ok %d %d %d %d\n", (int)m->nq, (int)m->nv, (int)m->nbody, (int)mjNPOLY);
      }
    } else if (strcmp(op, "state") && strcmp(op, "drift") && strcmp(op, "keline") && strcmp(op, "gradpot") && strcmp(op, "epline") && strcmp(op, "staged")) {
      printf("bad-op\n");
    } else if (!m || !d) {
      printf("error no model\n");
    } else if (!strcmp(op, "state") && n >= 3 && atoi(tok[1]) == m->nq && atoi(tok[2]) == m->nv && n == 3 + m->nq + m->nv) {
      for (int i = 0; i < m->nq; i++) s_qpos[i] = strtod(tok[3 + i], NULL);
      for (int i = 0; i < m->nv; i++) s_qvel[i] = strtod(tok[3 + m->nq + i], NULL);
      printf("ok\n");
    } else if (!strcmp(op, "drift") && n == 4) {
      double h = strtod(tok[1], NULL); long ns = atol(tok[2]), nc = atol(tok[3]);
      if (!(h > 0) || ns <= 0 || nc <= 0 || ns % nc) printf("bad-op\n"); else op_drift(h, ns, nc);
    } else if (!strcmp(op, "keline") && n == 1) op_keline();
    else if (!strcmp(op, "epline") && n == 1) op_epline();
    else if (!strcmp(op, "gradpot") && n == 2) op_gradpot(strtod(tok[1], NULL));
    else if (!strcmp(op, "staged") && n >= 2) op_staged(tok, n);
    else printf("bad-op\n");
    jb_armed = 0;
    fflush(stdout);
  }
  return 0;
}
