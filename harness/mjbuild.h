// mjbuild.h — builds an mjSpec of the tree through the public mjs_* C API from a line-based model
// description produced by /verif/gen/models.py (DESIGN.md §3.6).  Header-only; C and C++.
//
//   spec <field> v...        option <field> v...        compiler <field> v...
//   body <h> <parent-h>      (handle 0 is the world body)
//   frame <h> <body-h>
//   joint|freejoint|geom|site|camera|light <h> <body-h>
//   actuator|sensor|tendon|equality|pair|exclude|key|numeric|text|tuple|mesh <h>
//   set <h> <field> v...     (numbers, or one string token for string fields; '~' = empty string)
//   name <h> <string>
//   setframe <h> <frame-h>
//   wrap <tendon-h> joint <name> <coef> | site <name> | geom <name> <sidesite|~> | pulley <divisor>
//   tupleadd <h> <objtype-int> <objname> <prm>
//   makemesh <h> <builtin-int> p0 p1 ...
//   end
// Every line is checked; an unknown field or handle makes mjb_build return NULL with a message.
#ifndef VERIF_MJBUILD_H_
#define VERIF_MJBUILD_H_
#include <stddef.h>
#include <stdio.h>
#include <stdlib.h>
#include <string.h>
#include <mujoco/mujoco.h>

enum { MJB_D, MJB_I, MJB_B, MJB_F, MJB_S, MJB_DV, MJB_Z };
typedef struct { const char* kind; const char* name; int type; size_t off; int count; } mjbField;

#define MJB_FD(K, T, f) {K, #f, MJB_D, offsetof(T, f), (int)(sizeof(((T*)0)->f) / sizeof(double))}
#define MJB_FI(K, T, f) {K, #f, MJB_I, offsetof(T, f), (int)(sizeof(((T*)0)->f) / sizeof(int))}
#define MJB_FB(K, T, f) {K, #f, MJB_B, offsetof(T, f), (int)(sizeof(((T*)0)->f))}
#define MJB_FF(K, T, f) {K, #f, MJB_F, offsetof(T, f), (int)(sizeof(((T*)0)->f) / sizeof(float))}
#define MJB_FS(K, T, f) {K, #f, MJB_S, offsetof(T, f), 1}
#define MJB_FV(K, T, f) {K, #f, MJB_DV, offsetof(T, f), 0}
#define MJB_FZ(K, T, f) {K, #f, MJB_Z, offsetof(T, f), 1}
#define MJB_ALT(K, T, a) \
  {K, #a ".type", MJB_I, offsetof(T, a.type), 1}, {K, #a ".axisangle", MJB_D, offsetof(T, a.axisangle), 4}, \
  {K, #a ".xyaxes", MJB_D, offsetof(T, a.xyaxes), 6}, {K, #a ".zaxis", MJB_D, offsetof(T, a.zaxis), 3}, \
  {K, #a ".euler", MJB_D, offsetof(T, a.euler), 3}

static const mjbField mjb_fields[] = {
  // mjSpec
  MJB_FZ("spec", mjSpec, memory), MJB_FI("spec", mjSpec, nemax), MJB_FI("spec", mjSpec, nuserdata),
  MJB_FI("spec", mjSpec, nuser_body), MJB_FI("spec", mjSpec, nuser_jnt), MJB_FI("spec", mjSpec, nuser_geom),
  MJB_FI("spec", mjSpec, nuser_site), MJB_FI("spec", mjSpec, nuser_cam), MJB_FI("spec", mjSpec, nuser_tendon),
  MJB_FI("spec", mjSpec, nuser_actuator), MJB_FI("spec", mjSpec, nuser_sensor), MJB_FI("spec", mjSpec, nkey),
  MJB_FI("spec", mjSpec, njmax), MJB_FI("spec", mjSpec, nconmax), MJB_FS("spec", mjSpec, modelname),
  MJB_FB("spec", mjSpec, strippath),
  // mjOption
  MJB_FD("option", mjOption, timestep), MJB_FD("option", mjOption, impratio), MJB_FD("option", mjOption, tolerance),
  MJB_FD("option", mjOption, ls_tolerance), MJB_FD("option", mjOption, noslip_tolerance),
  MJB_FD("option", mjOption, ccd_tolerance), MJB_FD("option", mjOption, sleep_tolerance),
  MJB_FD("option", mjOption, gravity), MJB_FD("option", mjOption, wind), MJB_FD("option", mjOption, magnetic),
  MJB_FD("option", mjOption, density), MJB_FD("option", mjOption, viscosity), MJB_FD("option", mjOption, o_margin),
  MJB_FD("option", mjOption, o_solref), MJB_FD("option", mjOption, o_solimp), MJB_FD("option", mjOption, o_friction),
  MJB_FI("option", mjOption, integrator), MJB_FI("option", mjOption, cone), MJB_FI("option", mjOption, jacobian),
  MJB_FI("option", mjOption, solver), MJB_FI("option", mjOption, iterations), MJB_FI("option", mjOption, ls_iterations),
  MJB_FI("option", mjOption, noslip_iterations), MJB_FI("option", mjOption, ccd_iterations),
  MJB_FI("option", mjOption, disableflags), MJB_FI("option", mjOption, enableflags),
  MJB_FI("option", mjOption, disableactuator),
  // mjsCompiler
  MJB_FB("compiler", mjsCompiler, autolimits), MJB_FD("compiler", mjsCompiler, boundmass),
  MJB_FD("compiler", mjsCompiler, boundinertia), MJB_FD("compiler", mjsCompiler, settotalmass),
  MJB_FB("compiler", mjsCompiler, balanceinertia), MJB_FB("compiler", mjsCompiler, degree),
  MJB_FB("compiler", mjsCompiler, eulerseq), MJB_FB("compiler", mjsCompiler, discardvisual),
  MJB_FB("compiler", mjsCompiler, usethread), MJB_FB("compiler", mjsCompiler, fusestatic),
  MJB_FI("compiler", mjsCompiler, inertiafromgeom), MJB_FI("compiler", mjsCompiler, inertiagrouprange),
  MJB_FB("compiler", mjsCompiler, alignfree),
  // body
  MJB_FD("body", mjsBody, pos), MJB_FD("body", mjsBody, quat), MJB_ALT("body", mjsBody, alt),
  MJB_FD("body", mjsBody, mass), MJB_FD("body", mjsBody, ipos), MJB_FD("body", mjsBody, iquat),
  MJB_FD("body", mjsBody, inertia), MJB_ALT("body", mjsBody, ialt), MJB_FD("body", mjsBody, fullinertia),
  MJB_FB("body", mjsBody, mocap), MJB_FD("body", mjsBody, gravcomp), MJB_FI("body", mjsBody, sleep),
  MJB_FB("body", mjsBody, explicitinertial), MJB_FV("body", mjsBody, userdata), MJB_FS("body", mjsBody, childclass),
  // frame
  MJB_FD("frame", mjsFrame, pos), MJB_FD("frame", mjsFrame, quat), MJB_ALT("frame", mjsFrame, alt),
  // joint
  MJB_FI("joint", mjsJoint, type), MJB_FD("joint", mjsJoint, pos), MJB_FD("joint", mjsJoint, axis),
  MJB_FD("joint", mjsJoint, ref), MJB_FI("joint", mjsJoint, align), MJB_FD("joint", mjsJoint, stiffness),
  MJB_FD("joint", mjsJoint, springref), MJB_FD("joint", mjsJoint, springdamper), MJB_FI("joint", mjsJoint, limited),
  MJB_FD("joint", mjsJoint, range), MJB_FD("joint", mjsJoint, margin), MJB_FD("joint", mjsJoint, solref_limit),
  MJB_FD("joint", mjsJoint, solimp_limit), MJB_FI("joint", mjsJoint, actfrclimited),
  MJB_FD("joint", mjsJoint, actfrcrange), MJB_FD("joint", mjsJoint, armature), MJB_FD("joint", mjsJoint, damping),
  MJB_FD("joint", mjsJoint, frictionloss), MJB_FD("joint", mjsJoint, solref_friction),
  MJB_FD("joint", mjsJoint, solimp_friction), MJB_FI("joint", mjsJoint, group), MJB_FB("joint", mjsJoint, actgravcomp),
  MJB_FV("joint", mjsJoint, userdata),
  // geom
  MJB_FI("geom", mjsGeom, type), MJB_FD("geom", mjsGeom, pos), MJB_FD("geom", mjsGeom, quat),
  MJB_ALT("geom", mjsGeom, alt), MJB_FD("geom", mjsGeom, fromto), MJB_FD("geom", mjsGeom, size),
  MJB_FI("geom", mjsGeom, contype), MJB_FI("geom", mjsGeom, conaffinity), MJB_FI("geom", mjsGeom, condim),
  MJB_FI("geom", mjsGeom, priority), MJB_FD("geom", mjsGeom, friction), MJB_FD("geom", mjsGeom, solmix),
  MJB_FD("geom", mjsGeom, solref), MJB_FD("geom", mjsGeom, solimp), MJB_FD("geom", mjsGeom, margin),
  MJB_FD("geom", mjsGeom, gap), MJB_FD("geom", mjsGeom, mass), MJB_FD("geom", mjsGeom, density),
  MJB_FI("geom", mjsGeom, typeinertia), MJB_FD("geom", mjsGeom, fluid_ellipsoid), MJB_FD("geom", mjsGeom, fluid_coefs),
  MJB_FI("geom", mjsGeom, group), MJB_FS("geom", mjsGeom, meshname), MJB_FS("geom", mjsGeom, material),
  MJB_FF("geom", mjsGeom, rgba), MJB_FD("geom", mjsGeom, fitscale), MJB_FV("geom", mjsGeom, userdata),
  // site
  MJB_FD("site", mjsSite, pos), MJB_FD("site", mjsSite, quat), MJB_ALT("site", mjsSite, alt),
  MJB_FD("site", mjsSite, fromto), MJB_FD("site", mjsSite, size), MJB_FI("site", mjsSite, type),
  MJB_FI("site", mjsSite, group), MJB_FV("site", mjsSite, userdata),
  // camera
  MJB_FD("camera", mjsCamera, pos), MJB_FD("camera", mjsCamera, quat), MJB_ALT("camera", mjsCamera, alt),
  MJB_FI("camera", mjsCamera, mode), MJB_FS("camera", mjsCamera, targetbody), MJB_FD("camera", mjsCamera, fovy),
  MJB_FD("camera", mjsCamera, ipd), MJB_FV("camera", mjsCamera, userdata),
  // light
  MJB_FD("light", mjsLight, pos), MJB_FD("light", mjsLight, dir), MJB_FI("light", mjsLight, mode),
  MJB_FS("light", mjsLight, targetbody),
  // actuator
  MJB_FI("actuator", mjsActuator, gaintype), MJB_FD("actuator", mjsActuator, gainprm),
  MJB_FI("actuator", mjsActuator, biastype), MJB_FD("actuator", mjsActuator, biasprm),
  MJB_FI("actuator", mjsActuator, dyntype), MJB_FD("actuator", mjsActuator, dynprm),
  MJB_FI("actuator", mjsActuator, actdim), MJB_FB("actuator", mjsActuator, actearly),
  MJB_FI("actuator", mjsActuator, ctrlspec), MJB_FD("actuator", mjsActuator, velrange),
  MJB_FD("actuator", mjsActuator, ffrange),
  MJB_FI("actuator", mjsActuator, trntype), MJB_FD("actuator", mjsActuator, gear),
  MJB_FS("actuator", mjsActuator, target), MJB_FS("actuator", mjsActuator, refsite),
  MJB_FS("actuator", mjsActuator, slidersite), MJB_FD("actuator", mjsActuator, cranklength),
  MJB_FD("actuator", mjsActuator, lengthrange), MJB_FD("actuator", mjsActuator, inheritrange),
  MJB_FD("actuator", mjsActuator, damping), MJB_FD("actuator", mjsActuator, armature),
  MJB_FI("actuator", mjsActuator, ctrllimited), MJB_FD("actuator", mjsActuator, ctrlrange),
  MJB_FI("actuator", mjsActuator, forcelimited), MJB_FD("actuator", mjsActuator, forcerange),
  MJB_FI("actuator", mjsActuator, actlimited), MJB_FD("actuator", mjsActuator, actrange),
  MJB_FI("actuator", mjsActuator, group), MJB_FI("actuator", mjsActuator, nsample),
  MJB_FI("actuator", mjsActuator, interp), MJB_FD("actuator", mjsActuator, delay),
  MJB_FV("actuator", mjsActuator, userdata),
  // sensor
  MJB_FI("sensor", mjsSensor, type), MJB_FI("sensor", mjsSensor, objtype), MJB_FS("sensor", mjsSensor, objname),
  MJB_FI("sensor", mjsSensor, reftype), MJB_FS("sensor", mjsSensor, refname), MJB_FI("sensor", mjsSensor, intprm),
  MJB_FI("sensor", mjsSensor, datatype), MJB_FI("sensor", mjsSensor, needstage), MJB_FI("sensor", mjsSensor, dim),
  MJB_FD("sensor", mjsSensor, cutoff), MJB_FD("sensor", mjsSensor, noise), MJB_FI("sensor", mjsSensor, nsample),
  MJB_FI("sensor", mjsSensor, interp), MJB_FD("sensor", mjsSensor, delay), MJB_FD("sensor", mjsSensor, interval),
  MJB_FV("sensor", mjsSensor, userdata),
  // tendon
  MJB_FD("tendon", mjsTendon, stiffness), MJB_FD("tendon", mjsTendon, springlength), MJB_FD("tendon", mjsTendon, damping),
  MJB_FD("tendon", mjsTendon, frictionloss), MJB_FD("tendon", mjsTendon, solref_friction),
  MJB_FD("tendon", mjsTendon, solimp_friction), MJB_FD("tendon", mjsTendon, armature),
  MJB_FI("tendon", mjsTendon, limited), MJB_FI("tendon", mjsTendon, actfrclimited), MJB_FD("tendon", mjsTendon, range),
  MJB_FD("tendon", mjsTendon, actfrcrange), MJB_FD("tendon", mjsTendon, margin),
  MJB_FD("tendon", mjsTendon, solref_limit), MJB_FD("tendon", mjsTendon, solimp_limit),
  MJB_FD("tendon", mjsTendon, width), MJB_FI("tendon", mjsTendon, group), MJB_FV("tendon", mjsTendon, userdata),
  // equality
  MJB_FI("equality", mjsEquality, type), MJB_FD("equality", mjsEquality, data), MJB_FB("equality", mjsEquality, active),
  MJB_FS("equality", mjsEquality, name1), MJB_FS("equality", mjsEquality, name2),
  MJB_FI("equality", mjsEquality, objtype), MJB_FD("equality", mjsEquality, solref), MJB_FD("equality", mjsEquality, solimp),
  // pair / exclude
  MJB_FS("pair", mjsPair, geomname1), MJB_FS("pair", mjsPair, geomname2), MJB_FI("pair", mjsPair, condim),
  MJB_FD("pair", mjsPair, solref), MJB_FD("pair", mjsPair, solreffriction), MJB_FD("pair", mjsPair, solimp),
  MJB_FD("pair", mjsPair, margin), MJB_FD("pair", mjsPair, gap), MJB_FD("pair", mjsPair, friction),
  MJB_FS("exclude", mjsExclude, bodyname1), MJB_FS("exclude", mjsExclude, bodyname2),
  // key, numeric, text, tuple
  MJB_FD("key", mjsKey, time), MJB_FV("key", mjsKey, qpos), MJB_FV("key", mjsKey, qvel), MJB_FV("key", mjsKey, act),
  MJB_FV("key", mjsKey, mpos), MJB_FV("key", mjsKey, mquat), MJB_FV("key", mjsKey, ctrl),
  MJB_FV("numeric", mjsNumeric, data), MJB_FI("numeric", mjsNumeric, size),
  MJB_FS("text", mjsText, data),
  // mesh
  MJB_FD("mesh", mjsMesh, refpos), MJB_FD("mesh", mjsMesh, refquat), MJB_FD("mesh", mjsMesh, scale),
  MJB_FI("mesh", mjsMesh, inertia), MJB_FI("mesh", mjsMesh, maxhullvert),
  {NULL, NULL, 0, 0, 0}
};

#define MJB_MAXH 4096
typedef struct { const char* kind; void* ptr; mjsElement* el; } mjbHandle;

static int mjb_setfield(const char* kind, void* base, const char* field, char** tok, int ntok, char* err, int errsz) {
  for (const mjbField* f = mjb_fields; f->kind; f++) {
    if (strcmp(f->kind, kind) || strcmp(f->name, field)) continue;
    char* p = (char*)base + f->off;
    if (f->type == MJB_S) {
      if (ntok != 1) { snprintf(err, errsz, "string field %s needs one token", field); return 0; }
      mjs_setString(*(mjString**)p, strcmp(tok[0], "~") ? tok[0] : "");
      return 1;
    }
    if (f->type == MJB_DV) {
      double* v = (double*)malloc(sizeof(double) * (ntok ? ntok : 1));
      for (int i = 0; i < ntok; i++) v[i] = strtod(tok[i], NULL);
      mjs_setDouble(*(mjDoubleVec**)p, v, ntok);
      free(v);
      return 1;
    }
    if (ntok > f->count || ntok < 1) { snprintf(err, errsz, "field %s.%s takes 1..%d values, got %d", kind, field, f->count, ntok); return 0; }
    for (int i = 0; i < ntok; i++) {
      switch (f->type) {
        case MJB_D: ((double*)p)[i] = strtod(tok[i], NULL); break;
        case MJB_I: ((int*)p)[i] = (int)strtol(tok[i], NULL, 0); break;
        case MJB_B: ((unsigned char*)p)[i] = (unsigned char)strtol(tok[i], NULL, 0); break;
        case MJB_F: ((float*)p)[i] = (float)strtod(tok[i], NULL); break;
        case MJB_Z: ((mjtSize*)p)[i] = (mjtSize)strtoll(tok[i], NULL, 0); break;
      }
    }
    return 1;
  }
  snprintf(err, errsz, "unknown field %s.%s", kind, field);
  return 0;
}

// Reads model-description lines from `in` until a line "end" (or EOF); returns a new mjSpec or NULL.
static mjSpec* mjb_build(FILE* in, char* err, int errsz) {
  static mjbHandle H[MJB_MAXH];
  memset(H, 0, sizeof(H));
  mjSpec* s = mj_makeSpec();
  H[0].kind = "body"; H[0].ptr = mjs_findBody(s, "world"); H[0].el = ((mjsBody*)H[0].ptr)->element;
  static char line[1 << 16];
  char* tok[2048];
  err[0] = 0;
  while (fgets(line, sizeof line, in)) {
    int n = 0; char* save; char* t = strtok_r(line, " \t\r\n", &save);
    while (t && n < 2048) { tok[n++] = t; t = strtok_r(NULL, " \t\r\n", &save); }
    if (!n || tok[0][0] == '#') continue;
    const char* op = tok[0];
    if (!strcmp(op, "end")) break;
#define MJB_FAIL(...) { snprintf(err, errsz, __VA_ARGS__); mj_deleteSpec(s); return NULL; }
    if (!strcmp(op, "spec") || !strcmp(op, "option") || !strcmp(op, "compiler")) {
      if (n < 3) MJB_FAIL("short line: %s", op);
      void* base = !strcmp(op, "spec") ? (void*)s : !strcmp(op, "option") ? (void*)&s->option : (void*)&s->compiler;
      if (!mjb_setfield(op, base, tok[1], tok + 2, n - 2, err, errsz)) { mj_deleteSpec(s); return NULL; }
      continue;
    }
    if (n < 2) MJB_FAIL("short line: %s", op);
    int h = atoi(tok[1]);
    if (h < 0 || h >= MJB_MAXH) MJB_FAIL("handle out of range: %d", h);
    if (!strcmp(op, "set")) {
      if (n < 4 || !H[h].ptr) MJB_FAIL("bad set on handle %d", h);
      if (!mjb_setfield(H[h].kind, H[h].ptr, tok[2], tok + 3, n - 3, err, errsz)) { mj_deleteSpec(s); return NULL; }
      continue;
    }
    if (!strcmp(op, "name")) {
      if (n < 3 || !H[h].el) MJB_FAIL("bad name on handle %d", h);
      if (mjs_setName(H[h].el, tok[2])) MJB_FAIL("mjs_setName failed for %s", tok[2]);
      continue;
    }
    if (!strcmp(op, "setframe")) {
      int fh = n > 2 ? atoi(tok[2]) : -1;
      if (fh < 0 || fh >= MJB_MAXH || !H[h].el || !H[fh].ptr || strcmp(H[fh].kind, "frame")) MJB_FAIL("bad setframe");
      if (mjs_setFrame(H[h].el, (mjsFrame*)H[fh].ptr)) MJB_FAIL("mjs_setFrame failed");
      continue;
    }
    if (!strcmp(op, "wrap")) {
      if (n < 4 || !H[h].ptr || strcmp(H[h].kind, "tendon")) MJB_FAIL("bad wrap");
      mjsTendon* td = (mjsTendon*)H[h].ptr; mjsWrap* w = NULL;
      if (!strcmp(tok[2], "joint")) w = mjs_wrapJoint(td, tok[3], n > 4 ? strtod(tok[4], NULL) : 1.0);
      else if (!strcmp(tok[2], "site")) w = mjs_wrapSite(td, tok[3]);
      else if (!strcmp(tok[2], "geom")) w = mjs_wrapGeom(td, tok[3], (n > 4 && strcmp(tok[4], "~")) ? tok[4] : "");
      else if (!strcmp(tok[2], "pulley")) w = mjs_wrapPulley(td, strtod(tok[3], NULL));
      if (!w) MJB_FAIL("wrap failed");
      continue;
    }
    if (!strcmp(op, "tupleadd")) {
      if (n < 5 || !H[h].ptr || strcmp(H[h].kind, "tuple")) MJB_FAIL("bad tupleadd");
      mjsTuple* tp = (mjsTuple*)H[h].ptr;
      // append by rebuilding the three parallel vectors is not possible through getters: keep local copies
      MJB_FAIL("tupleadd is not supported by this builder");
    }
    if (!strcmp(op, "makemesh")) {
      if (n < 3 || !H[h].ptr || strcmp(H[h].kind, "mesh")) MJB_FAIL("bad makemesh");
      double prm[16]; int np = 0;
      for (int i = 3; i < n && np < 16; i++) prm[np++] = strtod(tok[i], NULL);
      if (mjs_makeMesh((mjsMesh*)H[h].ptr, (mjtMeshBuiltin)atoi(tok[2]), prm, np)) MJB_FAIL("mjs_makeMesh failed: %s", mjs_getError(s));
      continue;
    }
    // element creation
    if (H[h].ptr) MJB_FAIL("handle %d reused", h);
    int ph = n > 2 ? atoi(tok[2]) : 0;
    mjsBody* pb = NULL;
    if (!strcmp(op, "body") || !strcmp(op, "frame") || !strcmp(op, "joint") || !strcmp(op, "freejoint") || !strcmp(op, "geom") ||
        !strcmp(op, "site") || !strcmp(op, "camera") || !strcmp(op, "light")) {
      if (ph < 0 || ph >= MJB_MAXH || !H[ph].ptr || strcmp(H[ph].kind, "body")) MJB_FAIL("%s %d: bad parent body handle %d", op, h, ph);
      pb = (mjsBody*)H[ph].ptr;
    }
#define MJB_NEW(K, T, expr) { T* e = (expr); if (!e) MJB_FAIL("could not add %s", K); H[h].kind = K; H[h].ptr = e; H[h].el = e->element; continue; }
    if (!strcmp(op, "body")) MJB_NEW("body", mjsBody, mjs_addBody(pb, NULL));
    if (!strcmp(op, "frame")) MJB_NEW("frame", mjsFrame, mjs_addFrame(pb, NULL));
    if (!strcmp(op, "joint")) MJB_NEW("joint", mjsJoint, mjs_addJoint(pb, NULL));
    if (!strcmp(op, "freejoint")) MJB_NEW("joint", mjsJoint, mjs_addFreeJoint(pb));
    if (!strcmp(op, "geom")) MJB_NEW("geom", mjsGeom, mjs_addGeom(pb, NULL));
    if (!strcmp(op, "site")) MJB_NEW("site", mjsSite, mjs_addSite(pb, NULL));
    if (!strcmp(op, "camera")) MJB_NEW("camera", mjsCamera, mjs_addCamera(pb, NULL));
    if (!strcmp(op, "light")) MJB_NEW("light", mjsLight, mjs_addLight(pb, NULL));
    if (!strcmp(op, "actuator")) MJB_NEW("actuator", mjsActuator, mjs_addActuator(s, NULL));
    if (!strcmp(op, "sensor")) MJB_NEW("sensor", mjsSensor, mjs_addSensor(s));
    if (!strcmp(op, "tendon")) MJB_NEW("tendon", mjsTendon, mjs_addTendon(s, NULL));
    if (!strcmp(op, "equality")) MJB_NEW("equality", mjsEquality, mjs_addEquality(s, NULL));
    if (!strcmp(op, "pair")) MJB_NEW("pair", mjsPair, mjs_addPair(s, NULL));
    if (!strcmp(op, "exclude")) MJB_NEW("exclude", mjsExclude, mjs_addExclude(s));
    if (!strcmp(op, "key")) MJB_NEW("key", mjsKey, mjs_addKey(s));
    if (!strcmp(op, "numeric")) MJB_NEW("numeric", mjsNumeric, mjs_addNumeric(s));
    if (!strcmp(op, "text")) MJB_NEW("text", mjsText, mjs_addText(s));
    if (!strcmp(op, "tuple")) MJB_NEW("tuple", mjsTuple, mjs_addTuple(s));
    if (!strcmp(op, "mesh")) MJB_NEW("mesh", mjsMesh, mjs_addMesh(s, NULL));
    MJB_FAIL("unknown op %s", op);
  }
  return s;
}

// Convenience: build + compile; on failure returns NULL and fills err.
static mjModel* mjb_compile(FILE* in, mjSpec** spec_out, char* err, int errsz) {
  mjSpec* s = mjb_build(in, err, errsz);
  if (!s) return NULL;
  mjModel* m = mj_compile(s, NULL);
  if (!m) {
    snprintf(err, errsz, "compile: %s", mjs_getError(s));
    mj_deleteSpec(s);
    return NULL;
  }
  if (spec_out) *spec_out = s; else mj_deleteSpec(s);
  return m;
}
#endif  // VERIF_MJBUILD_H_
