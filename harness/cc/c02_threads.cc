// C02 implementation-side driver: runs mj_forward / mj_step / mj_inverse of the tree build with and without an
// engine thread pool and compares EVERY result bitwise with the pool-less run.
//
// Two builds of this file:
//   default      the UNMODIFIED src/engine/engine_thread.cc is compiled into this executable against C03's
//                interposition header (cc/c03_sched_shim.h, imported, not edited), so the engine's calls of
//                mju_threadpool / mju_dispatch / mju_numThread (the library is a shared object with default symbol
//                visibility) resolve to this copy.  mju_dispatch itself is renamed to c02_engine_dispatch by the
//                preprocessor and the exported mju_dispatch below only wraps the task function (scheduling point +
//                execution log) before handing the batch to the real code.  Modes:
//                  pass  real threads, no instrumentation
//                  free  real threads, seeded random yields / sleeps before every atomic operation and task body
//                  ctrl  C03's controlled scheduler: one thread runs at a time, the harness picks the next thread at
//                        every atomic operation / task entry from a seeded random schedule (task-granularity
//                        interleavings, deterministic in the seed)
//   -DC02_PLAIN  nothing is interposed: the library's own engine_thread object is used (mode `plain` only).  This is
//                the build that is also compiled with -fsanitize=thread.
//
// Line protocol (one answer line per command):
//   model … end                 model description in the format of harness/mjbuild.h       -> ok <sizes> | error <msg>
//   state <field> v…            initial value of qpos|qvel|act|ctrl|mocap_pos|mocap_quat|qfrc_applied|xfrc_applied
//   clearstate                  forget the state lines
//   prog <op>…                  program of a run: forward | inverse | step<N> | fwdpos (mj_fwdPosition only)
//   base                        run the program on a fresh mjData without a pool and keep every result
//                               -> base h=<hash> ncon= nefc= nisland= disp=<dispatch calls> multi=<calls with >=2 tasks> maxtask=
//   run <mode> <nthread> <seed> <style>
//                               same program on a fresh mjData with mju_threadpool(d, nthread)
//                               -> same h=<hash> pooled=<pooled dispatches> tasks= byworker= inv=<order inversions> tids=<bitmask> ev=<scheduler steps>
//                               -> diff n=<#fields> field=<first differing field> idx=<element> base=<value> got=<value> fields=<names>
//                               -> error <msg>
//   field <name>                -> the kept base value of a field (hex bits), for replays
//   toy <nthread> <seed> <style> <nmem> <scrbase> | <prog> ; <prog> ; …
//                               a batch of toy tasks (one register; tokens r<loc> w<loc> a<int> m<int> t sr sw, '-' = empty)
//                               over an integer array with m0[l] = 3*l+1 is dispatched through the real mju_dispatch
//                               under the controlled scheduler with a scheduling point before every micro-operation
//                               -> asg <t>:<ids> … | sched <t>,<t>,… | mem <v0> … <v(nmem-1)>
//                               (the assignment and the step schedule that were observed, for the replay in the Lean model)
//   anything else               bad-op
#include <atomic>
#include <chrono>
#include <csetjmp>
#include <csignal>
#include <cstdint>
#include <cstdio>
#include <cstdlib>
#include <cstring>
#include <functional>
#include <map>
#include <mutex>
#include <string>
#include <thread>
#include <vector>
#include <unistd.h>

#include <mujoco/mujoco.h>
#include <mujoco/mjxmacro.h>
#include "mjbuild.h"

#ifndef C02_PLAIN
#include "cc/c03_sched_shim.h"
// ---- the real code, compiled against the shim; only the name of mju_dispatch is changed ------------------------
#define mju_dispatch c02_engine_dispatch
#define std c03std
#include "engine/engine_thread.cc"
#undef std
#undef mju_dispatch
// -----------------------------------------------------------------------------------------------------------------
extern "C" void mju_dispatch(const mjModel* m, mjData* d, mjTaskFunc func, void* arg, int ntask);
#else
#include "engine/engine_thread.h"
#endif

#undef MJ_M
#undef MJ_D
#define MJ_M(n) m->n
#define MJ_D(n) d->n

namespace {

// ---------------------------------------------------------------------------------------------- execution log
struct ExecRec { int dispatch, thread, task; };
struct Log {
  std::mutex mu;
  std::vector<ExecRec> recs;
  int ndispatch = 0, nmulti = 0, npooled = 0, maxtask = 0;
  void clear() { recs.clear(); ndispatch = nmulti = npooled = maxtask = 0; }
};
Log g_log;

#ifndef C02_PLAIN
struct ToyOp { char k; long v; };
struct Toy {
  std::vector<std::vector<ToyOp>> progs;
  std::vector<long> mem;
  int scr = 0;
  std::mutex mu;
  std::vector<int> sched;                      // thread id of every model-level step, in the order granted
  std::map<int, std::vector<int>> asg;         // thread id -> task ids in claim order
};
Toy* g_toy = nullptr;

void toy_point(int tid) {
  if (c03::controlled()) c03::park(c03::ThreadRec::READY);
  std::lock_guard<std::mutex> lk(g_toy->mu);
  g_toy->sched.push_back(tid);
}

void toy_task(const mjModel*, mjData*, void* arg, int thread_id, int task_id) {
  Toy* T = static_cast<Toy*>(arg);
  long reg = 0;
  for (const ToyOp& op : T->progs[task_id]) {
    toy_point(thread_id);
    switch (op.k) {
      case 'r': reg = T->mem[op.v]; break;
      case 'w': T->mem[op.v] = reg; break;
      case 'a': reg += op.v; break;
      case 'm': reg *= op.v; break;
      case 't': reg += thread_id; break;
      case 'S': reg = T->mem[T->scr + thread_id]; break;
      case 'W': T->mem[T->scr + thread_id] = reg; break;
    }
  }
  toy_point(thread_id);   // the step on which the model's task returns
}

struct WrapArg { mjTaskFunc func; void* arg; int dispatch; };

void wrapped_task(const mjModel* m, mjData* d, void* a, int thread_id, int task_id) {
  WrapArg* w = static_cast<WrapArg*>(a);
  c03::task_point(thread_id, task_id);
  {
    std::lock_guard<std::mutex> lk(g_log.mu);
    g_log.recs.push_back({w->dispatch, thread_id, task_id});
  }
  if (g_toy) {   // the model's claim step
    std::lock_guard<std::mutex> lk(g_toy->mu);
    g_toy->sched.push_back(thread_id);
    g_toy->asg[thread_id].push_back(task_id);
  }
  w->func(m, d, w->arg, thread_id, task_id);
}
#endif

}  // namespace

#ifndef C02_PLAIN
extern "C" void mju_dispatch(const mjModel* m, mjData* d, mjTaskFunc func, void* arg, int ntask) {
  WrapArg w{func, arg, 0};
  {
    std::lock_guard<std::mutex> lk(g_log.mu);
    w.dispatch = g_log.ndispatch++;
    if (ntask >= 2) g_log.nmulti++;
    if (ntask >= 2 && d->threadpool) g_log.npooled++;
    if (ntask > g_log.maxtask) g_log.maxtask = ntask;
  }
  c02_engine_dispatch(m, d, wrapped_task, &w, ntask);
}
#endif

namespace {

std::vector<std::string> words(char* line) {
  std::vector<std::string> w;
  char* save;
  for (char* t = strtok_r(line, " \t\r\n", &save); t; t = strtok_r(nullptr, " \t\r\n", &save)) w.push_back(t);
  return w;
}

bool parse_long(const std::string& s, long lo, long hi, long* out) {
  if (s.empty() || s.size() > 10) return false;
  for (char c : s) if (c < '0' || c > '9') return false;
  long v = atol(s.c_str());
  if (v < lo || v > hi) return false;
  *out = v;
  return true;
}

// ---------------------------------------------------------------------------------------------- model / state
mjModel* m = nullptr;
mjSpec* spec = nullptr;
std::map<std::string, std::vector<double>> g_state;
std::vector<std::string> g_prog;

jmp_buf jb;
volatile int jb_armed = 0;
char lasterr[1024];
std::atomic<int> nwarn{0};

void on_error(const char* msg) {
  snprintf(lasterr, sizeof lasterr, "%s", msg);
  for (char* c = lasterr; *c; c++) if (*c == '\n') *c = ' ';
  if (jb_armed) longjmp(jb, 1);
  // an engine error inside a pooled run (possibly on a worker thread) cannot be unwound
  printf("error %s\n", lasterr);
  fflush(stdout);
  _exit(4);
}
void on_warning(const char*) { nwarn.fetch_add(1); }

void on_alarm(int) {
  const char msg[] = "\nWATCHDOG c02:hang\n";
  ssize_t ignored = write(2, msg, sizeof msg - 1);
  (void)ignored;
  _exit(3);
}

// ---------------------------------------------------------------------------------------------- snapshot
struct FieldSnap { std::string name; int esize; int kind; std::vector<unsigned char> bytes; };  // kind 0 double 1 int 2 byte 3 u64
typedef std::vector<FieldSnap> Snap;

void addf(Snap& s, const char* name, int kind, const void* p, size_t n) {
  static const int es[4] = {8, 4, 1, 8};
  FieldSnap f;
  f.name = name; f.kind = kind; f.esize = es[kind];
  if (p && n) f.bytes.assign((const unsigned char*)p, (const unsigned char*)p + n * es[kind]);
  s.push_back(std::move(f));
}

template <class T> struct Kind;
template <> struct Kind<mjtNum> { static const int k = 0; };
template <> struct Kind<int> { static const int k = 1; };
template <> struct Kind<mjtByte> { static const int k = 2; };
template <> struct Kind<size_t> { static const int k = 3; };
template <> struct Kind<float> { static const int k = 1; };
template <> struct Kind<bool> { static const int k = 2; };

// every array and every result-carrying scalar of mjData.  Not compared (they are bookkeeping of the memory /
// timing / pool machinery itself, not results): maxuse_stack, maxuse_arena (the shared stack is not popped while
// the thread lock is held), timer, threadpool, narena, nbuffer, nplugin, plugin / plugin_data pointers.
void snapshot(const mjModel* m, mjData* d, Snap& s) {
  s.clear();
#define X(type, name, nr, nc) \
  if (strcmp(#name, "plugin") && strcmp(#name, "plugin_data") && strcmp(#name, "contact")) \
    addf(s, #name, Kind<type>::k, d->name, (size_t)(MJ_M(nr)) * (size_t)(nc));
#define XNV X
  MJDATA_POINTERS
#undef XNV
#undef X
#define X(type, name, nr, nc) \
  if (strcmp(#name, "contact")) addf(s, #name, Kind<type>::k, d->name, d->name ? (size_t)(nr) * (size_t)(nc) : 0);
#define XNV X
#define mjContact mjtByte   /* the contact row of the X-macro is skipped by name; its type must still resolve */
  MJDATA_ARENA_POINTERS
#undef mjContact
#undef XNV
#undef X
  // contacts: every member (the 4 tail padding bytes of the struct are unspecified)
  {
    std::vector<double> cd;
    std::vector<int> ci;
    for (int i = 0; i < d->ncon; i++) {
      const mjContact* c = d->contact + i;
      const double* p = &c->dist;
      cd.insert(cd.end(), p, p + (offsetof(mjContact, dim) / sizeof(double)));
      const int* q = &c->dim;
      ci.insert(ci.end(), q, q + (offsetof(mjContact, efc_address) - offsetof(mjContact, dim)) / sizeof(int) + 1);
    }
    addf(s, "contact.real", 0, cd.data(), cd.size());
    addf(s, "contact.int", 1, ci.data(), ci.size());
  }
  int sc[] = {d->ncon, d->ne, d->nf, d->nl, d->nefc, d->nJ, d->efm_active, d->nefmK, d->nefmdof, d->nefmL, d->nY, d->nA,
              d->nisland, d->nidof, d->ntree_awake, d->nbody_awake, d->nparent_awake, d->nv_awake, d->maxuse_con,
              d->maxuse_efc, (int)d->flg_energypos, (int)d->flg_energyvel, (int)d->flg_subtreevel, (int)d->flg_rnepost,
              (int)d->threadlock};
  addf(s, "scalars(ncon,ne,nf,nl,nefc,nJ,efm_active,nefmK,nefmdof,nefmL,nY,nA,nisland,nidof,ntree_awake,nbody_awake,"
          "nparent_awake,nv_awake,maxuse_con,maxuse_efc,flg_energypos,flg_energyvel,flg_subtreevel,flg_rnepost,threadlock)",
       1, sc, sizeof sc / sizeof sc[0]);
  uint64_t mem[] = {(uint64_t)d->pstack, (uint64_t)d->pbase, (uint64_t)d->parena};
  addf(s, "memory(pstack,pbase,parena)", 3, mem, 3);
  addf(s, "time", 0, &d->time, 1);
  addf(s, "energy", 0, d->energy, 2);
  {
    std::vector<double> sd;
    std::vector<int> si;
    for (int i = 0; i < mjNISLAND * mjNSOLVER; i++) {
      const mjSolverStat* t = d->solver + i;
      sd.push_back(t->improvement); sd.push_back(t->gradient); sd.push_back(t->lineslope);
      si.push_back(t->nactive); si.push_back(t->nchange); si.push_back(t->neval); si.push_back(t->nupdate);
    }
    addf(s, "solver.real(improvement,gradient,lineslope)", 0, sd.data(), sd.size());
    addf(s, "solver.int(nactive,nchange,neval,nupdate)", 1, si.data(), si.size());
  }
  addf(s, "solver_niter", 1, d->solver_niter, mjNISLAND);
  addf(s, "solver_nnz", 1, d->solver_nnz, mjNISLAND);
  addf(s, "solver_fwdinv", 0, d->solver_fwdinv, 2);
  {
    std::vector<int> w;
    for (int i = 0; i < mjNWARNING; i++) { w.push_back(d->warning[i].lastinfo); w.push_back(d->warning[i].number); }
    addf(s, "warning(lastinfo,number)", 1, w.data(), w.size());
  }
}

uint64_t fnv(uint64_t h, const void* p, size_t n) {
  const unsigned char* c = (const unsigned char*)p;
  for (size_t i = 0; i < n; i++) { h ^= c[i]; h *= 1099511628211ULL; }
  return h;
}

uint64_t snap_hash(const Snap& s) {
  uint64_t h = 1469598103934665603ULL;
  for (const FieldSnap& f : s) {
    h = fnv(h, f.name.data(), f.name.size());
    uint64_t n = f.bytes.size();
    h = fnv(h, &n, 8);
    if (n) h = fnv(h, f.bytes.data(), n);
  }
  return h;
}

std::string elem_str(const FieldSnap& f, size_t idx) {
  char buf[96];
  if (idx * f.esize + f.esize > f.bytes.size()) return "<absent>";
  const unsigned char* p = f.bytes.data() + idx * f.esize;
  if (f.kind == 0) {
    double x; uint64_t u; memcpy(&x, p, 8); memcpy(&u, p, 8);
    snprintf(buf, sizeof buf, "%016llx(%.17g)", (unsigned long long)u, x);
  } else if (f.kind == 1) {
    int x; memcpy(&x, p, 4); snprintf(buf, sizeof buf, "%d", x);
  } else if (f.kind == 2) {
    snprintf(buf, sizeof buf, "%d", (int)*p);
  } else {
    uint64_t u; memcpy(&u, p, 8); snprintf(buf, sizeof buf, "%llu", (unsigned long long)u);
  }
  return buf;
}

// first difference: "" when equal
std::string snap_diff(const Snap& a, const Snap& b) {
  int nd = 0;
  std::string first, names;
  size_t n = a.size() < b.size() ? a.size() : b.size();
  for (size_t i = 0; i < n; i++) {
    const FieldSnap& x = a[i];
    const FieldSnap& y = b[i];
    if (x.bytes == y.bytes) continue;
    nd++;
    if (nd <= 12) names += (names.empty() ? "" : ",") + x.name.substr(0, x.name.find('('));
    if (first.empty()) {
      size_t k = 0, lim = x.bytes.size() < y.bytes.size() ? x.bytes.size() : y.bytes.size();
      while (k < lim && x.bytes[k] == y.bytes[k]) k++;
      size_t idx = k / x.esize;
      char buf[64];
      snprintf(buf, sizeof buf, " idx=%zu len=%zu/%zu", idx, x.bytes.size() / x.esize, y.bytes.size() / y.esize);
      first = "field=" + x.name.substr(0, x.name.find('(')) + buf + " base=" + elem_str(x, idx) + " got=" + elem_str(y, idx);
    }
  }
  if (a.size() != b.size() && first.empty()) { first = "field=<table-size>"; nd++; }
  if (!nd) return "";
  return "diff n=" + std::to_string(nd) + " " + first + " fields=" + names;
}

// ---------------------------------------------------------------------------------------------- running a program
bool apply_state(mjData* d, std::string* err) {
  for (auto& kv : g_state) {
    double* dst = nullptr;
    size_t n = 0;
    const std::string& k = kv.first;
    if (k == "qpos") { dst = d->qpos; n = m->nq; }
    else if (k == "qvel") { dst = d->qvel; n = m->nv; }
    else if (k == "act") { dst = d->act; n = m->na; }
    else if (k == "ctrl") { dst = d->ctrl; n = m->nu; }
    else if (k == "mocap_pos") { dst = d->mocap_pos; n = 3 * (size_t)m->nmocap; }
    else if (k == "mocap_quat") { dst = d->mocap_quat; n = 4 * (size_t)m->nmocap; }
    else if (k == "qfrc_applied") { dst = d->qfrc_applied; n = m->nv; }
    else if (k == "xfrc_applied") { dst = d->xfrc_applied; n = 6 * (size_t)m->nbody; }
    else { *err = "unknown state field " + k; return false; }
    if (kv.second.size() != n) { *err = "state field " + k + " has wrong length"; return false; }
    for (size_t i = 0; i < n; i++) dst[i] = kv.second[i];
  }
  return true;
}

void run_prog(mjData* d) {
  for (const std::string& op : g_prog) {
    if (op == "forward") mj_forward(m, d);
    else if (op == "inverse") mj_inverse(m, d);
    else if (op == "fwdpos") mj_fwdPosition(m, d);
    else if (op.rfind("step", 0) == 0) { int k = atoi(op.c_str() + 4); for (int i = 0; i < k; i++) mj_step(m, d); }
  }
}

bool prog_ok(const std::vector<std::string>& p) {
  if (p.empty() || p.size() > 64) return false;
  for (const std::string& op : p) {
    if (op == "forward" || op == "inverse" || op == "fwdpos") continue;
    if (op.rfind("step", 0) == 0 && op.size() > 4 && op.size() <= 7) {
      bool dig = true;
      for (size_t i = 4; i < op.size(); i++) dig = dig && op[i] >= '0' && op[i] <= '9';
      if (dig && atoi(op.c_str() + 4) >= 1) continue;
    }
    return false;
  }
  return true;
}

Snap g_base;
bool g_have_base = false;

std::string log_summary(bool pooled_only) {
  std::lock_guard<std::mutex> lk(g_log.mu);
  long tasks = 0, byworker = 0, inv = 0;
  unsigned tids = 0;
  int lastd = -1, lastt = -1;
  for (const ExecRec& r : g_log.recs) {
    tasks++;
    if (r.thread > 0) byworker++;
    if (r.thread >= 0 && r.thread < 32) tids |= 1u << r.thread;
    if (r.dispatch == lastd && r.task < lastt) inv++;
    lastd = r.dispatch; lastt = r.task;
  }
  char buf[200];
  if (pooled_only)
    snprintf(buf, sizeof buf, "pooled=%d tasks=%ld byworker=%ld inv=%ld tids=%u", g_log.npooled, tasks, byworker, inv, tids);
  else
    snprintf(buf, sizeof buf, "disp=%d multi=%d maxtask=%d", g_log.ndispatch, g_log.nmulti, g_log.maxtask);
  return buf;
}

std::string do_base() {
  g_have_base = false;
  mjData* d = mj_makeData(m);
  if (!d) return "error mj_makeData failed";
  std::string err;
  if (!apply_state(d, &err)) { mj_deleteData(d); return "error " + err; }
  { std::lock_guard<std::mutex> lk(g_log.mu); g_log.clear(); }
  jb_armed = 1;
  if (setjmp(jb)) {
    jb_armed = 0;
    // the data may be in an inconsistent state (stack marks): leak it rather than free it
    return std::string("error ") + lasterr;
  }
  run_prog(d);
  jb_armed = 0;
  snapshot(m, d, g_base);
  g_have_base = true;
  char buf[200];
  snprintf(buf, sizeof buf, "base h=%016llx ncon=%d nefc=%d nisland=%d ", (unsigned long long)snap_hash(g_base), d->ncon,
           d->nefc, d->nisland);
  std::string out = buf + log_summary(false);
  mj_deleteData(d);
  return out;
}

#ifndef C02_PLAIN
// ---- controlled scheduler (the controller side; the primitives are C03's) ------------------------------------------
struct Controller {
  c03::Sched* s;
  explicit Controller(c03::Sched* s) : s(s) {}
  bool enabled_locked(int t) {
    if (t < 0 || t >= (int)s->th.size()) return false;
    c03::ThreadRec* r = s->th[t];
    if (!r || !r->parked || r->st != c03::ThreadRec::READY) return false;
    if (r->join_target >= 0 && r->join_rec->st != c03::ThreadRec::DONE) return false;
    return true;
  }
  void enabled(std::vector<int>* out) {
    out->clear();
    std::lock_guard<std::mutex> lk(s->mu);
    for (int t = 0; t < (int)s->th.size(); t++) if (enabled_locked(t)) out->push_back(t);
  }
  bool step(int t) {
    std::unique_lock<std::mutex> lk(s->mu);
    if (!enabled_locked(t)) return false;
    c03::ThreadRec* r = s->th[t];
    s->active = t;
    s->steps++;
    lk.unlock();
    r->go.store(1);
    r->go.notify_all();
    while (s->back.load() == 0) s->back.wait(0);
    s->back.store(0);
    return true;
  }
  bool main_done() {
    std::lock_guard<std::mutex> lk(s->mu);
    return s->th[0]->st == c03::ThreadRec::DONE;
  }
};

struct Rng {
  uint64_t s;
  explicit Rng(uint64_t seed) : s(seed * 2654435761ULL + 88172645463325252ULL) { next(); next(); }
  uint64_t next() { s ^= s << 13; s ^= s >> 7; s ^= s << 17; return s; }
  double uni() { return (double)(next() >> 11) / 9007199254740992.0; }
  int below(int n) { return (int)(next() % (uint64_t)n); }
};
#endif

#ifndef C02_PLAIN
int style_code(const std::string& style) {
  return style == "uniform" ? 0 : style == "starve-main" ? 1 : style == "favour-main" ? 2 : style == "hog" ? 3 :
         style == "bursty" ? 4 : style == "reverse" ? 5 : -1;
}

// run `body` as thread 0 of C03's controlled scheduler; the next thread is drawn from the enabled ones by a seeded
// generator biased by the style.  Returns true when no thread is enabled before `body` has finished.
bool run_controlled(std::function<void()> body, int nthread, long seed, int st, long* events) {
  c03::Global& g = c03::G();
  Rng rng((uint64_t)seed);
  c03::Sched* s = new c03::Sched();
  g.sched = s;
  g.atomic_ctor_counter = 0;
  g.mode.store(c03::CTRL);
  c03::ThreadRec* r0 = new c03::ThreadRec();
  r0->id = 0;
  s->th.push_back(r0);
  c03::start_thread(s, r0, body);
  Controller c(s);
  std::vector<int> en;
  int hog = 1 + rng.below(nthread > 0 ? nthread : 1), last = -1;
  bool dead = false;
  while (!c.main_done()) {
    c.enabled(&en);
    if (en.empty()) { dead = true; break; }
    int pick = en[rng.below((int)en.size())];
    double u = rng.uni();
    auto has = [&en](int t) { for (int x : en) if (x == t) return true; return false; };
    if (st == 1) {            // the dispatching thread runs only when nothing else can, or rarely
      if (en.size() > 1 && pick == 0 && u < 0.97) pick = en[1 + rng.below((int)en.size() - 1)];
    } else if (st == 2) {     // the dispatching thread runs whenever it can, workers rarely
      if (has(0) && u < 0.9) pick = 0;
    } else if (st == 3) {     // one worker gets most steps
      if (has(hog) && u < 0.85) pick = hog;
    } else if (st == 4) {     // long bursts of one thread
      if (last >= 0 && has(last) && u < 0.92) pick = last;
    } else if (st == 5) {     // highest thread id first: late claimers finish first
      if (u < 0.9) pick = en.back();
    }
    last = pick;
    c.step(pick);
    if (s->steps > 50000000L) { dead = true; break; }
  }
  *events = s->steps;
  g.mode.store(c03::PASS);
  if (!dead) {
    g.sched = nullptr;
    delete s;
  }
  return dead;
}
#endif

// the pooled run: everything that touches the pool happens on the calling (dispatching) thread
void pooled_body(mjData* d, int nthread, Snap* out) {
  mju_threadpool(d, nthread);
  run_prog(d);
  snapshot(m, d, *out);
  mju_threadpool(d, 0);
}

std::string do_run(const std::string& mode, int nthread, long seed, const std::string& style) {
  if (!g_have_base) return "error no base";
  mjData* d = mj_makeData(m);
  if (!d) return "error mj_makeData failed";
  std::string err;
  if (!apply_state(d, &err)) { mj_deleteData(d); return "error " + err; }
  { std::lock_guard<std::mutex> lk(g_log.mu); g_log.clear(); }
  Snap got;
  long events = 0;
  alarm(600);
#ifdef C02_PLAIN
  if (mode != "plain") { mj_deleteData(d); return "bad-op"; }
  (void)seed; (void)style;
  pooled_body(d, nthread, &got);
#else
  c03::Global& g = c03::G();
  if (mode == "pass") {
    g.mode.store(c03::PASS);
    pooled_body(d, nthread, &got);
  } else if (mode == "free") {
    g.free_seed.store((unsigned)seed * 7919u + 13u);
    g.free_next_id.store(1);
    c03::tl_rng = 0;
    c03::tl_free_id = 0;
    g.mode.store(c03::FREE);
    pooled_body(d, nthread, &got);
    g.mode.store(c03::PASS);
    events = g.free_ops.exchange(0);
  } else if (mode == "ctrl") {
    int st = style_code(style);
    if (st < 0) { alarm(0); mj_deleteData(d); return "bad-op"; }
    bool dead = run_controlled([d, nthread, &got]() { pooled_body(d, nthread, &got); }, nthread, seed, st, &events);
    if (dead) {
      // the stuck threads stay parked on the abandoned scheduler; nothing of this run is reused
      alarm(0);
      return "error scheduler: no enabled thread before the run finished (deadlock) after " + std::to_string(events) + " steps";
    }
  } else {
    alarm(0);
    mj_deleteData(d);
    return "bad-op";
  }
#endif
  alarm(0);
  mj_deleteData(d);
  std::string diff = snap_diff(g_base, got);
  if (!diff.empty()) return diff + " " + log_summary(true);
  char buf[64];
  snprintf(buf, sizeof buf, "same h=%016llx ", (unsigned long long)snap_hash(got));
  return buf + log_summary(true) + " ev=" + std::to_string(events);
}

std::string do_field(const std::string& name) {
  if (!g_have_base) return "error no base";
  for (const FieldSnap& f : g_base) {
    if (f.name.substr(0, f.name.find('(')) != name) continue;
    std::string out = std::to_string(f.bytes.size() / f.esize) + ":";
    size_t n = f.bytes.size() / f.esize;
    for (size_t i = 0; i < n && i < 4096; i++) out += " " + elem_str(f, i);
    return out;
  }
  return "bad-op";
}

#ifndef C02_PLAIN
mjModel* g_empty = nullptr;

bool parse_toy_prog(const std::string& text, int nmem, std::vector<ToyOp>* out) {
  out->clear();
  std::vector<char> buf(text.begin(), text.end());
  buf.push_back(0);
  std::vector<std::string> w = words(buf.data());
  if (w.empty()) return false;
  if (w.size() == 1 && w[0] == "-") return true;
  for (const std::string& t : w) {
    if (t == "t") { out->push_back({'t', 0}); continue; }
    if (t == "sr") { out->push_back({'S', 0}); continue; }
    if (t == "sw") { out->push_back({'W', 0}); continue; }
    if (t.size() < 2 || t.size() > 7) return false;
    char k = t[0];
    std::string rest = t.substr(1);
    bool neg = rest[0] == '-';
    std::string digits = neg ? rest.substr(1) : rest;
    if (digits.empty()) return false;
    for (char c : digits) if (c < '0' || c > '9') return false;
    long v = atol(rest.c_str());
    if (k == 'r' || k == 'w') { if (neg || v >= nmem) return false; out->push_back({k, v}); }
    else if (k == 'a' || k == 'm') out->push_back({k, v});
    else return false;
  }
  return true;
}

std::string do_toy(const std::string& rest) {
  size_t bar = rest.find('|');
  if (bar == std::string::npos) return "bad-op";
  std::vector<char> hb(rest.begin(), rest.begin() + bar);
  hb.push_back(0);
  std::vector<std::string> h = words(hb.data());
  long nthread, seed, nmem, scr;
  if (h.size() != 5 || !parse_long(h[0], 0, 16, &nthread) || !parse_long(h[1], 0, 2000000000L, &seed) ||
      !parse_long(h[3], 1, 4096, &nmem) || !parse_long(h[4], 0, 4096, &scr))
    return "bad-op";
  int st = style_code(h[2]);
  if (st < 0 || scr + nthread + 1 > nmem) return "bad-op";
  Toy T;
  std::string progs = rest.substr(bar + 1);
  size_t pos = 0;
  for (;;) {
    size_t semi = progs.find(';', pos);
    std::vector<ToyOp> p;
    if (!parse_toy_prog(progs.substr(pos, semi == std::string::npos ? std::string::npos : semi - pos), (int)nmem, &p))
      return "bad-op";
    T.progs.push_back(p);
    if (semi == std::string::npos) break;
    pos = semi + 1;
  }
  if (T.progs.size() > 1000) return "bad-op";
  T.scr = (int)scr;
  T.mem.resize(nmem);
  for (long l = 0; l < nmem; l++) T.mem[l] = 3 * l + 1;
  if (!g_empty) {
    mjSpec* sp = mj_makeSpec();
    g_empty = mj_compile(sp, nullptr);
    if (!g_empty) return "error cannot compile the empty model";
  }
  mjData* d = mj_makeData(g_empty);
  g_toy = &T;
  long events = 0;
  alarm(600);
  int ntask = (int)T.progs.size();
  Toy* tp = &T;
  bool dead = run_controlled([d, nthread, ntask, tp]() {
    mju_threadpool(d, (int)nthread);
    mju_dispatch(g_empty, d, toy_task, tp, ntask);
    mju_threadpool(d, 0);
  }, (int)nthread, seed, st, &events);
  alarm(0);
  g_toy = nullptr;
  if (dead) return "error scheduler: deadlock after " + std::to_string(events) + " steps";
  mj_deleteData(d);
  std::string out = "asg";
  for (auto& kv : T.asg) {
    out += " " + std::to_string(kv.first) + ":";
    for (size_t i = 0; i < kv.second.size(); i++) out += (i ? "," : "") + std::to_string(kv.second[i]);
  }
  out += " | sched ";
  for (size_t i = 0; i < T.sched.size(); i++) out += (i ? "," : "") + std::to_string(T.sched[i]);
  out += " | mem";
  for (long l = 0; l < nmem; l++) out += " " + std::to_string(T.mem[l]);
  return out;
}
#endif

}  // namespace

int main() {
  mju_user_error = on_error;
  mju_user_warning = on_warning;
  signal(SIGALRM, on_alarm);
  static char line[1 << 20];
  while (fgets(line, sizeof line, stdin)) {
    std::vector<std::string> w = words(line);
    std::string out;
    if (w.empty()) {
      out = "bad-op";
    } else if (w[0] == "model" && w.size() == 1) {
      if (m) { mj_deleteModel(m); m = nullptr; }
      if (spec) { mj_deleteSpec(spec); spec = nullptr; }
      g_state.clear(); g_prog.clear(); g_have_base = false;
      char err[1024];
      jb_armed = 1;
      if (setjmp(jb)) {
        jb_armed = 0;
        out = std::string("error ") + lasterr;
      } else {
        m = mjb_compile(stdin, &spec, err, sizeof err);
        jb_armed = 0;
        if (!m) {
          for (char* c = err; *c; c++) if (*c == '\n') *c = ' ';
          out = std::string("error ") + err;
        } else {
          char buf[300];
          snprintf(buf, sizeof buf, "ok nq %d nv %d na %d nu %d nmocap %d nbody %d ngeom %d nmesh %d nsensor %d ntree %d narena %llu",
                   (int)m->nq, (int)m->nv, (int)m->na, (int)m->nu, (int)m->nmocap, (int)m->nbody, (int)m->ngeom, (int)m->nmesh,
                   (int)m->nsensor, (int)m->ntree, (unsigned long long)m->narena);
          out = buf;
        }
      }
#ifndef C02_PLAIN
    } else if (w[0] == "toy") {
      std::string l2;
      for (size_t i = 1; i < w.size(); i++) l2 += (i > 1 ? " " : "") + w[i];
      out = do_toy(l2);
#endif
    } else if (!m) {
      out = w[0] == "model" ? "bad-op" : "error no model";
    } else if (w[0] == "state" && w.size() >= 2) {
      std::vector<double> v;
      for (size_t i = 2; i < w.size(); i++) v.push_back(strtod(w[i].c_str(), nullptr));
      g_state[w[1]] = v;
      g_have_base = false;
      out = "ok";
    } else if (w[0] == "clearstate" && w.size() == 1) {
      g_state.clear(); g_have_base = false;
      out = "ok";
    } else if (w[0] == "prog") {
      std::vector<std::string> p(w.begin() + 1, w.end());
      if (!prog_ok(p)) out = "bad-op";
      else { g_prog = p; g_have_base = false; out = "ok"; }
    } else if (w[0] == "base" && w.size() == 1) {
      out = g_prog.empty() ? "error no prog" : do_base();
    } else if (w[0] == "run" && w.size() == 5) {
      long nt, seed;
      if (!parse_long(w[2], 0, 16, &nt) || !parse_long(w[3], 0, 2000000000L, &seed)) out = "bad-op";
      else out = do_run(w[1], (int)nt, seed, w[4]);
    } else if (w[0] == "field" && w.size() == 2) {
      out = do_field(w[1]);
    } else {
      out = "bad-op";
    }
    printf("%s\n", out.c_str());
    fflush(stdout);
  }
  return 0;
}
