// C39 implementation-side driver: runs the line protocol of lean/Drivers/C39.lean against the tree's
// real VFS (src/user/user_vfs.cc, user_resource.cc) and FilePath (src/user/user_util.cc).
// Only public API calls (mj_*VFS, mju_*Resource, mjp_resourceProviderCount) and the exported
// mujoco::user::FilePath class are used; nothing is re-implemented here.
//
//   usage: c39_vfs <scratch-cwd>      (chdir there first: the default provider reads real files)
//
// Tokens:  @<chars> = string (may be empty), ~ = NULL pointer, bytes in hex ("-" = empty).
#include <unistd.h>

#include <cstdio>
#include <cstdlib>
#include <cstring>
#include <iostream>
#include <sstream>
#include <string>
#include <vector>

#include <mujoco/mujoco.h>
#include <mujoco/mjplugin.h>
#include "user/user_util.h"

namespace {

struct Tok {
  bool ok = false;
  bool null = false;
  std::string s;
};

Tok strtok_(const std::string& t) {
  Tok r;
  if (t == "~") { r.ok = true; r.null = true; return r; }
  if (!t.empty() && t[0] == '@') { r.ok = true; r.s = t.substr(1); return r; }
  return r;
}

bool unhex(const std::string& t, std::vector<unsigned char>* out) {
  out->clear();
  if (t == "-") return true;
  if (t.empty() || t.size() % 2) return false;
  for (size_t i = 0; i < t.size(); i += 2) {
    int v = 0;
    for (int k = 0; k < 2; k++) {
      char c = t[i + k];
      int d = (c >= '0' && c <= '9') ? c - '0' : (c >= 'a' && c <= 'f') ? c - 'a' + 10 : -1;
      if (d < 0) return false;
      v = v * 16 + d;
    }
    out->push_back((unsigned char)v);
  }
  return true;
}

std::string hex(const unsigned char* p, int n) {
  if (n <= 0) return "-";
  static const char* d = "0123456789abcdef";
  std::string s;
  for (int i = 0; i < n; i++) { s.push_back(d[p[i] >> 4]); s.push_back(d[p[i] & 15]); }
  return s;
}

const char* cs(const Tok& t) { return t.null ? nullptr : t.s.c_str(); }

}  // namespace

int main(int argc, char** argv) {
  if (argc > 1 && chdir(argv[1]) != 0) { std::perror("chdir"); return 3; }
  mjVFS vfs;
  mj_defaultVFS(&vfs);
  std::string line;
  while (std::getline(std::cin, line)) {
    std::istringstream is(line);
    std::vector<std::string> w;
    for (std::string t; is >> t;) w.push_back(t);
    std::string out = "bad-op";
    if (w.empty()) {
    } else if (w[0] == "mode" && w.size() == 2 && (w[1] == "raw" || w[1] == "norm" || w[1] == "loop" || w[1] == "exact")) {
      out = "ok";  // model-side switch only
    } else if (w[0] == "fs" && w.size() == 3 && strtok_(w[1]).ok && !strtok_(w[1]).null) {
      std::vector<unsigned char> b;
      if (w[2] == "none" || w[2] == "dir" || (w[2].rfind("file:", 0) == 0 && unhex(w[2].substr(5), &b))) out = "ok";
    } else if (w[0] == "reset" && w.size() == 1) {
      mj_deleteVFS(&vfs);
      mj_defaultVFS(&vfs);
      out = "ok";
    } else if (w[0] == "provcount" && w.size() == 1) {
      out = "provcount " + std::to_string(mjp_resourceProviderCount());
    } else if (w[0] == "add" && w.size() == 3) {
      Tok n = strtok_(w[1]);
      std::vector<unsigned char> b;
      if (n.ok && !n.null && unhex(w[2], &b)) {
        // copy into an exact-size heap block so that reads past the end are visible to sanitizers
        unsigned char* buf = (unsigned char*)std::malloc(b.size() ? b.size() : 1);
        std::memcpy(buf, b.data(), b.size());
        int rc = mj_addBufferVFS(&vfs, n.s.c_str(), buf, (int)b.size());
        std::memset(buf, 0xEE, b.size());  // the VFS must have copied
        std::free(buf);
        out = "add " + std::to_string(rc);
      }
    } else if (w[0] == "addfile" && w.size() == 3) {
      Tok d = strtok_(w[1]), f = strtok_(w[2]);
      if (d.ok && f.ok && !f.null) out = "addfile " + std::to_string(mj_addFileVFS(&vfs, cs(d), f.s.c_str()));
    } else if (w[0] == "del" && w.size() == 2) {
      Tok n = strtok_(w[1]);
      if (n.ok) out = "del " + std::to_string(mj_deleteFileVFS(&vfs, cs(n)));
    } else if (w[0] == "has" && w.size() == 2) {
      Tok n = strtok_(w[1]);
      if (n.ok) out = "has " + std::to_string(mj_containsBufferVFS(&vfs, cs(n)));
    } else if (w[0] == "hasfile" && w.size() == 3) {
      Tok d = strtok_(w[1]), f = strtok_(w[2]);
      if (d.ok && f.ok) out = "hasfile " + std::to_string(mj_containsFileVFS(&vfs, cs(d), cs(f)));
    } else if (w[0] == "open" && w.size() == 3) {
      Tok d = strtok_(w[1]), n = strtok_(w[2]);
      if (d.ok && n.ok && !n.null) {
        char err[256];
        mjResource* r = mju_openResource(cs(d), n.s.c_str(), &vfs, err, sizeof(err));
        if (!r) {
          out = "open fail";
        } else {
          const void* p = nullptr;
          int nb = mju_readResource(r, &p);
          if (nb < 0) out = "open readerr " + std::to_string(nb);
          else out = "open ok " + hex((const unsigned char*)p, nb);
          mju_closeResource(r);
        }
      }
    } else if (w[0] == "path" && w.size() == 3) {
      Tok d = strtok_(w[1]), n = strtok_(w[2]);
      if (d.ok && n.ok && !n.null) {
        using mujoco::user::FilePath;
        FilePath fp = d.null ? FilePath(n.s.c_str()) : FilePath(d.s, n.s);
        out = "path @" + fp.Str() + " @" + fp.AbsPrefix() + " @" + fp.StripPath().Str() + " @" +
              fp.StripPath().Lower().Str() + " @" + fp.Lower().Str();
      }
    }
    std::cout << out << "\n";
  }
  mj_deleteVFS(&vfs);
  std::cout.flush();
  return 0;
}
