// C37 implementation side: the REAL reader of the tree (src/xml/*.cc built by harness/build_xml.py on top of the
// tinyxml2 stand-in harness/stubs/tinyxml2) on documents supplied by checks/c37.py.
//
// Line protocol (one output line per op):
//   schema              -> "schema <hex of mj_printSchema text>"
//   doc <hex>           -> "doc p=<0|1> l=<0|1> perr=<hex> lerr=<hex>"
//        p: mj_parseXMLString returned a spec;   perr: its error buffer
//        l: mj_loadXML (document mounted in a VFS as doc.xml) returned a model;   lerr: its error buffer
//   check <mode> <doc tokens> # <hex>   (the line format of lean/Drivers/C37.lean; only the hex text after "#" is used)
//                       -> "ok"                        mj_parseXMLString returned a spec
//                          "err <line> <elem> <msg>"   rejected with "XML Error: Schema violation: <msg>\nElement '<elem>', line <line>\n"
//                          "ok reader=<hex>"           passed mjXSchema::Check (the first thing mjXReader::Parse does) and
//                                                      was rejected later by the reader with the hex-encoded message
//   The error buffers are pre-filled with a sentinel so that "NULL with an EMPTY/untouched message" is visible:
//   an untouched buffer is reported as the hex of "<untouched>".
#include <cstdio>
#include <cstdlib>
#include <cstring>
#include <string>
#include <vector>

#include <mujoco/mujoco.h>

static std::string hexenc(const std::string& s) {
  static const char* d = "0123456789abcdef";
  std::string o;
  o.reserve(s.size() * 2);
  for (unsigned char c : s) {
    o += d[c >> 4];
    o += d[c & 15];
  }
  return o;
}
static bool hexdec(const char* h, std::string* out) {
  size_t n = strlen(h);
  if (n % 2) return false;
  out->clear();
  for (size_t i = 0; i < n; i += 2) {
    int v = 0;
    for (int k = 0; k < 2; k++) {
      char c = h[i + k];
      int x = c >= '0' && c <= '9' ? c - '0' : c >= 'a' && c <= 'f' ? c - 'a' + 10 : -1;
      if (x < 0) return false;
      v = v * 16 + x;
    }
    out->push_back((char)v);
  }
  return true;
}

static const char* SENTINEL = "<untouched>";
static void quiet_warning(const char*) {}

int main() {
  mju_user_warning = quiet_warning;
  static char line[1 << 24];
  while (fgets(line, sizeof line, stdin)) {
    size_t L = strlen(line);
    while (L && (line[L - 1] == '\n' || line[L - 1] == '\r')) line[--L] = 0;
    if (!strcmp(line, "schema")) {
      int n = mj_printSchema(nullptr, nullptr, 0, 0, 0);
      std::vector<char> buf((size_t)n + 1);
      mj_printSchema(nullptr, buf.data(), (int)buf.size(), 0, 0);
      printf("schema %s\n", hexenc(std::string(buf.data())).c_str());
    } else if (!strncmp(line, "doc ", 4)) {
      std::string text;
      if (!hexdec(line + 4, &text)) {
        printf("bad-op\n");
        fflush(stdout);
        continue;
      }
      char perr[1000], lerr[1000];
      strcpy(perr, SENTINEL);
      strcpy(lerr, SENTINEL);
      mjSpec* s = mj_parseXMLString(text.c_str(), nullptr, perr, sizeof perr);
      int p = s != nullptr;
      if (s) mj_deleteSpec(s);
      // the file API on the same bytes
      mjVFS vfs;
      mj_defaultVFS(&vfs);
      int l = 0;
      if (mj_addBufferVFS(&vfs, "doc.xml", text.data(), (int)text.size()) == 0) {
        mjModel* m = mj_loadXML("doc.xml", &vfs, lerr, sizeof lerr);
        l = m != nullptr;
        if (m) mj_deleteModel(m);
      } else {
        strcpy(lerr, "<vfs>");
      }
      mj_deleteVFS(&vfs);
      printf("doc p=%d l=%d perr=%s lerr=%s\n", p, l, hexenc(perr).c_str(), hexenc(lerr).c_str());
    } else if (!strncmp(line, "check ", 6)) {
      const char* h = strstr(line, " # ");
      std::string text;
      if (!h || !hexdec(h + 3, &text)) {
        printf("bad-op\n");
        fflush(stdout);
        continue;
      }
      char perr[1000];
      strcpy(perr, SENTINEL);
      mjSpec* s = mj_parseXMLString(text.c_str(), nullptr, perr, sizeof perr);
      if (s) {
        mj_deleteSpec(s);
        printf("ok\n");
      } else {
        static const char* pre = "XML Error: Schema violation: ";
        std::string e(perr);
        size_t pos = e.find("\nElement '");
        if (e.compare(0, strlen(pre), pre) == 0 && pos != std::string::npos) {
          std::string msg = e.substr(strlen(pre), pos - strlen(pre));
          size_t q = e.find("', line ", pos);
          std::string elem = e.substr(pos + 10, q - (pos + 10));
          int ln = atoi(e.c_str() + q + 8);
          // newline as "\n"; bytes outside printable ASCII as \xHH (documents of the check are ASCII; fuzzed ones are not)
          auto esc = [](const std::string& in) {
            std::string o;
            char b[8];
            for (unsigned char c : in) {
              if (c == '\n') o += "\\n";
              else if (c < 0x20 || c >= 0x7f) { snprintf(b, sizeof b, "\\x%02x", c); o += b; }
              else o += (char)c;
            }
            return o;
          };
          printf("err %d %s %s\n", ln, esc(elem).c_str(), esc(msg).c_str());
        } else {
          printf("ok reader=%s\n", hexenc(e).c_str());
        }
      }
    } else {
      printf("bad-op\n");
    }
    fflush(stdout);
  }
  return 0;
}
