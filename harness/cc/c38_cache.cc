// C38 implementation-side driver: replays op lines on the real mjCCache of the tree (linked from the
// from-source library build; nothing of the cache is re-implemented here) and prints the canonical
// state after every op.  Line protocol: see lean/Drivers/C38.lean.
//
// The private members are read (never written) for the state dump; the class is compiled with the
// same member layout as in the library (gcc does not reorder members across access specifiers).
//
//   c38_cache                 line protocol on stdin
//   c38_cache stress SEED THREADS NOPS CAP
//                             multi-threaded stress on one cache, prints the final state dump
#include <algorithm>
#include <cstddef>
#include <cstdint>
#include <cstdio>
#include <cstdlib>
#include <cstring>
#include <functional>
#include <iostream>
#include <memory>
#include <mutex>
#include <set>
#include <sstream>
#include <string>
#include <thread>
#include <unordered_map>
#include <unordered_set>
#include <utility>
#include <vector>

#include <mujoco/mjplugin.h>
#include <mujoco/mujoco.h>

#define private public
#include "user/user_cache.h"
#undef private

namespace {

typedef unsigned long long u64;

bool parse_nat(const std::string& s, u64* out) {
  if (s.empty() || s.size() > 20) return false;
  for (char ch : s) if (ch < '0' || ch > '9') return false;
  if (s.size() > 1 && s[0] == '0') return false;
  unsigned __int128 v = 0;
  for (char ch : s) v = v * 10 + (unsigned)(ch - '0');
  if (v >> 64) return false;
  *out = (u64)v;
  return true;
}

// resource provider whose `modified` callback compares timestamps (as the buffer provider of the
// VFS does with content hashes)
int modified_cb(const mjResource* r, const char* timestamp) {
  return std::strcmp(r->timestamp, timestamp) != 0;
}

mjpResourceProvider g_provider;

void make_resource(mjResource* r, const std::string& ts, bool with_provider) {
  std::memset(r, 0, sizeof(*r));
  std::snprintf(r->timestamp, sizeof(r->timestamp), "%s", ts.c_str());
  r->provider = with_provider ? &g_provider : nullptr;
}

std::string show_set(std::vector<u64> v) {
  std::sort(v.begin(), v.end());
  std::string s = "[";
  for (size_t i = 0; i < v.size(); i++) { if (i) s += ","; s += std::to_string(v[i]); }
  return s + "]";
}

u64 key_of(const std::string& s) {
  u64 v = 0;
  if (!parse_nat(s, &v)) { std::printf("NONCANONICAL-KEY\n"); std::exit(3); }
  return v;
}

std::string dump(mjCCache& c) {
  std::lock_guard<std::mutex> lock(c.mutex_);
  std::ostringstream o;
  o << "cap=" << c.capacity_ << " size=" << c.size_ << " num=" << c.insert_num_ << " ub=0 | assets: ";
  std::set<const mjCAsset*> live;
  std::vector<const mjCAsset*> as;
  for (auto& kv : c.lookup_) { live.insert(&kv.second); as.push_back(&kv.second); }
  std::sort(as.begin(), as.end(), [](const mjCAsset* a, const mjCAsset* b) { return key_of(a->id_) < key_of(b->id_); });
  bool first = true;
  for (const mjCAsset* a : as) {
    if (!first) o << " ";
    first = false;
    std::vector<u64> refs;
    for (auto& r : a->references_) refs.push_back(key_of(r));
    o << key_of(a->id_) << ":" << key_of(a->timestamp_) << ":" << a->size_ << ":" << a->access_count_ << ":"
      << a->insert_num_ << ":" << (a->data_ ? *static_cast<const u64*>(a->data_.get()) : 0ull) << ":" << show_set(refs);
    // the key under which the asset is stored must be its id
  }
  for (auto& kv : c.lookup_) if (kv.first != kv.second.id_) o << " KEY-MISMATCH";
  o << " | entries: ";
  first = true;
  for (const mjCAsset* e : c.entries_) {
    if (!first) o << " ";
    first = false;
    if (!live.count(e)) o << "DANGLING"; else o << key_of(e->id_);
  }
  o << " | models: ";
  std::vector<std::pair<u64, std::string>> ms;
  for (auto& kv : c.models_) {
    std::vector<u64> ids;
    bool dangling = false;
    for (const mjCAsset* p : kv.second) { if (!live.count(p)) dangling = true; else ids.push_back(key_of(p->id_)); }
    ms.push_back({key_of(kv.first), show_set(ids) + (dangling ? "DANGLING" : "")});
  }
  std::sort(ms.begin(), ms.end());
  first = true;
  for (auto& m : ms) { if (!first) o << " "; first = false; o << m.first << ":" << m.second; }
  return o.str();
}

std::vector<std::string> words(const std::string& line) {
  std::vector<std::string> w;
  std::istringstream is(line);
  std::string t;
  while (is >> t) w.push_back(t);
  return w;
}

std::string show_opt(bool has, u64 v) { return has ? std::to_string(v) : std::string("-"); }

// applies one op; returns false for a malformed op
bool apply(mjCCache& c, const std::vector<std::string>& w, std::string* res) {
  u64 a[5];
  auto nums = [&](size_t n) {
    if (w.size() != n + 1) return false;
    for (size_t i = 0; i < n; i++) if (!parse_nat(w[i + 1], &a[i])) return false;
    return true;
  };
  const std::string& op = w[0];
  if (op == "ins" && nums(5)) {
    mjResource r;
    make_resource(&r, w[3], true);
    std::shared_ptr<const void> data(new u64(a[3]), [](const void* p) { delete static_cast<const u64*>(p); });
    bool ok = c.Insert(w[1], w[2], &r, data, (std::size_t)a[4]);
    *res = ok ? "1" : "0";
    return true;
  }
  if ((op == "pop" && nums(2)) || (op == "popn" && nums(1))) {
    mjResource r;
    make_resource(&r, op == "pop" ? w[2] : std::string("0"), op == "pop");
    bool got = false;
    u64 val = 0;
    bool ok = c.PopulateData(w[1], &r, [&](const void* p) { got = true; val = *static_cast<const u64*>(p); return true; });
    if (ok != got) { *res = "CALLBACK-MISMATCH"; return true; }
    *res = show_opt(ok, val);
    return true;
  }
  if (op == "has" && nums(1)) {
    const std::string* ts = c.HasAsset(w[1]);
    *res = ts ? std::to_string(key_of(*ts)) : std::string("-");
    return true;
  }
  if (op == "del" && nums(1)) { c.DeleteAsset(w[1]); *res = "ok"; return true; }
  if (op == "rm" && nums(1)) { c.RemoveModel(w[1]); *res = "ok"; return true; }
  if (op == "rst" && nums(1)) { c.Reset(w[1]); *res = "ok"; return true; }
  if (op == "clr" && nums(0)) { c.Reset(); *res = "ok"; return true; }
  if (op == "cap" && nums(1)) { c.SetCapacity((std::size_t)a[0]); *res = "ok"; return true; }
  return false;
}

int line_mode() {
  std::unique_ptr<mjCCache> cache;
  std::string line;
  while (std::getline(std::cin, line)) {
    std::vector<std::string> w = words(line);
    u64 cap;
    if (w.size() == 2 && w[0] == "new" && parse_nat(w[1], &cap)) {
      cache.reset(new mjCCache((std::size_t)cap));
      std::printf("r=ok | %s\n", dump(*cache).c_str());
      continue;
    }
    std::string res;
    if (!cache || w.empty() || w[0] == "new" || !apply(*cache, w, &res)) {
      std::printf("bad-op\n");
      continue;
    }
    // public observers must agree with the dumped fields
    std::string d = dump(*cache);
    char chk[96];
    std::snprintf(chk, sizeof(chk), "cap=%zu size=%zu ", cache->Capacity(), cache->Size());
    if (d.compare(0, std::strlen(chk), chk) != 0) d = "OBSERVER-MISMATCH " + d;
    std::printf("r=%s | %s\n", res.c_str(), d.c_str());
  }
  std::fflush(stdout);
  return 0;
}

int stress_mode(int argc, char** argv) {
  if (argc != 6) return 2;
  u64 seed = std::strtoull(argv[2], nullptr, 10);
  int nthreads = std::atoi(argv[3]);
  int nops = std::atoi(argv[4]);
  u64 cap = std::strtoull(argv[5], nullptr, 10);
  mjCCache cache((std::size_t)cap);
  std::vector<std::thread> th;
  std::vector<u64> bad(nthreads, 0);
  for (int t = 0; t < nthreads; t++) {
    th.emplace_back([&, t]() {
      u64 s = seed * 6364136223846793005ull + 1442695040888963407ull * (u64)(t + 1);
      auto rnd = [&](u64 n) { s = s * 6364136223846793005ull + 1442695040888963407ull; return (s >> 33) % n; };
      for (int i = 0; i < nops; i++) {
        std::vector<std::string> w;
        u64 k = rnd(100);
        u64 id = rnd(4), m = rnd(3), ts = rnd(2);
        if (k < 40) w = {"ins", std::to_string(m), std::to_string(id), std::to_string(ts), std::to_string(id * 100 + ts), std::to_string(1 + rnd(5))};
        else if (k < 65) w = {"pop", std::to_string(id), std::to_string(ts)};
        else if (k < 72) w = {"has", std::to_string(id)};
        else if (k < 80) w = {"del", std::to_string(id)};
        else if (k < 88) w = {"rm", std::to_string(m)};
        else if (k < 93) w = {"rst", std::to_string(m)};
        else if (k < 95) w = {"clr"};
        else w = {"cap", std::to_string(cap / 2 + rnd(cap / 2 + 1))};
        std::string res;
        if (w[0] == "has") { cache.HasAsset(w[1]); continue; }  // returned pointer is not dereferenced (lifetime is outside the lock)
        apply(cache, w, &res);
        // data is a function of (id, ts) in this stream: a hit must return exactly that
        if (w[0] == "pop" && res != "-" && res != std::to_string(id * 100 + ts)) bad[t]++;
      }
    });
  }
  for (auto& x : th) x.join();
  u64 nbad = 0;
  for (u64 b : bad) nbad += b;
  std::printf("r=%llu | %s\n", nbad, dump(cache).c_str());
  return 0;
}

}  // namespace

int main(int argc, char** argv) {
  mjp_defaultResourceProvider(&g_provider);
  g_provider.modified = modified_cb;
  if (argc >= 2 && std::string(argv[1]) == "stress") return stress_mode(argc, argv);
  return line_mode();
}
