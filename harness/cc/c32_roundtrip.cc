// C32 implementation side: save -> parse -> compile round trip through the REAL writer/reader of the tree
// (src/xml/*.cc, built by harness/build_xml.py on top of the tinyxml2 stand-in harness/stubs/tinyxml2).
//
// Line protocol (one output line per op):
//   prec <n>                 xml float precision of the writer (6 = default, 17 = full)      -> "ok prec <n>"
//   tol <x>                  0: bitwise comparison of every array; >0: |a-b| <= x*(1+max(|a|,|b|)) for floating
//                            arrays, integers/bytes exact                                     -> "ok tol <x>"
//   model <id>  + description lines of harness/mjbuild.h + "end"    origin = mjSpec built through mjs_*
//   xml <id> <hex>           origin = mj_parseXMLString of the hex-decoded text
//   file <id> <path>         origin = mj_parseXML(path)
// For each origin:  spec0 -compile-> m0 ; mj_saveXMLString(spec0) = x1 ; mj_parseXMLString(x1) = spec1 -compile-> m1 ;
// every size, every mjOption/mjVisual/mjStatistic field and EVERY array of MJMODEL_POINTERS is compared m0 vs m1.
//   "<id> skip stage=<build|parse0|compile0> msg=..."        the origin itself is not a model: nothing to check
//   "<id> fail stage=<save|parse1|compile1> msg=... xml=<hex>"  saved text does not load: property violated
//   "<id> diff nfield=<k> fields=<f:count:first_index:a:b,...> maxdev=<x> xml=<hex>"
//   "<id> ok arrays=<n> elems=<n> maxdev=<x> bytes=<len(x1)> idem=<0|1> iquat_equiv=<n> bvh_equiv=<n> sizes=<nbody,njnt,ngeom,...>"
//        iquat_equiv > 0 (tolerance mode only): body_iquat / bvh_aabb differed but all n bodies' full inertia tensors
//        agree -- another representative of the same principal-axes frame, not reported as a difference
//        bvh_equiv > 0 (tolerance mode only): bvh_* arrays differed by a permutation of the nodes (same leaf multiset)
//   defaults                 -> "defaults <struct>.<attr>:<offset>:<kind>:<len>:<ndecl>:<unset>:<declared,..>:<actual,..>;..."
//                            every entry of src/xml/generated/mjcf_default_table.inc next to the value found at that offset
//                            in a freshly constructed spec object (what test/xml/schema_defaults_test.cc compares)
//   inert <id> <hex>         origin as for xml; prints the saved text and the bodies' masses before / after the reload:
//                            "<id> saved xml=<hex> m0=<body name>:<bits of body_mass>,... m1=<...>|fail"  (tie of the
//                            inertia-source model, Model/XmlInertial.lean)
// idem: saving spec1 again gives the same text as x1 (reported, not part of the property).
#include <algorithm>
#include <cmath>
#include <cstdio>
#include <cstdlib>
#include <cstring>
#include <string>
#include <vector>

#include <mujoco/mujoco.h>
#include <mujoco/mjxmacro.h>
#include "mjbuild.h"
#include "xml/xml_numeric_format.h"
#include <map>
#include "xml/generated/mjcf_default_table.inc"

static double g_tol = 0;
static double g_maxdev = 0;
static long g_elems = 0;
static int g_arrays = 0;

struct Diff {
  std::string field;
  long count;
  long first;
  std::string a, b;
};
static std::vector<Diff> g_diffs;
static std::vector<std::pair<std::string, double>> g_fielddev;   // per compared field: largest normalised deviation

static std::string hexenc(const std::string& s) {
  static const char* d = "0123456789abcdef";
  std::string o;
  o.reserve(s.size() * 2);
  for (unsigned char c : s) {
    o += d[c >> 4];
    o += d[c & 15];
  }
  return o;
}
static bool hexdec(const char* h, std::string* out) {
  size_t n = strlen(h);
  if (n % 2) return false;
  out->clear();
  for (size_t i = 0; i < n; i += 2) {
    int v = 0;
    for (int k = 0; k < 2; k++) {
      char c = h[i + k];
      int x = c >= '0' && c <= '9' ? c - '0' : c >= 'a' && c <= 'f' ? c - 'a' + 10 : -1;
      if (x < 0) return false;
      v = v * 16 + x;
    }
    out->push_back((char)v);
  }
  return true;
}
static std::string oneline(const char* s) {
  std::string o;
  for (; *s; s++) o += (*s == '\n' || *s == '\r') ? ' ' : *s;
  return o;
}

template <typename T>
static std::string show(T v) {
  char b[64];
  if constexpr (std::is_floating_point_v<T>) snprintf(b, sizeof b, "%.17g", (double)v);
  else snprintf(b, sizeof b, "%lld", (long long)v);
  return b;
}

template <typename T>
static void cmp(const char* name, const T* a, const T* b, long n) {
  g_arrays++;
  if (n <= 0) return;
  g_elems += n;
  long count = 0, first = -1;
  double fdev = 0;
  for (long i = 0; i < n; i++) {
    bool same;
    if (memcmp(&a[i], &b[i], sizeof(T)) == 0) {
      same = true;
    } else if constexpr (std::is_floating_point_v<T>) {
      double x = (double)a[i], y = (double)b[i];
      if (std::isnan(x) || std::isnan(y)) {
        same = std::isnan(x) && std::isnan(y);
      } else {
        double dev = std::fabs(x - y) / (1 + std::fmax(std::fabs(x), std::fabs(y)));
        if (dev > g_maxdev) g_maxdev = dev;
        if (dev > fdev) fdev = dev;
        same = g_tol > 0 ? dev <= g_tol : (x == y);   // exact mode: numeric equality (+0 == -0)
      }
    } else {
      same = false;
    }
    if (!same) {
      if (first < 0) first = i;
      count++;
    }
  }
  if (count) g_diffs.push_back({name, count, first, show(a[first]), show(b[first])});
  if (fdev > 0) g_fielddev.push_back({name, fdev});
}

// full inertia tensor R(q) diag(I) R(q)^T of body i in the body frame
static void body_tensor(const mjModel* m, int i, double T[9]) {
  double R[9], D[9] = {0}, RD[9];
  mju_quat2Mat(R, m->body_iquat + 4 * i);
  D[0] = m->body_inertia[3 * i];
  D[4] = m->body_inertia[3 * i + 1];
  D[8] = m->body_inertia[3 * i + 2];
  mju_mulMatMat(RD, R, D, 3, 3, 3);
  mju_mulMatMatT(T, RD, R, 3, 3, 3);
}

static int g_iquat_equiv = 0;

// Tolerance mode only (saved with fewer digits than the doubles carry): the principal-axes frame of a body is unique
// only up to the symmetries of its inertia ellipsoid, and the eigen-solver may return another representative when its
// input is perturbed in the 6th digit.  If body_iquat differs but every body's FULL inertia tensor agrees within the
// tolerance, the difference is one of representation: body_iquat, and bvh_aabb (boxes expressed in that frame), are
// not reported.  Everything else stays reported; in exact mode (precision 17) nothing is filtered.
static void filter_equivalent_iquat(const mjModel* m0, const mjModel* m1) {
  g_iquat_equiv = 0;
  if (g_tol <= 0 || m0->nbody != m1->nbody) return;
  bool has = false;
  for (const Diff& d : g_diffs) has = has || d.field == "body_iquat";
  if (!has) return;
  for (const Diff& d : g_diffs) {
    if (d.field == "body_inertia" || d.field == "body_ipos" || d.field == "body_mass") return;
  }
  int n = 0;
  for (int i = 0; i < m0->nbody; i++) {
    double T0[9], T1[9], scale = 1;
    body_tensor(m0, i, T0);
    body_tensor(m1, i, T1);
    for (int k = 0; k < 9; k++) scale = std::fmax(scale, std::fabs(T0[k]));
    for (int k = 0; k < 9; k++) {
      if (!(std::fabs(T0[k] - T1[k]) <= 10 * g_tol * scale)) return;
    }
    n++;
  }
  std::vector<Diff> kept;
  for (const Diff& d : g_diffs) {
    if (d.field != "body_iquat" && d.field != "bvh_aabb") kept.push_back(d);
  }
  g_diffs.swap(kept);
  g_iquat_equiv = n;
  g_maxdev = 0;
  for (const auto& fd : g_fielddev) {
    if (fd.first != "body_iquat" && fd.first != "bvh_aabb" && fd.second > g_maxdev) g_maxdev = fd.second;
  }
}

static int g_bvh_equiv = 0;

// Tolerance mode only: the BVH of a body is built by sorting box centres along the widest axis of the (inertial-frame)
// bounding box; a perturbation in the 6th digit can swap two nearly equal keys, which permutes the nodes without changing
// the set of leaves.  If the trees have the same number of nodes and the same multiset of leaf ids, differences confined to
// the bvh_* arrays are not reported.  In exact mode nothing is filtered.
static void filter_equivalent_bvh(const mjModel* m0, const mjModel* m1) {
  g_bvh_equiv = 0;
  if (g_tol <= 0 || m0->nbvh != m1->nbvh) return;
  bool has = false;
  for (const Diff& d : g_diffs) has = has || d.field.rfind("bvh_", 0) == 0;
  if (!has) return;
  std::vector<int> a(m0->bvh_nodeid, m0->bvh_nodeid + m0->nbvh), b(m1->bvh_nodeid, m1->bvh_nodeid + m1->nbvh);
  std::sort(a.begin(), a.end());
  std::sort(b.begin(), b.end());
  if (a != b) return;
  std::vector<Diff> kept;
  for (const Diff& d : g_diffs) {
    if (d.field.rfind("bvh_", 0) != 0) kept.push_back(d);
  }
  g_bvh_equiv = (int)(g_diffs.size() - kept.size());
  g_diffs.swap(kept);
  g_maxdev = 0;
  for (const auto& fd : g_fielddev) {
    if (fd.first.rfind("bvh_", 0) != 0 && !(g_iquat_equiv && fd.first == "body_iquat") && fd.second > g_maxdev) g_maxdev = fd.second;
  }
}

static void compare_models(const mjModel* m0, const mjModel* m1) {
  g_diffs.clear();
  g_fielddev.clear();
  g_maxdev = 0;
  g_elems = 0;
  g_arrays = 0;
  // sizes first: arrays are compared only over the common prefix when a size differs (and the size is reported)
#define X(name) { long long a = (long long)m0->name, b = (long long)m1->name; cmp(#name, &a, &b, 1); }
  MJMODEL_SIZES
#undef X
  // option / visual / statistic
#define X(type, name, n) cmp("opt." #name, (const type*)&m0->opt.name, (const type*)&m1->opt.name, n);
#define XVEC X
  MJOPTION_FIELDS
#undef XVEC
#undef X
#define X(name, n) cmp("stat." #name, (const mjtNum*)&m0->stat.name, (const mjtNum*)&m1->stat.name, n);
#define XVEC X
  MJSTATISTIC_FIELDS
#undef XVEC
#undef X
#define X(type, name, n) cmp("vis.global." #name, (const type*)&m0->vis.global.name, (const type*)&m1->vis.global.name, n);
#define XVEC X
  MJVISUAL_GLOBAL_FIELDS
#undef XVEC
#undef X
#define X(type, name, n) cmp("vis.quality." #name, (const type*)&m0->vis.quality.name, (const type*)&m1->vis.quality.name, n);
#define XVEC X
  MJVISUAL_QUALITY_FIELDS
#undef XVEC
#undef X
#define X(type, name, n) cmp("vis.headlight." #name, (const type*)&m0->vis.headlight.name, (const type*)&m1->vis.headlight.name, n);
#define XVEC X
  MJVISUAL_HEADLIGHT_FIELDS
#undef XVEC
#undef X
#define X(type, name, n) cmp("vis.map." #name, (const type*)&m0->vis.map.name, (const type*)&m1->vis.map.name, n);
#define XVEC X
  MJVISUAL_MAP_FIELDS
#undef XVEC
#undef X
#define X(type, name, n) cmp("vis.scale." #name, (const type*)&m0->vis.scale.name, (const type*)&m1->vis.scale.name, n);
#define XVEC X
  MJVISUAL_SCALE_FIELDS
#undef XVEC
#undef X
#define X(type, name, n) cmp("vis.rgba." #name, (const type*)&m0->vis.rgba.name, (const type*)&m1->vis.rgba.name, n);
#define XVEC X
  MJVISUAL_RGBA_FIELDS
#undef XVEC
#undef X
  // every array
  {
    long long c0, c1;
#undef MJ_M
#define MJ_M(n) CUR->n
#define X(type, name, nr, nc)                                                      \
  {                                                                                \
    const mjModel* CUR = m0; c0 = (long long)CUR->nr * (long long)(nc);            \
    CUR = m1; c1 = (long long)CUR->nr * (long long)(nc);                           \
    cmp(#name, (const type*)m0->name, (const type*)m1->name, (long)(c0 < c1 ? c0 : c1)); \
  }
#define XNV X
    MJMODEL_POINTERS
#undef XNV
#undef X
#undef MJ_M
#define MJ_M(n) n
  }
  filter_equivalent_iquat(m0, m1);
  filter_equivalent_bvh(m0, m1);
}

static std::string save(mjSpec* s, char* err, int nerr) {
  static std::vector<char> buf(1 << 22);
  err[0] = 0;
  int r = mj_saveXMLString(s, buf.data(), (int)buf.size(), err, nerr);
  if (r > 0) {
    buf.resize((size_t)r + 16);
    err[0] = 0;
    r = mj_saveXMLString(s, buf.data(), (int)buf.size(), err, nerr);
  }
  if (r != 0) return "";
  return std::string(buf.data());
}

static void roundtrip(const char* id, mjSpec* s0, mjModel* m0, const mjVFS* vfs) {
  char err[2000] = "";
  std::string x1 = save(s0, err, sizeof err);
  if (x1.empty()) {
    printf("%s fail stage=save msg=%s xml=\n", id, oneline(err).c_str());
    return;
  }
  err[0] = 0;
  mjSpec* s1 = mj_parseXMLString(x1.c_str(), vfs, err, sizeof err);
  if (!s1) {
    printf("%s fail stage=parse1 msg=%s xml=%s\n", id, oneline(err).c_str(), hexenc(x1).c_str());
    return;
  }
  // assets referenced by relative file names are looked up from the origin's directory
  mjs_setString(s1->modelfiledir, mjs_getString(s0->modelfiledir));
  mjModel* m1 = mj_compile(s1, vfs);
  if (!m1) {
    printf("%s fail stage=compile1 msg=%s xml=%s\n", id, oneline(mjs_getError(s1)).c_str(), hexenc(x1).c_str());
    mj_deleteSpec(s1);
    return;
  }
  compare_models(m0, m1);
  if (!g_diffs.empty()) {
    std::string f;
    for (size_t i = 0; i < g_diffs.size() && i < 40; i++) {
      const Diff& d = g_diffs[i];
      if (i) f += ",";
      f += d.field + ":" + std::to_string(d.count) + ":" + std::to_string(d.first) + ":" + d.a + ":" + d.b;
    }
    printf("%s diff nfield=%zu fields=%s maxdev=%.3g xml=%s\n", id, g_diffs.size(), f.c_str(), g_maxdev,
           hexenc(x1).c_str());
  } else {
    std::string x2 = save(s1, err, sizeof err);
    printf("%s ok arrays=%d elems=%ld maxdev=%.3g bytes=%zu idem=%d iquat_equiv=%d bvh_equiv=%d sizes=%d,%d,%d,%d,%d,%d,%d,%d,%d\n", id,
           g_arrays, g_elems, g_maxdev, x1.size(), (int)(x2 == x1), g_iquat_equiv, g_bvh_equiv, (int)m0->nbody, (int)m0->njnt, (int)m0->ngeom,
           (int)m0->nsite, (int)m0->nu, (int)m0->nsensor, (int)m0->ntendon, (int)m0->neq, (int)m0->nkey);
  }
  mj_deleteModel(m1);
  mj_deleteSpec(s1);
}

static void quiet_warning(const char*) {}

// Fill recently freed heap blocks with a non-zero pattern before every origin is built, so that a read of uninitialised
// or out-of-range heap memory by the code under test shows up as a wrong number instead of an accidental zero.
static void dirty_heap() {
  static void* blk[4096];
  for (int i = 0; i < 4096; i++) {
    size_t n = 16 + (size_t)(i % 61) * 16;
    blk[i] = malloc(n);
    if (blk[i]) memset(blk[i], 0x3f, n);
  }
  for (int i = 0; i < 4096; i++) free(blk[i]);
}

static void dump_defaults() {
  mjSpec* spec = mj_makeSpec();
  mjsBody* world = mjs_findBody(spec, "world");
  mjsBody* body = mjs_addBody(world, nullptr);
  std::map<std::string, const void*> objects = {
      {"mjOption", &spec->option}, {"mjVisual", &spec->visual}, {"mjStatistic", &spec->stat}, {"mjSpec", spec},
      {"mjLROpt", &spec->compiler.LRopt}, {"mjsCompiler", &spec->compiler}, {"mjsFlex", mjs_addFlex(spec)},
      {"mjsHField", mjs_addHField(spec)}, {"mjsKey", mjs_addKey(spec)}, {"mjsNumeric", mjs_addNumeric(spec)},
      {"mjsBody", body}, {"mjsFrame", mjs_addFrame(body, nullptr)}, {"mjsJoint", mjs_addJoint(body, nullptr)},
      {"mjsGeom", mjs_addGeom(body, nullptr)}, {"mjsSite", mjs_addSite(body, nullptr)},
      {"mjsCamera", mjs_addCamera(body, nullptr)}, {"mjsLight", mjs_addLight(body, nullptr)},
      {"mjsPair", mjs_addPair(spec, nullptr)}, {"mjsEquality", mjs_addEquality(spec, nullptr)},
      {"mjsTendon", mjs_addTendon(spec, nullptr)}, {"mjsActuator", mjs_addActuator(spec, nullptr)},
      {"mjsSensor", mjs_addSensor(spec)}, {"mjsMesh", mjs_addMesh(spec, nullptr)}, {"mjsSkin", mjs_addSkin(spec)},
      {"mjsMaterial", mjs_addMaterial(spec, nullptr)}, {"mjsTexture", mjs_addTexture(spec)},
  };
  printf("defaults ");
  for (int t = 0; t < kDefaultTablesN; t++) {
    const mjXDefaultTable& table = kDefaultTables[t];
    auto it = objects.find(table.structname);
    for (int i = 0; i < table.n; i++) {
      const mjXDefaultEntry& e = table.entries[i];
      printf("%s.%s:%d:%d:%d:%d:%d:", table.structname, e.attr, e.offset, e.kind, e.len, e.ndecl, e.unset);
      for (int j = 0; j < e.len && j < 8; j++) printf("%s%.17g", j ? "," : "", e.value[j]);
      printf(":");
      if (it == objects.end()) {
        printf("nofactory;");
        continue;
      }
      const char* field = static_cast<const char*>(it->second) + e.offset;
      for (int j = 0; j < e.len; j++) {
        double a = 0;
        switch (e.kind) {
          case 0: a = reinterpret_cast<const double*>(field)[j]; break;
          case 1: a = reinterpret_cast<const float*>(field)[j]; break;
          case 2: a = reinterpret_cast<const int*>(field)[j]; break;
          case 3: a = reinterpret_cast<const unsigned char*>(field)[j]; break;
          case 4: a = reinterpret_cast<const mjtNum*>(field)[j]; break;
        }
        printf("%s%.17g", j ? "," : "", a);
      }
      printf(";");
    }
  }
  printf("\n");
  mj_deleteSpec(spec);
}

int main() {
  mju_user_warning = quiet_warning;
  static char line[1 << 24];
  while (fgets(line, sizeof line, stdin)) {
    size_t L = strlen(line);
    while (L && (line[L - 1] == '\n' || line[L - 1] == '\r')) line[--L] = 0;
    char op[32] = "", id[256] = "";
    int off = 0;
    if (sscanf(line, "%31s %n", op, &off) < 1) {
      printf("bad-op\n");
      continue;
    }
    if (!strcmp(op, "prec")) {
      int p = atoi(line + off);
      if (p < 1 || p > 17) { printf("bad-op\n"); continue; }
      mujoco::_mjPRIVATE__set_xml_precision(p);
      printf("ok prec %d\n", p);
    } else if (!strcmp(op, "defaults")) {
      dump_defaults();
    } else if (!strcmp(op, "tol")) {
      g_tol = strtod(line + off, nullptr);
      printf("ok tol %g\n", g_tol);
    } else if (!strcmp(op, "model")) {
      dirty_heap();
      sscanf(line + off, "%255s", id);
      char err[2000] = "";
      mjSpec* s0 = mjb_build(stdin, err, sizeof err);
      if (!s0) {
        // drain to "end" is done by mjb_build only on success paths; on failure the rest of the description follows
        while (fgets(line, sizeof line, stdin)) {
          if (!strncmp(line, "end", 3)) break;
        }
        printf("%s skip stage=build msg=%s\n", id, oneline(err).c_str());
        fflush(stdout);
        continue;
      }
      mjModel* m0 = mj_compile(s0, nullptr);
      if (!m0) {
        printf("%s skip stage=compile0 msg=%s\n", id, oneline(mjs_getError(s0)).c_str());
      } else {
        roundtrip(id, s0, m0, nullptr);
        mj_deleteModel(m0);
      }
      mj_deleteSpec(s0);
    } else if (!strcmp(op, "xml") || !strcmp(op, "file")) {
      dirty_heap();
      int off2 = 0;
      sscanf(line + off, "%255s %n", id, &off2);
      const char* arg = line + off + off2;
      char err[2000] = "";
      mjSpec* s0 = nullptr;
      if (!strcmp(op, "xml")) {
        std::string text;
        if (!hexdec(arg, &text)) { printf("bad-op\n"); continue; }
        s0 = mj_parseXMLString(text.c_str(), nullptr, err, sizeof err);
      } else {
        s0 = mj_parseXML(arg, nullptr, err, sizeof err);
      }
      if (!s0) {
        printf("%s skip stage=parse0 msg=%s\n", id, oneline(err).c_str());
        fflush(stdout);
        continue;
      }
      mjModel* m0 = mj_compile(s0, nullptr);
      if (!m0) {
        printf("%s skip stage=compile0 msg=%s\n", id, oneline(mjs_getError(s0)).c_str());
      } else {
        roundtrip(id, s0, m0, nullptr);
        mj_deleteModel(m0);
      }
      mj_deleteSpec(s0);
    } else if (!strcmp(op, "inert")) {
      dirty_heap();
      int off2 = 0;
      sscanf(line + off, "%255s %n", id, &off2);
      std::string text;
      char err[2000] = "";
      if (!hexdec(line + off + off2, &text)) { printf("bad-op\n"); continue; }
      mjSpec* s0 = mj_parseXMLString(text.c_str(), nullptr, err, sizeof err);
      if (!s0) { printf("%s skip stage=parse0 msg=%s\n", id, oneline(err).c_str()); fflush(stdout); continue; }
      mjModel* m0 = mj_compile(s0, nullptr);
      if (!m0) {
        printf("%s skip stage=compile0 msg=%s\n", id, oneline(mjs_getError(s0)).c_str());
      } else {
        std::string x1 = save(s0, err, sizeof err);
        if (x1.empty()) {
          printf("%s fail stage=save msg=%s xml=\n", id, oneline(err).c_str());
        } else {
          auto masses = [](const mjModel* m) {
            std::string o;
            for (int i = 1; i < m->nbody; i++) {
              unsigned long long b;
              double v = m->body_mass[i];
              memcpy(&b, &v, 8);
              char buf[400];
              const char* nm = mj_id2name(m, mjOBJ_BODY, i);
              snprintf(buf, sizeof buf, "%s%.300s:x%016llx", i > 1 ? "," : "", nm ? nm : "", b);
              o += buf;
            }
            return o.empty() ? std::string("-") : o;
          };
          std::string a = masses(m0), b = "fail";
          mjSpec* s1 = mj_parseXMLString(x1.c_str(), nullptr, err, sizeof err);
          if (s1) {
            mjModel* m1 = mj_compile(s1, nullptr);
            if (m1) {
              b = masses(m1);
              mj_deleteModel(m1);
            }
            mj_deleteSpec(s1);
          }
          printf("%s saved xml=%s m0=%s m1=%s\n", id, hexenc(x1).c_str(), a.c_str(), b.c_str());
        }
        mj_deleteModel(m0);
      }
      mj_deleteSpec(s0);
    } else if (!strcmp(op, "save")) {
      // "save <id> <hex>": print the saved text of the model (hex) -- used for replays and the table-level tie
      int off2 = 0;
      sscanf(line + off, "%255s %n", id, &off2);
      std::string text;
      char err[2000] = "";
      if (!hexdec(line + off + off2, &text)) { printf("bad-op\n"); continue; }
      mjSpec* s0 = mj_parseXMLString(text.c_str(), nullptr, err, sizeof err);
      if (!s0) { printf("%s skip stage=parse0 msg=%s\n", id, oneline(err).c_str()); fflush(stdout); continue; }
      mjModel* m0 = mj_compile(s0, nullptr);
      if (!m0) {
        printf("%s skip stage=compile0 msg=%s\n", id, oneline(mjs_getError(s0)).c_str());
      } else {
        std::string x1 = save(s0, err, sizeof err);
        if (x1.empty()) printf("%s fail stage=save msg=%s xml=\n", id, oneline(err).c_str());
        else printf("%s saved xml=%s\n", id, hexenc(x1).c_str());
        mj_deleteModel(m0);
      }
      mj_deleteSpec(s0);
    } else {
      printf("bad-op\n");
    }
    fflush(stdout);
  }
  return 0;
}
