// C03 interposition header: controlled-scheduler replacements of std::atomic / std::thread.
//
// The harness translation unit includes the real standard headers first, then this header, then
//     #define std c03std
//     #include "engine/engine_thread.cc"        // the UNMODIFIED file of the tree
//     #undef std
// so that every `std::atomic<…>` / `std::thread` written in engine_thread.cc resolves to the classes below
// (qualified lookup finds the declarations of namespace c03std before the using-directive), while every
// other `std::` name (vector, memory_order_*, uintptr_t …) still resolves to the real standard library.
//
// Modes
//   PASS  operations go straight to the underlying real std::atomic / std::thread (no instrumentation)
//   CTRL  exactly one thread runs at a time; before every atomic operation / spawn / join / task body the
//         thread parks at a scheduling point and continues only when the controller grants it one step
//         (hand-off through per-thread flags; the controlled threads are carried by reusable OS threads).
//         wait/notify follow the C++20 semantics without spurious wake-ups: a waiter whose check fails
//         sleeps until a notify_all on the same atomic makes it re-check.
//   FREE  real threads; a seeded per-thread generator injects yields / short sleeps before every
//         operation; the operation itself is the real one with the memory order of the source.
#ifndef VERIF_C03_SCHED_SHIM_H_
#define VERIF_C03_SCHED_SHIM_H_

#include <atomic>
#include <chrono>
#include <condition_variable>
#include <cstdint>
#include <cstdio>
#include <cstdlib>
#include <functional>
#include <map>
#include <mutex>
#include <set>
#include <string>
#include <thread>
#include <tuple>
#include <utility>
#include <vector>

namespace c03 {

enum Mode { PASS = 0, CTRL = 1, FREE = 2 };

inline const char* order_name(std::memory_order o) {
  switch (o) {
    case std::memory_order_relaxed: return "relaxed";
    case std::memory_order_consume: return "consume";
    case std::memory_order_acquire: return "acquire";
    case std::memory_order_release: return "release";
    case std::memory_order_acq_rel: return "acq_rel";
    case std::memory_order_seq_cst: return "seq_cst";
  }
  return "unknown";
}

struct ThreadRec {
  enum St { READY, SLEEP, DONE };
  int id = -1;
  St st = READY;
  bool parked = false;       // waiting for a grant (READY) / for a notify (SLEEP)
  bool joined = false;
  const void* sleep_on = nullptr;
  int join_target = -1;      // >=0: the pending operation is join(join_target)
  ThreadRec* join_rec = nullptr;
  std::atomic<int> go{0};       // set by the controller to grant one step
  std::atomic<int> started{0};  // set when the thread reaches its first scheduling point (or finishes)
};

// One scheduler per op line (an abandoned one keeps its parked threads forever; see harness).
struct Sched {
  std::mutex mu;
  std::atomic<int> back{0};          // set when the granted thread has parked again / finished
  std::vector<ThreadRec*> th;        // index = thread id; 0 = dispatcher, 1.. = workers of the live pool
  std::vector<std::string> trace;    // event tokens
  int active = -1;                   // id of the thread currently allowed to run (-1: controller)
  ThreadRec* starting = nullptr;     // child being started by the active thread
  long steps = 0;
};

struct Global {
  std::atomic<int> mode{PASS};
  Sched* sched = nullptr;
  int atomic_ctor_counter = 0;       // reset by the harness before every mju_threadpool call
  std::mutex omu;
  std::set<std::tuple<std::string, std::string, std::string>> orders;  // (object, op, order) seen
  // FREE mode
  std::atomic<int> free_next_id{1};
  std::atomic<unsigned> free_seed{1};
  std::atomic<long> free_ops{0};
};

inline Global& G() {
  static Global g;
  return g;
}

inline thread_local ThreadRec* tl_self = nullptr;
inline thread_local int tl_free_id = 0;
inline thread_local unsigned tl_rng = 0;

inline const char* atomic_name(int idx) {
  static const char* names[3] = {"next", "ndone", "signal"};
  static thread_local char buf[32];
  if (idx >= 0 && idx < 3) return names[idx];
  snprintf(buf, sizeof buf, "a%d", idx);
  return buf;
}

inline void record_order(int idx, const char* op, std::memory_order o) {
  Global& g = G();
  if (g.mode.load() == PASS) return;
  std::lock_guard<std::mutex> lk(g.omu);
  g.orders.insert({atomic_name(idx), op, order_name(o)});
}

inline void free_yield() {
  Global& g = G();
  g.free_ops.fetch_add(1, std::memory_order_relaxed);
  if (tl_rng == 0) tl_rng = g.free_seed.load() * 2654435761u + 97u * (unsigned)(tl_free_id + 1) + 1u;
  tl_rng = tl_rng * 1664525u + 1013904223u;
  unsigned r = (tl_rng >> 16) & 0xff;
  if (r < 96) {
    std::this_thread::yield();
  } else if (r < 112) {
    std::this_thread::sleep_for(std::chrono::microseconds(1 + ((tl_rng >> 8) & 63)));
  } else if (r < 116) {
    for (int i = 0; i < 4; i++) std::this_thread::yield();
  }
}

// ---- CTRL mode primitives (called by controlled threads) -------------------------------------------------

// hand control back: called with the thread's new state already decided
inline void yield_control(Sched* s, ThreadRec* me, ThreadRec::St st, const void* on, int join_target,
                          ThreadRec* join_rec) {
  bool sig_ctl = false, sig_creator = false;
  {
    std::lock_guard<std::mutex> lk(s->mu);
    me->st = st;
    me->sleep_on = on;
    me->join_target = join_target;
    me->join_rec = join_rec;
    me->parked = true;
    if (s->active == me->id) {
      s->active = -1;
      sig_ctl = true;
    }
    if (s->starting == me) {
      s->starting = nullptr;
      sig_creator = true;
    }
  }
  if (sig_creator) {
    me->started.store(1);
    me->started.notify_all();
  }
  if (sig_ctl) {
    s->back.store(1);
    s->back.notify_all();
  }
}

// park the calling thread in state `st` and wait until the controller grants it one step
inline void park(ThreadRec::St st, const void* on = nullptr, int join_target = -1, ThreadRec* join_rec = nullptr) {
  Sched* s = G().sched;
  ThreadRec* me = tl_self;
  yield_control(s, me, st, on, join_target, join_rec);
  while (me->go.load() == 0) me->go.wait(0);
  me->go.store(0);
  std::lock_guard<std::mutex> lk(s->mu);
  me->parked = false;
  me->join_target = -1;
  me->join_rec = nullptr;
}

// OS threads that carry the controlled threads of successive runs (creating one per std::thread of every
// replayed schedule dominates the cost otherwise).  A carrier runs one job at a time.
struct Carrier {
  std::thread os;
  std::atomic<int> has{0};
  std::function<void()> job;
};

struct CarrierPool {
  std::mutex mu;
  std::vector<Carrier*> free;
};

inline CarrierPool& carriers() {
  static CarrierPool* p = new CarrierPool();   // never destroyed: carriers are detached
  return *p;
}

inline void carrier_run(std::function<void()> job) {
  CarrierPool& cp = carriers();
  Carrier* c = nullptr;
  {
    std::lock_guard<std::mutex> lk(cp.mu);
    if (!cp.free.empty()) {
      c = cp.free.back();
      cp.free.pop_back();
    }
  }
  if (!c) {
    c = new Carrier();
    c->os = std::thread([c]() {
      CarrierPool& cp = carriers();
      for (;;) {
        while (c->has.load() == 0) c->has.wait(0);
        c->job();
        c->job = nullptr;
        c->has.store(0);
        std::lock_guard<std::mutex> lk(cp.mu);
        cp.free.push_back(c);
      }
    });
    c->os.detach();
  }
  c->job = std::move(job);
  c->has.store(1);
  c->has.notify_all();
}

// start a controlled thread running `fn`; returns once it has parked at its first scheduling point or finished
template <class Fn>
inline void start_thread(Sched* s, ThreadRec* r, Fn fn) {
  {
    std::lock_guard<std::mutex> lk(s->mu);
    s->starting = r;
  }
  carrier_run([s, r, fn]() mutable {
    tl_self = r;
    fn();
    tl_self = nullptr;
    yield_control(s, r, ThreadRec::DONE, nullptr, -1, nullptr);
  });
  while (r->started.load() == 0) r->started.wait(0);
}

inline bool controlled() { return G().mode.load(std::memory_order_relaxed) == CTRL && tl_self != nullptr; }

inline void emit(const std::string& ev) {
  Sched* s = G().sched;
  std::lock_guard<std::mutex> lk(s->mu);
  s->trace.push_back(ev);
}

inline std::string tok(int tid, const char* op, const std::string& a, const std::string& b = std::string()) {
  std::string r = std::to_string(tid) + ":" + op + ":" + a;
  if (!b.empty()) r += ":" + b;
  return r;
}

// scheduling point inside the task body (called by the harness's task function)
inline void task_point(int thread_id_arg, int task_id) {
  if (controlled()) {
    park(ThreadRec::READY);
    emit(tok(tl_self->id, "exec", std::to_string(thread_id_arg), std::to_string(task_id)));
  } else if (G().mode.load() == FREE) {
    free_yield();
  }
}

// scheduling point of the dispatcher before an API call
inline void call_point(const std::string& what, const std::string& arg) {
  if (controlled()) {
    park(ThreadRec::READY);
    emit(tok(tl_self->id, "call", what, arg));
  }
}

inline void ret_event(const std::string& what, const std::string& arg) {
  if (controlled()) emit(tok(tl_self->id, "ret", what, arg));
}

// ---- atomic -------------------------------------------------------------------------------------------

template <class T>
class atomic {
 public:
  atomic() noexcept : v_(T()) { idx_ = G().atomic_ctor_counter++; }
  atomic(T x) noexcept : v_(x) { idx_ = G().atomic_ctor_counter++; }
  atomic(const atomic&) = delete;
  atomic& operator=(const atomic&) = delete;

  T load(std::memory_order o = std::memory_order_seq_cst) const noexcept {
    record_order(idx_, "load", o);
    if (controlled()) {
      park(ThreadRec::READY);
      T x = v_.load(std::memory_order_seq_cst);
      emit(tok(tl_self->id, "load", atomic_name(idx_), std::to_string(x)));
      return x;
    }
    if (G().mode.load() == FREE) free_yield();
    return v_.load(o);
  }

  void store(T x, std::memory_order o = std::memory_order_seq_cst) noexcept {
    record_order(idx_, "store", o);
    if (controlled()) {
      park(ThreadRec::READY);
      v_.store(x, std::memory_order_seq_cst);
      emit(tok(tl_self->id, "store", atomic_name(idx_), std::to_string(x)));
      return;
    }
    if (G().mode.load() == FREE) free_yield();
    v_.store(x, o);
  }

  T fetch_add(T d, std::memory_order o = std::memory_order_seq_cst) noexcept {
    record_order(idx_, "fetch_add", o);
    if (controlled()) {
      park(ThreadRec::READY);
      T x = v_.fetch_add(d, std::memory_order_seq_cst);
      emit(tok(tl_self->id, "fadd", atomic_name(idx_), std::to_string(x)));
      return x;
    }
    if (G().mode.load() == FREE) free_yield();
    return v_.fetch_add(d, o);
  }

  T exchange(T x, std::memory_order o = std::memory_order_seq_cst) noexcept {
    record_order(idx_, "exchange", o);
    if (controlled()) {
      park(ThreadRec::READY);
      T old = v_.exchange(x, std::memory_order_seq_cst);
      emit(tok(tl_self->id, "xchg", atomic_name(idx_), std::to_string(old) + ">" + std::to_string(x)));
      return old;
    }
    if (G().mode.load() == FREE) free_yield();
    return v_.exchange(x, o);
  }

  bool compare_exchange_strong(T& expected, T desired, std::memory_order o = std::memory_order_seq_cst) noexcept {
    record_order(idx_, "compare_exchange_strong", o);
    if (controlled()) {
      park(ThreadRec::READY);
      T e0 = expected;
      bool ok = v_.compare_exchange_strong(expected, desired, std::memory_order_seq_cst);
      emit(tok(tl_self->id, "cas", atomic_name(idx_),
               std::to_string(e0) + ">" + std::to_string(desired) + (ok ? "=ok" : "=fail")));
      return ok;
    }
    if (G().mode.load() == FREE) free_yield();
    return v_.compare_exchange_strong(expected, desired, o);
  }
  bool compare_exchange_strong(T& e, T d, std::memory_order s, std::memory_order) noexcept {
    return compare_exchange_strong(e, d, s);
  }
  bool compare_exchange_weak(T& e, T d, std::memory_order s = std::memory_order_seq_cst) noexcept {
    return compare_exchange_strong(e, d, s);
  }
  bool compare_exchange_weak(T& e, T d, std::memory_order s, std::memory_order) noexcept {
    return compare_exchange_strong(e, d, s);
  }
  T fetch_sub(T d, std::memory_order o = std::memory_order_seq_cst) noexcept {
    record_order(idx_, "fetch_sub", o);
    if (controlled()) {
      park(ThreadRec::READY);
      T x = v_.fetch_sub(d, std::memory_order_seq_cst);
      emit(tok(tl_self->id, "fsub", atomic_name(idx_), std::to_string(x)));
      return x;
    }
    if (G().mode.load() == FREE) free_yield();
    return v_.fetch_sub(d, o);
  }
  operator T() const noexcept { return load(); }
  T operator=(T x) noexcept { store(x); return x; }
  T operator++(int) noexcept { return fetch_add(1); }
  T operator++() noexcept { return fetch_add(1) + 1; }

  void wait(T old, std::memory_order o = std::memory_order_seq_cst) const noexcept {
    record_order(idx_, "wait", o);
    if (controlled()) {
      park(ThreadRec::READY);
      for (;;) {
        T x = v_.load(std::memory_order_seq_cst);
        if (x != old) {
          emit(tok(tl_self->id, "wait", atomic_name(idx_), std::to_string(old) + ":pass"));
          return;
        }
        emit(tok(tl_self->id, "wait", atomic_name(idx_), std::to_string(old) + ":block"));
        park(ThreadRec::SLEEP, this);   // runnable again only after notify_all on this atomic
      }
    }
    if (G().mode.load() == FREE) free_yield();
    v_.wait(old, o);
  }

  void notify_all() noexcept {
    if (controlled()) {
      park(ThreadRec::READY);
      Sched* s = G().sched;
      int woken = 0;
      {
        std::lock_guard<std::mutex> lk(s->mu);
        for (ThreadRec* t : s->th) {
          if (t && t->st == ThreadRec::SLEEP && t->sleep_on == this) {
            t->st = ThreadRec::READY;
            t->sleep_on = nullptr;
            woken++;
          }
        }
      }
      emit(tok(tl_self->id, "notify", atomic_name(idx_), std::to_string(woken)));
      return;
    }
    if (G().mode.load() == FREE) free_yield();
    v_.notify_all();
  }
  void notify_one() noexcept { notify_all(); }

 private:
  mutable std::atomic<T> v_;
  int idx_;
};

// ---- thread -------------------------------------------------------------------------------------------

class thread {
 public:
  thread() noexcept = default;
  thread(const thread&) = delete;
  thread(thread&& o) noexcept : rec_(o.rec_), os_(std::move(o.os_)) { o.rec_ = nullptr; }
  thread& operator=(thread&& o) noexcept {
    if (joinable()) std::terminate();
    rec_ = o.rec_;
    o.rec_ = nullptr;
    os_ = std::move(o.os_);
    return *this;
  }
  ~thread() {
    if (joinable()) std::terminate();
  }

  template <class F, class... A>
  explicit thread(F&& f, A&&... a) {
    auto fn = std::bind(std::forward<F>(f), std::forward<A>(a)...);
    if (controlled()) {
      park(ThreadRec::READY);
      Sched* s = G().sched;
      ThreadRec* r = new ThreadRec();
      {
        std::lock_guard<std::mutex> lk(s->mu);
        r->id = (int)s->th.size();
        s->th.push_back(r);
      }
      // the child runs up to its first scheduling point (or to completion) before the creator continues
      start_thread(s, r, fn);
      emit(tok(tl_self->id, "spawn", std::to_string(r->id)));
      rec_ = r;
      return;
    }
    if (G().mode.load() == FREE) {
      int id = G().free_next_id.fetch_add(1);
      os_ = std::thread([id, fn]() mutable {
        tl_free_id = id;
        fn();
      });
      return;
    }
    os_ = std::thread(fn);
  }

  bool joinable() const noexcept { return rec_ != nullptr || os_.joinable(); }

  void join() {
    if (rec_) {
      ThreadRec* r = rec_;
      park(ThreadRec::READY, nullptr, r->id, r);   // enabled only once the target is DONE
      {
        Sched* s = G().sched;
        std::lock_guard<std::mutex> lk(s->mu);
        r->joined = true;
        // when every worker has been joined the ids 1.. are free again for the next pool
        bool all = true;
        for (size_t i = 1; i < s->th.size(); i++) all = all && s->th[i]->joined;
        if (all) s->th.resize(1);
      }
      emit(tok(tl_self->id, "join", std::to_string(r->id)));
      rec_ = nullptr;
      return;
    }
    if (G().mode.load() == FREE) free_yield();
    os_.join();
  }

  static unsigned hardware_concurrency() noexcept { return std::thread::hardware_concurrency(); }

 private:
  ThreadRec* rec_ = nullptr;
  std::thread os_;
};

}  // namespace c03

// the namespace the renamed `std` of engine_thread.cc refers to
namespace c03std {
using namespace ::std;
template <class T>
using atomic = ::c03::atomic<T>;
using thread = ::c03::thread;
}  // namespace c03std

#endif  // VERIF_C03_SCHED_SHIM_H_
