// C51 implementation-side driver: the first-party plugins of the tree (plugin/actuator/pid.cc and
// plugin/elasticity/cable.cc, #included unmodified so that their file-local kernels are reachable) are registered
// through mjp_registerPlugin and driven through models built with the mjSpec API and stepped by the real engine.
//
// Build: ctx.harness(..., extra=["-I<repo>/plugin"]).   Doubles are 16 hex digits everywhere.
//
//   pid kp=<h> ki=<h> kd=<h> imax=<h|-> slew=<h|-> dt=<h> dyn=<0 none|1 integrator|2 filter|3 filterexact> tau=<h>
//       early=<0|1> clim=<h,h|-> integ=<0 Euler|2 implicit|3 implicitfast> ownexact=<?|0|1> u=<h,h,...>  [| in...]
//     (ownexact: "?" without inputs; with inputs the value the trace reported: whether the real mj_nextActivation
//      advances a plugin-owned slot of a filterexact actuator with the exact-filter rule (1) or by Euler (0))
//     One slide-joint body; three actuators on it: a filter-type general actuator, the PID plugin actuator, another
//     filter-type actuator (their act / act_dot / force entries surround the plugin's).  ctrl of the plugin actuator
//     follows u, one mj_step per entry.
//     without "|":  "trace nact=<K> ownexact=<0|1>" then per step  time ctrl len vel nact nactdot | force actdotI actdotP
//                   actI' actP' ;   then "foot=<ok|BAD...> warn=<n>"  (see below)
//     with "| in":  in = per step "time ctrl len vel nact nactdot" (exactly what the trace printed); they are checked
//                   against the re-run (else "input-mismatch"), output = per step "force actdotI actdotP actI' actP' ;"
//     (actI / actP: the plugin's integral / previous-setpoint activation, "-" when the configuration has none;
//      nact / nactdot: the native activation of the actuator (dyn != 0) and its act_dot, "-" for dyn=0)
//     foot: plugin->actuator_act_dot and plugin->compute are called directly on a poisoned copy of the step's mjData;
//           every byte of d->buffer they change must lie in the actuator's own act_dot slice / actuator_force entry.
//   cable n=<N> first=<0 none|1 ball|2 free> flat=<0|1> twist=<h> bend=<h> vmax=<h> geom=<3 capsule|5 cylinder|6 box>
//       size=<h,h,h> len=<h> quats=<4N h> qseed=<int|ref|straight>  [| in...]
//     Chain of N bodies (body k child of k-1, offset len along x, orientation quats[k]), ball joints, one cable plugin
//     instance on all of them.  qseed: ref = qpos0; straight = joint quats cancel the body quats; int = random unit
//     quaternions from that seed.
//     without "|":  dump:  per body  bq×4 q0×4 q×4 stiff×4 ;   then  "| omega0×3N stress×3N | qfrc <nv h> xfrcnorm=<h>
//                   foot=<ok|BAD...> zero=<max |qfrc_passive|>"
//     with "| in":  in = the per-body part of the dump; checked against the rebuilt model (else input-mismatch);
//                   output = "omega0 <3N h> stress <3N h>"
//   kern <name> <h>...     the file-local kernels of cable.cc: QuatDiff (8 in, 4 out), LocalStress_pull /
//                          LocalStress_nopull (11 in: stiffness×4 quat×4 omega0×3, 3 out)
#include <cmath>
#include <csetjmp>
#include <cstdint>
#include <cstdio>
#include <cstdlib>
#include <cstring>
#include <map>
#include <sstream>
#include <string>
#include <vector>

#include <mujoco/mujoco.h>
#include <mujoco/mjxmacro.h>
#include "engine/engine_support.h"
#include "actuator/pid.cc"
#include "elasticity/cable.cc"

namespace {

jmp_buf errjmp;
int errarmed = 0;
char errmsg[512];
int nwarn = 0;
int in_makedata = 0;
char lastwarn[256];
void on_error(const char* msg) {
  strncpy(errmsg, msg, sizeof(errmsg) - 1);
  for (char* p = errmsg; *p; p++) if (*p == '\n') *p = ' ';
  if (errarmed) longjmp(errjmp, 1);
  fprintf(stderr, "mujoco error: %s\n", msg);
  exit(3);
}
void on_warning(const char* msg) { nwarn++; strncpy(lastwarn, msg, sizeof(lastwarn) - 1); }

std::string hx(double x) {
  uint64_t u; memcpy(&u, &x, 8);
  char b[32]; snprintf(b, sizeof b, "%016llx", (unsigned long long)u); return b;
}
bool rd(const std::string& t, double* out) {
  if (t.size() != 16) return false;
  char* e; unsigned long long u = strtoull(t.c_str(), &e, 16);
  if (*e) return false;
  uint64_t v = u; memcpy(out, &v, 8); return true;
}
bool rdlist(const std::string& t, std::vector<double>* out) {
  out->clear();
  std::stringstream ss(t); std::string item;
  while (std::getline(ss, item, ',')) { double x; if (!rd(item, &x)) return false; out->push_back(x); }
  return true;
}
std::string g17(double x) { char b[64]; snprintf(b, sizeof b, "%.17g", x); return b; }

typedef std::map<std::string, std::string> KV;
bool parsekv(const std::vector<std::string>& tok, size_t from, size_t to, KV* kv) {
  for (size_t i = from; i < to; i++) {
    size_t p = tok[i].find('=');
    if (p == std::string::npos || p == 0) return false;
    std::string k = tok[i].substr(0, p);
    if (kv->count(k)) return false;
    (*kv)[k] = tok[i].substr(p + 1);
  }
  return true;
}
bool isint(const std::string& s) {
  if (s.empty()) return false;
  char* e; strtol(s.c_str(), &e, 10); return *e == 0;
}

typedef std::map<std::string, std::string, std::less<> > Attr;

// name of the mjData array containing byte offset `off` of d->buffer
std::string field_at(const mjModel* m, const mjData* d, size_t off) {
  const unsigned char* p = (const unsigned char*)d->buffer + off;
#define X(type, name, nr, nc) \
  if (p >= (const unsigned char*)d->name && p < (const unsigned char*)d->name + sizeof(type) * (size_t)(m->nr) * (size_t)(nc)) \
    return std::string(#name) + "[" + std::to_string((p - (const unsigned char*)d->name) / sizeof(type)) + "]";
#define MJ_M(n) m->n
  MJDATA_POINTERS
#undef MJ_M
#undef X
  return "buffer+" + std::to_string(off);
}

// ------------------------------------------------------------------------------------------------ PID
struct PidCfg {
  double kp, ki, kd, imax, slew, dt, tau, clo, chi;
  bool has_imax, has_slew, has_clim;
  int dyn, early, integ;
  std::string ownexact;   // "?" (trace mode) or the value measured earlier
  std::vector<double> u;
};

bool parse_pid(const KV& kv, PidCfg* c) {
  static const char* keys[] = {"kp", "ki", "kd", "imax", "slew", "dt", "dyn", "tau", "early", "clim", "integ", "ownexact", "u"};
  if (kv.size() != 13) return false;
  for (const char* k : keys) if (!kv.count(k)) return false;
  if (!rd(kv.at("kp"), &c->kp) || !rd(kv.at("ki"), &c->ki) || !rd(kv.at("kd"), &c->kd) || !rd(kv.at("dt"), &c->dt) || !rd(kv.at("tau"), &c->tau)) return false;
  c->has_imax = kv.at("imax") != "-";
  if (c->has_imax && !rd(kv.at("imax"), &c->imax)) return false;
  c->has_slew = kv.at("slew") != "-";
  if (c->has_slew && !rd(kv.at("slew"), &c->slew)) return false;
  c->has_clim = kv.at("clim") != "-";
  if (c->has_clim) { std::vector<double> v; if (!rdlist(kv.at("clim"), &v) || v.size() != 2) return false; c->clo = v[0]; c->chi = v[1]; }
  if (!isint(kv.at("dyn")) || !isint(kv.at("early")) || !isint(kv.at("integ"))) return false;
  c->dyn = atoi(kv.at("dyn").c_str()); c->early = atoi(kv.at("early").c_str()); c->integ = atoi(kv.at("integ").c_str());
  if (c->dyn < 0 || c->dyn > 3 || c->early < 0 || c->early > 1 || (c->integ != 0 && c->integ != 2 && c->integ != 3)) return false;
  if (!rdlist(kv.at("u"), &c->u) || c->u.empty()) return false;
  c->ownexact = kv.at("ownexact");
  if (c->ownexact != "?" && c->ownexact != "0" && c->ownexact != "1") return false;
  return true;
}

mjModel* build_pid(const PidCfg& c, std::string* err) {
  mjSpec* s = mj_makeSpec();
  s->option.timestep = c.dt;
  s->option.integrator = c.integ;
  mjsBody* w = mjs_findBody(s, "world");
  mjsBody* b = mjs_addBody(w, nullptr);
  b->pos[2] = 0.5;
  mjsJoint* j = mjs_addJoint(b, nullptr);
  j->type = mjJNT_SLIDE; j->axis[0] = 0; j->axis[1] = 0; j->axis[2] = 1;
  j->damping[0] = 0.3; j->stiffness[0] = 2.0;
  mjs_setName(j->element, "j");
  mjsGeom* g = mjs_addGeom(b, nullptr);
  g->type = mjGEOM_SPHERE; g->size[0] = 0.05;
  mjs_activatePlugin(s, "mujoco.pid");
  mjsPlugin* pl = mjs_addPlugin(s);
  mjs_setString(pl->plugin_name, "mujoco.pid");
  mjs_setName(pl->element, "pid");
  pl->active = 1;
  Attr attr;
  attr["kp"] = g17(c.kp); attr["ki"] = g17(c.ki); attr["kd"] = g17(c.kd);
  if (c.has_imax) attr["imax"] = g17(c.imax);
  if (c.has_slew) attr["slewmax"] = g17(c.slew);
  mjs_setPluginAttributes(pl, &attr);
  for (int a = 0; a < 3; a++) {
    mjsActuator* ac = mjs_addActuator(s, nullptr);
    ac->trntype = mjTRN_JOINT;
    mjs_setString(ac->target, "j");
    if (a == 1) {
      ac->plugin.element = pl->element;
      ac->plugin.active = 1;
      mjs_setString(ac->plugin.plugin_name, "mujoco.pid");
      mjs_setString(ac->plugin.name, "pid");
      static const int dyns[4] = {mjDYN_NONE, mjDYN_INTEGRATOR, mjDYN_FILTER, mjDYN_FILTEREXACT};
      ac->dyntype = (mjtDyn)dyns[c.dyn];
      ac->dynprm[0] = c.tau;
      ac->actearly = (mjtBool)c.early;
      int nact = (c.ki != 0 ? 1 : 0) + (c.has_slew ? 1 : 0) + (c.dyn != 0 ? 1 : 0);
      if (nact) ac->actdim = nact;
      if (c.has_clim) { ac->ctrllimited = mjLIMITED_TRUE; ac->ctrlrange[0] = c.clo; ac->ctrlrange[1] = c.chi; }
    } else {
      ac->dyntype = mjDYN_FILTER; ac->dynprm[0] = 0.05 + 0.02 * a;
      ac->gaintype = mjGAIN_FIXED; ac->gainprm[0] = 0.3 + 0.1 * a;
    }
  }
  mjModel* m = mj_compile(s, nullptr);
  if (!m) *err = mjs_getError(s);
  mj_deleteSpec(s);
  return m;
}

void do_pid(const std::vector<std::string>& tok) {
  size_t bar = tok.size();
  for (size_t i = 1; i < tok.size(); i++) if (tok[i] == "|") { bar = i; break; }
  KV kv; PidCfg c;
  if (!parsekv(tok, 1, bar, &kv) || !parse_pid(kv, &c)) { printf("bad-op\n"); return; }
  bool verify = bar < tok.size();
  size_t T = c.u.size();
  if (verify && tok.size() - bar - 1 != 6 * T) { printf("bad-op\n"); return; }
  if (verify == (c.ownexact == "?")) { printf("bad-op\n"); return; }
  std::string err;
  nwarn = 0;
  mjModel* m = build_pid(c, &err);
  if (!m) {
    // mj_compile makes an mjData internally: a configuration refused by Pid::Create surfaces here
    if (err.find("plugin->init failed") != std::string::npos) { printf("create-failed\n"); return; }
    for (char& ch : err) if (ch == '\n' || ch == '\r') ch = ' ';
    printf("compile-error %s\n", err.c_str()); return;
  }
  in_makedata = 1;
  mjData* d = mj_makeData(m);   // plugin init failure raises an engine error: reported as "create-failed"
  in_makedata = 0;
  const int A = 1;
  int adr = m->actuator_actadr[A], num = m->actuator_actnum[A];
  int iI = c.ki != 0 ? adr : -1;
  int iP = c.has_slew ? adr + (c.ki != 0 ? 1 : 0) : -1;
  int iN = c.dyn != 0 ? adr + num - 1 : -1;
  int inst = m->actuator_plugin[A];
  const mjpPlugin* plugin = mjp_getPluginAtSlot(m->plugin[inst]);
  // how does the engine of the tree advance a plugin-owned slot of a filterexact actuator?  Ask the real
  // mj_nextActivation: from act = 0 with act_dot = 1 it returns the step it multiplies act_dot with.
  int ownexact = 0;
  if (c.dyn == 3 && (iI >= 0 || iP >= 0)) {
    int slot = iI >= 0 ? iI : iP;
    mjtNum save = d->act[slot];
    d->act[slot] = 0;
    ownexact = mj_nextActivation(m, d, A, slot, 1.0) != m->opt.timestep;
    d->act[slot] = save;
  }
  if (verify && atoi(c.ownexact.c_str()) != ownexact) { printf("input-mismatch ownexact\n"); mj_deleteData(d); mj_deleteModel(m); return; }
  std::string out, footres = "ok";
  bool mismatch = false; size_t mmstep = 0;
  for (size_t t = 0; t < T; t++) {
    d->ctrl[0] = 0.3 * std::sin(0.7 * (double)t);
    d->ctrl[A] = c.u[t];
    d->ctrl[2] = -0.2 * std::cos(0.4 * (double)t);
    double time0 = d->time;
    std::string nact = iN >= 0 ? hx(d->act[iN]) : "-";
    mj_step(m, d);   // forward (plugin act_dot + compute on the pre-step state) then advance
    std::string ins[6] = {hx(time0), hx(c.u[t]), hx(d->actuator_length[A]), hx(d->actuator_velocity[A]), nact,
                          iN >= 0 ? hx(d->act_dot[iN]) : "-"};
    std::string outs = hx(d->actuator_force[A]) + " " + (iI >= 0 ? hx(d->act_dot[iI]) : "-") + " " + (iP >= 0 ? hx(d->act_dot[iP]) : "-") +
                       " " + (iI >= 0 ? hx(d->act[iI]) : "-") + " " + (iP >= 0 ? hx(d->act[iP]) : "-") + " ;";
    if (verify) {
      for (int k = 0; k < 6; k++) if (tok[bar + 1 + 6 * t + k] != ins[k] && !mismatch) { mismatch = true; mmstep = t; }
      out += (t ? " " : "") + outs;
    } else {
      for (int k = 0; k < 6; k++) out += ins[k] + " ";
      out += "| " + outs + " ";
    }
    // footprint of the two plugin callbacks on the post-step data (state is valid: forward-consistent fields may be
    // stale, which the callbacks do not care about)
    if (!verify && footres == "ok" && (t == 0 || t == T / 2 || t + 1 == T)) {
      mjData* e = mj_copyData(nullptr, m, d);
      // poison the arrays the callbacks write, so that a write is visible even when it stores the value already there
      // (the same callbacks ran inside mj_step a moment ago); the native act_dot, which Compute/GetCtrl read, is kept
      for (int k = 0; k < m->na; k++) if (k != iN) { uint64_t pz = 0x7ff8dead00000000ULL + (uint64_t)k; memcpy(e->act_dot + k, &pz, 8); }
      for (int k = 0; k < m->nu; k++) { uint64_t pz = 0x7ff8beef00000000ULL + (uint64_t)k; memcpy(e->actuator_force + k, &pz, 8); }
      std::vector<unsigned char> snap((unsigned char*)e->buffer, (unsigned char*)e->buffer + e->nbuffer);
      if (plugin->actuator_act_dot) plugin->actuator_act_dot(m, e, inst);
      const unsigned char* b = (const unsigned char*)e->buffer;
      int nown = num - (c.dyn != 0 ? 1 : 0);
      const unsigned char* lo = (const unsigned char*)(e->act_dot + adr);
      const unsigned char* hi = (const unsigned char*)(e->act_dot + adr + nown);
      for (size_t i = 0; i < snap.size() && footres == "ok"; i++)
        if (b[i] != snap[i] && (adr < 0 || b + i < lo || b + i >= hi)) footres = "BAD:act_dot-callback-wrote-" + field_at(m, e, i);
      snap.assign(b, b + e->nbuffer);
      plugin->compute(m, e, inst, mjPLUGIN_ACTUATOR);
      lo = (const unsigned char*)(e->actuator_force + A); hi = (const unsigned char*)(e->actuator_force + A + 1);
      for (size_t i = 0; i < snap.size() && footres == "ok"; i++)
        if (b[i] != snap[i] && (b + i < lo || b + i >= hi)) footres = "BAD:compute-wrote-" + field_at(m, e, i);
      mj_deleteData(e);
    }
  }
  if (verify) {
    if (mismatch) printf("input-mismatch step %zu\n", mmstep); else printf("%s\n", out.c_str());
  } else {
    printf("trace nact=%d ownexact=%d %sfoot=%s warn=%d\n", num, ownexact, out.c_str(), footres.c_str(), nwarn);
  }
  mj_deleteData(d);
  mj_deleteModel(m);
}

// ------------------------------------------------------------------------------------------------ cable
struct CableCfg {
  int n, first, flat, geom;
  double twist, bend, vmax, len;
  std::vector<double> size, quats;
  std::string qseed;
};

bool parse_cable(const KV& kv, CableCfg* c) {
  static const char* keys[] = {"n", "first", "flat", "twist", "bend", "vmax", "geom", "size", "len", "quats", "qseed"};
  if (kv.size() != 11) return false;
  for (const char* k : keys) if (!kv.count(k)) return false;
  if (!isint(kv.at("n")) || !isint(kv.at("first")) || !isint(kv.at("flat")) || !isint(kv.at("geom"))) return false;
  c->n = atoi(kv.at("n").c_str()); c->first = atoi(kv.at("first").c_str()); c->flat = atoi(kv.at("flat").c_str()); c->geom = atoi(kv.at("geom").c_str());
  if (c->n < 2 || c->n > 64 || c->first < 0 || c->first > 2 || c->flat < 0 || c->flat > 1) return false;
  if (c->geom != mjGEOM_CAPSULE && c->geom != mjGEOM_CYLINDER && c->geom != mjGEOM_BOX) return false;
  if (!rd(kv.at("twist"), &c->twist) || !rd(kv.at("bend"), &c->bend) || !rd(kv.at("vmax"), &c->vmax) || !rd(kv.at("len"), &c->len)) return false;
  if (!rdlist(kv.at("size"), &c->size) || c->size.size() != 3) return false;
  if (!rdlist(kv.at("quats"), &c->quats) || (int)c->quats.size() != 4 * c->n) return false;
  c->qseed = kv.at("qseed");
  if (c->qseed != "ref" && c->qseed != "straight" && !isint(c->qseed)) return false;
  return true;
}

mjModel* build_cable(const CableCfg& c, std::string* err) {
  mjSpec* s = mj_makeSpec();
  s->option.gravity[2] = 0;
  mjs_activatePlugin(s, "mujoco.elasticity.cable");
  mjsPlugin* pl = mjs_addPlugin(s);
  mjs_setString(pl->plugin_name, "mujoco.elasticity.cable");
  mjs_setName(pl->element, "cable");
  pl->active = 1;
  Attr attr;
  attr["twist"] = g17(c.twist); attr["bend"] = g17(c.bend); attr["vmax"] = g17(c.vmax);
  attr["flat"] = c.flat ? "true" : "false";
  mjs_setPluginAttributes(pl, &attr);
  mjsBody* parent = mjs_findBody(s, "world");
  // an unrelated jointed body before the cable: its dofs must stay untouched
  {
    mjsBody* o = mjs_addBody(parent, nullptr);
    o->pos[1] = 1.0;
    mjsJoint* oj = mjs_addJoint(o, nullptr); oj->type = mjJNT_HINGE;
    mjsGeom* og = mjs_addGeom(o, nullptr); og->type = mjGEOM_SPHERE; og->size[0] = 0.05;
  }
  for (int k = 0; k < c.n; k++) {
    mjsBody* b = mjs_addBody(parent, nullptr);
    b->pos[0] = k == 0 ? 0.0 : c.len; b->pos[2] = k == 0 ? 1.0 : 0.0;
    for (int j = 0; j < 4; j++) b->quat[j] = c.quats[4 * k + j];
    if (k == 0) {
      if (c.first == 1) { mjsJoint* jn = mjs_addJoint(b, nullptr); jn->type = mjJNT_BALL; }
      else if (c.first == 2) mjs_addFreeJoint(b);
    } else {
      mjsJoint* jn = mjs_addJoint(b, nullptr); jn->type = mjJNT_BALL;
    }
    mjsGeom* g = mjs_addGeom(b, nullptr);
    g->type = (mjtGeom)c.geom;
    if (c.geom == mjGEOM_BOX) { g->size[0] = c.len / 2; g->size[1] = c.size[1]; g->size[2] = c.size[2]; g->pos[0] = c.len / 2; }
    else { g->size[0] = c.size[0]; g->fromto[0] = 0; g->fromto[1] = 0; g->fromto[2] = 0; g->fromto[3] = c.len; g->fromto[4] = 0; g->fromto[5] = 0; }
    b->plugin.element = pl->element;
    b->plugin.active = 1;
    mjs_setString(b->plugin.plugin_name, "mujoco.elasticity.cable");
    mjs_setString(b->plugin.name, "cable");
    parent = b;
  }
  mjModel* m = mj_compile(s, nullptr);
  if (!m) *err = mjs_getError(s);
  mj_deleteSpec(s);
  return m;
}

void do_cable(const std::vector<std::string>& tok) {
  using mujoco::plugin::elasticity::Cable;
  size_t bar = tok.size();
  for (size_t i = 1; i < tok.size(); i++) if (tok[i] == "|") { bar = i; break; }
  KV kv; CableCfg c;
  if (!parsekv(tok, 1, bar, &kv) || !parse_cable(kv, &c)) { printf("bad-op\n"); return; }
  bool verify = bar < tok.size();
  if (verify && tok.size() - bar - 1 != (size_t)(17 * c.n)) { printf("bad-op\n"); return; }
  std::string err;
  mjModel* m = build_cable(c, &err);
  if (!m) { for (char& ch : err) if (ch == '\n' || ch == '\r') ch = ' '; printf("compile-error %s\n", err.c_str()); return; }
  mjData* d = mj_makeData(m);
  // the cable bodies are those with the plugin: consecutive ids from i0
  int inst = -1, i0 = -1;
  for (int i = 1; i < m->nbody; i++) if (m->body_plugin[i] >= 0) { inst = m->body_plugin[i]; if (i0 < 0) i0 = i; }
  Cable* cab = reinterpret_cast<Cable*>(d->plugin_data[inst]);
  // joint quaternion address per cable body (as the plugin computes it); -1 for a first body without joint
  std::vector<int> qadr(c.n, -1);
  for (int b = 0; b < c.n; b++) {
    int i = i0 + b;
    if (m->body_jntnum[i] > 0) qadr[b] = m->jnt_qposadr[m->body_jntadr[i]] + m->body_dofnum[i] - 3;
  }
  // state
  mj_resetData(m, d);
  if (c.qseed == "straight") {
    for (int b = 0; b < c.n; b++) if (qadr[b] >= 0) {
      const mjtNum* bq = m->body_quat + 4 * (i0 + b);
      d->qpos[qadr[b]] = bq[0]; d->qpos[qadr[b] + 1] = -bq[1]; d->qpos[qadr[b] + 2] = -bq[2]; d->qpos[qadr[b] + 3] = -bq[3];
    }
  } else if (c.qseed != "ref") {
    unsigned long long sd = strtoull(c.qseed.c_str(), nullptr, 10) * 6364136223846793005ULL + 1442695040888963407ULL;
    for (int b = 0; b < c.n; b++) if (qadr[b] >= 0) {
      double q[4], nn = 0;
      for (int j = 0; j < 4; j++) { sd = sd * 6364136223846793005ULL + 1442695040888963407ULL; q[j] = (double)(sd >> 11) / 9007199254740992.0 - 0.5; if (j == 0) q[j] += 0.8; nn += q[j] * q[j]; }
      nn = std::sqrt(nn);
      for (int j = 0; j < 4; j++) d->qpos[qadr[b] + j] = q[j] / nn;
    }
  }
  mj_forward(m, d);
  // per-body inputs
  std::string ins;
  std::vector<std::string> intok;
  for (int b = 0; b < c.n; b++) {
    int i = i0 + b;
    for (int j = 0; j < 4; j++) intok.push_back(hx(m->body_quat[4 * i + j]));
    for (int j = 0; j < 4; j++) intok.push_back(qadr[b] >= 0 ? hx(m->qpos0[qadr[b] + j]) : hx(j == 0 ? 1.0 : 0.0));
    for (int j = 0; j < 4; j++) intok.push_back(qadr[b] >= 0 ? hx(d->qpos[qadr[b] + j]) : hx(j == 0 ? 1.0 : 0.0));
    for (int j = 0; j < 4; j++) intok.push_back(hx(cab->stiffness[4 * b + j]));
    intok.push_back(";");
  }
  std::string res = "omega0";
  for (int k = 0; k < 3 * c.n; k++) res += " " + hx(cab->omega0[k]);
  res += " stress";
  for (int k = 0; k < 3 * c.n; k++) res += " " + hx(cab->stress[k]);
  if (verify) {
    for (size_t k = 0; k < intok.size(); k++) if (tok[bar + 1 + k] != intok[k]) { printf("input-mismatch token %zu\n", k); mj_deleteData(d); mj_deleteModel(m); return; }
    printf("%s\n", res.c_str());
  } else {
    std::string o = "dump";
    for (auto& t : intok) o += " " + t;
    o += " | " + res + " | qfrc";
    double zmax = 0;
    for (int k = 0; k < m->nv; k++) { o += " " + hx(d->qfrc_passive[k]); if (std::fabs(d->qfrc_passive[k]) > zmax || d->qfrc_passive[k] != d->qfrc_passive[k]) zmax = std::fabs(d->qfrc_passive[k]); }
    // footprint of the compute callback: only qfrc_passive entries of the cable's dofs (and nothing else in d->buffer)
    const mjpPlugin* plugin = mjp_getPluginAtSlot(m->plugin[inst]);
    mjData* e = mj_copyData(nullptr, m, d);
    int dof0 = m->body_dofadr[i0] >= 0 ? m->body_dofadr[i0] : m->body_dofadr[i0 + 1];
    // quiet-NaN poison in the foreign entries of qfrc_passive: "+= 0" keeps the payload, any other write shows
    for (int k = 0; k < dof0; k++) { uint64_t pz = 0x7ff8dead00000000ULL + (uint64_t)k; memcpy(e->qfrc_passive + k, &pz, 8); }
    std::vector<unsigned char> snap((unsigned char*)e->buffer, (unsigned char*)e->buffer + e->nbuffer);
    plugin->compute(m, e, inst, mjPLUGIN_PASSIVE);
    const unsigned char* bb = (const unsigned char*)e->buffer;
    const unsigned char* lo = (const unsigned char*)(e->qfrc_passive + dof0);
    const unsigned char* hi = (const unsigned char*)(e->qfrc_passive + m->nv);
    std::string footres = "ok";
    for (size_t i = 0; i < snap.size() && footres == "ok"; i++)
      if (bb[i] != snap[i] && (bb + i < lo || bb + i >= hi)) footres = "BAD:compute-wrote-" + field_at(m, e, i);
    mj_deleteData(e);
    printf("%s nv=%d dof0=%d foot=%s zero=%s\n", o.c_str(), m->nv, dof0, footres.c_str(), hx(zmax).c_str());
  }
  mj_deleteData(d);
  mj_deleteModel(m);
}

void do_kern(const std::vector<std::string>& tok) {
  using namespace mujoco::plugin::elasticity;
  if (tok.size() < 3) { printf("bad-op\n"); return; }
  std::vector<double> v;
  for (size_t i = 2; i < tok.size(); i++) { double x; if (!rd(tok[i], &x)) { printf("bad-op\n"); return; } v.push_back(x); }
  double canary = 12345.0;
  if (tok[1] == "QuatDiff" && v.size() == 8) {
    double out[6] = {canary, 0, 0, 0, 0, canary};
    QuatDiff(out + 1, v.data(), v.data() + 4);
    if (out[0] != canary || out[5] != canary) { printf("canary-overwritten\n"); return; }
    printf("%s %s %s %s\n", hx(out[1]).c_str(), hx(out[2]).c_str(), hx(out[3]).c_str(), hx(out[4]).c_str());
  } else if ((tok[1] == "LocalStress_pull" || tok[1] == "LocalStress_nopull") && v.size() == 11) {
    double out[5] = {canary, 0, 0, 0, canary};
    LocalStress(out + 1, v.data(), v.data() + 4, v.data() + 8, tok[1] == "LocalStress_pull");
    if (out[0] != canary || out[4] != canary) { printf("canary-overwritten\n"); return; }
    printf("%s %s %s\n", hx(out[1]).c_str(), hx(out[2]).c_str(), hx(out[3]).c_str());
  } else {
    printf("bad-op\n");
  }
}

}  // namespace

int main() {
  mju_user_error = on_error;
  mju_user_warning = on_warning;
  mujoco::plugin::actuator::Pid::RegisterPlugin();
  mujoco::plugin::elasticity::Cable::RegisterPlugin();
  static char line[1 << 22];
  while (fgets(line, sizeof line, stdin)) {
    std::vector<std::string> tok;
    { std::stringstream ss(line); std::string t; while (ss >> t) tok.push_back(t); }
    if (tok.empty()) { printf("bad-op\n"); continue; }
    errarmed = 1;
    if (setjmp(errjmp)) {
      if (in_makedata) printf("create-failed\n"); else printf("error %s\n", errmsg);
      in_makedata = 0; errarmed = 0; fflush(stdout); continue;
    }
    if (tok[0] == "pid") do_pid(tok);
    else if (tok[0] == "cable") do_cable(tok);
    else if (tok[0] == "kern") do_kern(tok);
    else if (tok[0] == "genid" && tok.size() == 2) printf("genid %s\n", tok[1].c_str());   // echo: the check supplies the id of its tree
    else printf("bad-op\n");
    errarmed = 0;
    fflush(stdout);
  }
  return 0;
}
