// C40 implementation-side driver.
//
// Instantiates the UNMODIFIED template mujoco::GlobalTable<T> of src/engine/engine_global_table.h with a
// small test object type (kinds `t`: exact ObjectEqual, `c`: case-insensitive ObjectEqual) and also goes
// through the real registration API of src/engine/engine_plugin.cc (kind `p`: mjp_registerPlugin /
// mjp_getPlugin / mjp_getPluginAtSlot / mjp_pluginCount; kind `v`: mjp_registerResourceProvider /
// mjp_getResourceProvider / mjp_getResourceProviderAtSlot / mjp_resourceProviderCount).
// Nothing of the table is re-implemented here: only the four customisation points that every
// instantiation must supply (HumanReadableTypeName / ObjectKey / ObjectEqual / CopyObject) are defined
// for the test type.
//
// Fresh table per input line: for the test instantiations (kinds t, c) a new GlobalTable object is created
// by calling the template's own (private) constructor -- the header is included under `#define private public`,
// its text is not touched; the real registries (kinds p, v) are process-global singletons, so every line of
// those kinds is executed in a freshly forked child (fork is slow here: such lines are long batches of
// sub-histories with distinct name prefixes).
//
//   seq <kind> <op> <op> ...          one sequential history; one output token per op
//        r:<name>:<payload>   register            -> s<ret> | E (mju_error) | W (warning, returned -1)
//        n:<name>             lookup by name      -> f<slot>:<key>:<payload> | -
//        s:<int>              lookup by slot      -> o:<key>:<payload> | -
//        c                    count               -> <n>
//        L / U                (kinds t, c) open / close a LockExclusively() scope on this thread -> u
//                             (registrations inside it exercise the re-entrancy of ReentrantWriteLock)
//        (payload 99 makes the test type's CopyObject fail after writing its first field)
//   conc <kind> <nreaders> <names,comma-separated> <w-ops;...> <w-ops;...> ...
//        real threads (one per writer program, `nreaders` pollers), released together, with yields
//        inside the test type's CopyObject; prints the observation
//        W<k>=<tok>,<tok>..  R<k>=ns:<n,n,..>|obs:<i>:<key>:<payload>,..|keys:<name>><slot>:<key>:<payload>,..|bad:<b>|moved:<m>|nonmono:<x>
//        FINAL=<count>|<key>:<payload>,...
//        (bad = incomplete / torn objects seen below the loaded count: checksum mismatch or null)
#include <sched.h>
#include <setjmp.h>
#include <sys/wait.h>
#include <unistd.h>

#include <atomic>
#include <cstdio>
#include <cstdlib>
#include <cstring>
#include <map>
#include <set>
#include <sstream>
#include <string>
#include <string_view>
#include <thread>
#include <tuple>
#include <vector>

#include <cctype>
#include <mutex>
#include <new>
#include <type_traits>

#include <mujoco/mujoco.h>
#include <mujoco/mjplugin.h>
#include "engine/engine_util_errmem.h"
// access to GlobalTable's private constructor (fresh tables without a process per history)
#define private public
#include "engine/engine_global_table.h"
#undef private

// ------------------------------------------------------------------ test object type
static std::atomic<bool> g_yield{false};
static inline void maybe_yield() { if (g_yield.load(std::memory_order_relaxed)) sched_yield(); }

template <int Tag>
struct TObj {
  char key[20];
  int payload;
  unsigned check;
  int fill;
};

static unsigned checksum(const char* key, size_t len, int payload) {
  unsigned h = 2166136261u ^ (unsigned)payload;
  for (size_t i = 0; i < len; i++) h = (h ^ (unsigned char)key[i]) * 16777619u;
  return h | 1u;
}

namespace mujoco {
#define C40_SPECIALISE(Tag, EQ)                                                                     \
  template <> const char* GlobalTable<TObj<Tag>>::HumanReadableTypeName() { return "test object"; } \
  template <> std::string_view GlobalTable<TObj<Tag>>::ObjectKey(const TObj<Tag>& o) {             \
    return std::string_view(o.key, strnlen(o.key, sizeof(o.key)));                                  \
  }                                                                                                 \
  template <> bool GlobalTable<TObj<Tag>>::ObjectEqual(const TObj<Tag>& a, const TObj<Tag>& b) {   \
    return (EQ) && a.payload == b.payload;                                                          \
  }                                                                                                 \
  template <> bool GlobalTable<TObj<Tag>>::CopyObject(TObj<Tag>& dst, const TObj<Tag>& src,        \
                                                       ErrorMessage& err) {                         \
    dst.payload = src.payload;                                                                      \
    maybe_yield();                                                                                  \
    if (src.payload == 99) {                                                                        \
      std::snprintf(err, sizeof(err), "test object copy failed");                                   \
      return false;                                                                                 \
    }                                                                                               \
    dst.fill = src.fill;                                                                            \
    for (size_t i = sizeof(dst.key); i-- > 0;) {                                                    \
      dst.key[i] = src.key[i];                                                                      \
      if ((i & 3) == 0) maybe_yield();                                                              \
    }                                                                                               \
    maybe_yield();                                                                                  \
    dst.check = src.check;                                                                          \
    return true;                                                                                    \
  }
C40_SPECIALISE(0, std::strncmp(a.key, b.key, sizeof(a.key)) == 0)
C40_SPECIALISE(1, CaseInsensitiveEqual(ObjectKey(a), ObjectKey(b)))
}  // namespace mujoco

// ------------------------------------------------------------------ error trapping
static thread_local jmp_buf* t_jmp = nullptr;
static thread_local int t_warned = 0;
static void on_error(const char* msg) {
  if (t_jmp) longjmp(*t_jmp, 1);
  fprintf(stderr, "unexpected mju_error: %s\n", msg);
  _exit(3);
}
static void on_warning(const char*) { t_warned = 1; }

// ------------------------------------------------------------------ uniform access to the four registries
struct Rec {            // what a lookup returned (copied out of the registry)
  bool found = false;
  int slot = -1;
  std::string key;
  int payload = 0;
  bool complete = false;
};

// keys are printed in a form that is always plain ASCII without separators (a broken table may hand out garbage)
static std::string san(const std::string& k) {
  std::string out;
  for (unsigned char ch : k) {
    if (std::isalnum(ch) || ch == '+' || ch == '.' || ch == '-' || ch == '_') out.push_back((char)ch);
    else { char b[8]; std::snprintf(b, sizeof(b), "%%%02X", ch); out += b; }
  }
  return out.size() > 64 ? out.substr(0, 64) + "..." : out;
}

static int dummy_open(mjResource*) { return 0; }
static int dummy_read(mjResource*, const void**) { return -1; }
static void dummy_close(mjResource*) {}

struct Tables {   // the fresh test tables of the current line
  mujoco::GlobalTable<TObj<0>>* t0 = nullptr;
  mujoco::GlobalTable<TObj<1>>* t1 = nullptr;
  explicit Tables(char kind) {
    if (kind == 't') t0 = new mujoco::GlobalTable<TObj<0>>();
    if (kind == 'c') t1 = new mujoco::GlobalTable<TObj<1>>();
  }
  ~Tables() { delete t0; delete t1; }  // (blocks after the first are never freed by the table: leaked, tiny)
};
static Tables* g_tables = nullptr;

struct Api {
  char kind;
  explicit Api(char k) : kind(k) {}

  template <int Tag> static mujoco::GlobalTable<TObj<Tag>>& T() {
    if constexpr (Tag == 0) return *g_tables->t0; else return *g_tables->t1;
  }

  template <int Tag> static TObj<Tag> make(const std::string& name, int payload) {
    TObj<Tag> o;
    std::memset(&o, 0, sizeof(o));
    std::strncpy(o.key, name.c_str(), sizeof(o.key) - 1);
    o.payload = payload;
    o.fill = payload * 7 + 1;
    o.check = checksum(o.key, std::strlen(o.key), payload);
    return o;
  }
  template <int Tag> static Rec rec(const TObj<Tag>* o, int slot) {
    Rec r;
    if (!o) return r;
    r.found = true;
    r.slot = slot;
    size_t len = strnlen(o->key, sizeof(o->key));
    r.key = san(std::string(o->key, len));
    r.payload = o->payload;
    r.complete = len < sizeof(o->key) && o->check == checksum(o->key, len, o->payload) &&
                 o->fill == o->payload * 7 + 1;
    return r;
  }
  static Rec rec(const mjpPlugin* p, int slot) {
    Rec r;
    if (!p) return r;
    r.found = true;
    r.slot = slot;
    if (!p->name) return r;  // incomplete
    std::string raw(p->name, strnlen(p->name, 64));
    r.key = san(raw);
    r.payload = p->capabilityflags;
    r.complete = (unsigned)p->needstage == checksum(raw.data(), raw.size(), r.payload) &&
                 p->nattribute == 1 && p->attributes && p->attributes[0] &&
                 !std::strcmp(p->attributes[0], "attr");
    return r;
  }
  static Rec rec(const mjpResourceProvider* p, int slot) {
    Rec r;
    if (!p) return r;
    r.found = true;
    r.slot = slot;
    if (!p->prefix) return r;
    std::string raw(p->prefix, strnlen(p->prefix, 64));
    r.key = san(raw);
    r.payload = (int)(intptr_t)p->data;
    r.complete = p->open == dummy_open && p->read == dummy_read && p->close == dummy_close &&
                 (intptr_t)p->mount == (intptr_t)checksum(raw.data(), raw.size(), r.payload);
    return r;
  }

  // returns: >=0 value returned by the API, -1000 = mju_error, -1001 = warning + (-1)
  int reg(const std::string& name, int payload) {
    jmp_buf jb;
    t_jmp = &jb;
    t_warned = 0;
    volatile int ret = -1000;
    if (!setjmp(jb)) {
      switch (kind) {
        case 't': { auto o = make<0>(name, payload); ret = T<0>().AppendIfUnique(o); break; }
        case 'c': { auto o = make<1>(name, payload); ret = T<1>().AppendIfUnique(o); break; }
        case 'p': {
          mjpPlugin p;
          mjp_defaultPlugin(&p);
          static const char* attrs[1] = {"attr"};
          p.name = name.c_str();
          p.nattribute = 1;
          p.attributes = attrs;
          p.capabilityflags = payload;
          p.needstage = (int)checksum(name.data(), name.size(), payload);
          ret = mjp_registerPlugin(&p);
          break;
        }
        case 'v': {
          mjpResourceProvider p;
          mjp_defaultResourceProvider(&p);
          p.prefix = name.c_str();
          p.open = dummy_open;
          p.read = dummy_read;
          p.close = dummy_close;
          p.mount = (mjfMountResource)(intptr_t)checksum(name.data(), name.size(), payload);
          p.data = (void*)(intptr_t)payload;
          ret = mjp_registerResourceProvider(&p);
          if (ret == -1 && t_warned) ret = -1001;
          break;
        }
      }
    }
    t_jmp = nullptr;
    return ret;
  }
  int count() {
    switch (kind) {
      case 't': return T<0>().count();
      case 'c': return T<1>().count();
      case 'p': return mjp_pluginCount();
      default: return mjp_resourceProviderCount();
    }
  }
  Rec at(int slot) {
    switch (kind) {
      case 't': return rec(T<0>().GetAtSlot(slot), slot);
      case 'c': return rec(T<1>().GetAtSlot(slot), slot);
      case 'p': return rec(mjp_getPluginAtSlot(slot), slot);
      default: return rec(mjp_getResourceProviderAtSlot(slot), slot);
    }
  }
  Rec byname(const std::string& name) {
    int slot = -1;
    switch (kind) {
      case 't': { auto* o = T<0>().GetByKey(name, &slot); return rec(o, slot); }
      case 'c': { auto* o = T<1>().GetByKey(name, &slot); return rec(o, slot); }
      case 'p': { auto* o = mjp_getPlugin(name.c_str(), &slot); return rec(o, slot); }
      default: {
        std::string res = name + ":x";
        const mjpResourceProvider* o = mjp_getResourceProvider(res.c_str());
        if (o) {
          // the API reports no slot: derive it (1-based) by pointer identity through the by-slot API
          int n = mjp_resourceProviderCount();
          for (int i = 1; i <= n; i++) if (mjp_getResourceProviderAtSlot(i) == o) { slot = i; break; }
        }
        return rec(o, slot);
      }
    }
  }
};

static std::vector<std::string> split(const std::string& s, char sep) {
  std::vector<std::string> out;
  std::string cur;
  for (char ch : s) {
    if (ch == sep) { out.push_back(cur); cur.clear(); } else cur.push_back(ch);
  }
  out.push_back(cur);
  return out;
}
static bool parse_int(const std::string& s, int* v) {
  if (s.empty()) return false;
  char* end = nullptr;
  long x = std::strtol(s.c_str(), &end, 10);
  if (*end) return false;
  *v = (int)x;
  return true;
}
static bool parse_reg(const std::string& tok, std::string* name, int* payload) {
  auto f = split(tok, ':');
  if (f.size() != 3 || f[0] != "r" || !parse_int(f[2], payload) || *payload < 0) return false;
  if (f[1].size() > 15) return false;
  *name = f[1];
  return true;
}
static std::string regtok(int ret) {
  if (ret == -1000) return "E";
  if (ret == -1001) return "W";
  return "s" + std::to_string(ret);
}

// ------------------------------------------------------------------ sequential histories
static bool run_seq(std::vector<std::string>& w, std::string* out) {
  if (w.size() < 2 || w[1].size() != 1 || !std::strchr("tcpv", w[1][0])) return false;
  Api api(w[1][0]);
  std::ostringstream os;
  std::vector<mujoco::ReentrantWriteLock*> locks;   // open LockExclusively() scopes (closed in reverse order)
  struct Closer {
    std::vector<mujoco::ReentrantWriteLock*>& l;
    ~Closer() { while (!l.empty()) { delete l.back(); l.pop_back(); } }
  } closer{locks};
  for (size_t i = 2; i < w.size(); i++) {
    const std::string& tok = w[i];
    if (i > 2) os << ' ';
    std::string name;
    int v;
    if (tok == "c") {
      os << api.count();
    } else if (tok == "L" || tok == "U") {
      if (api.kind != 't' && api.kind != 'c') return false;
      if (tok == "L") {
        // same expression as GlobalTable::LockExclusively(): ReentrantWriteLock(mutex())
        locks.push_back(api.kind == 't' ? new mujoco::ReentrantWriteLock(Api::T<0>().mutex())
                                        : new mujoco::ReentrantWriteLock(Api::T<1>().mutex()));
      } else if (!locks.empty()) {
        delete locks.back();
        locks.pop_back();
      }
      os << 'u';
    } else if (tok.rfind("r:", 0) == 0) {
      if (!parse_reg(tok, &name, &v)) return false;
      os << regtok(api.reg(name, v));
    } else if (tok.rfind("n:", 0) == 0) {
      auto f = split(tok, ':');
      if (f.size() != 2) return false;
      Rec r = api.byname(f[1]);
      if (!r.found) os << '-';
      else os << 'f' << r.slot << ':' << r.key << ':' << r.payload << (r.complete ? "" : ":TORN");
    } else if (tok.rfind("s:", 0) == 0) {
      auto f = split(tok, ':');
      if (f.size() != 2 || !parse_int(f[1], &v)) return false;
      Rec r = api.at(v);
      if (!r.found) os << '-';
      else os << "o:" << r.key << ':' << r.payload << (r.complete ? "" : ":TORN");
    } else {
      return false;
    }
  }
  *out = os.str();
  return true;
}

// ------------------------------------------------------------------ concurrent scenarios
struct ReaderLog {
  std::vector<int> ns;
  std::set<std::tuple<int, std::string, int>> obs;
  std::set<std::tuple<std::string, int, std::string, int>> keys;  // slot -1: not found
  long bad = 0, moved = 0, nonmono = 0, polls = 0;
};

static bool run_conc(std::vector<std::string>& w, std::string* out) {
  int nreaders;
  if (w.size() < 5 || w[1].size() != 1 || !std::strchr("tcpv", w[1][0]) || !parse_int(w[2], &nreaders) ||
      nreaders < 0 || nreaders > 8) return false;
  char kind = w[1][0];
  int base = kind == 'v' ? 1 : 0;  // resource provider slots are 1-based
  std::vector<std::string> names = split(w[3], ',');
  std::vector<std::vector<std::pair<std::string, int>>> progs;
  for (size_t i = 4; i < w.size(); i++) {
    std::vector<std::pair<std::string, int>> p;
    for (auto& tok : split(w[i], ';')) {
      std::string name;
      int v;
      if (!parse_reg(tok, &name, &v)) return false;
      p.emplace_back(name, v);
    }
    progs.push_back(p);
  }
  if (progs.size() > 8) return false;
  g_yield = true;
  std::atomic<int> ready{0};
  std::atomic<bool> go{false};
  std::atomic<int> writers_left{(int)progs.size()};
  std::vector<std::vector<int>> wres(progs.size());
  std::vector<ReaderLog> rlog(nreaders);
  std::vector<std::thread> th;
  for (size_t k = 0; k < progs.size(); k++) {
    th.emplace_back([&, k] {
      Api api(kind);
      ready++;
      while (!go.load(std::memory_order_acquire)) {}
      for (auto& op : progs[k]) {
        wres[k].push_back(api.reg(op.first, op.second));
        if ((wres[k].size() & 1) == 0) sched_yield();
      }
      writers_left--;
    });
  }
  for (int k = 0; k < nreaders; k++) {
    th.emplace_back([&, k] {
      Api api(kind);
      ReaderLog& L = rlog[k];
      std::map<int, std::pair<std::string, int>> cache;
      ready++;
      while (!go.load(std::memory_order_acquire)) {}
      int last = -1;
      bool final_poll = false;
      for (;;) {
        bool done = writers_left.load(std::memory_order_acquire) == 0;
        int n = api.count();
        L.polls++;
        if (n < last) L.nonmono++;
        if (L.ns.empty() || L.ns.back() != n) L.ns.push_back(n);
        last = n;
        for (int i = 0; i < n; i++) {
          Rec r = api.at(i + base);
          if (!r.found || !r.complete) { L.bad++; continue; }
          auto it = cache.find(i);
          if (it == cache.end()) {
            cache[i] = {r.key, r.payload};
            L.obs.insert({i + base, r.key, r.payload});
          } else if (it->second.first != r.key || it->second.second != r.payload) {
            L.moved++;
            L.obs.insert({i + base, r.key, r.payload});
          }
        }
        for (auto& nm : names) {
          Rec r = api.byname(nm);
          if (r.found && !r.complete) { L.bad++; continue; }
          if (r.found) L.keys.insert({nm, r.slot, r.key, r.payload});
          else L.keys.insert({nm, -1, "", 0});
        }
        if (final_poll) break;
        if (done) final_poll = true;
      }
    });
  }
  while (ready.load() < (int)th.size()) {}
  go.store(true, std::memory_order_release);
  for (auto& t : th) t.join();
  std::ostringstream os;
  for (size_t k = 0; k < progs.size(); k++) {
    os << (k ? " " : "") << 'W' << k << '=';
    for (size_t i = 0; i < wres[k].size(); i++) os << (i ? "," : "") << regtok(wres[k][i]);
  }
  for (int k = 0; k < nreaders; k++) {
    ReaderLog& L = rlog[k];
    os << " R" << k << "=ns:";
    for (size_t i = 0; i < L.ns.size(); i++) os << (i ? "," : "") << L.ns[i];
    os << "|obs:";
    bool first = true;
    for (auto& o : L.obs) {
      os << (first ? "" : ",") << std::get<0>(o) << ':' << std::get<1>(o) << ':' << std::get<2>(o);
      first = false;
    }
    os << "|keys:";
    first = true;
    for (auto& o : L.keys) {
      os << (first ? "" : ",") << std::get<0>(o) << '>';
      if (std::get<1>(o) < 0 && std::get<2>(o).empty()) os << '-';
      else os << std::get<1>(o) << ':' << std::get<2>(o) << ':' << std::get<3>(o);
      first = false;
    }
    os << "|bad:" << L.bad << "|moved:" << L.moved << "|nonmono:" << L.nonmono << "|polls:" << L.polls;
  }
  Api api(kind);
  int n = api.count();
  os << " FINAL=" << n << '|';
  for (int i = 0; i < n; i++) {
    Rec r = api.at(i + base);
    os << (i ? "," : "");
    if (!r.found) os << "NULL";
    else os << r.key << ':' << r.payload << (r.complete ? "" : ":TORN");
  }
  *out = os.str();
  return true;
}

int main() {
  mju_user_error = on_error;
  mju_user_warning = on_warning;
  std::string line;
  char* buf = nullptr;
  size_t cap = 0;
  ssize_t len;
  while ((len = getline(&buf, &cap, stdin)) >= 0) {
    line.assign(buf, len);
    while (!line.empty() && (line.back() == '\n' || line.back() == '\r')) line.pop_back();
    std::vector<std::string> w;
    {
      std::istringstream is(line);
      std::string t;
      while (is >> t) w.push_back(t);
    }
    auto execute = [&]() {
      std::string out;
      bool ok = false;
      char kind = w.size() > 1 && w[1].size() == 1 ? w[1][0] : '?';
      Tables tables(kind);
      g_tables = &tables;
      g_yield = false;
      if (!w.empty() && w[0] == "seq") ok = run_seq(w, &out);
      else if (!w.empty() && w[0] == "conc") ok = run_conc(w, &out);
      g_tables = nullptr;
      if (!ok) out = "bad-op";
      printf("%s\n", out.c_str());
    };
    bool global_registry = w.size() > 1 && (w[1] == "p" || w[1] == "v");
    if (!global_registry) {
      execute();
      continue;
    }
    fflush(stdout);
    pid_t pid = fork();
    if (pid < 0) { perror("fork"); return 2; }
    if (pid == 0) {
      execute();
      fflush(stdout);
      _exit(0);
    }
    int status = 0;
    waitpid(pid, &status, 0);
    if (!WIFEXITED(status) || WEXITSTATUS(status) != 0) {
      printf("crash:%d\n", WIFSIGNALED(status) ? WTERMSIG(status) : -WEXITSTATUS(status));
    }
  }
  fflush(stdout);
  return 0;
}
