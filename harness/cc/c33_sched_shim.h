// C33 interposition header: controlled-scheduler replacements of std::mutex / std::unique_lock / std::lock_guard /
// std::condition_variable / std::thread for the UNMODIFIED src/user/user_threadpool.{h,cc}.
//
// The harness translation unit includes the real standard headers first, then this header, then
//     #define std c33std
//     #include "user/user_threadpool.cc"          // the file of the tree (it includes user_threadpool.h)
//     #undef std
// so that `std::mutex`, `std::unique_lock<std::mutex>`, `std::lock_guard<std::mutex>`, `std::condition_variable`
// and `std::thread` written in those files resolve to the classes below, while every other `std::` name (function,
// queue, vector, move, uint64_t …) still resolves to the real standard library (using-directive in c33std).
//
// Modes
//   CTRL  exactly one controlled thread runs at a time.  Scheduling points: a lock request, the wake-up from a
//         condition-variable wait (which must re-acquire the mutex), thread::join, and c33::yield_point() (called by the
//         harness at the start of a task body).  A thread granted a step runs until its next scheduling point, i.e.
//         through one whole critical section.  Condition variables are simulated: wait releases the mutex and blocks the
//         thread until a notify selects it (notify_one: the worker named by the schedule token if it is blocked on that
//         condition variable, else the blocked thread with the least id; notify_all: all) or a spurious wake-up token.
//   FREE  real std::mutex / std::condition_variable_any / std::thread; a seeded per-thread generator injects yields and
//         short sleeps before every operation.
#ifndef VERIF_C33_SCHED_SHIM_H_
#define VERIF_C33_SCHED_SHIM_H_

#include <atomic>
#include <chrono>
#include <condition_variable>
#include <cstdint>
#include <cstdio>
#include <cstdlib>
#include <functional>
#include <mutex>
#include <queue>
#include <string>
#include <thread>
#include <utility>
#include <vector>

namespace c33 {

enum Mode { CTRL = 1, FREE = 2 };

class mutex;
class condition_variable;

struct ThreadRec {
  enum St { RUNNING, WANT_LOCK, CV_BLOCKED, WANT_JOIN, YIELD, DONE };
  int id = -1;
  St st = RUNNING;
  bool started = false;            // has reached its first scheduling point (or finished)
  mutex* want = nullptr;           // WANT_LOCK: the mutex; CV_BLOCKED: the mutex to re-acquire
  condition_variable* cv = nullptr;
  int join_target = -1;
  ::std::thread os;
};

struct Global {
  int mode = CTRL;
  ::std::mutex mu;                 // protects everything below (real mutex)
  ::std::condition_variable cvar;  // hand-off
  int active = -2;                 // id of the controlled thread allowed to run; -1: controller; -2: not started
  ::std::vector<ThreadRec*> th;    // by id
  ::std::vector<::std::string> log;
  int pick = -1;                   // choice for notify_one during the current step
  int ncv = 0;                     // condition variables are numbered in construction order
  unsigned seed = 0;               // FREE
};
inline Global& G() { static Global g; return g; }
inline thread_local ThreadRec* self = nullptr;
inline thread_local unsigned free_rng = 0;

inline void logf(const char* fmt, int a, int b = 0, int c = 0) {
  char buf[64]; ::std::snprintf(buf, sizeof buf, fmt, a, b, c); G().log.emplace_back(buf);
}

inline void free_jitter() {
  unsigned& r = free_rng;
  r = r * 1103515245u + 12345u;
  unsigned k = (r >> 16) & 15;
  if (k < 6) ::std::this_thread::yield();
  else if (k < 8) ::std::this_thread::sleep_for(::std::chrono::microseconds(1 + ((r >> 20) & 63)));
}

// ---- CTRL hand-off: called with G().mu NOT held by the caller
inline void park(ThreadRec::St st) {
  Global& g = G();
  ::std::unique_lock<::std::mutex> lk(g.mu);
  self->st = st;
  if (!self->started) {
    // first scheduling point of a freshly created thread: the creator (still the active thread) waits for this
    self->started = true;
  } else {
    g.active = -1;
  }
  g.cvar.notify_all();
  g.cvar.wait(lk, [&] { return g.active == self->id; });
  self->st = ThreadRec::RUNNING;
}

class mutex {
 public:
  mutex() = default;
  mutex(const mutex&) = delete;
  void lock() {
    if (G().mode == FREE) { free_jitter(); real_.lock(); return; }
    self->want = this;
    park(ThreadRec::WANT_LOCK);     // granted only when owner == -1
    owner = self->id;
    logf("L%d", self->id);
  }
  void unlock() {
    if (G().mode == FREE) { real_.unlock(); return; }
    owner = -1;
    logf("U%d", self->id);
  }
  int owner = -1;
  ::std::mutex real_;
};

template <class M>
class unique_lock {
 public:
  explicit unique_lock(M& m) : m_(&m), owns_(true) { m_->lock(); }
  ~unique_lock() { if (owns_) m_->unlock(); }
  unique_lock(const unique_lock&) = delete;
  M* mutex() const { return m_; }
  void lock() { m_->lock(); owns_ = true; }
  void unlock() { m_->unlock(); owns_ = false; }
  M* m_;
  bool owns_;
};

template <class M>
class lock_guard {
 public:
  explicit lock_guard(M& m) : m_(m) { m_.lock(); }
  ~lock_guard() { m_.unlock(); }
  lock_guard(const lock_guard&) = delete;
  M& m_;
};

class condition_variable {
 public:
  condition_variable() { id = G().ncv++; }
  condition_variable(const condition_variable&) = delete;

  template <class Pred>
  void wait(unique_lock<c33::mutex>& lk, Pred pred) {
    if (G().mode == FREE) {
      free_jitter();
      ::std::unique_lock<::std::mutex> rl(lk.m_->real_, ::std::adopt_lock);
      real_.wait(rl, pred);
      rl.release();
      return;
    }
    while (!pred()) {
      logf("B%d.%d", self->id, id);
      lk.m_->owner = -1;             // atomically release the mutex and block
      self->want = lk.m_;
      self->cv = this;
      park(ThreadRec::CV_BLOCKED);   // the controller turns CV_BLOCKED into WANT_LOCK on notify, then grants
      lk.m_->owner = self->id;
      logf("L%d", self->id);
    }
    logf("P%d.%d", self->id, id);
  }

  void notify_one() {
    if (G().mode == FREE) { free_jitter(); real_.notify_one(); return; }
    Global& g = G();
    ::std::unique_lock<::std::mutex> lk(g.mu);
    int chosen = -1;
    if (g.pick >= 0 && g.pick < (int)g.th.size() && g.th[g.pick]->st == ThreadRec::CV_BLOCKED && g.th[g.pick]->cv == this)
      chosen = g.pick;
    else
      for (ThreadRec* t : g.th) if (t->st == ThreadRec::CV_BLOCKED && t->cv == this) { chosen = t->id; break; }
    if (chosen >= 0) { g.th[chosen]->st = ThreadRec::WANT_LOCK; g.th[chosen]->cv = nullptr; }
    char buf[64];
    if (chosen >= 0) ::std::snprintf(buf, sizeof buf, "N%d.%d>%d", self->id, id, chosen);
    else ::std::snprintf(buf, sizeof buf, "N%d.%d>-", self->id, id);
    g.log.emplace_back(buf);
  }

  void notify_all() {
    if (G().mode == FREE) { free_jitter(); real_.notify_all(); return; }
    Global& g = G();
    ::std::unique_lock<::std::mutex> lk(g.mu);
    int n = 0;
    for (ThreadRec* t : g.th) if (t->st == ThreadRec::CV_BLOCKED && t->cv == this) { t->st = ThreadRec::WANT_LOCK; t->cv = nullptr; n++; }
    logf("A%d.%d:%d", self->id, id, n);
  }

  int id = 0;
  ::std::condition_variable real_;
};

// scheduling point at the start of a task body (CTRL); jitter in FREE
inline void yield_point() {
  if (G().mode == FREE) { free_jitter(); return; }
  park(ThreadRec::YIELD);
}

class thread {
 public:
  thread() = default;
  thread(thread&& o) noexcept : rec_(o.rec_) { o.rec_ = nullptr; }
  thread& operator=(thread&& o) noexcept { rec_ = o.rec_; o.rec_ = nullptr; return *this; }
  thread(const thread&) = delete;

  template <class F, class... A>
  explicit thread(F&& f, A&&... a) {
    Global& g = G();
    auto fn = ::std::bind(::std::forward<F>(f), ::std::forward<A>(a)...);
    rec_ = new ThreadRec();
    {
      ::std::unique_lock<::std::mutex> lk(g.mu);
      rec_->id = (int)g.th.size();
      g.th.push_back(rec_);
    }
    ThreadRec* rec = rec_;
    unsigned seed = g.seed * 2654435761u + 97u * (unsigned)rec->id;
    rec_->os = ::std::thread([rec, fn, seed]() mutable {
      self = rec;
      free_rng = seed;
      fn();
      Global& g = G();
      if (g.mode == FREE) return;
      ::std::unique_lock<::std::mutex> lk(g.mu);
      if (rec->id != 0) { char buf[32]; ::std::snprintf(buf, sizeof buf, "E%d", rec->id); g.log.emplace_back(buf); }
      rec->st = ThreadRec::DONE;
      if (rec->started) g.active = -1;
      rec->started = true;
      g.cvar.notify_all();
    });
    if (g.mode == CTRL) {
      // wait until the child has reached its first scheduling point (it logs nothing before)
      ::std::unique_lock<::std::mutex> lk(g.mu);
      g.cvar.wait(lk, [&] { return rec->started; });
    }
  }

  bool joinable() const { return rec_ != nullptr; }

  void join() {
    if (G().mode == FREE) { free_jitter(); rec_->os.join(); return; }
    self->join_target = rec_->id;
    park(ThreadRec::WANT_JOIN);      // granted only when the target is DONE
    logf("J%d", rec_->id - 1);
    rec_->os.join();
  }

  ~thread() {}
  ThreadRec* rec_ = nullptr;
};

// ---- controller side (CTRL): called from the harness main thread
inline bool is_enabled(ThreadRec* t) {
  switch (t->st) {
    case ThreadRec::WANT_LOCK: return t->want->owner == -1;
    case ThreadRec::WANT_JOIN: return G().th[t->join_target]->st == ThreadRec::DONE;
    case ThreadRec::YIELD: return true;
    default: return false;
  }
}

// grant one step to thread `tid` (with notify_one choice `pick`); returns false (and logs D) if it is not enabled
inline bool grant(int tid, int pick) {
  Global& g = G();
  ::std::unique_lock<::std::mutex> lk(g.mu);
  if (tid < 0 || tid >= (int)g.th.size() || !is_enabled(g.th[tid])) {
    char buf[32]; ::std::snprintf(buf, sizeof buf, "D%d", tid); g.log.emplace_back(buf);
    return false;
  }
  g.pick = pick;
  g.active = tid;
  g.cvar.notify_all();
  g.cvar.wait(lk, [&] { return g.active == -1; });
  g.pick = -1;
  return true;
}

inline bool enabled_tid(int tid) {
  Global& g = G();
  ::std::unique_lock<::std::mutex> lk(g.mu);
  return tid >= 0 && tid < (int)g.th.size() && is_enabled(g.th[tid]);
}

inline bool spurious(int tid) {
  Global& g = G();
  ::std::unique_lock<::std::mutex> lk(g.mu);
  char buf[32];
  if (tid >= 0 && tid < (int)g.th.size() && g.th[tid]->st == ThreadRec::CV_BLOCKED) {
    g.th[tid]->st = ThreadRec::WANT_LOCK; g.th[tid]->cv = nullptr;
    ::std::snprintf(buf, sizeof buf, "S%d", tid); g.log.emplace_back(buf);
    return true;
  }
  ::std::snprintf(buf, sizeof buf, "D%d", tid); g.log.emplace_back(buf);
  return false;
}

inline bool thread_done(int tid) {
  Global& g = G();
  ::std::unique_lock<::std::mutex> lk(g.mu);
  return tid < (int)g.th.size() && g.th[tid]->st == ThreadRec::DONE;
}

}  // namespace c33

namespace c33std {
using namespace ::std;
using mutex = ::c33::mutex;
template <class M>
using unique_lock = ::c33::unique_lock<M>;
template <class M>
using lock_guard = ::c33::lock_guard<M>;
using condition_variable = ::c33::condition_variable;
using thread = ::c33::thread;
}  // namespace c33std

#endif  // VERIF_C33_SCHED_SHIM_H_
