// C33 implementation-side driver: replays schedules on the UNMODIFIED src/user/user_threadpool.{h,cc} of the tree.
// Same line protocol as lean/Drivers/C33.lean:
//   run <N> <T> | tok ...     controlled replay (see the driver); output: event trace, ` # ctr=.. exec=.. by=.. done=..`
//   free <seed> <N> <T>       real threads with seeded random yields before every mutex / condition-variable operation;
//                             output `ok ctr>=T exec=all1` or a description of what went wrong
// The scheduler state is reset for every op line; after a run that ends in DEADLOCK (threads parked forever) the process
// re-executes itself and continues with the next line; a line that hangs for 20 s ends the process with `TIMEOUT`.
#include <atomic>
#include <chrono>
#include <condition_variable>
#include <csignal>
#include <cstdint>
#include <cstdio>
#include <cstdlib>
#include <cstring>
#include <functional>
#include <iostream>
#include <mutex>
#include <queue>
#include <sstream>
#include <string>
#include <thread>
#include <utility>
#include <vector>
#include <unistd.h>

#include "cc/c33_sched_shim.h"

// ---- the real code, compiled against the shim ------------------------------------------------------------
#define private public
#define std c33std
#include "user/user_threadpool.cc"
#undef std
#undef private
// -----------------------------------------------------------------------------------------------------------

namespace {

using mujoco::user::ThreadPool;

struct Tok { int kind; int tid; int pick; };   // kind 0: step, 1: spurious

bool parse_uint(const std::string& s, int* v) {
  if (s.empty() || s.size() > 6) return false;
  for (char c : s) if (c < '0' || c > '9') return false;
  *v = atoi(s.c_str());
  return true;
}

bool parse_tok(const std::string& w, Tok* t) {
  if (!w.empty() && w[0] == 's') { t->kind = 1; t->pick = -1; return parse_uint(w.substr(1), &t->tid); }
  t->kind = 0; t->pick = -1;
  size_t p = w.find('>');
  if (p == std::string::npos) return parse_uint(w, &t->tid);
  if (w.find('>', p + 1) != std::string::npos) return false;
  return parse_uint(w.substr(0, p), &t->tid) && parse_uint(w.substr(p + 1), &t->pick);
}

std::vector<int> exec_cnt, exec_by;
std::mutex rec_mu;
long ctr_at_return = -1;

std::string run_ctrl(int N, int T, const std::vector<Tok>& toks) {
  c33::Global& g = c33::G();
  g.mode = c33::CTRL;
  g.th.clear(); g.log.clear(); g.ncv = 0; g.active = -2; g.pick = -1;
  ctr_at_return = -1;
  exec_cnt.assign(T, 0);
  exec_by.assign(T, 0);
  auto main_fn = [N, T]() {
    ThreadPool pool(N);
    for (int t = 0; t < T; t++) {
      pool.Schedule([t]() {
        c33::yield_point();
        c33::logf("X%d.%d", c33::self->id, t);
        exec_cnt[t]++;
        exec_by[t] = ThreadPool::WorkerId() + 1;
      });
    }
    pool.WaitCount(T);
    ctr_at_return = (long)pool.ctr_;
  };
  c33::thread mainT(main_fn);      // thread id 0; returns when it is parked at its first scheduling point
  for (const Tok& t : toks) {
    if (t.kind == 1) c33::spurious(t.tid);
    else c33::grant(t.tid, t.pick);
  }
  // round-robin completion
  bool done = c33::thread_done(0);
  for (int round = 0; round < 4096 && !done; round++) {
    bool progress = false;
    for (int tid = 0; tid <= N && !done; tid++) {
      if (c33::enabled_tid(tid)) { c33::grant(tid, -1); progress = true; done = c33::thread_done(0); }
    }
    if (!progress) break;
  }
  if (done) mainT.rec_->os.join();
  std::ostringstream o;
  {
    std::unique_lock<std::mutex> lk(g.mu);
    for (size_t i = 0; i < g.log.size(); i++) { if (i) o << " "; o << g.log[i]; }
  }
  if (!done) o << " DEADLOCK";
  o << " # ctr=";
  if (ctr_at_return >= 0) o << ctr_at_return; else o << "-";
  o << " exec=";
  for (int t = 0; t < T; t++) { if (t) o << ","; o << exec_cnt[t]; }
  o << " by=";
  for (int t = 0; t < T; t++) { if (t) o << ","; o << exec_by[t]; }
  o << " done=" << (done ? 1 : 0);
  return o.str();
}

std::string run_free(unsigned seed, int N, int T) {
  c33::Global& g = c33::G();
  g.mode = c33::FREE;
  g.th.clear(); g.log.clear(); g.ncv = 0;
  g.seed = seed;
  c33::free_rng = seed * 747796405u + 1u;
  std::vector<std::atomic<int>> cnt(T);
  for (auto& c : cnt) c = 0;
  std::atomic<int> badworker{0};
  uint64_t ctr = 0;
  {
    ThreadPool pool(N);
    for (int t = 0; t < T; t++) {
      pool.Schedule([t, N, &cnt, &badworker]() {
        c33::yield_point();
        cnt[t]++;
        int w = ThreadPool::WorkerId();
        if (w < 0 || w >= N) badworker++;
      });
    }
    pool.WaitCount(T);
    ctr = pool.GetCount();
    // every task must have run by now
    for (int t = 0; t < T; t++) if (cnt[t] != 1) {
      std::ostringstream o; o << "task " << t << " ran " << cnt[t] << " times when WaitCount returned (ctr=" << ctr << ")"; return o.str();
    }
  }
  if (ctr < (uint64_t)T) return "ctr below T after WaitCount";
  for (int t = 0; t < T; t++) if (cnt[t] != 1) return "task count changed after WaitCount";
  if (badworker) return "WorkerId out of range";
  return "ok ctr>=T exec=all1";
}

std::string handle(const std::string& line) {
  std::istringstream in(line);
  std::vector<std::string> w;
  for (std::string s; in >> s;) w.push_back(s);
  if (w.size() >= 4 && w[0] == "run" && w[3] == "|") {
    int N, T;
    if (!parse_uint(w[1], &N) || !parse_uint(w[2], &T) || N < 1 || N > 8 || T > 16 || w.size() - 4 > 4000) return "bad-op";
    std::vector<Tok> toks;
    for (size_t i = 4; i < w.size(); i++) { Tok t; if (!parse_tok(w[i], &t)) return "bad-op"; toks.push_back(t); }
    return run_ctrl(N, T, toks);
  }
  if (w.size() == 4 && w[0] == "free") {
    int seed, N, T;
    if (!parse_uint(w[1], &seed) || !parse_uint(w[2], &N) || !parse_uint(w[3], &T) || N < 1 || N > 8 || T > 64) return "bad-op";
    return run_free((unsigned)seed, N, T);
  }
  return "bad-op";
}

}  // namespace

bool read_line(std::string* line) {
  // unbuffered: after a re-exec the new process image continues exactly at the next line
  line->clear();
  char c;
  for (;;) {
    ssize_t k = read(0, &c, 1);
    if (k <= 0) return !line->empty();
    if (c == '\n') return true;
    line->push_back(c);
  }
}

void on_alarm(int) {
  const char msg[] = "TIMEOUT\n";
  ssize_t k = write(1, msg, sizeof msg - 1); (void)k;
  _exit(3);
}

int main(int argc, char** argv) {
  signal(SIGALRM, on_alarm);
  std::string line;
  while (read_line(&line)) {
    alarm(20);
    std::string out = handle(line);
    alarm(0);
    fputs(out.c_str(), stdout);
    fputc('\n', stdout);
    fflush(stdout);
    if (out.find(" DEADLOCK") != std::string::npos) {
      // controlled threads are parked forever: continue in a fresh process image on the same stdin / stdout
      execv("/proc/self/exe", argv);
      _exit(4);
    }
  }
  return 0;
}
