// C03 implementation-side driver: replays schedules on the UNMODIFIED src/engine/engine_thread.cc.
//
// Line protocol (one op per line in, one line out):
//   run <hist> | <sched>     controlled replay.  <hist> = comma separated API calls of the dispatching thread:
//                            pK = mju_threadpool(d, K), dN = mju_dispatch(m, d, task, arg, N); must leave no
//                            pool alive at the end.  <sched> = comma separated thread ids (0 = dispatcher,
//                            1.. = workers of the live pool), one granted step each; a disabled thread gives
//                            the event `t:blocked`.  After the explicit schedule the run is completed
//                            round-robin over the ids 0..maxK (disabled threads skipped silently).
//                            Output: the event trace, then " # " and the memory orders observed.
//   free <seed> <hist>       real threads with seeded random yields before every atomic operation; output
//                            per API call: pK:<numThread>  /  dN:<all1|c0,c1,..>:<tids ok|bad>:<late>
//   anything else            bad-op
#include <atomic>
#include <chrono>
#include <condition_variable>
#include <csignal>
#include <cstdint>
#include <cstdio>
#include <cstdlib>
#include <cstring>
#include <functional>
#include <iostream>
#include <mutex>
#include <sstream>
#include <string>
#include <thread>
#include <vector>
#include <unistd.h>

#include <mujoco/mjdata.h>
#include <mujoco/mjmacro.h>
#include <mujoco/mjmodel.h>
#include <mujoco/mujoco.h>
#include "engine/engine_memory.h"
#include "engine/engine_thread.h"

#include "cc/c03_sched_shim.h"

// ---- the real code, compiled against the shim ------------------------------------------------------------
#define std c03std
#include "engine/engine_thread.cc"
#undef std
// -----------------------------------------------------------------------------------------------------------

namespace {

struct Op {
  char kind;  // 'p' or 'd'
  int arg;
};

struct ExecRec {
  int thread_arg, task, late;
};

struct RunLog {
  std::mutex mu;
  std::vector<ExecRec> recs;
  std::atomic<int> inflight{0};
};

void task(const mjModel*, mjData*, void* arg, int thread_id, int task_id) {
  RunLog* L = static_cast<RunLog*>(arg);
  c03::task_point(thread_id, task_id);
  int late = L->inflight.load() ? 0 : 1;
  std::lock_guard<std::mutex> lk(L->mu);
  L->recs.push_back({thread_id, task_id, late});
}

bool parse_int(const std::string& s, int lo, int hi, int* out) {
  if (s.empty() || s.size() > 7) return false;
  for (char c : s) if (c < '0' || c > '9') return false;
  long v = atol(s.c_str());
  if (v < lo || v > hi) return false;
  *out = (int)v;
  return true;
}

std::vector<std::string> split(const std::string& s, char sep) {
  std::vector<std::string> out;
  std::string cur;
  for (char c : s) {
    if (c == sep) { out.push_back(cur); cur.clear(); } else cur.push_back(c);
  }
  out.push_back(cur);
  return out;
}

std::string trim(const std::string& s) {
  size_t a = 0, b = s.size();
  while (a < b && (s[a] == ' ' || s[a] == '\t' || s[a] == '\r' || s[a] == '\n')) a++;
  while (b > a && (s[b - 1] == ' ' || s[b - 1] == '\t' || s[b - 1] == '\r' || s[b - 1] == '\n')) b--;
  return s.substr(a, b - a);
}

constexpr int kMaxPool = 16, kMaxTask = 1000, kMaxHist = 64, kMaxSched = 100000;

// history: every pool size <= kMaxPool, every n <= kMaxTask, no pool alive at the end
bool parse_hist(const std::string& s, std::vector<Op>* out, int* maxk) {
  out->clear();
  *maxk = 0;
  std::string t = trim(s);
  if (t.empty()) return true;
  int alive = 0;
  for (const std::string& w0 : split(t, ',')) {
    std::string w = trim(w0);
    if (w.size() < 2 || (w[0] != 'p' && w[0] != 'd')) return false;
    int v;
    if (!parse_int(w.substr(1), 0, w[0] == 'p' ? kMaxPool : kMaxTask, &v)) return false;
    out->push_back({w[0], v});
    if (w[0] == 'p') { alive = v; if (v > *maxk) *maxk = v; }
  }
  return alive == 0 && (int)out->size() <= kMaxHist;
}

bool parse_sched(const std::string& s, std::vector<int>* out) {
  out->clear();
  std::string t = trim(s);
  if (t.empty()) return true;
  for (const std::string& w0 : split(t, ',')) {
    int v;
    if (!parse_int(trim(w0), 0, kMaxPool, &v)) return false;
    out->push_back(v);
  }
  return (int)out->size() <= kMaxSched;
}

std::string orders_summary() {
  c03::Global& g = c03::G();
  std::lock_guard<std::mutex> lk(g.omu);
  std::string r;
  for (auto& t : g.orders) {
    if (!r.empty()) r += ",";
    r += std::get<0>(t) + "." + std::get<1>(t) + "=" + std::get<2>(t);
  }
  g.orders.clear();
  return r;
}

mjModel* g_model = nullptr;

// the dispatching thread's program
void run_history(const std::vector<Op>& hist, mjData* d, RunLog* L, std::vector<std::string>* freeout) {
  for (const Op& op : hist) {
    if (op.kind == 'p') {
      c03::call_point("p", std::to_string(op.arg));
      c03::G().atomic_ctor_counter = 0;
      c03::G().free_next_id.store(1);
      mju_threadpool(d, op.arg);
      int nt = mju_numThread(d);
      c03::ret_event("p", std::to_string(nt));
      if (freeout) freeout->push_back("p" + std::to_string(op.arg) + ":" + std::to_string(nt));
    } else {
      c03::call_point("d", std::to_string(op.arg));
      size_t before;
      {
        std::lock_guard<std::mutex> lk(L->mu);
        before = L->recs.size();
      }
      int nthread = mju_numThread(d);
      L->inflight.store(1);
      mju_dispatch(g_model, d, task, L, op.arg);
      L->inflight.store(0);
      c03::ret_event("d", std::to_string(op.arg));
      if (freeout) {
        std::lock_guard<std::mutex> lk(L->mu);
        std::vector<int> cnt(op.arg > 0 ? op.arg : 0, 0);
        bool tids = true;
        int late = 0, stray = 0;
        for (size_t i = before; i < L->recs.size(); i++) {
          const ExecRec& r = L->recs[i];
          if (r.task < 0 || r.task >= op.arg) stray++; else cnt[r.task]++;
          if (r.thread_arg < 0 || r.thread_arg >= nthread) tids = false;
          late += r.late;
        }
        bool all1 = stray == 0;
        for (int c : cnt) all1 = all1 && c == 1;
        std::string tokn = "d" + std::to_string(op.arg) + ":";
        if (all1) {
          tokn += "all1";
        } else {
          for (size_t i = 0; i < cnt.size(); i++) tokn += (i ? "," : "") + std::to_string(cnt[i]);
          tokn += "+stray" + std::to_string(stray);
        }
        tokn += std::string(":") + (tids ? "ok" : "bad") + ":" + std::to_string(late);
        freeout->push_back(tokn);
      }
    }
  }
}

// ---- controlled replay ---------------------------------------------------------------------------------------

struct Controller {
  c03::Sched* s;
  explicit Controller(c03::Sched* s) : s(s) {}

  bool enabled_locked(int t) {
    if (t < 0 || t >= (int)s->th.size()) return false;
    c03::ThreadRec* r = s->th[t];
    if (!r || !r->parked || r->st != c03::ThreadRec::READY) return false;
    if (r->join_target >= 0 && r->join_rec->st != c03::ThreadRec::DONE) return false;
    return true;
  }

  // grant one step to thread t; false if it is not enabled
  bool step(int t) {
    std::unique_lock<std::mutex> lk(s->mu);
    if (!enabled_locked(t)) return false;
    c03::ThreadRec* r = s->th[t];
    s->active = t;
    s->steps++;
    lk.unlock();
    r->go.store(1);
    r->go.notify_all();
    while (s->back.load() == 0) s->back.wait(0);
    s->back.store(0);
    return true;
  }

  bool main_done() {
    std::lock_guard<std::mutex> lk(s->mu);
    return s->th[0]->st == c03::ThreadRec::DONE;
  }
};

// a replay that ends in DEADLOCK / LIVELOCK leaves its threads parked for ever; bound that leak per process
int g_abandoned = 0;
constexpr int kMaxAbandoned = 40;

std::string do_run(const std::string& rest) {
  if (g_abandoned >= kMaxAbandoned) return "SKIPPED-after-too-many-abandoned-replays # ";
  std::vector<std::string> parts = split(rest, '|');
  if (parts.size() != 2) return "bad-op";
  std::vector<Op> hist;
  std::vector<int> sched;
  int maxk = 0;
  if (!parse_hist(parts[0], &hist, &maxk) || !parse_sched(parts[1], &sched)) return "bad-op";

  mjData* d = mj_makeData(g_model);
  RunLog* L = new RunLog();
  c03::Sched* s = new c03::Sched();
  c03::Global& g = c03::G();
  g.sched = s;
  {
    std::lock_guard<std::mutex> lk(g.omu);
    g.orders.clear();
  }
  g.mode.store(c03::CTRL);
  alarm(300);   // a replay that stops making progress without reaching a scheduling point

  c03::ThreadRec* r0 = new c03::ThreadRec();
  r0->id = 0;
  s->th.push_back(r0);
  c03::start_thread(s, r0, [&hist, d, L]() { run_history(hist, d, L, nullptr); });

  Controller c(s);
  // step budget of the completion phase, from the proved ranking bounds (Props/C03: dispatch_step_bound,
  // threadpool_step_bound): a dispatch of n tasks on N workers has at most 3n+5N+7 non-spin steps, a
  // mju_threadpool(k) on N workers at most 6N+2k+3; every round-robin pass contains a non-spin step.
  long rank_sum = 0, ncur = 0;
  for (const Op& op : hist) {
    if (op.kind == 'd') rank_sum += 3L * op.arg + 5 * ncur + 7;
    else { rank_sum += 6 * ncur + 2L * op.arg + 3; ncur = op.arg; }
  }
  const long kLimit = (long)sched.size() + 4 * (maxk + 1) * (rank_sum + 16) + 1000;
  std::string verdict;
  for (int t : sched) {
    if (c.main_done()) break;
    if (!c.step(t)) {
      std::lock_guard<std::mutex> lk(s->mu);
      s->trace.push_back(std::to_string(t) + ":blocked");
    }
  }
  // completion: round robin over 0..maxk
  while (!c.main_done() && verdict.empty()) {
    bool any = false;
    for (int t = 0; t <= maxk && !c.main_done(); t++) {
      if (c.step(t)) any = true;
    }
    if (!any && !c.main_done()) verdict = "DEADLOCK";
    if (s->steps > kLimit) verdict = "LIVELOCK";
  }

  alarm(0);
  std::string out;
  {
    std::lock_guard<std::mutex> lk(s->mu);
    for (const std::string& e : s->trace) {
      if (!out.empty()) out += " ";
      out += e;
    }
  }
  if (!verdict.empty()) {
    // the stuck threads stay parked on the abandoned scheduler for ever; nothing of this run is reused
    out += (out.empty() ? "" : " ") + verdict;
    g_abandoned++;
    g.mode.store(c03::PASS);
  } else {
    g.mode.store(c03::PASS);
    g.sched = nullptr;
    mj_deleteData(d);
    delete L;
  }
  return out + " # " + orders_summary();
}

// ---- free-running threads --------------------------------------------------------------------------------------

volatile sig_atomic_t g_in_free = 0;

void on_alarm(int) {
  const char msg[] = "\nWATCHDOG c03:deadlock\n";
  ssize_t ignored = write(2, msg, sizeof msg - 1);
  (void)ignored;
  _exit(3);
}

std::string do_free(const std::string& rest) {
  std::istringstream is(rest);
  std::string seed_s, hist_s;
  is >> seed_s;
  std::getline(is, hist_s);
  int seed;
  if (!parse_int(seed_s, 0, 9999999, &seed)) return "bad-op";
  std::vector<Op> hist;
  int maxk = 0;
  if (!parse_hist(hist_s, &hist, &maxk)) return "bad-op";

  mjData* d = mj_makeData(g_model);
  RunLog L;
  c03::Global& g = c03::G();
  {
    std::lock_guard<std::mutex> lk(g.omu);
    g.orders.clear();
  }
  g.free_seed.store((unsigned)seed * 7919u + 13u);
  c03::tl_rng = 0;
  c03::tl_free_id = 0;
  g.mode.store(c03::FREE);
  alarm(120);
  std::vector<std::string> toks;
  run_history(hist, d, &L, &toks);
  alarm(0);
  g.mode.store(c03::PASS);
  mj_deleteData(d);
  std::string out;
  for (const std::string& t : toks) {
    if (!out.empty()) out += " ";
    out += t;
  }
  return out + " # " + orders_summary();
}

}  // namespace

int main() {
  signal(SIGALRM, on_alarm);
  mjSpec* spec = mj_makeSpec();
  g_model = mj_compile(spec, nullptr);
  if (!g_model) {
    fprintf(stderr, "c03_pool: could not compile the empty model\n");
    return 2;
  }
  std::string line;
  while (std::getline(std::cin, line)) {
    std::string t = trim(line);
    std::string out;
    if (t.rfind("run ", 0) == 0) {
      out = do_run(t.substr(4));
    } else if (t.rfind("free ", 0) == 0) {
      out = do_free(t.substr(5));
    } else {
      out = "bad-op";
    }
    std::cout << out << "\n" << std::flush;
  }
  return 0;
}
