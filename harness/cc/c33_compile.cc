// C33 oracle harness: determinism and copy-invariance of the model compiler, through the mjSpec C API of the tree build.
//
// Input: a sequence of cases.  Each case is
//     case <ntex> <seed> <nstep> [x]
//     <model description lines in the format of harness/mjbuild.h (may contain `mesh` / `makemesh` lines)>
//     end
//     [when the header ends in `x`: extra lines for element kinds mjbuild.h cannot create, then `xend`:
//        tuple <name> (<objtype-int> <objname> <prm>)+      skin <name> <body1> <body2> <material|~>
//        hfield <name> <nrow> <ncol> <seed>                 geomstr <geomname> hfieldname|material|meshname <value>
//        flex <name> <dim 1|2> <body>...(dim+1 bodies)      default <class> <parentclass|~> <seed>
//        setdefault <objtype-int> <name> <class>            lropt <mode> <useexisting> <uselimit> <inttotal> <interval>]
// The harness adds <ntex> builtin textures (+ one material per texture) derived from <seed>, then checks
//   twice      mj_compile(spec) twice gives bit-identical models
//   copyspec   mj_compile(mj_copySpec(spec)) gives the same model (copy taken from the compiled spec); the copy has the same
//              number of elements of every kind as the original (count-<kind>)
//   copyspec0  the same for a deep copy taken BEFORE the spec was ever compiled
//   copycopy   the same for a deep copy of the deep copy
//   copymodel  mj_copyModel(NULL, m) gives the same model
//   thread     compiling with compiler.usethread flipped gives the same model
//   recompile  after <nstep> steps with a control signal, mj_recompile(spec, NULL, m, d) keeps time, qpos, qvel, act,
//              ctrl, mocap_pos, mocap_quat bit-exactly and yields the same model again
//   edit       after adding one more jointed body at the end of the world body, mj_recompile keeps the state of every
//              existing joint / actuator / mocap body (the new joint starts at qpos0 with zero velocity)
//   edit2      after adding a stateful actuator on the new joint, mj_recompile keeps the state (new act = 0, new ctrl = 0)
//   undo       after deleting the added body again (mjs_delete: the actuator goes with it), mj_recompile keeps the state
//              of everything that is left
//   toggle     after edits that change the SET of state-carrying elements (jointless world children become / stop being
//              mocap, a new mocap body, plain actuators gain / lose their activation; choices seeded by the case seed,
//              reported as `tog=M+a,M-b,Mnewc,A+d,A-e` on the ok line) mj_recompile keeps the state of every kept
//              element by identity and gives new state its default (mocap pose = body_pos / body_quat, act = 0)
// Models are compared bitwise: every array of MJMODEL_POINTERS (element size × count), every size of MJMODEL_SIZES,
// the opt / vis / stat structs, and the byte stream written by mj_saveModel.
// Output, one line per case: `ok nmesh=.. ntex=.. nq=.. nv=.. nu=.. pooltasks=..`, or `DIFF <check>:<field> ...`,
// or `error <message>` when the spec does not compile at all; the first two are followed by
// ` # src=<objtype>:<count>,... copy=... copy0=...` (element counts per kind of the spec and of its two deep copies).
#include <csetjmp>
#include <csignal>
#include <cstdint>
#include <cstdio>
#include <cstdlib>
#include <cstring>
#include <string>
#include <vector>

#include <unistd.h>

#include <mujoco/mujoco.h>
#include <mujoco/mjxmacro.h>
#include "mjbuild.h"

namespace {

std::vector<std::string> diffs;

void note(const char* check, const char* field) {
  if (diffs.size() < 12) diffs.push_back(std::string(check) + ":" + field);
}

// bitwise comparison of two models; reports the differing fields under `check`
void compare_models(const char* check, const mjModel* a, const mjModel* b) {
  size_t before = diffs.size();
#define X(name) if (a->name != b->name) note(check, #name);
  MJMODEL_SIZES
#undef X
  if (diffs.size() != before) return;   // sizes differ: arrays are not comparable
  MJMODEL_POINTERS_PREAMBLE(a)
#define X(type, name, nr, nc) \
  if ((size_t)a->nr * (size_t)(nc) && std::memcmp(a->name, b->name, sizeof(type) * (size_t)a->nr * (size_t)(nc))) note(check, #name);
  MJMODEL_POINTERS
#undef X
  if (std::memcmp(&a->opt, &b->opt, sizeof(mjOption))) note(check, "opt");
  if (std::memcmp(&a->vis, &b->vis, sizeof(mjVisual))) note(check, "vis");
  if (std::memcmp(&a->stat, &b->stat, sizeof(mjStatistic))) note(check, "stat");
  // serialised form
  mjtSize sa = mj_sizeModel(a), sb = mj_sizeModel(b);
  if (sa != sb) { note(check, "mj_sizeModel"); return; }
  std::vector<unsigned char> ba((size_t)sa), bb((size_t)sb);
  mj_saveModel(a, nullptr, ba.data(), (int)sa);
  mj_saveModel(b, nullptr, bb.data(), (int)sb);
  if (std::memcmp(ba.data(), bb.data(), (size_t)sa)) note(check, "mj_saveModel-bytes");
}

unsigned lcg(unsigned& s) { s = s * 1664525u + 1013904223u; return s >> 8; }
double unit(unsigned& s) { return (lcg(s) % 100000) / 100000.0; }

void add_textures(mjSpec* s, int ntex, unsigned seed) {
  for (int i = 0; i < ntex; i++) {
    mjsTexture* t = mjs_addTexture(s);
    char name[32]; std::snprintf(name, sizeof name, "tex%d", i);
    mjs_setName(t->element, name);
    unsigned k = lcg(seed);
    t->type = (k % 3 == 0) ? mjTEXTURE_CUBE : mjTEXTURE_2D;
    t->builtin = (mjtBuiltin)(1 + (lcg(seed) % 3));     // gradient, checker, flat
    t->mark = (mjtMark)(lcg(seed) % 4);                 // none, edge, cross, random
    t->random = 0.01 + 0.05 * unit(seed);
    for (int c = 0; c < 3; c++) { t->rgb1[c] = unit(seed); t->rgb2[c] = unit(seed); t->markrgb[c] = unit(seed); }
    int sz = 16 + 8 * (int)(lcg(seed) % 12);
    t->width = sz;
    t->height = (t->type == mjTEXTURE_CUBE) ? sz : 16 + 8 * (int)(lcg(seed) % 12);
    t->nchannel = 3;
    mjsMaterial* mat = mjs_addMaterial(s, nullptr);
    char mname[32]; std::snprintf(mname, sizeof mname, "mat%d", i);
    mjs_setName(mat->element, mname);
    mjs_setInStringVec(mat->textures, mjTEXROLE_RGB, name);
    mat->rgba[0] = (float)unit(seed); mat->rgba[1] = (float)unit(seed); mat->rgba[2] = (float)unit(seed);
    mat->specular = (float)unit(seed);
  }
}

// an engine error while STEPPING (mju_error, e.g. a diverged or degenerate simulation) is not a compile defect: the state
// checks of the case are abandoned and the case is reported with `simerror=1`
std::jmp_buf sim_jmp;
bool sim_armed = false;
char sim_msg[200];
void on_engine_error(const char* msg) {
  if (sim_armed) { std::snprintf(sim_msg, sizeof sim_msg, "%s", msg); sim_armed = false; std::longjmp(sim_jmp, 1); }
  std::fprintf(stderr, "ERROR %s\n", msg);
  std::exit(1);
}
bool simerror = false;
char togglenote[96] = "";   // what the `toggle` stage of the case changed (reported on the ok line)
size_t diffs_at_simerror = 0;
// steps the simulation; after an engine error the later calls do nothing and the differences noted from then on are dropped
void steps(const mjModel* m, mjData* d, int n) {
  if (simerror) return;
  if (setjmp(sim_jmp)) { simerror = true; diffs_at_simerror = diffs.size(); return; }
  sim_armed = true;
  for (int k = 0; k < n; k++) mj_step(m, d);
  sim_armed = false;
}

struct State {
  double time;
  std::vector<double> qpos, qvel, act, ctrl, mpos, mquat;
};

State grab(const mjModel* m, const mjData* d) {
  State s;
  s.time = d->time;
  s.qpos.assign(d->qpos, d->qpos + m->nq);
  s.qvel.assign(d->qvel, d->qvel + m->nv);
  s.act.assign(d->act, d->act + m->na);
  s.ctrl.assign(d->ctrl, d->ctrl + m->nu);
  s.mpos.assign(d->mocap_pos, d->mocap_pos + 3 * m->nmocap);
  s.mquat.assign(d->mocap_quat, d->mocap_quat + 4 * m->nmocap);
  return s;
}

bool same_prefix(const std::vector<double>& a, const double* b, size_t n) {
  return a.size() <= n && (a.empty() || !std::memcmp(a.data(), b, a.size() * sizeof(double)));
}

// ---------------------------------------------------------------------------------------------- extras
const mjtObj COUNT_KINDS[] = {mjOBJ_BODY, mjOBJ_JOINT, mjOBJ_GEOM, mjOBJ_SITE, mjOBJ_CAMERA, mjOBJ_LIGHT, mjOBJ_FRAME,
                              mjOBJ_FLEX, mjOBJ_MESH, mjOBJ_SKIN, mjOBJ_HFIELD, mjOBJ_TEXTURE, mjOBJ_MATERIAL, mjOBJ_PAIR,
                              mjOBJ_EXCLUDE, mjOBJ_EQUALITY, mjOBJ_TENDON, mjOBJ_ACTUATOR, mjOBJ_SENSOR, mjOBJ_NUMERIC,
                              mjOBJ_TEXT, mjOBJ_TUPLE, mjOBJ_KEY, mjOBJ_PLUGIN};
const int NCOUNT = (int)(sizeof COUNT_KINDS / sizeof COUNT_KINDS[0]);

std::vector<int> count_elements(const mjSpec* s) {
  std::vector<int> n;
  for (mjtObj k : COUNT_KINDS) {
    int c = 0;
    for (mjsElement* e = mjs_firstElement(s, k); e; e = mjs_nextElement(s, e)) c++;
    n.push_back(c);
  }
  return n;
}

std::string show_counts(const std::vector<int>& n) {
  std::string r;
  for (int i = 0; i < (int)n.size(); i++) {
    if (!r.empty()) r += ",";
    r += std::to_string((int)COUNT_KINDS[i]) + ":" + std::to_string(n[i]);
  }
  return r.empty() ? "-" : r;
}

void compare_counts(const char* check, const std::vector<int>& a, const std::vector<int>& b) {
  for (int i = 0; i < NCOUNT; i++) {
    if (a[i] != b[i]) {
      std::string f = std::string("count-") + mju_type2Str(COUNT_KINDS[i]);
      note(check, f.c_str());
    }
  }
}

// reads the extra lines up to `xend`; returns false with a message on a malformed line
bool read_extras(mjSpec* s, char* err, int errsz) {
  static char line[1 << 14];
  bool ok = s != nullptr;
  while (std::fgets(line, sizeof line, stdin)) {
    std::vector<char*> tok;
    char* save;
    for (char* t = strtok_r(line, " \t\r\n", &save); t; t = strtok_r(nullptr, " \t\r\n", &save)) tok.push_back(t);
    if (tok.empty()) continue;
    if (!std::strcmp(tok[0], "xend")) return ok;
    if (!ok) continue;                                   // keep consuming up to xend
#define XFAIL(...) { std::snprintf(err, errsz, __VA_ARGS__); ok = false; continue; }
    size_t n = tok.size();
    if (!std::strcmp(tok[0], "tuple")) {
      if (n < 5 || (n - 2) % 3) XFAIL("bad tuple line");
      mjsTuple* t = mjs_addTuple(s);
      if (!t || mjs_setName(t->element, tok[1])) XFAIL("cannot add tuple %s", tok[1]);
      std::vector<int> types; std::vector<double> prm;
      for (size_t i = 2; i < n; i += 3) {
        types.push_back(std::atoi(tok[i]));
        mjs_appendString(t->objname, tok[i + 1]);
        prm.push_back(std::strtod(tok[i + 2], nullptr));
      }
      mjs_setInt(t->objtype, types.data(), (int)types.size());
      mjs_setDouble(t->objprm, prm.data(), (int)prm.size());
    } else if (!std::strcmp(tok[0], "skin")) {
      if (n != 5) XFAIL("bad skin line");
      mjsSkin* k = mjs_addSkin(s);
      if (!k || mjs_setName(k->element, tok[1])) XFAIL("cannot add skin %s", tok[1]);
      const float vert[12] = {0, 0, 0, 0.1f, 0, 0, 0, 0.1f, 0, 0, 0, 0.1f};
      const int face[12] = {0, 2, 1, 0, 1, 3, 0, 3, 2, 1, 2, 3};
      mjs_setFloat(k->vert, vert, 12);
      mjs_setInt(k->face, face, 12);
      const float bpos[6] = {0, 0, 0, 0.05f, 0, 0};
      const float bquat[8] = {1, 0, 0, 0, 1, 0, 0, 0};
      mjs_appendString(k->bodyname, tok[2]);
      mjs_appendString(k->bodyname, tok[3]);
      mjs_setFloat(k->bindpos, bpos, 6);
      mjs_setFloat(k->bindquat, bquat, 8);
      const int id0[3] = {0, 1, 2}, id1[2] = {2, 3};
      const float w0[3] = {1, 0.5f, 0.25f}, w1[2] = {0.75f, 1};
      mjs_appendIntVec(k->vertid, id0, 3); mjs_appendIntVec(k->vertid, id1, 2);
      mjs_appendFloatVec(k->vertweight, w0, 3); mjs_appendFloatVec(k->vertweight, w1, 2);
      if (std::strcmp(tok[4], "~")) mjs_setString(k->material, tok[4]);
    } else if (!std::strcmp(tok[0], "hfield")) {
      if (n != 5) XFAIL("bad hfield line");
      mjsHField* h = mjs_addHField(s);
      if (!h || mjs_setName(h->element, tok[1])) XFAIL("cannot add hfield %s", tok[1]);
      h->nrow = std::atoi(tok[2]); h->ncol = std::atoi(tok[3]);
      if (h->nrow < 2 || h->ncol < 2 || h->nrow > 64 || h->ncol > 64) XFAIL("bad hfield size");
      unsigned st = (unsigned)std::strtoul(tok[4], nullptr, 10);
      std::vector<float> data((size_t)h->nrow * h->ncol);
      for (float& v : data) v = (float)unit(st);
      mjs_setFloat(h->userdata, data.data(), (int)data.size());
      h->size[0] = 0.5; h->size[1] = 0.4; h->size[2] = 0.1; h->size[3] = 0.05;
    } else if (!std::strcmp(tok[0], "geomstr")) {
      if (n != 4) XFAIL("bad geomstr line");
      mjsElement* e = mjs_findElement(s, mjOBJ_GEOM, tok[1]);
      mjsGeom* g = e ? mjs_asGeom(e) : nullptr;
      if (!g) XFAIL("geomstr: no geom %s", tok[1]);
      if (!std::strcmp(tok[2], "hfieldname")) mjs_setString(g->hfieldname, tok[3]);
      else if (!std::strcmp(tok[2], "material")) mjs_setString(g->material, tok[3]);
      else if (!std::strcmp(tok[2], "meshname")) mjs_setString(g->meshname, tok[3]);
      else XFAIL("geomstr: unknown field %s", tok[2]);
    } else if (!std::strcmp(tok[0], "flex")) {
      int dim = n > 2 ? std::atoi(tok[2]) : 0;
      if ((dim != 1 && dim != 2) || n != (size_t)(3 + dim + 1)) XFAIL("bad flex line");
      mjsFlex* f = mjs_addFlex(s);
      if (!f || mjs_setName(f->element, tok[1])) XFAIL("cannot add flex %s", tok[1]);
      f->dim = dim;
      f->radius = 0.01;
      f->contype = 0; f->conaffinity = 0;
      std::vector<int> el;
      for (int i = 0; i <= dim; i++) { mjs_appendString(f->vertbody, tok[3 + i]); el.push_back(i); }
      mjs_setInt(f->elem, el.data(), (int)el.size());
    } else if (!std::strcmp(tok[0], "default")) {
      if (n != 4) XFAIL("bad default line");
      const mjsDefault* par = std::strcmp(tok[2], "~") ? mjs_findDefault(s, tok[2]) : nullptr;
      if (std::strcmp(tok[2], "~") && !par) XFAIL("default: no parent class %s", tok[2]);
      mjsDefault* d = mjs_addDefault(s, tok[1], par);
      if (!d) XFAIL("cannot add default %s", tok[1]);
      unsigned st = (unsigned)std::strtoul(tok[3], nullptr, 10);
      d->geom->rgba[0] = (float)unit(st); d->geom->friction[0] = 0.5 + unit(st);
      d->joint->damping[0] = unit(st); d->site->size[0] = 0.01 + 0.02 * unit(st);
      d->tendon->width = 0.002 + 0.01 * unit(st);
    } else if (!std::strcmp(tok[0], "setdefault")) {
      if (n != 4) XFAIL("bad setdefault line");
      mjsElement* e = mjs_findElement(s, (mjtObj)std::atoi(tok[1]), tok[2]);
      const mjsDefault* d = mjs_findDefault(s, tok[3]);
      if (!e || !d) XFAIL("setdefault: element %s or class %s not found", tok[2], tok[3]);
      mjs_setDefault(e, d);
    } else if (!std::strcmp(tok[0], "lropt")) {
      if (n != 6) XFAIL("bad lropt line");
      s->compiler.LRopt.mode = std::atoi(tok[1]);
      s->compiler.LRopt.useexisting = std::atoi(tok[2]);
      s->compiler.LRopt.uselimit = std::atoi(tok[3]);
      s->compiler.LRopt.inttotal = std::strtod(tok[4], nullptr);
      s->compiler.LRopt.interval = std::strtod(tok[5], nullptr);
    } else XFAIL("unknown extra op %s", tok[0]);
#undef XFAIL
  }
  std::snprintf(err, errsz, "extras not terminated by xend");
  return false;
}

// compile `sp` and compare with the reference model
void compile_and_compare(const char* check, mjSpec* sp, const mjModel* ref) {
  mjModel* m = mj_compile(sp, nullptr);
  if (!m) { note(check, "compile-of-copy-failed"); return; }
  compare_models(check, ref, m);
  mj_deleteModel(m);
}

void check_state(const char* check, const State& b, const mjModel* m, const mjData* d, bool exact_sizes) {
  if (d->time != b.time) note(check, "time");
  if (!same_prefix(b.qpos, d->qpos, (size_t)m->nq) || (exact_sizes && b.qpos.size() != (size_t)m->nq)) note(check, "qpos");
  if (!same_prefix(b.qvel, d->qvel, (size_t)m->nv) || (exact_sizes && b.qvel.size() != (size_t)m->nv)) note(check, "qvel");
  if (!same_prefix(b.act, d->act, (size_t)m->na) || (exact_sizes && b.act.size() != (size_t)m->na)) note(check, "act");
  if (!same_prefix(b.ctrl, d->ctrl, (size_t)m->nu) || (exact_sizes && b.ctrl.size() != (size_t)m->nu)) note(check, "ctrl");
  if (!same_prefix(b.mpos, d->mocap_pos, 3 * (size_t)m->nmocap)) note(check, "mocap_pos");
  if (!same_prefix(b.mquat, d->mocap_quat, 4 * (size_t)m->nmocap)) note(check, "mocap_quat");
}

void run_case(int ntex, unsigned seed, int nstep, bool extras) {
  char err[1000];
  diffs.clear();
  simerror = false;
  togglenote[0] = 0;
  mjSpec* s = mjb_build(stdin, err, sizeof err);
  if (s) add_textures(s, ntex, seed);
  else {
    // mjb_build stopped at the offending line: skip the rest of the description
    char skip[1 << 12];
    while (std::fgets(skip, sizeof skip, stdin)) if (!std::strncmp(skip, "end", 3) && (skip[3] == '\n' || skip[3] == 0 || skip[3] == '\r')) break;
  }
  if (extras) {
    char xerr[400] = "";
    if (!read_extras(s, xerr, sizeof xerr) && s) {
      std::printf("error extras: %s\n", xerr); mj_deleteSpec(s); return;
    }
  }
  if (!s) { for (char* c = err; *c; c++) if (*c == '\n' || *c == '\r') *c = ' '; std::printf("error build: %s\n", err); return; }

  // a deep copy of the spec that has never been compiled
  mjSpec* s0 = mj_copySpec(s);
  std::vector<int> nsrc = count_elements(s);

  mjModel* m1 = mj_compile(s, nullptr);
  if (!m1) {
    std::string e = mjs_getError(s);
    for (char& c : e) if (c == '\n' || c == '\r') c = ' ';
    std::printf("error compile: %.300s\n", e.c_str()); mj_deleteSpec(s); if (s0) mj_deleteSpec(s0); return;
  }
  int pooltasks = m1->nmesh + m1->ntex;

  // twice
  mjModel* m2 = mj_compile(s, nullptr);
  if (!m2) note("twice", "second-compile-failed"); else { compare_models("twice", m1, m2); mj_deleteModel(m2); }

  // copyspec0: the copy taken before the first compile
  std::vector<int> ncopy0, ncopy;
  if (!s0) note("copyspec0", "mj_copySpec-failed");
  else {
    ncopy0 = count_elements(s0);
    compare_counts("copyspec0", nsrc, ncopy0);
    compile_and_compare("copyspec0", s0, m1);
    mj_deleteSpec(s0);
  }

  // copyspec (copy of the compiled spec) and copycopy
  mjSpec* s2 = mj_copySpec(s);
  if (!s2) note("copyspec", "mj_copySpec-failed");
  else {
    ncopy = count_elements(s2);
    compare_counts("copyspec", nsrc, ncopy);
    mjSpec* s3 = mj_copySpec(s2);                      // copy of a copy that has not been compiled
    compile_and_compare("copyspec", s2, m1);
    if (!s3) note("copycopy", "mj_copySpec-failed");
    else {
      compare_counts("copycopy", nsrc, count_elements(s3));
      compile_and_compare("copycopy", s3, m1);
      mj_deleteSpec(s3);
    }
    mj_deleteSpec(s2);
  }

  // copymodel
  mjModel* m4 = mj_copyModel(nullptr, m1);
  if (!m4) note("copymodel", "mj_copyModel-failed"); else { compare_models("copymodel", m1, m4); mj_deleteModel(m4); }

  // thread on/off
  mjtBool saved = s->compiler.usethread;
  s->compiler.usethread = saved ? 0 : 1;
  mjModel* m5 = mj_compile(s, nullptr);
  if (!m5) note("thread", "compile-failed"); else { compare_models("thread", m1, m5); mj_deleteModel(m5); }
  s->compiler.usethread = saved;

  // recompile: state preservation + same model
  mjModel* mr = mj_compile(s, nullptr);
  mjData* d = mr ? mj_makeData(mr) : nullptr;
  if (!mr || !d) note("recompile", "setup-failed");
  else {
    unsigned st = seed ^ 0x9e3779b9u;
    if (mr->nkey > 0) mj_resetDataKeyframe(mr, d, 0);
    for (int i = 0; i < mr->nu; i++) d->ctrl[i] = 0.6 * unit(st) - 0.3;
    for (int i = 0; i < 3 * mr->nmocap; i++) d->mocap_pos[i] += 0.1 * unit(st);
    steps(mr, d, nstep);
    State before = grab(mr, d);
    int rc = mj_recompile(s, nullptr, mr, d);
    if (rc != 0) { note("recompile", "returned-nonzero"); mr = nullptr; d = nullptr; }
    else {
      compare_models("recompile", m1, mr);
      check_state("recompile", before, mr, d, true);

      // edit: one more jointed body at the end of the world body; existing state must survive
      steps(mr, d, 3);
      State b2 = grab(mr, d);
      mjsBody* nb = mjs_addBody(mjs_findBody(s, "world"), nullptr);
      mjs_setName(nb->element, "c33_added_body");
      nb->pos[0] = 3.0; nb->pos[2] = 2.0;
      mjsJoint* nj = mjs_addJoint(nb, nullptr);
      mjs_setName(nj->element, "c33_added_joint");
      nj->type = mjJNT_SLIDE;
      nj->ref = 0.25;
      nj->limited = mjLIMITED_TRUE; nj->range[0] = -0.5; nj->range[1] = 1.0;   // a length range can be computed for it
      mjsGeom* ng = mjs_addGeom(nb, nullptr);
      ng->type = mjGEOM_SPHERE; ng->size[0] = 0.05; ng->contype = 0; ng->conaffinity = 0;
      int nq0 = mr->nq, nv0 = mr->nv;
      rc = mj_recompile(s, nullptr, mr, d);
      if (rc != 0) { note("edit", "returned-nonzero"); mr = nullptr; d = nullptr; }
      else {
        if (mr->nq != nq0 + 1 || mr->nv != nv0 + 1) note("edit", "sizes");
        else {
          check_state("edit", b2, mr, d, false);
          if (d->qpos[nq0] != mr->qpos0[nq0]) note("edit", "new-joint-qpos0");
          if (d->qvel[nv0] != 0) note("edit", "new-joint-qvel");
        }
      }

      // edit2: a stateful actuator on the new joint
      if (mr && d && diffs.empty()) {
        steps(mr, d, 2);
        State b3 = grab(mr, d);
        mjsActuator* na = mjs_addActuator(s, nullptr);
        mjs_setName(na->element, "c33_added_actuator");
        na->trntype = mjTRN_JOINT;
        mjs_setString(na->target, "c33_added_joint");
        na->dyntype = mjDYN_INTEGRATOR;
        int nu0 = mr->nu, na0 = mr->na;
        rc = mj_recompile(s, nullptr, mr, d);
        if (rc != 0) { note("edit2", "returned-nonzero"); mr = nullptr; d = nullptr; }
        else if (mr->nu != nu0 + 1 || mr->na != na0 + 1) note("edit2", "sizes");
        else {
          check_state("edit2", b3, mr, d, false);
          if (d->ctrl[nu0] != 0) note("edit2", "new-ctrl");
          if (d->act[na0] != 0) note("edit2", "new-act");
        }
      }

      // undo: delete the added body (its joint, geom and the actuator that targets the joint go with it)
      if (mr && d && diffs.empty()) {
        for (int i = 0; i < mr->nu; i++) d->ctrl[i] = 0.4 * unit(st) - 0.2;
        steps(mr, d, 2);
        State b4 = grab(mr, d);
        int nq1 = mr->nq, nv1 = mr->nv, nu1 = mr->nu, na1 = mr->na;
        if (mjs_delete(s, nb->element)) note("undo", "mjs_delete-failed");
        else {
          rc = mj_recompile(s, nullptr, mr, d);
          if (rc != 0) { note("undo", "returned-nonzero"); mr = nullptr; d = nullptr; }
          else if (mr->nq != nq1 - 1 || mr->nv != nv1 - 1 || mr->nu != nu1 - 1 || mr->na != na1 - 1) note("undo", "sizes");
          else {
            // the deleted joint / actuator were the last ones: the remaining state is a prefix of the old one
            b4.qpos.resize((size_t)mr->nq); b4.qvel.resize((size_t)mr->nv);
            b4.act.resize((size_t)mr->na); b4.ctrl.resize((size_t)mr->nu);
            check_state("undo", b4, mr, d, true);
          }
        }
      }

      // toggle: edits that change the SET of state-carrying elements without adding / removing joints: bodies become / stop
      // being mocap, a new mocap body appears, actuators gain / lose their activation.  By identity (body / actuator ids are
      // unchanged, a new world child is last): kept elements keep their state, new state gets the mj_resetData default
      // (mocap pose = body_pos / body_quat of the new model, act = 0); time, qpos, qvel, ctrl are untouched.
      if (mr && d && diffs.empty() && !simerror) {
        for (int i = 0; i < 3 * mr->nmocap; i++) d->mocap_pos[i] += 0.05 + 0.1 * unit(st);
        for (int i = 0; i < mr->na; i++) d->act[i] += 0.01 + 0.02 * unit(st);
        for (int i = 0; i < mr->nu; i++) d->ctrl[i] = 0.3 * unit(st) - 0.15;
        // first a jointless, non-mocap world child (compiled once as such, so that it has a mocap id of -1 to go stale)
        {
          State b0 = grab(mr, d);
          mjsBody* sb = mjs_addBody(mjs_findBody(s, "world"), nullptr);
          mjs_setName(sb->element, "c33_added_static");
          sb->pos[0] = 2.5; sb->pos[1] = -1.25; sb->pos[2] = 1.5;
          sb->quat[0] = 0.5; sb->quat[1] = 0.5; sb->quat[2] = -0.5; sb->quat[3] = 0.5;
          mjsGeom* sg = mjs_addGeom(sb, nullptr);
          sg->type = mjGEOM_SPHERE; sg->size[0] = 0.03; sg->contype = 0; sg->conaffinity = 0;
          rc = mj_recompile(s, nullptr, mr, d);
          if (rc != 0) { note("toggle", "static-body-returned-nonzero"); mr = nullptr; d = nullptr; }
          else check_state("toggle-static-body", b0, mr, d, true);
        }
      }
      if (mr && d && diffs.empty() && !simerror) {
        State b5 = grab(mr, d);
        int nbody0 = mr->nbody, nu5 = mr->nu;
        std::vector<int> mid0(mr->body_mocapid, mr->body_mocapid + mr->nbody);
        std::vector<int> aadr0(mr->actuator_actadr, mr->actuator_actadr + mr->nu);
        std::vector<int> anum0(mr->actuator_actnum, mr->actuator_actnum + mr->nu);
        mjsBody* world = mjs_findBody(s, "world");
        int mplus = 0, mminus = 0, aplus = 0, aminus = 0, mnew = 0;
        for (mjsElement* el = mjs_firstElement(s, mjOBJ_BODY); el; el = mjs_nextElement(s, el)) {
          mjsBody* b = mjs_asBody(el);
          if (!b || b == world || mjs_getParent(el) != world) continue;
          if (mjs_firstChild(b, mjOBJ_JOINT, 0)) continue;               // a mocap body is a fixed child of the world
          unsigned k = lcg(st) % 3;
          if (b->mocap && k == 0) { b->mocap = 0; mminus++; }
          else if (!b->mocap && k != 0) { b->mocap = 1; mplus++; }
        }
        if (mplus == 0 || lcg(st) % 2) {
          mjsBody* mb = mjs_addBody(world, nullptr);
          mjs_setName(mb->element, "c33_added_mocap");
          mb->pos[0] = -1.5; mb->pos[1] = 2.25; mb->pos[2] = 0.75;
          mb->quat[0] = 0.5; mb->quat[1] = -0.5; mb->quat[2] = 0.5; mb->quat[3] = 0.5;
          mb->mocap = 1;
          mjsGeom* mg = mjs_addGeom(mb, nullptr);
          mg->type = mjGEOM_SPHERE; mg->size[0] = 0.04; mg->contype = 0; mg->conaffinity = 0;
          mnew = 1;
        }
        // an actuator that loses its activation while the spec has a keyframe makes mj_compile and mj_recompile alike fail
        // ("keyframe: invalid act size": the stored key act is not shrunk) - not generated, reported to the coordinator
        bool haskey = mjs_firstElement(s, mjOBJ_KEY) != nullptr;
        for (mjsElement* el = mjs_firstElement(s, mjOBJ_ACTUATOR); el; el = mjs_nextElement(s, el)) {
          mjsActuator* a = mjs_asActuator(el);
          if (!a || a->actdim != -1 || a->plugin.active) continue;
          if (a->gaintype != mjGAIN_FIXED && a->gaintype != mjGAIN_AFFINE) continue;
          if (a->biastype != mjBIAS_NONE && a->biastype != mjBIAS_AFFINE) continue;
          unsigned k = lcg(st) % 2;
          if (a->dyntype == mjDYN_NONE && k) { a->dyntype = mjDYN_INTEGRATOR; aplus++; }
          else if ((a->dyntype == mjDYN_INTEGRATOR || a->dyntype == mjDYN_FILTER) && k && !haskey && a->actlimited != mjLIMITED_TRUE &&
                   a->actrange[0] == 0 && a->actrange[1] == 0) { a->dyntype = mjDYN_NONE; aminus++; }
        }
        std::snprintf(togglenote, sizeof togglenote, " tog=M+%d,M-%d,Mnew%d,A+%d,A-%d", mplus, mminus, mnew, aplus, aminus);
        rc = mj_recompile(s, nullptr, mr, d);
        if (rc != 0) {
          // the edited spec may be invalid (not a C33 matter) - but then a plain mj_compile of it fails as well
          mr = nullptr; d = nullptr;
          mjModel* mc = mj_compile(s, nullptr);
          if (mc) { note("toggle", "recompile-failed-compile-succeeds"); mj_deleteModel(mc); }
          std::strncat(togglenote, ",invalid", sizeof togglenote - std::strlen(togglenote) - 1);
        }
        else if (mr->nbody != nbody0 + mnew || mr->nu != nu5 || mr->nq != (int)b5.qpos.size() || mr->nv != (int)b5.qvel.size()) note("toggle", "sizes");
        else {
          if (d->time != b5.time) note("toggle", "time");
          if (!same_prefix(b5.qpos, d->qpos, (size_t)mr->nq)) note("toggle", "qpos");
          if (!same_prefix(b5.qvel, d->qvel, (size_t)mr->nv)) note("toggle", "qvel");
          if (!same_prefix(b5.ctrl, d->ctrl, (size_t)mr->nu)) note("toggle", "ctrl");
          int nm = 0;
          for (int i = 0; i < mr->nbody; i++) {
            int k1 = mr->body_mocapid[i], k0 = i < nbody0 ? mid0[i] : -1;
            if (k1 < 0) continue;
            nm++;
            const double* ep = k0 >= 0 ? b5.mpos.data() + 3 * k0 : mr->body_pos + 3 * i;
            const double* eq = k0 >= 0 ? b5.mquat.data() + 4 * k0 : mr->body_quat + 4 * i;
            if (std::memcmp(d->mocap_pos + 3 * k1, ep, 3 * sizeof(double))) note("toggle", k0 >= 0 ? "mocap_pos-kept-body" : "mocap_pos-new-mocap-body");
            if (std::memcmp(d->mocap_quat + 4 * k1, eq, 4 * sizeof(double))) note("toggle", k0 >= 0 ? "mocap_quat-kept-body" : "mocap_quat-new-mocap-body");
          }
          if (nm != mr->nmocap) note("toggle", "nmocap");
          int na = 0;
          for (int i = 0; i < mr->nu; i++) {
            int n1 = mr->actuator_actnum[i], a1 = mr->actuator_actadr[i];
            na += n1;
            for (int j = 0; j < n1; j++) {
              double e = (anum0[i] == n1) ? b5.act[(size_t)(aadr0[i] + j)] : 0.0;
              if (std::memcmp(&d->act[a1 + j], &e, sizeof e)) note("toggle", anum0[i] == n1 ? "act-kept-actuator" : "act-new-activation");
            }
          }
          if (na != mr->na) note("toggle", "na");
        }
      }
    }
  }
  if (simerror && diffs.size() > diffs_at_simerror) diffs.resize(diffs_at_simerror);
  if (diffs.empty()) std::printf("ok nmesh=%d ntex=%d nq=%d nv=%d nu=%d pooltasks=%d%s", (int)m1->nmesh, (int)m1->ntex, (int)m1->nq, (int)m1->nv, (int)m1->nu, pooltasks, simerror ? " simerror=1" : "");
  if (diffs.empty()) std::printf("%s", togglenote);
  else {
    std::printf("DIFF");
    for (auto& x : diffs) std::printf(" %s", x.c_str());
  }
  std::printf(" # src=%s copy=%s copy0=%s\n", show_counts(nsrc).c_str(), show_counts(ncopy).c_str(), show_counts(ncopy0).c_str());
  if (d) mj_deleteData(d);
  if (mr) mj_deleteModel(mr);
  mj_deleteModel(m1);
  mj_deleteSpec(s);
}

}  // namespace

static void on_alarm(int) {
  // a compile that hangs (e.g. a lost wake-up in the asset thread pool) ends the process with a diagnosable line
  const char msg[] = "TIMEOUT\n";
  ssize_t k = write(1, msg, sizeof msg - 1); (void)k;
  _exit(3);
}

int main() {
  signal(SIGALRM, on_alarm);
  mju_user_error = on_engine_error;
  char line[256];
  while (std::fgets(line, sizeof line, stdin)) {
    int ntex, nstep; unsigned seed; char flag[8] = "";
    int nf = std::sscanf(line, "case %d %u %d %7s", &ntex, &seed, &nstep, flag);
    if (nf < 3 || (nf == 4 && std::strcmp(flag, "x")) || ntex < 0 || ntex > 32 || nstep < 0 || nstep > 1000) {
      // skip blank lines silently, report anything else
      bool blank = true;
      for (char* c = line; *c; c++) if (*c != ' ' && *c != '\n' && *c != '\r' && *c != '\t') blank = false;
      if (!blank) { std::printf("bad-op\n"); std::fflush(stdout); }
      continue;
    }
    alarm(120);
    run_case(ntex, seed, nstep, nf == 4);
    alarm(0);
    std::fflush(stdout);
  }
  return 0;
}
