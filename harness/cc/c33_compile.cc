// C33 oracle harness: determinism and copy-invariance of the model compiler, through the mjSpec C API of the tree build.
//
// Input: a sequence of cases.  Each case is
//     case <ntex> <seed> <nstep>
//     <model description lines in the format of harness/mjbuild.h (may contain `mesh` / `makemesh` lines)>
//     end
// The harness adds <ntex> builtin textures (+ one material per texture) derived from <seed>, then checks
//   twice      mj_compile(spec) twice gives bit-identical models
//   copyspec   mj_compile(mj_copySpec(spec)) gives the same model
//   copymodel  mj_copyModel(NULL, m) gives the same model
//   thread     compiling with compiler.usethread flipped gives the same model
//   recompile  after <nstep> steps with a control signal, mj_recompile(spec, NULL, m, d) keeps time, qpos, qvel, act,
//              ctrl, mocap_pos, mocap_quat bit-exactly and yields the same model again
//   edit       after adding one more jointed body at the end of the world body, mj_recompile keeps the state of every
//              existing joint / actuator / mocap body (the new joint starts at qpos0 with zero velocity)
// Models are compared bitwise: every array of MJMODEL_POINTERS (element size × count), every size of MJMODEL_SIZES,
// the opt / vis / stat structs, and the byte stream written by mj_saveModel.
// Output, one line per case: `ok nmesh=.. ntex=.. nq=.. nv=.. nu=.. pooltasks=..`, or `DIFF <check>:<field> ...`,
// or `error <message>` when the spec does not compile at all.
#include <csignal>
#include <cstdint>
#include <cstdio>
#include <cstdlib>
#include <cstring>
#include <string>
#include <vector>

#include <unistd.h>

#include <mujoco/mujoco.h>
#include <mujoco/mjxmacro.h>
#include "mjbuild.h"

namespace {

std::vector<std::string> diffs;

void note(const char* check, const char* field) {
  if (diffs.size() < 12) diffs.push_back(std::string(check) + ":" + field);
}

// bitwise comparison of two models; reports the differing fields under `check`
void compare_models(const char* check, const mjModel* a, const mjModel* b) {
  size_t before = diffs.size();
#define X(name) if (a->name != b->name) note(check, #name);
  MJMODEL_SIZES
#undef X
  if (diffs.size() != before) return;   // sizes differ: arrays are not comparable
  MJMODEL_POINTERS_PREAMBLE(a)
#define X(type, name, nr, nc) \
  if ((size_t)a->nr * (size_t)(nc) && std::memcmp(a->name, b->name, sizeof(type) * (size_t)a->nr * (size_t)(nc))) note(check, #name);
  MJMODEL_POINTERS
#undef X
  if (std::memcmp(&a->opt, &b->opt, sizeof(mjOption))) note(check, "opt");
  if (std::memcmp(&a->vis, &b->vis, sizeof(mjVisual))) note(check, "vis");
  if (std::memcmp(&a->stat, &b->stat, sizeof(mjStatistic))) note(check, "stat");
  // serialised form
  mjtSize sa = mj_sizeModel(a), sb = mj_sizeModel(b);
  if (sa != sb) { note(check, "mj_sizeModel"); return; }
  std::vector<unsigned char> ba((size_t)sa), bb((size_t)sb);
  mj_saveModel(a, nullptr, ba.data(), (int)sa);
  mj_saveModel(b, nullptr, bb.data(), (int)sb);
  if (std::memcmp(ba.data(), bb.data(), (size_t)sa)) note(check, "mj_saveModel-bytes");
}

unsigned lcg(unsigned& s) { s = s * 1664525u + 1013904223u; return s >> 8; }
double unit(unsigned& s) { return (lcg(s) % 100000) / 100000.0; }

void add_textures(mjSpec* s, int ntex, unsigned seed) {
  for (int i = 0; i < ntex; i++) {
    mjsTexture* t = mjs_addTexture(s);
    char name[32]; std::snprintf(name, sizeof name, "tex%d", i);
    mjs_setName(t->element, name);
    unsigned k = lcg(seed);
    t->type = (k % 3 == 0) ? mjTEXTURE_CUBE : mjTEXTURE_2D;
    t->builtin = (mjtBuiltin)(1 + (lcg(seed) % 3));     // gradient, checker, flat
    t->mark = (mjtMark)(lcg(seed) % 4);                 // none, edge, cross, random
    t->random = 0.01 + 0.05 * unit(seed);
    for (int c = 0; c < 3; c++) { t->rgb1[c] = unit(seed); t->rgb2[c] = unit(seed); t->markrgb[c] = unit(seed); }
    int sz = 16 + 8 * (int)(lcg(seed) % 12);
    t->width = sz;
    t->height = (t->type == mjTEXTURE_CUBE) ? sz : 16 + 8 * (int)(lcg(seed) % 12);
    t->nchannel = 3;
    mjsMaterial* mat = mjs_addMaterial(s, nullptr);
    char mname[32]; std::snprintf(mname, sizeof mname, "mat%d", i);
    mjs_setName(mat->element, mname);
    mjs_setInStringVec(mat->textures, mjTEXROLE_RGB, name);
    mat->rgba[0] = (float)unit(seed); mat->rgba[1] = (float)unit(seed); mat->rgba[2] = (float)unit(seed);
    mat->specular = (float)unit(seed);
  }
}

struct State {
  double time;
  std::vector<double> qpos, qvel, act, ctrl, mpos, mquat;
};

State grab(const mjModel* m, const mjData* d) {
  State s;
  s.time = d->time;
  s.qpos.assign(d->qpos, d->qpos + m->nq);
  s.qvel.assign(d->qvel, d->qvel + m->nv);
  s.act.assign(d->act, d->act + m->na);
  s.ctrl.assign(d->ctrl, d->ctrl + m->nu);
  s.mpos.assign(d->mocap_pos, d->mocap_pos + 3 * m->nmocap);
  s.mquat.assign(d->mocap_quat, d->mocap_quat + 4 * m->nmocap);
  return s;
}

bool same_prefix(const std::vector<double>& a, const double* b, size_t n) {
  return a.size() <= n && (a.empty() || !std::memcmp(a.data(), b, a.size() * sizeof(double)));
}

void run_case(int ntex, unsigned seed, int nstep) {
  char err[1000];
  diffs.clear();
  mjSpec* s = mjb_build(stdin, err, sizeof err);
  if (!s) { for (char* c = err; *c; c++) if (*c == '\n' || *c == '\r') *c = ' '; std::printf("error build: %s\n", err); return; }
  add_textures(s, ntex, seed);
  mjModel* m1 = mj_compile(s, nullptr);
  if (!m1) {
    std::string e = mjs_getError(s);
    for (char& c : e) if (c == '\n' || c == '\r') c = ' ';
    std::printf("error compile: %.300s\n", e.c_str()); mj_deleteSpec(s); return;
  }
  int pooltasks = m1->nmesh + m1->ntex;

  // twice
  mjModel* m2 = mj_compile(s, nullptr);
  if (!m2) note("twice", "second-compile-failed"); else { compare_models("twice", m1, m2); mj_deleteModel(m2); }

  // copyspec
  mjSpec* s2 = mj_copySpec(s);
  if (!s2) note("copyspec", "mj_copySpec-failed");
  else {
    mjModel* m3 = mj_compile(s2, nullptr);
    if (!m3) note("copyspec", "compile-of-copy-failed"); else { compare_models("copyspec", m1, m3); mj_deleteModel(m3); }
    mj_deleteSpec(s2);
  }

  // copymodel
  mjModel* m4 = mj_copyModel(nullptr, m1);
  if (!m4) note("copymodel", "mj_copyModel-failed"); else { compare_models("copymodel", m1, m4); mj_deleteModel(m4); }

  // thread on/off
  mjtBool saved = s->compiler.usethread;
  s->compiler.usethread = saved ? 0 : 1;
  mjModel* m5 = mj_compile(s, nullptr);
  if (!m5) note("thread", "compile-failed"); else { compare_models("thread", m1, m5); mj_deleteModel(m5); }
  s->compiler.usethread = saved;

  // recompile: state preservation + same model
  mjModel* mr = mj_compile(s, nullptr);
  mjData* d = mr ? mj_makeData(mr) : nullptr;
  if (!mr || !d) note("recompile", "setup-failed");
  else {
    unsigned st = seed ^ 0x9e3779b9u;
    if (mr->nkey > 0) mj_resetDataKeyframe(mr, d, 0);
    for (int i = 0; i < mr->nu; i++) d->ctrl[i] = 0.6 * unit(st) - 0.3;
    for (int i = 0; i < 3 * mr->nmocap; i++) d->mocap_pos[i] += 0.1 * unit(st);
    for (int k = 0; k < nstep; k++) mj_step(mr, d);
    State before = grab(mr, d);
    int rc = mj_recompile(s, nullptr, mr, d);
    if (rc != 0) { note("recompile", "returned-nonzero"); mr = nullptr; d = nullptr; }
    else {
      compare_models("recompile", m1, mr);
      if (d->time != before.time) note("recompile", "time");
      if (!same_prefix(before.qpos, d->qpos, (size_t)mr->nq) || before.qpos.size() != (size_t)mr->nq) note("recompile", "qpos");
      if (!same_prefix(before.qvel, d->qvel, (size_t)mr->nv) || before.qvel.size() != (size_t)mr->nv) note("recompile", "qvel");
      if (!same_prefix(before.act, d->act, (size_t)mr->na) || before.act.size() != (size_t)mr->na) note("recompile", "act");
      if (!same_prefix(before.ctrl, d->ctrl, (size_t)mr->nu) || before.ctrl.size() != (size_t)mr->nu) note("recompile", "ctrl");
      if (!same_prefix(before.mpos, d->mocap_pos, 3 * (size_t)mr->nmocap)) note("recompile", "mocap_pos");
      if (!same_prefix(before.mquat, d->mocap_quat, 4 * (size_t)mr->nmocap)) note("recompile", "mocap_quat");

      // edit: one more jointed body at the end of the world body; existing state must survive
      for (int k = 0; k < 3; k++) mj_step(mr, d);
      State b2 = grab(mr, d);
      mjsBody* nb = mjs_addBody(mjs_findBody(s, "world"), nullptr);
      mjs_setName(nb->element, "c33_added_body");
      nb->pos[0] = 3.0; nb->pos[2] = 2.0;
      mjsJoint* nj = mjs_addJoint(nb, nullptr);
      mjs_setName(nj->element, "c33_added_joint");
      nj->type = mjJNT_SLIDE;
      nj->ref = 0.25;
      mjsGeom* ng = mjs_addGeom(nb, nullptr);
      ng->type = mjGEOM_SPHERE; ng->size[0] = 0.05; ng->contype = 0; ng->conaffinity = 0;
      int nq0 = mr->nq, nv0 = mr->nv;
      rc = mj_recompile(s, nullptr, mr, d);
      if (rc != 0) { note("edit", "returned-nonzero"); mr = nullptr; d = nullptr; }
      else {
        if (mr->nq != nq0 + 1 || mr->nv != nv0 + 1) note("edit", "sizes");
        else {
          if (d->time != b2.time) note("edit", "time");
          if (!same_prefix(b2.qpos, d->qpos, (size_t)mr->nq)) note("edit", "qpos");
          if (!same_prefix(b2.qvel, d->qvel, (size_t)mr->nv)) note("edit", "qvel");
          if (!same_prefix(b2.act, d->act, (size_t)mr->na)) note("edit", "act");
          if (!same_prefix(b2.ctrl, d->ctrl, (size_t)mr->nu)) note("edit", "ctrl");
          if (!same_prefix(b2.mpos, d->mocap_pos, 3 * (size_t)mr->nmocap)) note("edit", "mocap_pos");
          if (!same_prefix(b2.mquat, d->mocap_quat, 4 * (size_t)mr->nmocap)) note("edit", "mocap_quat");
          if (d->qpos[nq0] != mr->qpos0[nq0]) note("edit", "new-joint-qpos0");
          if (d->qvel[nv0] != 0) note("edit", "new-joint-qvel");
        }
      }
    }
  }
  if (diffs.empty()) std::printf("ok nmesh=%d ntex=%d nq=%d nv=%d nu=%d pooltasks=%d\n", (int)m1->nmesh, (int)m1->ntex, (int)m1->nq, (int)m1->nv, (int)m1->nu, pooltasks);
  else {
    std::printf("DIFF");
    for (auto& x : diffs) std::printf(" %s", x.c_str());
    std::printf("\n");
  }
  if (d) mj_deleteData(d);
  if (mr) mj_deleteModel(mr);
  mj_deleteModel(m1);
  mj_deleteSpec(s);
}

}  // namespace

static void on_alarm(int) {
  // a compile that hangs (e.g. a lost wake-up in the asset thread pool) ends the process with a diagnosable line
  const char msg[] = "TIMEOUT\n";
  ssize_t k = write(1, msg, sizeof msg - 1); (void)k;
  _exit(3);
}

int main() {
  signal(SIGALRM, on_alarm);
  char line[256];
  while (std::fgets(line, sizeof line, stdin)) {
    int ntex, nstep; unsigned seed;
    if (std::sscanf(line, "case %d %u %d", &ntex, &seed, &nstep) != 3 || ntex < 0 || ntex > 32 || nstep < 0 || nstep > 1000) {
      // skip blank lines silently, report anything else
      bool blank = true;
      for (char* c = line; *c; c++) if (*c != ' ' && *c != '\n' && *c != '\r' && *c != '\t') blank = false;
      if (!blank) { std::printf("bad-op\n"); std::fflush(stdout); }
      continue;
    }
    alarm(120);
    run_case(ntex, seed, nstep);
    alarm(0);
    std::fflush(stdout);
  }
  return 0;
}
