#!/usr/bin/env python3
"""XML-enabled variant of the from-source build (DESIGN.md §5.C32 / §5.C37).

harness/build.py replaces /repo/src/xml by stub symbols because src/xml needs tinyxml2, which is not
available offline.  This module builds a SECOND library, libmujoco_verif_xml.so, that contains

  * every engine/user object of the ordinary build (same cache keys: they are shared, not recompiled),
  * src/xml/*.cc of the working tree (xml.cc xml_api.cc xml_base.cc xml_global.cc xml_native_reader.cc
    xml_native_writer.cc xml_numeric_format.cc xml_urdf.cc xml_util.cc, with the checked-in generated tables
    src/xml/generated/*.inc / mjcf_map.h),
  * harness/stubs/tinyxml2/tinyxml2.cc  -- a minimal API-compatible stand-in for tinyxml2 (NOT tinyxml2;
    it joins the trusted base of C32 and C37),

and NOT harness/stubs/xml_stubs.cc.  Left out: src/xml/mjz/*.cc (needs miniz, absent offline; nothing else in
the tree references its symbols -- it only registers a resource decoder/encoder plugin).

  build_xml.py lib [variant]    -> prints the path of libmujoco_verif_xml.so   (variants as build.py)

Object files are cached under /verif/.cache/obj with the same content-hash scheme and the same lock as build.py.
"""
import concurrent.futures as cf
import fcntl
import hashlib
import os
import subprocess
import sys

sys.path.insert(0, os.path.dirname(os.path.abspath(__file__)))
import build  # noqa: E402

SHIM = os.path.join(build.STUBS, "tinyxml2")
XML_EXCLUDE_DIRS = ("mjz",)


def xml_sources():
    d = os.path.join(build.REPO, "src", "xml")
    out = [os.path.join(d, f) for f in sorted(os.listdir(d)) if f.endswith(".cc")]
    out.append(os.path.join(SHIM, "tinyxml2.cc"))
    return out


def xml_flags(variant):
    return build.flags(variant) + ["-I" + SHIM]


def xml_header_hash(base_hh):
    """headers the xml sources can see beyond those of build.header_hash(): src/xml (incl. generated) + shim"""
    h = hashlib.sha256(base_hh.encode())
    for root in (os.path.join(build.REPO, "src", "xml"), SHIM):
        for dp, dn, fn in sorted(os.walk(root)):
            dn.sort()
            for f in sorted(fn):
                if f.endswith((".h", ".inc", ".hpp")):
                    p = os.path.join(dp, f)
                    h.update(os.path.relpath(p, root).encode())
                    with open(p, "rb") as fh:
                        h.update(fh.read())
    return h.hexdigest()


def compile_xml(src, variant, hh):
    cc = ["g++", "-std=c++20"]
    fl = xml_flags(variant)
    rel = os.path.relpath(src, build.REPO) if src.startswith(build.REPO + os.sep) else os.path.relpath(src, build.VERIF)
    flkey = " ".join(cc + fl).replace(build.REPO, "<repo>")
    with open(src, "rb") as fh:
        key = build.sha(fh.read() + hh.encode() + flkey.encode() + rel.encode())
    od = os.path.join(build.CACHE, "obj", key[:2])
    os.makedirs(od, exist_ok=True)
    obj = os.path.join(od, key + ".o")
    if not os.path.exists(obj):
        tmp = obj + ".%d.tmp" % os.getpid()
        r = subprocess.run(cc + fl + ["-c", src, "-o", tmp], capture_output=True, text=True)
        if r.returncode != 0:
            raise RuntimeError("compile failed: %s\n%s" % (src, r.stderr[-4000:]))
        os.replace(tmp, obj)
    else:
        build._touch(obj)
    return obj, key


def build_lib(variant="scalar"):
    os.makedirs(build.CACHE, exist_ok=True)
    with open(os.path.join(build.CACHE, "build.lock"), "w") as lk:
        fcntl.flock(lk, fcntl.LOCK_EX)
        hh = build.header_hash()
        xhh = xml_header_hash(hh)
        base = [s for s in build.sources() if os.path.basename(s) != "xml_stubs.cc"]
        xs = xml_sources()
        with cf.ThreadPoolExecutor(max_workers=os.cpu_count() or 4) as ex:
            f1 = [ex.submit(build.compile_one, s, variant, hh) for s in base]
            f2 = [ex.submit(compile_xml, s, variant, xhh) for s in xs]
            res = [f.result() for f in f1 + f2]
        objs = [o for o, _ in res]
        libkey = build.sha(("".join(k for _, k in res) + variant + "xml").encode())
        ld = os.path.join(build.CACHE, "lib", libkey[:16])
        os.makedirs(ld, exist_ok=True)
        lib = os.path.join(ld, "libmujoco_verif_xml.so")
        if not os.path.exists(lib):
            extra = ["-fsanitize=address,undefined"] if variant == "asan" else []
            tmp = lib + ".%d.tmp" % os.getpid()
            r = subprocess.run(["g++", "-shared", "-o", tmp] + objs + ["-lm", "-lpthread", "-ldl"] + extra,
                               capture_output=True, text=True)
            if r.returncode != 0:
                raise RuntimeError("link failed:\n" + r.stderr[-4000:])
            os.replace(tmp, lib)
        else:
            build._touch(lib)
        build.prune()
        return lib


def build_harness(src, name, variant="scalar", extra=(), deps=()):
    """Build (cached by content) a harness executable linked against the XML-enabled library."""
    os.makedirs(build.CACHE, exist_ok=True)
    lib = build_lib(variant)
    h = hashlib.sha256()
    for p in [src] + list(deps):
        with open(p, "rb") as fh:
            h.update(fh.read())
    h.update(xml_header_hash(build.header_hash()).encode())
    h.update((lib + variant + " ".join(extra)).encode())
    d = os.path.join(build.CACHE, "bin", h.hexdigest()[:16])
    os.makedirs(d, exist_ok=True)
    out = os.path.join(d, name)
    if not os.path.exists(out):
        tmp = out + ".%d.tmp" % os.getpid()
        cxx = src.endswith((".cc", ".cpp"))
        cc = ["g++", "-std=c++20"] if cxx else ["gcc", "-std=gnu11"]
        cmd = cc + xml_flags(variant) + ["-I" + os.path.join(build.VERIF, "harness")] + list(extra) + [src, "-o", tmp]
        cmd += [lib, "-Wl,-rpath," + os.path.dirname(lib), "-lm", "-lpthread", "-ldl"]
        if variant == "asan":
            cmd += ["-fsanitize=address,undefined"]
        r = subprocess.run(cmd, capture_output=True, text=True)
        if r.returncode != 0:
            raise RuntimeError("harness build failed: %s\n%s" % (" ".join(cmd), r.stderr[-6000:]))
        os.replace(tmp, out)
    return out


if __name__ == "__main__":
    what = sys.argv[1] if len(sys.argv) > 1 else "lib"
    variant = sys.argv[2] if len(sys.argv) > 2 else "scalar"
    if what == "lib":
        print(build_lib(variant))
    elif what == "flags":
        print(" ".join(xml_flags(variant)))
