#!/venv/bin/python
"""C47 implementation-side driver: runs the tree's python/mujoco/sysid/_src/model_modifier.py
(never a re-implementation).  Run with /venv/bin/python; usage: c47_logchol.py <repo>

Differential ops (same protocol as lean/Drivers/C47.lean; a number = 16 hex digits of its IEEE bits):
  fwd   <10 θ>   -> pi <13> J <16> th ok <10> | pi <13> J <16> th err
  pseudo <13 pi> -> J <16>
  chol  <16 J>   -> ok <10 U> <10 θ> | err
  apply <10 θ>   -> body <10>       (mass, ipos, fullinertia read back from the MjsBody after
                                     apply_body_theta_inertia, before any compile of the result)
Oracle ops (implementation only; one JSON object per line, numbers as repr floats):
  oracle  <10 θ> -> m, eigenvalues of J = pseudoinertia_from_pi(pi_from_theta θ) and of I_bar (numpy eigvalsh),
                    asymmetry of I_bar / J, cond_2(J), round trip theta_from_pseudoinertia(J) (or LinAlgError)
  compile <10 θ> -> apply_body_theta_inertia on a fresh two-body MjSpec, spec.compile(), the compiled
                    body mass / ipos / inertia / iquat, pi_from_body and theta_inertia_from_body of the result

The MjSpec/MjModel objects come from the pre-built `mujoco` wheel of /venv (NOT the tree's C engine): it is
only the container in which the tree's Python code under test runs.
"""
import json
import os
import struct
import sys
import types

REPO = sys.argv[1] if len(sys.argv) > 1 else os.environ.get("VERIF_REPO", "/repo")
sys.path.insert(0, os.path.join(REPO, "python"))

# optional third-party deps of mujoco.sysid that model_modifier.py does not use
for _n in ("colorama", "yaml", "tabulate"):
    if _n not in sys.modules:
        sys.modules[_n] = types.ModuleType(_n)
sys.modules["colorama"].Fore = types.SimpleNamespace()
sys.modules["colorama"].Style = types.SimpleNamespace()
sys.modules["tabulate"].tabulate = lambda *a, **k: ""

import numpy as np  # noqa: E402
import mujoco  # noqa: E402

# the package __init__ imports plotting/jinja2 etc.: register empty packages and import the module itself
for _p in ("mujoco.sysid", "mujoco.sysid._src"):
    _m = types.ModuleType(_p)
    _m.__path__ = [os.path.join(REPO, "python", *_p.split("."))]
    sys.modules[_p] = _m
import mujoco.sysid._src.model_modifier as MM  # noqa: E402

assert os.path.realpath(MM.__file__).startswith(os.path.realpath(REPO)), MM.__file__


def hx(x):
    x = float(x)
    return "nan" if x != x else struct.pack(">d", x).hex()


def hexs(a):
    return " ".join(hx(v) for v in np.asarray(a, dtype=np.float64).ravel())


def unhex(tok):
    if tok == "nan":
        return float("nan")
    if len(tok) != 16 or any(c not in "0123456789abcdef" for c in tok):
        raise ValueError(tok)
    return struct.unpack(">d", bytes.fromhex(tok))[0]


def make_spec():
    spec = mujoco.MjSpec()
    b = spec.worldbody.add_body(name="b", pos=[0.1, -0.2, 0.3])
    b.add_joint(name="j", type=mujoco.mjtJoint.mjJNT_FREE)
    b.add_geom(name="g", type=mujoco.mjtGeom.mjGEOM_BOX, size=[0.1, 0.2, 0.3], pos=[0.05, 0.0, -0.02])
    c = b.add_body(name="c", pos=[0.0, 0.0, 0.5])
    c.add_joint(name="jc", type=mujoco.mjtJoint.mjJNT_HINGE, axis=[0, 1, 0])
    c.add_geom(name="gc", type=mujoco.mjtGeom.mjGEOM_SPHERE, size=[0.05, 0, 0])
    return spec


def op_fwd(x):
    theta = np.array(x)
    pi = MM.pi_from_theta(theta)
    J = MM.pseudoinertia_from_pi(pi)
    head = "pi " + hexs(pi) + " J " + hexs(J)
    try:
        th = MM.theta_from_pseudoinertia(J)
    except np.linalg.LinAlgError:
        return head + " th err"
    return head + " th ok " + hexs(th)


def op_pseudo(x):
    return "J " + hexs(MM.pseudoinertia_from_pi(np.array(x)))


def op_chol(x):
    J = np.array(x).reshape(4, 4)
    try:
        U = MM.cholesky_decompose_upper(J)
        th = MM.theta_from_pseudoinertia(J)
    except np.linalg.LinAlgError:
        return "err"
    up = [U[0, 0], U[0, 1], U[0, 2], U[0, 3], U[1, 1], U[1, 2], U[1, 3], U[2, 2], U[2, 3], U[3, 3]]
    return "ok " + hexs(up) + " " + hexs(th)


def op_apply(x):
    spec = make_spec()
    MM.apply_body_theta_inertia(spec, "b", np.array(x))
    body = spec.body("b")
    return "body " + hexs([body.mass] + list(body.ipos) + list(np.asarray(body.fullinertia).ravel()))


def op_oracle(x):
    theta = np.array(x)
    pi = MM.pi_from_theta(theta)
    out = {"npi": int(np.size(pi)), "m": float(pi[0]), "h": [float(v) for v in pi[1:4]]}
    I = np.asarray(pi[4:]).reshape(3, 3)
    J = MM.pseudoinertia_from_pi(pi)
    out["asymI"] = float(np.max(np.abs(I - I.T)))
    out["asymJ"] = float(np.max(np.abs(J - J.T)))
    out["eigJ"] = [float(v) for v in np.linalg.eigvalsh(0.5 * (J + J.T))]
    out["eigI"] = [float(v) for v in np.linalg.eigvalsh(0.5 * (I + I.T))]
    out["diagI"] = [float(I[0, 0]), float(I[1, 1]), float(I[2, 2])]
    out["cond"] = float(np.linalg.cond(J))
    try:
        th = MM.theta_from_pseudoinertia(J)
        out["rt"] = [float(v) for v in th]
    except np.linalg.LinAlgError as e:
        out["rt"] = None
        out["rt_exc"] = "LinAlgError: " + str(e)
    return json.dumps(out)


def op_compile(x):
    theta = np.array(x)
    pi = MM.pi_from_theta(theta)
    J = MM.pseudoinertia_from_pi(pi)
    out = {"pi": [float(v) for v in pi], "cond": float(np.linalg.cond(J))}
    spec = make_spec()
    try:
        MM.apply_body_theta_inertia(spec, "b", theta)
        body = spec.body("b")
        out["spec_mass"] = float(body.mass)
        out["spec_ipos"] = [float(v) for v in body.ipos]
        out["spec_full"] = [float(v) for v in np.asarray(body.fullinertia).ravel()]
        model = spec.compile()
        mb = model.body("b")
        out["mass"] = float(mb.mass[0])
        out["ipos"] = [float(v) for v in mb.ipos]
        out["inertia"] = [float(v) for v in mb.inertia]
        out["iquat"] = [float(v) for v in mb.iquat]
        # the untouched child body must keep its mass properties
        out["child_mass"] = float(model.body("c").mass[0])
        back = MM.pi_from_body(spec, "b")
        out["pi_back"] = [float(v) for v in back]
        try:
            out["theta_back"] = [float(v) for v in MM.theta_inertia_from_body(spec, "b")]
        except np.linalg.LinAlgError as e:
            out["theta_back"] = None
            out["theta_back_exc"] = str(e)
    except Exception as e:  # compile errors are the observable of this op
        out["exc"] = type(e).__name__ + ": " + str(e)[:300]
    return json.dumps(out)


OPS = {"fwd": (op_fwd, 10), "pseudo": (op_pseudo, 13), "chol": (op_chol, 16), "apply": (op_apply, 10),
       "oracle": (op_oracle, 10), "compile": (op_compile, 10)}


def main():
    np.seterr(all="ignore")
    out = sys.stdout
    for line in sys.stdin:
        w = line.split()
        if not w or w[0] not in OPS:
            out.write("bad-op\n")
            continue
        f, n = OPS[w[0]]
        try:
            x = [unhex(t) for t in w[1:]]
        except ValueError:
            out.write("bad-op\n")
            continue
        if len(x) != n:
            out.write("bad-op\n")
            continue
        try:
            out.write(f(x) + "\n")
        except Exception as e:
            out.write("EXC %s: %s\n" % (type(e).__name__, str(e)[:200].replace("\n", " ")))
    out.flush()


if __name__ == "__main__":
    main()
