#!/venv/bin/python
"""C47 implementation-side driver: runs the tree's python/mujoco/sysid/_src/model_modifier.py
(never a re-implementation).  Run with /venv/bin/python; usage: c47_logchol.py <repo>

Differential ops (same protocol as lean/Drivers/C47.lean; a number = 16 hex digits of its IEEE bits):
  fwd   <10 θ>   -> pi <13> J <16> th ok <10> | pi <13> J <16> th err
  pseudo <13 pi> -> J <16>
  chol  <16 J>   -> ok <10 U> <10 θ> | err
  apply <10 θ>   -> body <10>       (mass, ipos, fullinertia read back from the MjsBody after
                                     apply_body_theta_inertia, before any compile of the result)
Oracle ops (implementation only; one JSON object per line, numbers as repr floats):
  oracle  <10 θ> -> m, eigenvalues of J = pseudoinertia_from_pi(pi_from_theta θ) and of I_bar (numpy eigvalsh),
                    asymmetry of I_bar / J, cond_2(J), round trip theta_from_pseudoinertia(J) (or LinAlgError)
  compile <10 θ> -> apply_body_theta_inertia on a fresh two-body MjSpec, spec.compile(), the compiled
                    body mass / ipos / inertia / iquat, pi_from_body and theta_inertia_from_body of the result

  aspec <ifg0> <expl0> <hasgeo> <cfg> <10 θ>   (differential op, same line as the Lean driver's)
                 -> spec <ifg> <explicitinertial> body <10> inertia <3> iquat <nan | 4>: the state the REAL
                    apply_body_theta_inertia leaves in a spec built from <cfg> (see build_xml: compiler options
                    inertiafromgeom/balanceinertia/bound*/inertiagrouprange/alignfree/fusestatic/discardvisual, target body
                    with or without geoms / explicit inertial of every flavour / joint kinds / child / parent / frame, and
                    the API sequence); <ifg0> <expl0> are asserted against the built spec
  cspec <ifg0> <expl0> <hasgeo> <cfg> <10 θ>   (oracle op) -> JSON: pristine compile, post-apply spec state, final compile
                    (mass, ipos, inertia, iquat, world-frame COM and inertia), pi_from_body / theta_inertia_from_body,
                    every other body before/after

The MjSpec/MjModel objects come from the pre-built `mujoco` wheel of /venv (NOT the tree's C engine): it is
only the container in which the tree's Python code under test runs.
"""
import json
import os
import struct
import sys
import types

REPO = sys.argv[1] if len(sys.argv) > 1 else os.environ.get("VERIF_REPO", "/repo")
sys.path.insert(0, os.path.join(REPO, "python"))

# optional third-party deps of mujoco.sysid that model_modifier.py does not use
for _n in ("colorama", "yaml", "tabulate"):
    if _n not in sys.modules:
        sys.modules[_n] = types.ModuleType(_n)
sys.modules["colorama"].Fore = types.SimpleNamespace()
sys.modules["colorama"].Style = types.SimpleNamespace()
sys.modules["tabulate"].tabulate = lambda *a, **k: ""

import numpy as np  # noqa: E402
import mujoco  # noqa: E402

# the package __init__ imports plotting/jinja2 etc.: register empty packages and import the module itself
for _p in ("mujoco.sysid", "mujoco.sysid._src"):
    _m = types.ModuleType(_p)
    _m.__path__ = [os.path.join(REPO, "python", *_p.split("."))]
    sys.modules[_p] = _m
import mujoco.sysid._src.model_modifier as MM  # noqa: E402

assert os.path.realpath(MM.__file__).startswith(os.path.realpath(REPO)), MM.__file__


def hx(x):
    x = float(x)
    return "nan" if x != x else struct.pack(">d", x).hex()


def hexs(a):
    return " ".join(hx(v) for v in np.asarray(a, dtype=np.float64).ravel())


def unhex(tok):
    if tok == "nan":
        return float("nan")
    if len(tok) != 16 or any(c not in "0123456789abcdef" for c in tok):
        raise ValueError(tok)
    return struct.unpack(">d", bytes.fromhex(tok))[0]


def make_spec():
    spec = mujoco.MjSpec()
    b = spec.worldbody.add_body(name="b", pos=[0.1, -0.2, 0.3])
    b.add_joint(name="j", type=mujoco.mjtJoint.mjJNT_FREE)
    b.add_geom(name="g", type=mujoco.mjtGeom.mjGEOM_BOX, size=[0.1, 0.2, 0.3], pos=[0.05, 0.0, -0.02])
    c = b.add_body(name="c", pos=[0.0, 0.0, 0.5])
    c.add_joint(name="jc", type=mujoco.mjtJoint.mjJNT_HINGE, axis=[0, 1, 0])
    c.add_geom(name="gc", type=mujoco.mjtGeom.mjGEOM_SPHERE, size=[0.05, 0, 0])
    return spec


def op_fwd(x):
    theta = np.array(x)
    pi = MM.pi_from_theta(theta)
    J = MM.pseudoinertia_from_pi(pi)
    head = "pi " + hexs(pi) + " J " + hexs(J)
    try:
        th = MM.theta_from_pseudoinertia(J)
    except np.linalg.LinAlgError:
        return head + " th err"
    return head + " th ok " + hexs(th)


def op_pseudo(x):
    return "J " + hexs(MM.pseudoinertia_from_pi(np.array(x)))


def op_chol(x):
    J = np.array(x).reshape(4, 4)
    try:
        U = MM.cholesky_decompose_upper(J)
        th = MM.theta_from_pseudoinertia(J)
    except np.linalg.LinAlgError:
        return "err"
    up = [U[0, 0], U[0, 1], U[0, 2], U[0, 3], U[1, 1], U[1, 2], U[1, 3], U[2, 2], U[2, 3], U[3, 3]]
    return "ok " + hexs(up) + " " + hexs(th)


def op_apply(x):
    spec = make_spec()
    MM.apply_body_theta_inertia(spec, "b", np.array(x))
    body = spec.body("b")
    return "body " + hexs([body.mass] + list(body.ipos) + list(np.asarray(body.fullinertia).ravel()))


def op_oracle(x):
    theta = np.array(x)
    pi = MM.pi_from_theta(theta)
    out = {"npi": int(np.size(pi)), "m": float(pi[0]), "h": [float(v) for v in pi[1:4]]}
    I = np.asarray(pi[4:]).reshape(3, 3)
    J = MM.pseudoinertia_from_pi(pi)
    out["asymI"] = float(np.max(np.abs(I - I.T)))
    out["asymJ"] = float(np.max(np.abs(J - J.T)))
    out["eigJ"] = [float(v) for v in np.linalg.eigvalsh(0.5 * (J + J.T))]
    out["eigI"] = [float(v) for v in np.linalg.eigvalsh(0.5 * (I + I.T))]
    out["diagI"] = [float(I[0, 0]), float(I[1, 1]), float(I[2, 2])]
    out["cond"] = float(np.linalg.cond(J))
    try:
        th = MM.theta_from_pseudoinertia(J)
        out["rt"] = [float(v) for v in th]
    except np.linalg.LinAlgError as e:
        out["rt"] = None
        out["rt_exc"] = "LinAlgError: " + str(e)
    return json.dumps(out)


def op_compile(x):
    theta = np.array(x)
    pi = MM.pi_from_theta(theta)
    J = MM.pseudoinertia_from_pi(pi)
    out = {"pi": [float(v) for v in pi], "cond": float(np.linalg.cond(J))}
    spec = make_spec()
    try:
        MM.apply_body_theta_inertia(spec, "b", theta)
        body = spec.body("b")
        out["spec_mass"] = float(body.mass)
        out["spec_ipos"] = [float(v) for v in body.ipos]
        out["spec_full"] = [float(v) for v in np.asarray(body.fullinertia).ravel()]
        model = spec.compile()
        mb = model.body("b")
        out["mass"] = float(mb.mass[0])
        out["ipos"] = [float(v) for v in mb.ipos]
        out["inertia"] = [float(v) for v in mb.inertia]
        out["iquat"] = [float(v) for v in mb.iquat]
        # the untouched child body must keep its mass properties
        out["child_mass"] = float(model.body("c").mass[0])
        back = MM.pi_from_body(spec, "b")
        out["pi_back"] = [float(v) for v in back]
        try:
            out["theta_back"] = [float(v) for v in MM.theta_inertia_from_body(spec, "b")]
        except np.linalg.LinAlgError as e:
            out["theta_back"] = None
            out["theta_back_exc"] = str(e)
    except Exception as e:  # compile errors are the observable of this op
        out["exc"] = type(e).__name__ + ": " + str(e)[:300]
    return json.dumps(out)


# ======================================================================================================
# scenes for the "apply -> compile -> same mass properties" clause
# ======================================================================================================
CFG_DEFAULT = {"ifg": "2", "inr": "none", "ng": "1", "gm": "dens", "gg": "0", "igr": "def", "jt": "free", "ch": "1",
               "chin": "0", "par": "0", "fr": "0", "bal": "0", "bm": "0", "bi": "0", "af": "0", "fs": "0", "dv": "0",
               "vis": "0", "seq": "plain"}
IFG_NAME = ["false", "true", "auto"]
INERTIAL = {
    "none": "",
    "diag": '<inertial pos="0.01 0.02 0.03" mass="2" diaginertia="0.3 0.2 0.25"/>',
    "diagq": '<inertial pos="0.01 0.02 0.03" quat="0.5 0.5 -0.5 0.5" mass="2" diaginertia="0.3 0.2 0.25"/>',
    "full": '<inertial pos="0.01 0.02 0.03" mass="2" fullinertia="0.3 0.2 0.25 0.01 0.02 -0.01"/>',
    "euler": '<inertial pos="0.01 0.02 0.03" euler="10 20 30" mass="2" diaginertia="0.3 0.2 0.25"/>',
    "axisangle": '<inertial pos="0.01 0.02 0.03" axisangle="0 0.6 0.8 40" mass="2" diaginertia="0.3 0.2 0.25"/>',
    "xyaxes": '<inertial pos="0.01 0.02 0.03" xyaxes="1 1 0 -1 1 0" mass="2" diaginertia="0.3 0.2 0.25"/>',
    "zaxis": '<inertial pos="0.01 0.02 0.03" zaxis="0.2 0.3 1" mass="2" diaginertia="0.3 0.2 0.25"/>',
}
GEOMS = ['<geom name="g0" type="box" size="0.1 0.2 0.3" pos="0.05 0 -0.02" %s/>',
         '<geom name="g1" type="capsule" size="0.04 0.15" pos="-0.1 0.05 0.1" euler="30 0 60" %s/>',
         '<geom name="g2" type="ellipsoid" size="0.05 0.08 0.03" pos="0 -0.2 0.05" %s/>']
JOINT = {"free": "<freejoint/>", "hinge": '<joint name="j" type="hinge" axis="0 0 1"/>',
         "ball": '<joint name="j" type="ball"/>', "slide": '<joint name="j" type="slide" axis="1 0 0"/>', "none": ""}


def parse_cfg(tok):
    c = dict(CFG_DEFAULT)
    if tok != "-":
        for kv in tok.split(","):
            k, v = kv.split("=")
            if k not in c:
                raise ValueError(tok)
            c[k] = v
    return c


def build_xml(c):
    comp = ['inertiafromgeom="%s"' % IFG_NAME[int(c["ifg"])]]
    if c["bal"] == "1":
        comp.append('balanceinertia="true"')
    if c["bm"] != "0":
        comp.append('boundmass="%s"' % c["bm"])
    if c["bi"] != "0":
        comp.append('boundinertia="%s"' % c["bi"])
    if c["igr"] != "def":
        comp.append('inertiagrouprange="%s"' % c["igr"].replace("-", " "))
    for k, a in (("af", "alignfree"), ("fs", "fusestatic"), ("dv", "discardvisual")):
        if c[k] == "1":
            comp.append('%s="true"' % a)
    gattr = 'group="%s"' % c["gg"]
    if c["gm"] == "mass":
        gattr += ' mass="1.5"'
    elif c["gm"] == "zero":
        gattr += ' density="0"'
    geoms = "".join(g % gattr for g in GEOMS[:int(c["ng"])])
    if c["vis"] == "1":
        geoms += '<geom name="gv" type="sphere" size="0.02" pos="0.3 0 0" contype="0" conaffinity="0" group="2"/>'
    other_inr = '<inertial pos="0.01 0 0" mass="0.7" diaginertia="0.002 0.003 0.004"/>' if c["chin"] == "1" else ""
    child = ""
    if c["ch"] in ("1", "2"):
        child = '<body name="c" pos="0 0 0.5">%s%s<geom name="gc" size="0.05"/></body>' % (
            '<joint name="jc" axis="0 1 0"/>' if c["ch"] == "1" else "", other_inr)
    target = '<body name="b" pos="0.1 -0.2 0.3" euler="10 20 30">%s%s%s%s</body>' % (
        JOINT[c["jt"]], INERTIAL[c["inr"]], geoms, child)
    if c["fr"] == "1":
        target = '<frame pos="0.2 0 0" euler="0 0 45">%s</frame>' % target
    if c["par"] == "1":
        target = '<body name="p" pos="0 0 1"><joint name="jp" type="hinge" axis="1 0 0"/>%s' \
                 '<geom name="gp" type="capsule" size="0.03 0.2"/>%s</body>' % (
                     '<inertial pos="0 0 0.01" mass="1.1" diaginertia="0.02 0.02 0.001"/>' if c["chin"] == "1" else "", target)
    return '<mujoco><compiler %s/><worldbody>%s</worldbody></mujoco>' % (" ".join(comp), target)


def theta_other(theta):
    """a second, different parameter vector derived from theta (for the sequences that apply twice)"""
    return np.array([0.5 * v for v in theta[::-1]]) + 0.1


def apply_sequence(spec, c, theta):
    """the API sequence under test; returns the spec whose compile is judged"""
    seq = c["seq"]
    if seq == "precompile":
        spec.compile()
    if seq == "copy":
        spec = spec.copy()
    if seq == "twice":
        MM.apply_body_theta_inertia(spec, "b", theta_other(theta))
    if seq == "otherfirst":
        MM.apply_body_theta_inertia(spec, "c", theta_other(theta))
    if seq == "param":
        from mujoco.sysid._src import parameter as P
        prm = P.Parameter("b_inertia", theta, theta - 1.0, theta + 1.0)
        prm.inertia_type = P.InertiaType.Pseudo
        MM.apply_body_inertia(spec, "b", prm)
    else:
        r = MM.apply_body_theta_inertia(spec, "b", theta)
        if r is not spec:
            raise AssertionError("apply_body_theta_inertia did not return the spec it was given")
    if seq == "thenother":
        MM.apply_body_theta_inertia(spec, "c", theta_other(theta))
    if seq == "recompile":
        spec.compile()
    return spec


def body_table(model):
    out = {}
    for i in range(1, model.nbody):
        b = model.body(i)
        out[b.name] = [float(b.mass[0])] + [float(v) for v in b.ipos] + [float(v) for v in b.inertia] + \
                      [float(v) for v in b.iquat]
    return out


def world_inertial(model, name):
    """world-frame COM and inertia tensor of a body at qpos0 (frame-invariant view of its mass properties)"""
    data = mujoco.MjData(model)
    mujoco.mj_kinematics(model, data)
    mujoco.mj_comPos(model, data)
    i = model.body(name).id
    R = np.asarray(data.ximat[i]).reshape(3, 3)
    Iw = R @ np.diag(model.body_inertia[i]) @ R.T
    return [float(v) for v in data.xipos[i]], [float(v) for v in Iw.ravel()]


def precheck(spec, c, ifg0, expl0):
    got = (int(spec.compiler.inertiafromgeom), int(bool(spec.body("b").explicitinertial)))
    if got != (ifg0, expl0):
        raise AssertionError("scene/flags mismatch: built spec has (ifg, explicit) = %r, line says %r" % (got, (ifg0, expl0)))


def spec_state(spec):
    body = spec.body("b")
    iq = np.asarray(body.iquat, dtype=np.float64).ravel()
    return {"ifg": int(spec.compiler.inertiafromgeom), "explicit": int(bool(body.explicitinertial)),
            "mass": float(body.mass), "ipos": [float(v) for v in body.ipos],
            "full": [float(v) for v in np.asarray(body.fullinertia).ravel()],
            "inertia": [float(v) for v in body.inertia], "iquat": [float(v) for v in iq]}


def op_aspec(ifg0, expl0, hasgeo, cfgtok, x):
    c = parse_cfg(cfgtok)
    spec = mujoco.MjSpec.from_string(build_xml(c))
    precheck(spec, c, ifg0, expl0)
    spec = apply_sequence(spec, c, np.array(x))
    st = spec_state(spec)
    iq = st["iquat"]
    return "spec %d %d body %s inertia %s iquat %s" % (
        st["ifg"], st["explicit"], hexs([st["mass"]] + st["ipos"] + st["full"]), hexs(st["inertia"]),
        "nan" if all(v != v for v in iq) else hexs(iq))


def judged_outputs(spec, out):
    model = spec.compile()
    mb = model.body("b")
    out["mass"] = float(mb.mass[0])
    out["ipos"] = [float(v) for v in mb.ipos]
    out["inertia"] = [float(v) for v in mb.inertia]
    out["iquat"] = [float(v) for v in mb.iquat]
    out["xipos"], out["Iw"] = world_inertial(model, "b")
    out["after"] = body_table(model)
    return model


def op_cspec(ifg0, expl0, hasgeo, cfgtok, x):
    c = parse_cfg(cfgtok)
    theta = np.array(x)
    pi = MM.pi_from_theta(theta)
    out = {"pi": [float(v) for v in pi], "cond": float(np.linalg.cond(MM.pseudoinertia_from_pi(pi))),
           "pi_other": [float(v) for v in MM.pi_from_theta(theta_other(theta))]}
    xml = build_xml(c)
    stage = "pristine"
    try:
        pristine = mujoco.MjSpec.from_string(xml)
        precheck(pristine, c, ifg0, expl0)
        try:
            out["before"] = body_table(pristine.compile())
        except Exception as e:
            out["invalid"] = type(e).__name__ + ": " + str(e)[:200]
            return json.dumps(out)
        if c["ifg"] != "2":
            # what every body compiles to when only the caller's inertiafromgeom is replaced by AUTO
            try:
                out["auto_ref"] = body_table(mujoco.MjSpec.from_string(build_xml(dict(c, ifg="2"))).compile())
            except Exception:
                out["auto_ref"] = None
        stage = "apply"
        spec = apply_sequence(mujoco.MjSpec.from_string(xml), c, theta)
        out["post"] = spec_state(spec)
        f = out["post"]["full"]
        out["eigF"] = [float(v) for v in np.linalg.eigvalsh(np.array([[f[0], f[3], f[4]], [f[3], f[1], f[5]], [f[4], f[5], f[2]]]))] \
            if all(v == v for v in f) else None
        stage = "compile"
        judged_outputs(spec, out)
        stage = "pi_from_body"
        out["pi_back"] = [float(v) for v in MM.pi_from_body(spec, "b")]
        try:
            out["theta_back"] = [float(v) for v in MM.theta_inertia_from_body(spec, "b")]
        except np.linalg.LinAlgError as e:
            out["theta_back"] = None
            out["theta_back_exc"] = str(e)
        if c["af"] == "1":
            # frame-invariant reference: the same scene and sequence without free-joint alignment
            stage = "twin"
            c2 = dict(c, af="0")
            spec2 = apply_sequence(mujoco.MjSpec.from_string(build_xml(c2)), c2, theta)
            tw = {}
            m2 = judged_outputs(spec2, tw)
            tw["pi_back"] = [float(v) for v in MM.pi_from_body(spec2, "b")]
            out["twin"] = {k: tw[k] for k in ("mass", "ipos", "inertia", "xipos", "Iw", "pi_back")}
            out["aligned"] = bool(np.max(np.abs(np.asarray(out["ipos"]) - np.asarray(tw["ipos"]))) > 0 or
                                  np.max(np.abs(np.asarray(out["after"]["b"][7:]) - np.asarray(tw["after"]["b"][7:]))) > 0)
    except Exception as e:  # exceptions of apply / compile are the observable of this op
        out["exc"] = type(e).__name__ + ": " + str(e)[:300].replace("\n", " ")
        out["stage"] = stage
    return json.dumps(out)


def scene_op(f, w):
    if len(w) != 15:
        return "bad-op"
    if w[1] not in ("0", "1", "2") or w[2] not in ("0", "1") or w[3] not in ("0", "1"):
        return "bad-op"
    try:
        parse_cfg(w[4])
        x = [unhex(t) for t in w[5:]]
    except ValueError:
        return "bad-op"
    return f(int(w[1]), int(w[2]), int(w[3]), w[4], x)


OPS = {"fwd": (op_fwd, 10), "pseudo": (op_pseudo, 13), "chol": (op_chol, 16), "apply": (op_apply, 10),
       "oracle": (op_oracle, 10), "compile": (op_compile, 10)}


def main():
    np.seterr(all="ignore")
    out = sys.stdout
    for line in sys.stdin:
        w = line.split()
        if w and w[0] in ("aspec", "cspec"):
            try:
                out.write(scene_op(op_aspec if w[0] == "aspec" else op_cspec, w) + "\n")
            except Exception as e:
                out.write("EXC %s: %s\n" % (type(e).__name__, str(e)[:200].replace("\n", " ")))
            continue
        if not w or w[0] not in OPS:
            out.write("bad-op\n")
            continue
        f, n = OPS[w[0]]
        try:
            x = [unhex(t) for t in w[1:]]
        except ValueError:
            out.write("bad-op\n")
            continue
        if len(x) != n:
            out.write("bad-op\n")
            continue
        try:
            out.write(f(x) + "\n")
        except Exception as e:
            out.write("EXC %s: %s\n" % (type(e).__name__, str(e)[:200].replace("\n", " ")))
    out.flush()


if __name__ == "__main__":
    main()
