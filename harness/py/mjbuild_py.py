"""mjbuild_py.py — builds a `mujoco.MjSpec` (pre-built wheel in /venv) from the line-based model description of
/verif/gen/models.py, mirroring /verif/harness/mjbuild.h line for line (same ops, same "write a prefix of the
field" semantics), so that ONE description can be instantiated in C (tree build, harness/c/engine_repl.c) and in
Python (wheel MjSpec -> MjModel container -> the tree's MJX `put_model`).

    spec = build(lines)            # raises BuildError with the same kind of message as mjb_build
    model = compile_model(lines)   # build + spec.compile()

The description carries enumerators as the integers of the TREE's headers (gen/enums.py); the wheel's enums
must have the same values for every enumerator name (checked by `enum_mismatches(tree_enums)`; the checks
turn a mismatch into a failed environment obligation instead of building a different model silently).
"""
import numpy as np

import mujoco


class BuildError(Exception):
    pass


_BODY_CHILD = {"body": "add_body", "frame": "add_frame", "joint": "add_joint", "freejoint": "add_freejoint",
               "geom": "add_geom", "site": "add_site", "camera": "add_camera", "light": "add_light"}
_SPEC_CHILD = {"actuator": "add_actuator", "sensor": "add_sensor", "tendon": "add_tendon", "equality": "add_equality",
               "pair": "add_pair", "exclude": "add_exclude", "key": "add_key", "numeric": "add_numeric",
               "text": "add_text", "tuple": "add_tuple", "mesh": "add_mesh"}


def _num(tok, integer=False):
    if integer:
        return int(tok, 0)
    if tok[:1] == "x":
        return float(np.frombuffer(int(tok[1:], 16).to_bytes(8, "little"), dtype=np.float64)[0])
    return float(tok)


def _setfield(kind, obj, field, toks):
    o = obj
    parts = field.split(".")
    for p in parts[:-1]:
        if not hasattr(o, p):
            raise BuildError("unknown field %s.%s" % (kind, field))
        o = getattr(o, p)
    name = parts[-1]
    if not hasattr(o, name):
        raise BuildError("unknown field %s.%s" % (kind, field))
    cur = getattr(o, name)
    if isinstance(cur, str):
        if len(toks) != 1:
            raise BuildError("string field %s needs one token" % field)
        setattr(o, name, "" if toks[0] == "~" else toks[0])
        return
    if isinstance(cur, np.ndarray):
        if len(toks) > cur.size or len(toks) < 1:
            raise BuildError("field %s.%s takes 1..%d values, got %d" % (kind, field, cur.size, len(toks)))
        v = np.array(cur, copy=True).reshape(-1)
        integer = np.issubdtype(v.dtype, np.integer)
        for i, t in enumerate(toks):
            v[i] = _num(t, integer)
        setattr(o, name, v.reshape(cur.shape))
        return
    if isinstance(cur, bool):
        if len(toks) != 1:
            raise BuildError("field %s.%s takes 1..1 values, got %d" % (kind, field, len(toks)))
        setattr(o, name, bool(int(toks[0], 0)))
        return
    if isinstance(cur, int):
        if len(toks) != 1:
            raise BuildError("field %s.%s takes 1..1 values, got %d" % (kind, field, len(toks)))
        setattr(o, name, int(toks[0], 0))
        return
    if isinstance(cur, float):
        if len(toks) != 1:
            raise BuildError("field %s.%s takes 1..1 values, got %d" % (kind, field, len(toks)))
        setattr(o, name, _num(toks[0]))
        return
    tname = type(cur).__name__
    if tname.startswith("mjt"):     # enum-typed field: the description carries the integer
        if len(toks) != 1:
            raise BuildError("field %s.%s takes 1..1 values, got %d" % (kind, field, len(toks)))
        try:
            setattr(o, name, type(cur)(int(toks[0], 0)))
        except Exception as e:
            raise BuildError("field %s.%s: %s is not an enumerator of %s (%s)" % (kind, field, toks[0], tname, e))
        return
    if tname in ("MjDoubleVec", "MjFloatVec", "MjIntVec") or hasattr(cur, "__len__"):
        conv = (lambda t: int(t, 0)) if tname == "MjIntVec" else _num
        setattr(o, name, [conv(t) for t in toks])
        return
    raise BuildError("field %s.%s has unsupported type %s" % (kind, field, tname))


def build(lines):
    """lines: iterable of description lines (an "end" line stops); returns a new MjSpec"""
    s = mujoco.MjSpec()
    H = {0: ("body", s.worldbody)}
    for raw in lines:
        tok = raw.split()
        if not tok or tok[0].startswith("#"):
            continue
        op = tok[0]
        if op == "end":
            break
        if op in ("spec", "option", "compiler"):
            if len(tok) < 3:
                raise BuildError("short line: %s" % op)
            base = s if op == "spec" else s.option if op == "option" else s.compiler
            _setfield(op, base, tok[1], tok[2:])
            continue
        if len(tok) < 2:
            raise BuildError("short line: %s" % op)
        h = int(tok[1])
        if h < 0 or h >= 4096:
            raise BuildError("handle out of range: %d" % h)
        if op == "set":
            if len(tok) < 4 or h not in H:
                raise BuildError("bad set on handle %d" % h)
            _setfield(H[h][0], H[h][1], tok[2], tok[3:])
            continue
        if op == "name":
            if len(tok) < 3 or h not in H:
                raise BuildError("bad name on handle %d" % h)
            try:
                H[h][1].name = tok[2]
            except Exception as e:
                raise BuildError("mjs_setName failed for %s (%s)" % (tok[2], e))
            continue
        if op == "setframe":
            fh = int(tok[2]) if len(tok) > 2 else -1
            if h not in H or fh not in H or H[fh][0] != "frame":
                raise BuildError("bad setframe")
            H[h][1].set_frame(H[fh][1])
            continue
        if op == "wrap":
            if len(tok) < 4 or h not in H or H[h][0] != "tendon":
                raise BuildError("bad wrap")
            td = H[h][1]
            if tok[2] == "joint":
                td.wrap_joint(tok[3], float(tok[4]) if len(tok) > 4 else 1.0)
            elif tok[2] == "site":
                td.wrap_site(tok[3])
            elif tok[2] == "geom":
                td.wrap_geom(tok[3], tok[4] if len(tok) > 4 and tok[4] != "~" else "")
            elif tok[2] == "pulley":
                td.wrap_pulley(float(tok[3]))
            else:
                raise BuildError("wrap failed")
            continue
        if op == "tupleadd":
            raise BuildError("tupleadd is not supported by this builder")
        if op == "makemesh":
            raise BuildError("makemesh is not supported by the Python builder")
        if h in H:
            raise BuildError("handle %d reused" % h)
        if op in _BODY_CHILD:
            ph = int(tok[2]) if len(tok) > 2 else 0
            if ph not in H or H[ph][0] != "body":
                raise BuildError("%s %d: bad parent body handle %d" % (op, h, ph))
            e = getattr(H[ph][1], _BODY_CHILD[op])()
            H[h] = ("joint" if op == "freejoint" else op, e)
            continue
        if op in _SPEC_CHILD:
            H[h] = (op, getattr(s, _SPEC_CHILD[op])())
            continue
        raise BuildError("unknown op %s" % op)
    return s


def compile_model(lines):
    s = build(lines)
    try:
        return s.compile(), s
    except Exception as e:
        raise BuildError("compile: %s" % e)


def enum_mismatches(tree_enums):
    """tree_enums: dict name -> value parsed from the tree's headers; returns the list of enumerators whose value in
    the wheel differs or that the wheel does not have (restricted to the families a description can contain)."""
    fams = ("mjJNT_", "mjGEOM_", "mjTRN_", "mjDYN_", "mjGAIN_", "mjBIAS_", "mjEQ_", "mjSENS_", "mjOBJ_", "mjINT_",
            "mjCONE_", "mjJAC_", "mjSOL_", "mjDSBL_", "mjENBL_", "mjLIMITED_", "mjWRAP_", "mjSTATE_", "mjNSTATE",
            "mjCNSTR_", "mjCAMLIGHT_", "mjNENABLE", "mjNDISABLE")
    classes = [getattr(mujoco, n) for n in dir(mujoco) if n.startswith("mjt")]
    bad = []
    for name, v in tree_enums.items():
        if not name.startswith(fams):
            continue
        got = None
        for c in classes:
            if hasattr(c, name):
                got = int(getattr(c, name))
                break
        if got != v:
            bad.append((name, v, got))
    return bad
