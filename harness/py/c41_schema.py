#!/usr/bin/env python
"""C41 implementation-side driver: runs the tree's doc/generate/mjcf_schema.py (never a re-implementation).

Line protocol (ASCII on the wire), identical to lean/Drivers/C41.lean:
  parse <text>   text with every character outside 0x20..0x7e, and the backslash, written \\u{hex}
                 -> `ok <canonical dump>` | `error <line> <class>` | `EXC <ExceptionType>`
  classes        -> tables of the interpreter's `\\d` (re), `int()` digit values and `str.isspace()`
Usage: c41_schema.py <repo>
"""
import os
import re
import struct
import sys

REPO = sys.argv[1] if len(sys.argv) > 1 else os.environ.get("VERIF_REPO", "/repo")
sys.path.insert(0, os.path.join(REPO, "doc", "generate"))
import mjcf_schema as M  # noqa: E402

ESC = re.compile(r"\\u\{([0-9a-f]{1,6})\}")


def decode(s):
    """Inverse of the wire escaping; None if malformed."""
    out = []
    i, n = 0, len(s)
    while i < n:
        c = s[i]
        if c == "\\":
            m = ESC.match(s, i)
            if not m:
                return None
            cp = int(m.group(1), 16)
            if cp > 0x10FFFF or 0xD800 <= cp <= 0xDFFF:
                return None
            out.append(chr(cp))
            i = m.end()
        elif 0x20 <= ord(c) <= 0x7E:
            out.append(c)
            i += 1
        else:
            return None
    return "".join(out)


def esc(s):
    return "".join(c if (0x21 <= ord(c) <= 0x7E and c not in '\\"') else "\\u{%x}" % ord(c) for c in s)


def q(s):
    return '"' + esc(s) + '"'


def opt(s):
    return "-" if s is None else q(s)


def dbl(x):
    return struct.pack(">d", float(x)).hex()


# message template -> class (ordered; first match wins).  An unknown message is reported verbatim so that a
# message added to the tree shows up as a disagreement with the model.
CLASSES = [
    (r"unexpected character ", "badChar"),
    (r"expected 'enum', 'group' or 'element', got ", "badDecl"),
    (r"expected enum keyword, got ", "enumKey"),
    (r"expected C constant or number, got ", "enumVal"),
    (r"expected cardinality \(\? ! \* R\), got ", "card"),
    (r"expected arity bound, got ", "arityBound"),
    (r"expected integer, got ", "notInt"),
    (r"expected default value, got ", "badDefault"),
    (r"expected facet value, got ", "facetValue"),
    (r"expected '(?P<k>[^']+)', got ", None),
    (r"duplicate enum keyword ", "dupEnumKey"),
    (r"duplicate enum '", "dupEnum"),
    (r"duplicate group '", "dupGroup"),
    (r"duplicate element '", "dupElement"),
    (r"enum '.*' is empty$", "emptyEnum"),
    (r"group '.*' is empty$", "emptyGroup"),
    (r"'\w+' needs at least two attributes$", "conTwo"),
    (r"'set' is not allowed in a group$", "setInGroup"),
    (r"'child' is not allowed in a group$", "childInGroup"),
    (r"unknown type ", "unknownType"),
    (r"arity range \[.*\] is not increasing$", "arityRange"),
    (r"arity may not be negative$", "negArity"),
    (r"unknown facet ", "unknownFacet"),
    (r"duplicate facet ", "dupFacet"),
    (r"group use cycle: ", "cycle"),
    (r"constraint references unknown attribute ", "conUnknown"),
    (r"variant group '.*' may not contain 'use'$", "variantUse"),
    (r"attribute '.*' in variant group '.*' may not be required$", "variantRequired"),
    (r"use of undeclared group ", "danglingUse"),
    (r"element facet '.*' requires a name$", "facetName"),
    (r"alias references undeclared element ", "danglingAlias"),
    (r"child references undeclared element ", "danglingChild"),
    (r"duplicate child ", "dupChild"),
    (r"duplicate attribute '.*' in element '.*' \(directly or via use\)$", "dupAttr"),
    (r"'requires' takes exactly two attributes$", "requiresTwo"),
    (r"attribute '.*' references undeclared enum ", "danglingEnum"),
    (r"attribute '.*' references namespace '.*', which no id<.*> declares$", "danglingRef"),
    (r"\w+ attribute '.*' may not be a vector$", "notVector"),
    (r"chars attribute '.*' must declare a bounded length$", "charsUnbounded"),
    (r"facet 'pattern' requires a text attribute$", "patternText"),
    (r"facet '(min|max)' requires a numeric attribute and value$", "minMaxNumeric"),
    (r"facet 'min' cannot be greater than 'max'$", "minMaxOrder"),
    (r"facet 'positive' requires a numeric attribute$", "positiveNumeric"),
    (r"attribute '.*' is required and has a default$", "requiredDefault"),
    (r"default for enum attribute '.*' must be a keyword$", "enumDefaultKeyword"),
    (r"default '.*' is not a keyword of enum ", "enumDefaultNotKw"),
    (r"\w+ attribute '.*' may not have a default$", "noDefaultAllowed"),
    (r"default for bool attribute '.*' must be true or false$", "boolDefault"),
    (r"default for \w+ attribute '.*' must be a string$", "stringDefault"),
    (r"default for numeric attribute '.*' must be numeric$", "numericDefault"),
    (r"vector default for scalar attribute ", "vectorForScalar"),
    (r"default for '.*' has \d+ values, arity requires at least \d+$", "defaultTooShort"),
    (r"default for '.*' has \d+ values, arity allows at most \d+$", "defaultTooLong"),
]
CLASSES = [(re.compile(p, re.S), c) for p, c in CLASSES]


def classify(msg):
    for rx, cls in CLASSES:
        m = rx.match(msg)
        if m:
            return cls if cls is not None else "expected[%s]" % m.group("k")
    return "UNKNOWN-MESSAGE:" + esc(msg)


def hi_str(h):
    if h is None:
        return "-"
    if isinstance(h, str):
        return "s" + q(h)
    return "n%d" % h


def default_str(d):
    if d is None:
        return ["-"]
    if isinstance(d, tuple):
        return ["v%d" % len(d)] + [dbl(x) for x in d]
    if isinstance(d, str):
        return ["s" + q(d)]
    return ["f" + dbl(d)]


def facets_str(fs):
    out = [str(len(fs))]
    for k, v in fs.items():
        out.append(q(k))
        if v is True:
            out.append("T")
        elif isinstance(v, str):
            out.append("s" + q(v))
        else:
            out.append("f" + dbl(v))
    return out


def member_str(m):
    if isinstance(m, M.Attr):
        return (["attr", q(m.name), m.type, opt(m.target), str(m.arity.lo), hi_str(m.arity.hi)]
                + default_str(m.default) + facets_str(m.facets) + [opt(m.doc), str(m.line)])
    if isinstance(m, M.Use):
        return ["use", q(m.group), str(m.line)]
    if isinstance(m, M.Child):
        return ["child", q(m.name), m.card, opt(m.doc), str(m.line)]
    if isinstance(m, M.Const):
        return ["const", q(m.field), q(m.value), opt(m.doc), str(m.line)]
    if isinstance(m, M.Constraint):
        out = ["con", m.kind, str(len(m.bundles))]
        for b in m.bundles:
            out.append(str(len(b)))
            out += [q(n) for n in b]
        return out + [opt(m.doc), str(m.line)]
    return ["UNKNOWN-MEMBER:" + type(m).__name__]


def schema_str(s):
    out = ["ok", "enums", str(len(s.enums))]
    for name, e in s.enums.items():
        out += ["enum", q(e.name), opt(e.ctype), opt(e.doc), str(e.line), str(len(e.items))]
        for k, v in e.items:
            out += [q(k), q(v)]
        if name != e.name:
            out.append("KEY-MISMATCH")
    out += ["groups", str(len(s.groups))]
    for name, g in s.groups.items():
        out += ["group", q(g.name), "1" if g.variant else "0", opt(g.doc), str(g.line), str(len(g.members))]
        for m in g.members:
            out += member_str(m)
        if name != g.name:
            out.append("KEY-MISMATCH")
    out += ["elements", str(len(s.elements))]
    for name, e in s.elements.items():
        out += ["element", q(e.name), opt(e.spec)] + facets_str(e.facets) + [opt(e.doc), str(e.line),
                                                                              str(len(e.members))]
        for m in e.members:
            out += member_str(m)
        if name != e.name:
            out.append("KEY-MISMATCH")
    return " ".join(out)


def run_parse(text):
    try:
        s = M.parse_string(text)
    except M.SchemaError as e:
        return "error %d %s" % (e.line, classify(e.message))
    except BaseException as e:  # noqa: BLE001 - any other exception is itself a violation of the property
        return "EXC " + type(e).__name__
    try:
        return schema_str(s)
    except BaseException as e:  # noqa: BLE001
        return "EXC-DUMP " + type(e).__name__


def classes():
    d = re.compile(r"\d")
    starts = []
    c = 0
    bad = False
    while c < 0x110000:
        if 0xD800 <= c <= 0xDFFF or not d.match(chr(c)):
            c += 1
            continue
        # a run of ten consecutive digits with values 0..9 for int() and float()
        ok = all(d.match(chr(c + j)) and int(chr(c + j)) == j and float(chr(c + j)) == j for j in range(10))
        if not ok:
            bad = True
            break
        starts.append(c)
        c += 10
    sp = [c for c in range(0x110000) if not (0xD800 <= c <= 0xDFFF) and chr(c).isspace()]
    for c in sp:  # str.strip() strips exactly the isspace() characters
        if (chr(c) + "x" + chr(c)).strip() != "x":
            bad = True
    return ("BAD-RUNS " if bad else "") + "nd " + ",".join(map(str, starts)) + " sp " + ",".join(map(str, sp))


def main():
    out = sys.stdout
    for line in sys.stdin:
        if line.endswith("\n"):
            line = line[:-1]
        if line == "classes":
            out.write(classes() + "\n")
        elif line == "parse":
            out.write(run_parse("") + "\n")
        elif line.startswith("parse "):
            text = decode(line[6:])
            out.write(("bad-op" if text is None else run_parse(text)) + "\n")
        else:
            out.write("bad-op\n")
    out.flush()


if __name__ == "__main__":
    main()
