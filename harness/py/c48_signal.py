#!/usr/bin/env python
"""C48 implementation-side driver: runs the tree's sysid signal modifiers (never a re-implementation).

  python/mujoco/sysid/_src/timeseries.py, signal_modifier.py, signal_transform.py of <repo>

Line protocol identical to lean/Drivers/C48.lean (sections separated by `|`, a series is
`n m L ; t.. ; d.. ; name:i,j ..`, floats as 16 hex digits of the IEEE bits):

  resample S | nt..            bias/gain S | name | v..         delay S | name | d
  window S | lo hi             dwindow S | t2.. | minD maxD
  rdelay / rdelaycol S | nt.. | dflt | name=d .. | pred
  gb S | label | pat target v.. , .. | pat target v.. , ..
  apply Spred | Smeas | pat:pname:val:min:max , .. | gains | biases | normalize     (facts mode only: SignalTransform.apply)

Every line may end with one more section `| types key=tag ..` (see lean/Drivers/C48.lean for the keys, tags and
validation rules, mirrored here): it selects the PYTHON-LEVEL REPRESENTATION in which the same numbers are handed to
the real code -- python int/float, numpy scalars (float64/float32/int64/int32), python lists vs arrays, integer-dtype
arrays for times / data / parameter values, 1-D `data`, mapping indices as int32 arrays or through
`TimeSeries.create` (list / bare int), `sensor_delays` as an empty dict instead of None, `predicted_data` as int or
numpy bool.  A tag that cannot represent its value exactly is `bad-op`, so the expected result never depends on it.

Output: `ok n m ; t.. ; d..` | `error <kind>` | `bad-op` | `EXC <Type> <message>`.

With --facts each output line is a JSON object instead: the canonical line plus what the property oracle
needs, all measured around the call of the real code:
  mutated   inputs whose bytes (`.tobytes()`), shape or strides differ after the call
  rebound   input objects no longer referenced (`id`) by the series / parameter that held them
  alias     pairs [output array, input array] with np.shares_memory
  ro_write  a second call on fresh, read-only copies of the inputs failed with numpy's read-only error
  self_id   ts.resample(ts.times) compared with ts.data ("eq" | "ne" | "nan" | "n/a")
  colwise_equal / ref_equal   grouped result == the tree's own column-wise / per-call reference
  indep_colwise   apply_resample_and_delay vs a column-by-column computation that shares NOTHING with it but
                  `TimeSeries.resample` on one-column float64 series: own per-column delay table built here from the
                  numbers of the op line as python floats ("eq" | "ne <first differing cell>" | "raised <exc>" when the
                  grouped call raised an unclassified exception but the column-by-column computation succeeded)
  out_dtype       dtype of the returned data when it is not float64 (modifiers that interpolate must return floats)
Usage: c48_signal.py <repo> [--facts]
"""
import json
import os
import struct
import sys
import types
import warnings

REPO = sys.argv[1] if len(sys.argv) > 1 and not sys.argv[1].startswith("--") else os.environ.get("VERIF_REPO", "/repo")
FACTS = "--facts" in sys.argv

# ---- import the tree's modules without the optional dependencies of the sysid package __init__ ----
sys.path.insert(0, os.path.join(REPO, "python"))


class _Blank:
    def __getattr__(self, k):
        return ""


for _n in ("colorama", "yaml", "tabulate"):
    sys.modules.setdefault(_n, types.ModuleType(_n))
sys.modules["colorama"].Fore = _Blank()
sys.modules["colorama"].Style = _Blank()
sys.modules["tabulate"].tabulate = lambda *a, **k: ""
import mujoco  # noqa: E402  (the tree's python/mujoco/__init__.py; the compiled bindings are not used by the anchors)

for _name, _sub in (("mujoco.sysid", "python/mujoco/sysid"), ("mujoco.sysid._src", "python/mujoco/sysid/_src")):
    _p = types.ModuleType(_name)
    _p.__path__ = [os.path.join(REPO, _sub)]
    sys.modules[_name] = _p
import numpy as np  # noqa: E402
from mujoco.sysid._src import parameter as P  # noqa: E402
from mujoco.sysid._src import signal_modifier as SM  # noqa: E402
from mujoco.sysid._src import signal_transform as ST  # noqa: E402
from mujoco.sysid._src import timeseries as T  # noqa: E402

for _m in (P, SM, ST, T):
    assert os.path.realpath(_m.__file__).startswith(os.path.realpath(REPO) + os.sep), _m.__file__
warnings.simplefilter("ignore")
np.seterr(all="ignore")


class Bad(Exception):
    pass


def f_of(tok):
    if tok == "nan":
        return float("nan")
    if len(tok) != 16 or any(c not in "0123456789abcdef" for c in tok):
        raise Bad()
    return struct.unpack(">d", bytes.fromhex(tok))[0]


def hexf(x):
    x = float(x)
    if x != x:
        return "nan"
    return struct.pack(">d", x).hex()


def words(s):
    return s.split()


def nat(s):
    if not s or not all("0" <= c <= "9" for c in s):
        raise Bad()
    return int(s)


def valid_name(s):
    return bool(s) and all((c.isascii() and c.isalnum()) or c == "_" for c in s)


INT_MAX = 2147483647.0
DATA_I64_OPS = ("resample", "rdelay", "rdelaycol", "window", "dwindow")
DATA_1D_OPS = ("resample", "window", "dwindow")


def is_integral(x):
    return x == x and abs(x) != float("inf") and x == float(int(x)) and abs(x) <= INT_MAX


def is_f32(x):
    if x != x or abs(x) == float("inf"):
        return False
    try:
        return struct.unpack("f", struct.pack("f", x))[0] == x
    except OverflowError:
        return False


def scalar_tag_ok(tag, x):
    if tag in ("float", "npf64"):
        return True
    if tag in ("int", "npi64", "npi32"):
        return is_integral(x)
    if tag == "npf32":
        return is_f32(x)
    return False


def array_tag_ok(tag, xs):
    if tag in ("f64", "view"):
        return True
    if tag == "i64":
        return all(is_integral(x) for x in xs)
    return False


def value_tag_ok(tag, v):
    if tag in ("arr", "list"):
        return True
    if tag in ("ilist", "i64"):
        return all(is_integral(x) for x in v)
    if tag == "f32":
        return all(is_f32(x) for x in v)
    if tag in ("float", "npf64"):
        return len(v) == 1
    if tag == "int":
        return len(v) == 1 and is_integral(v[0])
    return False


def list_tag_ok(ok, tags, vals):
    ts = tags.split(",")
    return len(ts) == len(vals) and all(ok(t, v) for t, v in zip(ts, vals))


def parse_types(sec):
    w = words(sec)
    if not w or w[0] != "types":
        raise Bad()
    out = []
    for x in w[1:]:
        kv = x.split("=")
        if len(kv) != 2 or not kv[0] or not kv[1]:
            raise Bad()
        out.append((kv[0], kv[1]))
    return out


def check_types(tys, allowed):
    keys = [k for k, _ in tys]
    if len(set(keys)) != len(keys):
        raise Bad()
    for k, t in tys:
        if k not in allowed or not allowed[k](t):
            raise Bad()
    return dict(tys)


def general_keys(op, spec):
    return {
        "data": lambda t: t == "f64" or (t == "i64" and op in DATA_I64_OPS and all(is_integral(x) for x in spec["data"]))
        or (t == "1d" and spec["m"] == 1 and op in DATA_1D_OPS),
        "tsd": lambda t: t != "view" and array_tag_ok(t, spec["times"]),
        "idx": lambda t: t in ("i64", "i32", "list", "int"),
    }


def scalar_as(tag, x):
    """the number x in the python-level representation `tag`"""
    if tag == "float":
        return float(x)
    if tag == "int":
        return int(x)
    if tag == "npf64":
        return np.float64(x)
    if tag == "npf32":
        return np.float32(x)
    if tag == "npi64":
        return np.int64(int(x))
    if tag == "npi32":
        return np.int32(int(x))
    raise Bad()


def array_as(tag, xs, inputs, key):
    """a 1-D array of the numbers xs: float64, int64 or a strided float64 view into a larger buffer"""
    if tag == "i64":
        a = np.array([int(x) for x in xs], dtype=np.int64)
    elif tag == "view":
        base = np.full(3 * len(xs) + 2, -333.0)
        a = base[1::3][:len(xs)]
        a[...] = np.array(xs, dtype=np.float64)
        inputs[key + ".base"] = base
    else:
        a = np.array(xs, dtype=np.float64)
    inputs[key] = a
    return a


def nominal_as(tag, v):
    """the `nominal` argument of Parameter (float | array-like) for the numbers v"""
    if tag == "arr":
        return np.array(v, dtype=np.float64)
    if tag == "list":
        return [float(x) for x in v]
    if tag == "ilist":
        return [int(x) for x in v]
    if tag == "i64":
        return np.array([int(x) for x in v], dtype=np.int64)
    if tag == "f32":
        return np.array(v, dtype=np.float32)
    if tag == "float":
        return float(v[0])
    if tag == "npf64":
        return np.float64(v[0])
    if tag == "int":
        return int(v[0])
    raise Bad()


def parse_series(sec):
    parts = [p.strip() for p in sec.split(";")]
    if len(parts) != 4:
        raise Bad()
    hd = words(parts[0])
    if len(hd) != 3 or hd[2] not in ("c", "f", "v"):
        raise Bad()
    n, m = nat(hd[0]), nat(hd[1])
    ts = [f_of(w) for w in words(parts[1])]
    ds = [f_of(w) for w in words(parts[2])]
    if len(ts) != n or len(ds) != n * m:
        raise Bad()
    mapping = []
    for w in words(parts[3]):
        kv = w.split(":")
        if len(kv) != 2 or not valid_name(kv[0]):
            raise Bad()
        idx = [nat(x) for x in kv[1].split(",")] if kv[1] else []
        mapping.append((kv[0], idx))
    return {"n": n, "m": m, "lay": hd[2], "times": ts, "data": ds, "mapping": mapping}


def build_series(spec, tag, inputs, ty=None):
    """Fresh arrays + the real TimeSeries (may raise like any construction by a user)."""
    ty = ty or {}
    n, m, lay = spec["n"], spec["m"], spec["lay"]
    dkind = ty.get("data", "f64")
    ddt = np.int64 if dkind == "i64" else np.float64
    if dkind == "i64":
        vals = np.array([int(x) for x in spec["data"]], dtype=np.int64).reshape(n, m)
    else:
        vals = np.array(spec["data"], dtype=np.float64).reshape(n, m)
    tdt = np.int64 if ty.get("tsd") == "i64" else np.float64
    tv = np.array([int(x) for x in spec["times"]], dtype=np.int64) if tdt is np.int64 else np.array(spec["times"], dtype=np.float64)
    if lay == "c":
        data, times = vals.copy(order="C"), tv.copy()
    elif lay == "f":
        data, times = np.asfortranarray(vals), tv.copy()
    else:  # strided views into larger buffers
        base = np.full((n, 2 * m + 1), 777, dtype=ddt)
        data = base[:, 1::2][:, :m]
        data[...] = vals
        tb = np.full(2 * n + 1, -555, dtype=tdt)
        times = tb[1::2][:n]
        times[...] = tv
        inputs[tag + ".data.base"] = base
        inputs[tag + ".times.base"] = tb
    if dkind == "1d":
        data = data[:, 0] if lay == "v" else np.ascontiguousarray(data[:, 0])   # rank-1 `data` (a strided view for layout v)
    inputs[tag + ".times"] = times
    inputs[tag + ".data"] = data
    ikind = ty.get("idx", "i64")
    sm = {}
    for k, (name, idx) in enumerate(spec["mapping"]):
        if ikind in ("list", "int"):
            # (an empty python list would become a float64 array in create(): keep an integer array for it)
            sm[name] = (T.SignalType.CustomObs, idx[0] if ikind == "int" and len(idx) == 1 else
                        list(idx) if idx else np.array([], dtype=int))
            continue
        ia = np.array(idx, dtype=np.int32 if ikind == "i32" else int)
        inputs["%s.map.%s" % (tag, name)] = ia
        sm[name] = (T.SignalType.CustomObs, ia)
    if ikind in ("list", "int"):
        ts = T.TimeSeries.create(times, data, sm)   # the documented constructor for list / int index entries
        for name, (_, ia) in ts.signal_mapping.items():
            inputs["%s.map.%s" % (tag, name)] = ia
        return ts
    return T.TimeSeries(times, data, sm)


def classify(e):
    s = str(e)
    if isinstance(e, IndexError):
        return "error bad-index"
    if isinstance(e, ValueError):
        if "Empty arrays" in s:
            return "error empty"
        if "strictly increasing" in s:
            return "error not-increasing"
        if "not in the observation name map" in s:
            return "error unknown-signal"
        if "broadcast" in s:
            return "error bad-shape"
        if "min_delay must be" in s:
            return "error min-gt-max"
    return "EXC %s %s" % (type(e).__name__, s.replace("\n", " ")[:160])


def show(times, data, rank1=False):
    times = np.asarray(times)
    data = np.asarray(data)
    n = data.shape[0]
    if rank1:      # rank-1 data in: rank-1 data out is shown as one column
        m = 1 if data.ndim == 1 else -2
    else:
        m = data.shape[1] if data.ndim == 2 else -1
    return "ok %d %d ; %s ; %s" % (n, m, " ".join(hexf(x) for x in times),
                                   " ".join(hexf(x) for x in data.reshape(-1)))


def param(name, vals, lo=None, hi=None, form="arr"):
    v = np.array(vals, dtype=np.float64)
    return P.Parameter(name, nominal_as(form, vals), v - 1.0 if lo is None else lo, v + 1.0 if hi is None else hi)


def parse_entries(sec):
    out = []
    if not words(sec):
        return out
    for e in sec.split(","):
        w = words(e)
        if len(w) < 2 or not (w[0] == "*" or valid_name(w[0])) or w[1] not in ("predicted", "measured", "both"):
            raise Bad()
        out.append((w[0], w[1], [f_of(x) for x in w[2:]]))
    return out


def parse_delays(sec):
    out = []
    for w in words(sec):
        kv = w.split("=")
        if len(kv) != 2 or not valid_name(kv[0]):
            raise Bad()
        out.append((kv[0], f_of(kv[1])))
    return out


def prepare(line):
    """Parse one op line.  Returns make() -> (inputs, holders, call, outputs_of) building FRESH inputs."""
    secs = [s.strip() for s in line.split("|")]
    w0 = words(secs[0].split(";")[0])
    if not w0:
        raise Bad()
    op = w0[0]
    tys = []
    if len(secs) > 1 and words(secs[-1])[:1] == ["types"]:
        tys = parse_types(secs[-1])
        secs = secs[:-1]
    sec0 = secs[0][secs[0].index(op) + len(op):]
    spec = parse_series(sec0)
    rest = secs[1:]
    gen = general_keys(op, spec)

    def typed(extra):
        return check_types(tys, dict(gen, **extra))

    def one(x):
        if len(x) != 1:
            raise Bad()
        return x[0]

    if op == "resample" and len(rest) == 1:
        nt = [f_of(x) for x in words(rest[0])]
        ty = typed({"nt": lambda t: array_tag_ok(t, nt)})
        spec["ty"] = ty

        def make():
            inp = {}
            ts = build_series(spec, "ts", inp, ty)
            a = array_as(ty.get("nt", "f64"), nt, inp, "new_times")
            return inp, [(ts, "times", "ts.times"), (ts, "data", "ts.data")], (lambda: ts.resample(a)), ts
        return op, spec, make
    if op in ("bias", "gain", "delay") and len(rest) == 2:
        name = one(words(rest[0]))
        vals = [f_of(x) for x in words(rest[1])]
        if op == "delay" and len(vals) != 1:
            raise Bad()
        ty = typed({"v": lambda t: value_tag_ok(t, vals)})
        spec["ty"] = ty
        fn = {"bias": SM.apply_bias, "gain": SM.apply_gain, "delay": SM.apply_delay}[op]

        def make():
            inp = {}
            ts = build_series(spec, "ts", inp, ty)
            p = param("p", vals, form=ty.get("v", "arr"))
            inp["param.value"] = p.value
            return inp, [(ts, "times", "ts.times"), (ts, "data", "ts.data"), (p, "value", "param.value")], (lambda: fn(ts, name, p)), ts
        return op, spec, make
    if op == "window" and len(rest) == 1:
        b = [f_of(x) for x in words(rest[0])]
        if len(b) != 2:
            raise Bad()
        ty = typed({"lo": lambda t: scalar_tag_ok(t, b[0]), "hi": lambda t: scalar_tag_ok(t, b[1])})
        spec["ty"] = ty

        def make():
            inp = {}
            ts = build_series(spec, "ts", inp, ty)
            lo, hi = scalar_as(ty.get("lo", "float"), b[0]), scalar_as(ty.get("hi", "float"), b[1])
            return inp, [(ts, "times", "ts.times"), (ts, "data", "ts.data")], (lambda: SM.apply_time_window(ts, lo, hi)), ts
        return op, spec, make
    if op == "dwindow" and len(rest) == 2:
        t2 = [f_of(x) for x in words(rest[0])]
        b = [f_of(x) for x in words(rest[1])]
        if len(b) != 2:
            raise Bad()
        ty = typed({"t2": lambda t: array_tag_ok(t, t2), "lo": lambda t: scalar_tag_ok(t, b[0]), "hi": lambda t: scalar_tag_ok(t, b[1])})
        spec["ty"] = ty

        def make():
            inp = {}
            ts = build_series(spec, "ts", inp, ty)
            ta = array_as(ty.get("t2", "f64"), t2, inp, "ts_delayed.times")
            da = np.zeros((len(t2), 1))
            inp["ts_delayed.data"] = da
            tsd = T.TimeSeries(ta, da, None)
            lo, hi = scalar_as(ty.get("lo", "float"), b[0]), scalar_as(ty.get("hi", "float"), b[1])
            return inp, [(ts, "times", "ts.times"), (ts, "data", "ts.data")], (lambda: SM.apply_delayed_ts_window(ts, tsd, lo, hi)), ts
        return op, spec, make
    if op in ("rdelay", "rdelaycol") and len(rest) == 4:
        nt = [f_of(x) for x in words(rest[0])]
        dflt = one([f_of(x) for x in words(rest[1])])
        sd = parse_delays(rest[2])
        pred = {"0": False, "1": True}.get(one(words(rest[3])))
        if pred is None:
            raise Bad()
        ty = typed({"nt": lambda t: array_tag_ok(t, nt), "dflt": lambda t: scalar_tag_ok(t, dflt),
                    "sd": lambda t: list_tag_ok(scalar_tag_ok, t, [d for _, d in sd]),
                    "sdc": lambda t: t in ("auto", "dict"), "pred": lambda t: t in ("bool", "int", "npbool")})
        spec["ty"] = ty
        sdt = ty["sd"].split(",") if "sd" in ty else ["float"] * len(sd)

        def make():
            inp = {}
            ts = build_series(spec, "ts", inp, ty)
            a = array_as(ty.get("nt", "f64"), nt, inp, "times_arg")
            sdd = {nm: scalar_as(t, d) for (nm, d), t in zip(sd, sdt)}
            dv = scalar_as(ty.get("dflt", "float"), dflt)
            pv = {"bool": pred, "int": int(pred), "npbool": np.bool_(pred)}[ty.get("pred", "bool")]
            sda = sdd if (sdd or ty.get("sdc") == "dict") else None
            if op == "rdelay":
                call = lambda: SM.apply_resample_and_delay(ts, a, dv, sda, pv)  # noqa: E731
            else:
                def call():
                    delays = SM._build_per_column_delays(ts, dv, sda, pv)
                    # same validation of the target times as the grouped path performs through TimeSeries(...)
                    return T.TimeSeries(a, SM._apply_resample_and_delay_columnwise(ts, a, delays), ts.signal_mapping)
            return inp, [(ts, "times", "ts.times"), (ts, "data", "ts.data")], call, (ts, a, dv, sda, pv)
        spec["rdelay_args"] = (nt, dflt, sd, pred)
        return op, spec, make
    if op == "gb" and len(rest) == 3:
        label = one(words(rest[0]))
        if label not in ("predicted", "measured"):
            raise Bad()
        gains, biases = parse_entries(rest[1]), parse_entries(rest[2])
        ty = typed({"gv": lambda t: list_tag_ok(value_tag_ok, t, [v for _, _, v in gains]),
                    "bv": lambda t: list_tag_ok(value_tag_ok, t, [v for _, _, v in biases])})
        spec["ty"] = ty
        forms = {"g": ty["gv"].split(",") if "gv" in ty else ["arr"] * len(gains),
                 "b": ty["bv"].split(",") if "bv" in ty else ["arr"] * len(biases)}

        def make():
            inp = {}
            ts = build_series(spec, "ts", inp, ty)
            tr = ST.SignalTransform()
            pd = P.ParameterDict()
            holders = [(ts, "times", "ts.times"), (ts, "data", "ts.data")]
            for kind, ents in (("g", gains), ("b", biases)):
                for k, (pat, target, v) in enumerate(ents):
                    p = param("%s%d" % (kind, k), v, form=forms[kind][k])
                    pd.add(p)
                    inp["param.%s.value" % p.name] = p.value
                    holders.append((p, "value", "param.%s.value" % p.name))
                    (tr.gain if kind == "g" else tr.bias)(pat, p, target)
            return inp, holders, (lambda: tr._apply_gains_biases(ts, label, pd)), (ts, tr, pd, label)
        return op, spec, make
    if op == "apply" and len(rest) == 5:
        spec2 = parse_series(rest[0])
        dl = []
        if words(rest[1]):
            for e in rest[1].split(","):
                f = e.strip().split(":")
                if len(f) != 5 or not (f[0] == "*" or valid_name(f[0])) or not valid_name(f[1]):
                    raise Bad()
                dl.append((f[0], f[1], f_of(f[2]), f_of(f[3]), f_of(f[4])))
        gains, biases = parse_entries(rest[2]), parse_entries(rest[3])
        norm = {"0": False, "1": True}.get(one(words(rest[4])))
        if norm is None:
            raise Bad()
        # oracle-only op: `dv` = form of the delay parameters' nominal (one tag for all), `idx`, `gv`/`bv` as for gb
        ty = check_types(tys, {"idx": gen["idx"], "dv": lambda t: all(value_tag_ok(t, [d[2]]) for d in dl),
                               "gv": lambda t: list_tag_ok(value_tag_ok, t, [v for _, _, v in gains]),
                               "bv": lambda t: list_tag_ok(value_tag_ok, t, [v for _, _, v in biases])})
        spec["ty"] = ty
        forms = {"g": ty["gv"].split(",") if "gv" in ty else ["arr"] * len(gains),
                 "b": ty["bv"].split(",") if "bv" in ty else ["arr"] * len(biases)}

        def make():
            inp = {}
            tp = build_series(spec, "pred", inp, ty)
            tm = build_series(spec2, "meas", inp, ty)
            tr = ST.SignalTransform(normalize=norm)
            pd = P.ParameterDict()
            holders = [(tp, "times", "pred.times"), (tp, "data", "pred.data"), (tm, "times", "meas.times"), (tm, "data", "meas.data")]
            for pat, pname, v, lo, hi in dl:
                if pname not in pd:
                    p = param(pname, [v], np.array([lo]), np.array([hi]), form=ty.get("dv", "arr"))
                    pd.add(p)
                    for fld in ("value", "min_value", "max_value"):
                        inp["param.%s.%s" % (pname, fld)] = getattr(p, fld)
                        holders.append((p, fld, "param.%s.%s" % (pname, fld)))
                tr.delay(pat, pd[pname])
            for kind, ents in (("g", gains), ("b", biases)):
                for k, (pat, target, v) in enumerate(ents):
                    p = param("%s%d" % (kind, k), v, form=forms[kind][k])
                    pd.add(p)
                    inp["param.%s.value" % p.name] = p.value
                    holders.append((p, "value", "param.%s.value" % p.name))
                    (tr.gain if kind == "g" else tr.bias)(pat, p, target)
            return inp, holders, (lambda: tr.apply(pd, tp, tm, None, False)), None
        return op, spec, make
    raise Bad()


def snap(inputs):
    return {k: (id(a), a.tobytes(), a.shape, a.strides, str(a.dtype)) for k, a in inputs.items()}


def out_arrays(out):
    if isinstance(out, T.TimeSeries):
        return {"out.times": out.times, "out.data": out.data}
    if isinstance(out, tuple):  # SignalTransform.apply
        res, a, b = out
        return {"out.res": res, "out.pred.times": a.times, "out.pred.data": a.data,
                "out.meas.times": b.times, "out.meas.data": b.data}
    return {}


def canonical(op, out, rank1=False):
    if isinstance(out, Exception):
        return classify(out)
    if isinstance(out, T.TimeSeries):
        return show(out.times, out.data, rank1)
    if isinstance(out, tuple):
        return show(out[2].times, out[0])
    return "EXC BadResult %s" % type(out).__name__


def indep_columnwise(spec, out):
    """apply_resample_and_delay against the column-by-column definition of its docstring, computed WITHOUT the delay
    table, the grouping or any other part of signal_modifier.py: the per-column delays are rebuilt here from the numbers
    of the op line (python floats: default for every column, overridden per named sensor, negated for predicted data),
    then every column is resampled on its own, as a fresh one-column float64 series, at `times + delay[column]`."""
    nt, dflt, sd, pred = spec["rdelay_args"]
    n, m = spec["n"], spec["m"]
    X = np.array(spec["times"], dtype=np.float64)
    D = np.array(spec["data"], dtype=np.float64).reshape(n, m)
    q = np.array(nt, dtype=np.float64)
    per = [float(dflt)] * m
    mp = dict(spec["mapping"])
    try:
        for name, d in dict(sd).items():
            for i in mp[name]:
                if i >= m:
                    raise IndexError(i)
                per[i] = float(d)
        if pred:
            per = [-d for d in per]
        want = np.concatenate([T.TimeSeries(X.copy(), D[:, i:i + 1].copy(), None).resample(q + per[i]).data for i in range(m)], axis=1)
    except Exception:
        return None       # the arguments are invalid for the column-by-column computation as well
    if isinstance(out, Exception):
        c = classify(out)
        return "raised " + c if c.startswith("EXC") else None
    got = np.asarray(out.data)
    if got.shape != want.shape:
        return "ne shape %r vs %r" % (got.shape, want.shape)
    neq = ~((got == want) | ((got != got) & (want != want)))
    if neq.any():
        r, c = [int(x) for x in np.argwhere(neq)[0]]
        return "ne row %d col %d (delay %r): grouped %r column-by-column %r" % (r, c, per[c], float(got[r, c]), float(want[r, c]))
    return "eq"


def run_plain(line):
    try:
        op, spec, make = prepare(line)
    except (Bad, ValueError, IndexError):
        return "bad-op"
    if op == "apply":
        return "bad-op"  # oracle-only op (not modelled)
    try:
        _, _, call, _ = make()
        out = call()
    except Exception as e:  # the real code's own exceptions are part of its behaviour
        out = e
    return canonical(op, out, spec.get("ty", {}).get("data") == "1d")


def run_facts(line):
    try:
        op, spec, make = prepare(line)
    except (Bad, ValueError, IndexError):
        return {"out": "bad-op"}
    facts = {"op": op, "mutated": [], "rebound": [], "alias": [], "ro_write": False, "self_id": "n/a",
             "colwise_equal": None, "ref_equal": None, "construct_error": None, "indep_colwise": None}
    # ---- pass 1: the call as a user would make it, snapshots around it
    try:
        inputs, holders, call, aux = make()
    except Exception as e:
        facts["out"] = classify(e)
        facts["construct_error"] = facts["out"]
        return facts
    before = snap(inputs)
    try:
        out = call()
    except Exception as e:
        out = e
    after = snap(inputs)
    facts["out"] = canonical(op, out, spec.get("ty", {}).get("data") == "1d")
    if isinstance(out, T.TimeSeries) and isinstance(out.data, np.ndarray) and out.data.dtype != np.float64:
        facts["out_dtype"] = str(out.data.dtype)
    for k in inputs:
        if before[k][1:] != after[k][1:]:
            facts["mutated"].append(k)
    for obj, attr, key in holders:
        if id(getattr(obj, attr)) != before[key][0]:
            facts["rebound"].append(key)
    for on, oa in out_arrays(out).items():
        for k, a in inputs.items():
            if k.endswith(".base"):
                continue
            if isinstance(oa, np.ndarray) and oa.size and a.size and np.shares_memory(oa, a):
                facts["alias"].append([on, k])
            if oa is a:
                facts["alias"].append([on + " is", k])
    # ---- pass 2: fresh inputs, read-only
    try:
        inputs2, _, call2, _ = make()
        for a in inputs2.values():
            a.flags.writeable = False
        try:
            call2()
        except ValueError as e:
            if "read-only" in str(e):
                facts["ro_write"] = True
    except Exception:
        pass
    # ---- extra real-code calls for the other clauses
    try:
        inputs3, _, _, aux3 = make()
        if op == "gb":
            ts3, tr, pd, label = aux3
            ref = tr._apply_gains_biases_reference(ts3, label, pd)
            if isinstance(out, T.TimeSeries):
                facts["ref_equal"] = bool(np.array_equal(ref.data, out.data, equal_nan=True))
            ts3 = ts3
        elif op == "apply":
            ts3 = None
        elif op in ("rdelay", "rdelaycol"):
            ts3 = aux3[0]
        else:
            ts3 = aux3
        if ts3 is not None:
            r = ts3.resample(ts3.times.copy())
            if np.isnan(r.data).any():
                facts["self_id"] = "nan"
            else:
                facts["self_id"] = "eq" if np.array_equal(r.data, ts3.data) and np.array_equal(r.times, ts3.times) else "ne"
        if op == "rdelay" and isinstance(out, T.TimeSeries):
            # the tree's own reference, called with the very same (typed) arguments
            _, a3, dv3, sda3, pv3 = aux3
            delays = SM._build_per_column_delays(ts3, dv3, sda3, pv3)
            ref = SM._apply_resample_and_delay_columnwise(ts3, a3, delays)
            facts["colwise_equal"] = bool(np.array_equal(ref, out.data, equal_nan=True))
        if op == "rdelay":
            facts["indep_colwise"] = indep_columnwise(spec, out)
    except Exception as e:
        facts["extra_error"] = "%s %s" % (type(e).__name__, str(e)[:120])
    return facts


def main():
    out = sys.stdout
    for line in sys.stdin:
        line = line.rstrip("\n")
        if FACTS:
            out.write(json.dumps(run_facts(line)) + "\n")
        else:
            out.write(run_plain(line) + "\n")
    out.flush()


if __name__ == "__main__":
    main()
