#!/usr/bin/env python3
"""C32 implementation side of the TABLE-LEVEL tie: which attributes the real writer puts on an element.

Reads the op lines of lean/Drivers/C32.lean from stdin
    w <table> D ... A ... B ... # <tag> <instance-path> <hex of the MJCF document>
For every line the document goes through the real code (harness/cc/c32_roundtrip, op `save`: mj_parseXMLString ->
mj_compile -> mj_saveXMLString at precision 17) and the saved text is inspected: the attributes of the element
`default/<tag>` (top-level default class) and of the element at <instance-path>, restricted to the rows of <table>
that mjXWriter::WriteAttrTable handles (numeric / keyword kinds, not `handwrite`), printed in row order as
    ok D <attr=tok,tok;...|-> E <attr=...|->
with numeric tokens as x<bits of the double the reader would get> (float rows rounded to float first) and keyword
tokens as w<word> -- the output format of the model driver.  No re-implementation of the writer: this script only
parses the XML text that the real writer produced.

Lines  i <compiler settings> (B ... (G ...)*)* # <hex of the MJCF document>  (inertia-source model, bodies named b1.. in
the order of the op line, geoms named g<id>) go through op `inert` of the same binary; printed from the saved text and
the two compiled models:   ok C <those of inertiafromgeom,discardvisual,inertiagrouprange,saveinertial present on the
saved <compiler>, or -> B <1 iff the body has an <inertial> child>:<ids of its geoms joined by +, or ->:<bits of
body_mass in the original model>:<bits of body_mass in the model compiled from the saved text, or fail> B ...

Lines  s <t0> <t1> <d0> <d1> # <hex>  (variable-arity springlength writer): the springlength attribute of ./tendon/spatial
in the saved text, "ok x<bits>[,x<bits>]" or "ok -".

usage: c32_saved_attrs.py <c32_roundtrip binary> <McjfDefaults.json>
"""
import json
import struct
import subprocess
import sys
import xml.etree.ElementTree as ET

NUM = {"kInt", "kDouble", "kNum", "kFloat"}
KEY = {"kEnum", "kEnumByte", "kBool"}


def bits(x):
    return "x%016x" % struct.unpack("<Q", struct.pack("<d", x))[0]


def tok(row, text):
    if row["kind"] in KEY:
        return "w" + text
    out = []
    for t in text.split():
        v = float(t)
        if row["kind"] == "kFloat":
            v = struct.unpack("<f", struct.pack("<f", v))[0]
        if v == 0.0:
            v = 0.0   # -0 and +0 are the same attribute value for the comparison
        out.append(bits(v))
    return ",".join(out)


def show(elem, rows):
    if elem is None:
        return "-"
    parts = []
    for r in rows:
        if r["kind"] not in NUM | KEY or r["handwrite"]:
            continue
        if r["attr"] in elem.attrib:
            parts.append(r["attr"] + "=" + tok(r, elem.attrib[r["attr"]]))
    return ";".join(parts) if parts else "-"


def inertial(s, nbody):
    text, m0, m1 = s
    root = ET.fromstring(text)
    comp = root.find("./compiler")
    ca = [a for a in ("inertiafromgeom", "discardvisual", "inertiagrouprange", "saveinertial")
          if comp is not None and a in comp.attrib]
    bodies = {b.get("name"): b for b in root.iter("body")}
    mass0 = dict(x.rsplit(":", 1) for x in m0.split(",")) if m0 != "-" else {}
    mass1 = dict(x.rsplit(":", 1) for x in m1.split(",")) if m1 not in ("-", "fail") else {}
    parts = []
    for i in range(1, nbody + 1):
        b = bodies.get("b%d" % i)
        if b is None:
            return "err body b%d not found in the saved text" % i
        ids = [g.get("name", "")[1:] for g in b.findall("geom")]
        parts.append("B %d:%s:%s:%s" % (b.find("inertial") is not None, "+".join(ids) if ids else "-", mass0.get("b%d" % i, "?"),
                                        "fail" if m1 == "fail" else mass1.get("b%d" % i, "?")))
    return "ok C %s %s" % (",".join(ca) if ca else "-", " ".join(parts))


def main():
    binary, jpath = sys.argv[1], sys.argv[2]
    tables = {t["name"]: t["rows"] for t in json.load(open(jpath))["tables"]}
    lines = [l.rstrip("\n") for l in sys.stdin if l.strip()]
    reqs = []
    for i, l in enumerate(lines):
        head, _, tail = l.partition(" # ")
        w = head.split(" ")
        t = tail.split(" ")
        if w[0] == "s" and len(t) == 1:
            reqs.append(("s", None, None, t[0]))
            continue
        if w[0] == "i" and len(t) == 1:
            reqs.append(("i", w.count("B"), None, t[0]))
            continue
        if w[0] != "w" or len(t) != 3 or w[1] not in tables:
            reqs.append(None)
            continue
        reqs.append((w[1], t[0], t[1], t[2]))
    inp = "prec 17\n" + "".join("%s d%d %s\n" % ("inert" if r[0] == "i" else "save", i, r[3]) for i, r in enumerate(reqs) if r)
    p = subprocess.run([binary], input=inp, capture_output=True, text=True)
    saved = {}
    for o in p.stdout.split("\n"):
        w = o.split(" ")
        if len(w) >= 5 and w[0].startswith("d") and w[1] == "saved":
            saved[int(w[0][1:])] = (bytes.fromhex(w[2][4:]).decode(), w[3][3:], w[4][3:])
        elif len(w) >= 3 and w[0].startswith("d") and w[1] == "saved":
            saved[int(w[0][1:])] = bytes.fromhex(w[2][4:]).decode()
        elif len(w) >= 2 and w[0].startswith("d") and w[0][1:].isdigit():
            saved[int(w[0][1:])] = None if w[1] != "skip" else ("skip", o)
    for i, r in enumerate(reqs):
        if r is None:
            print("bad-op")
            continue
        s = saved.get(i)
        if s is None:
            print("err save failed")
            continue
        if isinstance(s, tuple) and s[0] == "skip":
            print("err " + s[1].split(" ", 1)[1][:200])
            continue
        if r[0] == "i":
            print(inertial(s, r[1]) if isinstance(s, tuple) else "err no masses reported")
            continue
        if r[0] == "s":
            # the springlength attribute of the (only) spatial tendon in the saved text
            e = ET.fromstring(s).find("./tendon/spatial")
            a = None if e is None else e.get("springlength")
            print("err tendon not found in the saved text" if e is None else
                  "ok " + (",".join(bits(float(x) + 0.0) for x in a.split()) if a else "-"))
            continue
        table, tag, path, _ = r
        root = ET.fromstring(s)
        d = root.find("./default/" + tag)
        e = root.find(path)
        if e is None and path.count("/") == 1:
            # a top-level section (<option>) is not emitted at all when the writer has no attribute to put on it
            print("ok D %s E -" % show(d, tables[table]))
            continue
        if e is None:
            print("err instance element not found in the saved text")
            continue
        print("ok D %s E %s" % (show(d, tables[table]), show(e, tables[table])))


if __name__ == "__main__":
    main()
