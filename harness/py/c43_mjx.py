#!/venv/bin/python
"""c43_mjx.py — implementation side of C43: the real MJX of the tree ($VERIF_REPO/mjx), x64, CPU.

  env                                   versions, enum check of the wheel against the tree's headers     -> json
  math <fn> hex ...                     a function of mjx/_src/math.py or support.py on IEEE-bit tokens  -> hex ... | error:<why>
  kbi rs ts sr0 sr1 d0 d1 width mid power pos   constraint._kbi(m, solref, solimp, pos) of the tree with m.opt.timestep = ts and the
                                        REFSAFE disable bit set iff rs = 0 (hex tokens)                  -> hex k b imp | error:<why>
  model <id> ; line | line | ...        build (harness/py/mjbuild_py.py, wheel MjSpec), put_model, make_data
                                        -> "ok name=value ..." | "notimplemented <where>: <message>" | "error <why>"
  setm <field> v ...                    overwrite a numeric array of the compiled MjModel (or opt.<name>) in place, same shape; the
                                        mjx.Model is re-created by put_model before the next forward/step/out (the jitted functions
                                        are kept: the tree structure is unchanged)                        -> ok | bad-op
  mdump                                 numeric arrays of the wheel-compiled MjModel that mjx.Model reads -> json
  state <json>                          set qpos/qvel/act/ctrl/mocap_*/qfrc_applied/xfrc_applied/time     -> ok
  forward | step <n>                    jit(mjx.forward) / n x jit(mjx.step) on the current data          -> ok
  out <name> ...                        fields of mjx.Data (public or _impl), "M_dense", "efc", "contacts" -> json
The wheel's engine never computes anything here: the wheel is the MjSpec compiler and the MjModel container.
"""
import json
import os
import struct
import sys
import types as _pytypes

REPO = os.environ.get("VERIF_REPO", "/repo")
HERE = os.path.dirname(os.path.abspath(__file__))
VERIF = os.path.dirname(os.path.dirname(HERE))
os.environ.setdefault("JAX_ENABLE_X64", "1")
os.environ.setdefault("JAX_PLATFORMS", "cpu")
sys.path.insert(0, os.path.join(REPO, "mjx"))
sys.path.insert(0, HERE)
_tm = _pytypes.ModuleType("trimesh")
_tm.Trimesh = type("Trimesh", (object,), {})
sys.modules["trimesh"] = _tm

import contextlib  # noqa: E402
import io as _io  # noqa: E402

with contextlib.redirect_stdout(_io.StringIO()), contextlib.redirect_stderr(_io.StringIO()):
    import jax  # noqa: E402
    jax.config.update("jax_compilation_cache_dir", os.path.join(VERIF, ".cache", "jax"))
    jax.config.update("jax_persistent_cache_min_compile_time_secs", 0)
    jax.config.update("jax_persistent_cache_min_entry_size_bytes", -1)
    import jax.numpy as jp  # noqa: E402
    import numpy as np  # noqa: E402
    import mujoco  # noqa: E402
    from mujoco import mjx  # noqa: E402
    from mujoco.mjx._src import math as mmath  # noqa: E402
    from mujoco.mjx._src import support as msupport  # noqa: E402
    from mujoco.mjx._src import types as mtypes  # noqa: E402
    from mujoco.mjx._src import collision_primitive as mcp  # noqa: E402
    from mujoco.mjx._src import constraint as mconstraint  # noqa: E402
import mjbuild_py  # noqa: E402

assert os.path.realpath(mjx.__file__).startswith(os.path.realpath(os.path.join(REPO, "mjx"))), mjx.__file__

S = {"mm": None, "mx": None, "d": None, "fwd": None, "step": None}


def fbits(x):
    x = float(x)
    if x != x:
        return "nan"
    return "%016x" % struct.unpack("<Q", struct.pack("<d", x))[0]


def frombits(t):
    if t == "nan":
        return float("nan")
    return struct.unpack("<d", struct.pack("<Q", int(t, 16)))[0]


def flat(x):
    out = []
    if isinstance(x, (tuple, list)):
        for y in x:
            out += flat(y)
        return out
    return [float(v) for v in np.asarray(x, dtype=np.float64).reshape(-1)]


# name -> (arity split, callable on jax arrays).  The argument order is that of the Python function.
MATH = {
    "quat_mul": ((4, 4), mmath.quat_mul),
    "quat_mul_axis": ((4, 3), mmath.quat_mul_axis),
    "rotate": ((3, 4), mmath.rotate),
    "quat_to_mat": ((4,), mmath.quat_to_mat),
    "axis_angle_to_quat": ((3, 1), lambda a, t: mmath.axis_angle_to_quat(a, t[0])),
    "quat_integrate": ((4, 3, 1), lambda q, v, t: mmath.quat_integrate(q, v, t[0])),
    "quat_sub": ((4, 4), mmath.quat_sub),
    "quat_inv": ((4,), mmath.quat_inv),
    "normalize3": ((3,), mmath.normalize),
    "normalize4": ((4,), mmath.normalize),
    "norm3": ((3,), mmath.norm),
    "motion_cross": ((6, 6), mmath.motion_cross),
    "motion_cross_force": ((6, 6), mmath.motion_cross_force),
    "inert_mul": ((10, 6), mmath.inert_mul),
    "transform_motion": ((6, 3, 9), lambda v, o, r: mmath.transform_motion(v, o, r.reshape(3, 3))),
    "make_frame": ((3,), mmath.make_frame),
    "plane_sphere": ((3, 3, 3, 1), lambda n, pp, sp, r: mcp._plane_sphere(n, pp, sp, r[0])),          # pylint: disable=protected-access
    "sphere_sphere": ((3, 1, 3, 1), lambda p1, r1, p2, r2: mcp._sphere_sphere(p1, r1[0], p2, r2[0])),  # pylint: disable=protected-access
    "muscle_gain_length": ((1, 1, 1), lambda a, b, c: msupport.muscle_gain_length(a[0], b[0], c[0])),
    "muscle_gain": ((1, 1, 2, 1, 9), lambda l, v, lr, a0, p: msupport.muscle_gain(l[0], v[0], lr, a0[0], p)),
    "muscle_bias": ((1, 2, 1, 9), lambda l, lr, a0, p: msupport.muscle_bias(l[0], lr, a0[0], p)),
    "muscle_dynamics_timescale": ((1, 1, 1, 1), lambda a, b, c, d: msupport.muscle_dynamics_timescale(a[0], b[0], c[0], d[0])),
    "muscle_dynamics": ((1, 1, 3), lambda c, a, p: msupport.muscle_dynamics(c[0], a[0], p)),
}


def op_math(a):
    name = a[0]
    if name not in MATH:
        return "bad-op"
    split, f = MATH[name]
    vals = [frombits(t) for t in a[1:]]
    if len(vals) != sum(split):
        return "bad-op"
    args, i = [], 0
    for n in split:
        args.append(jp.array(np.array(vals[i:i + n], dtype=np.float64)))
        i += n
    try:
        r = f(*args)
    except Exception as e:  # pylint: disable=broad-except
        return "error:%s:%s" % (type(e).__name__, str(e)[:100].replace("\n", " "))
    return " ".join(fbits(v) for v in flat(r))


def op_kbi(a):
    """the real `_kbi` of the tree's constraint.py; the model argument carries exactly the two option fields it reads"""
    if len(a) != 10:
        return "bad-op"
    v = [frombits(t) for t in a]
    if v[0] not in (0.0, 1.0):
        return "bad-op"
    flags = 0 if v[0] == 1.0 else int(mtypes.DisableBit.REFSAFE)
    m = _pytypes.SimpleNamespace(opt=_pytypes.SimpleNamespace(disableflags=flags, timestep=jp.array(v[1])))
    try:
        r = mconstraint._kbi(m, jp.array(np.array(v[2:4])), jp.array(np.array(v[4:9])), jp.array(v[9]))  # pylint: disable=protected-access
    except Exception as e:  # pylint: disable=broad-except
        return "error:%s:%s" % (type(e).__name__, str(e)[:100].replace("\n", " "))
    return " ".join(fbits(x) for x in flat(r))


SIZE_NAMES = ("nq", "nv", "na", "nu", "nmocap", "nbody", "ngeom", "njnt", "nsensordata", "neq", "ntendon", "nsite", "ncam", "nC", "nuserdata")


def op_model(rest):
    if ";" not in rest:
        return "bad-op"
    desc = " ".join(rest[rest.index(";") + 1:]).split("|")
    S.update(mm=None, mx=None, d=None, fwd=None, step=None, dirty=False)
    # every model brings its own traced functions: drop the compiled executables of the previous ones, otherwise a long
    # session (thorough tier: hundreds of models) ends in "LLVM compilation error: Cannot allocate memory"
    S["nmodels"] = S.get("nmodels", 0) + 1
    if S["nmodels"] % 8 == 0:
        try:
            import gc
            jax.clear_caches()
            gc.collect()
        except Exception:
            pass
    try:
        mm, _ = mjbuild_py.compile_model(desc)
    except mjbuild_py.BuildError as e:
        return "error build %s" % str(e)[:300].replace("\n", " ")
    try:
        mx = mjx.put_model(mm)
    except NotImplementedError as e:
        return "notimplemented put_model: %s" % str(e)[:200].replace("\n", " ")
    try:
        d = mjx.make_data(mm)
    except NotImplementedError as e:
        return "notimplemented make_data: %s" % str(e)[:200].replace("\n", " ")
    S.update(mm=mm, mx=mx, d=d)
    S["fwd"] = jax.jit(mjx.forward)
    S["step"] = jax.jit(mjx.step)
    return "ok " + " ".join("%s=%d" % (k, int(getattr(mm, k))) for k in SIZE_NAMES)


def op_mdump():
    mm = S["mm"]
    out = {}
    for f in mtypes.Model.fields():
        if f.name in ("opt", "stat", "_impl"):
            continue
        v = getattr(mm, f.name, None)
        if isinstance(v, np.ndarray) and v.dtype.kind in "fiub":
            out[f.name] = [float(x) for x in v.reshape(-1)]
    o = mm.opt
    for k in ("timestep", "impratio", "tolerance", "ls_tolerance", "gravity", "wind", "magnetic", "density", "viscosity",
              "o_margin", "o_solref", "o_solimp", "o_friction", "integrator", "cone", "jacobian", "solver", "iterations",
              "ls_iterations", "disableflags", "enableflags", "disableactuator"):
        out["opt." + k] = [float(x) for x in np.asarray(getattr(o, k), dtype=np.float64).reshape(-1)]
    return json.dumps(out)


def op_setm(a):
    mm = S["mm"]
    name, vals = a[0], [float(t) for t in a[1:]]
    obj = mm
    if name.startswith("opt."):
        obj, name = mm.opt, name[4:]
    if not hasattr(obj, name):
        return "bad-op"
    cur = getattr(obj, name)
    if isinstance(cur, np.ndarray):
        if cur.size != len(vals) or cur.dtype.kind not in "fiu":
            return "bad-op"
        cur[...] = np.array(vals, dtype=np.float64).reshape(cur.shape).astype(cur.dtype)
    elif isinstance(cur, (int, float)) and not isinstance(cur, bool) and len(vals) == 1:
        setattr(obj, name, type(cur)(vals[0]))
    else:
        return "bad-op"
    S["dirty"] = True
    return "ok"


def refresh():
    if S.get("dirty"):
        S["mx"] = mjx.put_model(S["mm"])
        S["dirty"] = False


def op_state(txt):
    st = json.loads(txt)
    d = S["d"]
    upd = {}
    for k, v in st.items():
        cur = getattr(d, k)
        arr = np.array(v, dtype=np.float64).reshape(cur.shape)
        upd[k] = jp.array(arr)
    S["d"] = d.replace(**upd)
    return "ok"


def active_rows(di):
    return np.asarray((np.asarray(di.efc_J) != 0).any(axis=1)) if di.efc_J.shape[0] else np.zeros(0, bool)


def op_out(names):
    mx, d = S["mx"], S["d"]
    di = d._impl
    out = {}
    for n in names:
        if n == "M_dense":
            out[n] = flat(msupport.full_m(mx, d))
        elif n == "efc":
            act = active_rows(di)
            out[n] = {"type": [int(x) for x in np.asarray(di.efc_type)[act]] if hasattr(di, "efc_type") else [],
                      "pos": flat(np.asarray(di.efc_pos)[act]), "aref": flat(np.asarray(di.efc_aref)[act]),
                      "D": flat(np.asarray(di.efc_D)[act]), "force": flat(np.asarray(di.efc_force)[act]),
                      "margin": flat(np.asarray(di.efc_margin)[act]), "frictionloss": flat(np.asarray(di.efc_frictionloss)[act]),
                      "J": [flat(r) for r in np.asarray(di.efc_J)[act]],
                      "nefc_static": int(di.efc_J.shape[0])}
        elif n == "contacts":
            c = di.contact
            dist = np.asarray(c.dist)
            inc = np.asarray(c.includemargin)
            rows = []
            for i in range(dist.shape[0]):
                rows.append({"geom": [int(c.geom1[i]), int(c.geom2[i])], "dim": int(c.dim[i]), "dist": float(dist[i]),
                             "includemargin": float(inc[i]), "pos": flat(c.pos[i]), "frame": flat(c.frame[i]),
                             "friction": flat(c.friction[i])})
            out[n] = rows
        elif hasattr(d, n) and n != "_impl":
            out[n] = flat(getattr(d, n))
        elif hasattr(di, n):
            out[n] = flat(getattr(di, n))
        else:
            out[n] = None
    return json.dumps(out)


def op_env():
    sys.path.insert(0, VERIF)
    from gen import enums
    return json.dumps({"enum_mismatches": mjbuild_py.enum_mismatches(enums.load()), "mjx_file": mjx.__file__,
                       "mujoco_wheel": mujoco.__version__, "jax": jax.__version__, "x64": bool(jax.config.jax_enable_x64),
                       "float": str(jp.zeros(1, float).dtype), "backend": jax.default_backend()})


def main():
    for line in sys.stdin:
        w = line.split()
        try:
            if not w:
                out = "bad-op"
            elif w[0] == "env" and len(w) == 1:
                out = op_env()
            elif w[0] == "math" and len(w) >= 2:
                out = op_math(w[1:])
            elif w[0] == "kbi":
                out = op_kbi(w[1:])
            elif w[0] == "model" and len(w) >= 3:
                out = op_model(w[2:])
            elif S["mx"] is None:
                out = "bad-op"
            elif w[0] == "mdump" and len(w) == 1:
                out = op_mdump()
            elif w[0] == "setm" and len(w) >= 3:
                out = op_setm(w[1:])
            elif w[0] == "state":
                out = op_state(line.split(None, 1)[1])
            elif w[0] == "forward" and len(w) == 1:
                refresh()
                S["d"] = S["fwd"](S["mx"], S["d"])
                out = "ok"
            elif w[0] == "step" and len(w) == 2:
                refresh()
                for _ in range(int(w[1])):
                    S["d"] = S["step"](S["mx"], S["d"])
                out = "ok"
            elif w[0] == "reset" and len(w) == 1:
                S["d"] = mjx.make_data(S["mm"])
                out = "ok"
            elif w[0] == "out" and len(w) >= 2:
                refresh()
                out = op_out(w[1:])
            else:
                out = "bad-op"
        except (IndexError, KeyError, AttributeError, ValueError, TypeError) as e:
            out = "bad-op"
            sys.stderr.write("bad-op on %r: %s: %s\n" % (line[:80], type(e).__name__, e))
        sys.stdout.write(out + "\n")
        sys.stdout.flush()


if __name__ == "__main__":
    main()
