"""C46 implementation side: runs the real `least_squares` of $VERIF_REPO/python/mujoco/minimize.py.

Run with /venv/bin/python c46_minimize.py $REPO (minimize.py then comes from the tree; the
compiled `mujoco` extension is the pre-built wheel and only provides `mju_boxQP`, which is logged as an
oracle).  Nothing of minimize.py is re-implemented here: the residual, the `Norm` object and
`mujoco.mju_boxQP` are wrapped so that every argument / result crossing those interfaces is logged.

Line protocol (one op per line, one output line per op):

  log <spec>          run the problem, print `<output of run> ### <replay line for the Lean driver>`
  run <spec> | ...    run the problem (everything after `|` is the model's table part, ignored here),
                      print `<canonical> K=<call tags> QC=<qp contract> L=<lsq_linear cost>`
  witness lo hi x D   the candidate arithmetic of least_squares on one coordinate when the step is
                      clamped at the upper bound, done with numpy exactly as minimize.py writes it
  anything else       bad-op

<spec> is one token: hex of a JSON object
  {"fam": "lin"|"quad"|"rosen", "n":, "m":, "A": [[hex..]], "b": [hex..], "q": hex, "x0": [hex..],
   "lo": [hex..]|null, "hi": [hex..]|null, "D": null | hex | [hex..], "max_iter": int,
   "mu_min","mu_max","mu_factor","xtol","gtol","eps": hex (optional)}
floats are the 16 hex digits of their IEEE-754 bits.
"""
import io
import json
import os
import re
import struct
import sys

import numpy as np

# usage: c46_minimize.py [REPO]   (REPO defaults to $VERIF_REPO or /repo); the tree's python/ directory is put
# in front of sys.path so that `mujoco.minimize` is the tree's file (checked in main()).
REPO = sys.argv[1] if len(sys.argv) > 1 else os.environ.get("VERIF_REPO", "/repo")
sys.path.insert(0, os.path.join(REPO, "python"))

import mujoco  # noqa: E402
from mujoco import minimize  # noqa: E402


def f2h(x):
    x = float(x)
    if x != x:
        return "nan"
    return "%016x" % struct.unpack(">Q", struct.pack(">d", x))[0]


def h2f(s):
    if s == "nan":
        return float("nan")
    return struct.unpack(">d", struct.pack(">Q", int(s, 16)))[0]


def hv(a):
    return [f2h(v) for v in np.asarray(a, dtype=np.float64).flatten()]


def vec(hs):
    return np.array([h2f(h) for h in hs], dtype=np.float64)


# --------------------------------------------------------------------------------------------------
# residual families: vectorised over columns, computed with elementwise numpy operations only, in a
# fixed order, so that a column's value does not depend on the other columns of the call
# --------------------------------------------------------------------------------------------------
def matcols(A, X):
    """A @ X accumulated column of A by column of A (deterministic, column independent)."""
    m, n = A.shape
    out = np.zeros((m, X.shape[1]))
    for j in range(n):
        out = out + A[:, j:j + 1] * X[j:j + 1, :]
    return out


def make_residual(spec):
    fam = spec["fam"]
    n = spec["n"]
    if fam in ("lin", "quad"):
        A = np.array([[h2f(h) for h in row] for row in spec["A"]], dtype=np.float64).reshape(spec["m"], n)
        b = vec(spec["b"]).reshape(-1, 1)
        q = h2f(spec["q"]) if fam == "quad" else 0.0

        def res(X):
            lin = matcols(A, X) - b
            if fam == "lin":
                return lin
            return lin + q * (lin * lin)
        return res
    if fam == "rosen":
        a = h2f(spec["q"])

        def res(X):
            rows = []
            if n == 1:
                rows.append(a * (X[0:1, :] * X[0:1, :] - 1.0))
                rows.append(1.0 - X[0:1, :])
            for i in range(n - 1):
                rows.append(a * (X[i + 1:i + 2, :] - X[i:i + 1, :] * X[i:i + 1, :]))
                rows.append(1.0 - X[i:i + 1, :])
            return np.vstack(rows)
        return res
    raise ValueError("family")


class Log:
    def __init__(self):
        self.R = []      # (x col, r col)
        self.tags = []   # s / p / c per residual column
        self.V = []      # (r, y)
        self.G = []      # (r, proj, grad, hess)
        self.Q = []      # (H, g, dl, du, nfree, dx after, dx before)
        self.last = "start"


class LoggedNorm(minimize.Norm):
    """The tree's Quadratic norm behind a logging proxy (a user-supplied Norm object)."""

    def __init__(self, log):
        self.inner = minimize.Quadratic()
        self.log = log

    def value(self, r):
        y = self.inner.value(r)
        self.log.V.append((hv(r), f2h(y)))
        self.log.last = "value"
        return y

    def grad_hess(self, r, proj):
        g, h = self.inner.grad_hess(r, proj)
        self.log.G.append((hv(r), hv(proj), hv(g), hv(h)))
        self.log.last = "gh"
        return g, h


def run_problem(spec):
    n = spec["n"]
    log = Log()
    base = make_residual(spec)

    def residual(X):
        X = np.asarray(X)
        r = base(X)
        if log.last == "start":
            tag = "s"
        elif log.last == "qp":
            tag = "c"
        else:
            tag = "p"
        for k in range(X.shape[1]):
            log.R.append((hv(X[:, k]), hv(r[:, k])))
            log.tags.append(tag)
        log.last = "res"
        return r

    real_qp = mujoco.mju_boxQP

    def qp(res, R, index, H, g, lower, upper):
        warm = hv(res)  # mju_boxQP warm-starts from the incoming contents of the buffer
        nfree = real_qp(res, R, index, H, g, lower, upper)
        log.Q.append((hv(H), hv(g), None if lower is None else hv(lower), None if upper is None else hv(upper),
                      int(nfree), hv(res), warm))
        log.last = "qp"
        return nfree

    x0 = vec(spec["x0"])
    bounds = None
    if spec.get("lo") is not None:
        bounds = [vec(spec["lo"]), vec(spec["hi"])]
    D = spec.get("D")
    if D is None:
        xs = None
    elif isinstance(D, str):
        xs = "jac" if D == "jac" else h2f(D)
    else:
        xs = vec(D)
    kw = {}
    for k in ("mu_min", "mu_max", "mu_factor", "xtol", "gtol", "eps"):
        if spec.get(k) is not None:
            kw[k] = h2f(spec[k])
    out = io.StringIO()
    mujoco.mju_boxQP = qp
    try:
        x, trace = minimize.least_squares(x0, residual, bounds, norm=LoggedNorm(log), max_iter=spec["max_iter"],
                                          verbose=minimize.Verbosity.FINAL, output=out, x_scale=xs, **kw)
        err = None
    except Exception as e:  # ValueError of the argument checks etc.
        x, trace, err = None, None, type(e).__name__
    finally:
        mujoco.mju_boxQP = real_qp
    return x, trace, out.getvalue(), log, err, kw


STATUS = {
    "factorization failed.": "factorizationFailed",
    "insufficient reduction.": "noImprovement",
    "maximum iterations reached.": "maxIter",
    "norm(dx) < tol.": "dxTol",
    "norm(gradient) < tol.": "gTol",
}


def canonical(x, trace, text, log, err):
    if err is not None:
        return "raised:" + err
    m = re.search(r"Terminated after (\d+) iterations: (.*?) y: .*?, Residual evals: (\d+)", text)
    if not m:
        return "no-final-message"
    st = STATUS.get(m.group(2), "unknown:" + m.group(2))
    T = ";".join("%s:%s:%s:%s" % (",".join(hv(t.candidate)), f2h(t.objective), f2h(t.reduction), f2h(t.regularizer))
                 for t in trace)
    C = ";".join(",".join(p[0]) for p in log.R)
    return "%s i=%s nres=%s x=%s T=%s C=%s" % (st, m.group(1), m.group(3), ",".join(hv(x)), T, C)


def defaults():
    import inspect
    sig = inspect.signature(minimize.least_squares)
    return {k: sig.parameters[k].default for k in ("eps", "mu_min", "mu_max", "mu_factor", "xtol", "gtol")}


def model_part(spec, log, kw):
    """Tables of everything that crossed the residual / Norm / mju_boxQP interfaces, for the Lean replay."""
    n = spec["n"]
    d = defaults()
    d.update(kw)
    hb = spec.get("lo") is not None
    m = len(log.R[0][1]) if log.R else 0
    t = [str(n), str(m), str(spec["max_iter"]), "1" if hb else "0"]
    # armijo_c1 is a local constant of least_squares (1e-2)
    t += [f2h(d["eps"]), f2h(d["mu_min"]), f2h(d["mu_max"]), f2h(d["mu_factor"]), f2h(d["xtol"]), f2h(d["gtol"]), f2h(1e-2)]
    t += spec["x0"]
    if hb:
        t += spec["lo"] + spec["hi"]
    D = spec.get("D")
    if D is None:
        t += [f2h(1.0)] * n
    elif isinstance(D, str):
        t += [f2h(np.float64(1.0) * np.float64(h2f(D)))] * n   # D = np.ones(n) * D
    else:
        t += [f2h(np.float64(1.0) * np.float64(h2f(h))) for h in D]
    t.append(str(len(log.R)))
    for xk, rk in log.R:
        t += xk + rk
    t.append(str(len(log.V)))
    for r, y in log.V:
        t += r + [y]
    t.append(str(len(log.G)))
    for r, proj, g, h in log.G:
        t += r + proj + g + h
    t.append(str(len(log.Q)))
    for H, g, dl, du, nfree, dx, warm in log.Q:
        t += warm + H + g
        if hb:
            t += dl + du
        t.append("1" if nfree >= 0 else "0")
        t += dx
    return " ".join(t)


def qp_contract(log):
    """How often the logged mju_boxQP answers broke the contract the Lean theorems assume:
    total ok answers, infeasible (dx outside [dlower, dupper]), ascent (grad.dx > 0) while dx = 0 was feasible,
    ascent while dx = 0 was infeasible (x itself outside the box)."""
    infeasible = ascent_in = ascent_out = total = 0
    for H, g, dl, du, nfree, dx, warm in log.Q:
        if nfree < 0:
            continue
        total += 1
        dxv = vec(dx)
        if dl is not None and (np.any(dxv < vec(dl)) or np.any(dxv > vec(du))):
            infeasible += 1
        if float(np.dot(vec(g), dxv)) > 0:
            if dl is None or (np.all(vec(dl) <= 0) and np.all(vec(du) >= 0)):
                ascent_in += 1
            else:
                ascent_out += 1
    return "%d,%d,%d,%d" % (total, infeasible, ascent_in, ascent_out)


def lsq_cost(spec):
    if spec["fam"] != "lin":
        return "-"
    from scipy.optimize import lsq_linear
    A = np.array([[h2f(h) for h in row] for row in spec["A"]], dtype=np.float64).reshape(spec["m"], spec["n"])
    b = vec(spec["b"])
    if spec.get("lo") is not None:
        bnd = (vec(spec["lo"]), vec(spec["hi"]))
    else:
        bnd = (-np.inf, np.inf)
    r = lsq_linear(A, b, bounds=bnd, method="bvls", tol=1e-14, max_iter=10000)
    return f2h(r.cost)


def witness(lo, hi, x, D):
    """dupper, the unclipped x + D*dx and its clip, with the numpy expressions of minimize.py, for dx = dupper."""
    lo = np.array([[lo]]); hi = np.array([[hi]]); x = np.array([[x]]); D = np.array([[D]])
    dupper = (hi - x) / D
    dx = dupper.copy()
    xnew = x + D * dx
    xc = xnew.copy()
    np.clip(xc, lo, hi, out=xc)
    return "%s %s %s %s %s" % (f2h(dupper.item()), f2h(xnew.item()), "outside" if xnew.item() > hi.item() else "inside",
                               f2h(xc.item()), "outside" if (xc.item() > hi.item() or xc.item() < lo.item()) else "inside")


def main():
    src = os.path.realpath(minimize.__file__)
    want = os.path.realpath(os.path.join(REPO, "python", "mujoco", "minimize.py"))
    if src != want:
        sys.stderr.write("minimize.py is %s, expected %s\n" % (src, want))
        sys.exit(3)
    for line in sys.stdin:
        w = line.split()
        try:
            if len(w) >= 2 and w[0] in ("log", "run"):
                spec = json.loads(bytes.fromhex(w[1]).decode())
                x, trace, text, log, err, kw = run_problem(spec)
                can = canonical(x, trace, text, log, err)
                full = "%s K=%s QC=%s L=%s" % (can, "".join(log.tags), qp_contract(log), lsq_cost(spec))
                if w[0] == "log":
                    print("%s ### run %s | %s" % (full, w[1], model_part(spec, log, kw)))
                else:
                    print(full)
            elif len(w) == 5 and w[0] == "witness":
                print(witness(*[h2f(t) for t in w[1:]]))
            else:
                print("bad-op")
        except (ValueError, KeyError, IndexError, TypeError) as e:
            sys.stderr.write("bad-op: %r\n" % (e,))
            print("bad-op")
        sys.stdout.flush()


if __name__ == "__main__":
    main()
