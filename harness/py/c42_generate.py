#!/usr/bin/env python
"""C42 implementation-side driver: runs the tree's doc/generate/generate_*.py (never a re-implementation).

The generators read the schema (and the C headers) from module-level paths; the driver points those module
attributes at temporary files holding the op's schema / header text and calls the unmodified `generate()`.

Line protocol (ASCII on the wire, space-separated tokens; a string token is `=` + text with every character
outside 0x21..0x7e, the backslash and the double quote written \\u{hex}); identical to lean/Drivers/C42.lean:

  gen <which> =<schema> <hdr> structs <n> {=<struct> <k> {=<field> =<ctype> <dim>}*k}*n
      dims <m> {=<name> <int>}*m sensors <p> {=<name>}*p groups <q> {=<group> =<struct> =<array>}*q
    which   map | table | default | read | xsd | dmcontrol | rst
    hdr     =<text of a C header standing for mjspec.h and mjmodel.h> | - (the tree's real headers);
            for `rst` it is the text standing for doc/XMLreference.rst | - (the real file)
    dim     =<text> | -   (None)
    structs/dims are what the tree's parse_spec_structs / parse_dims return for the header (they are the model's
    inputs; this driver recomputes them with the real functions and answers `error input-mismatch` if they differ)
    sensors/groups replace generate_read_table.SENSOR_DISPATCH / EMIT_GROUPS (configuration constants naming schema
    elements); `sensors -` / `groups -` keep the module's own values
  -> `ok =<generated text>` | `error <ExceptionType>`
  inputs <hdr>   (implementation only) -> `ok structs ... dims ...`: the tree's parse_spec_structs / parse_dims on the header
Usage: c42_generate.py <repo>
"""
import io
import os
import re
import shutil
import sys
import tempfile

sys.dont_write_bytecode = True
REPO = sys.argv[1] if len(sys.argv) > 1 else os.environ.get("VERIF_REPO", "/repo")
GEN = os.path.join(REPO, "doc", "generate")
sys.path.insert(0, GEN)

ESC = re.compile(r"\\u\{([0-9a-f]{1,6})\}")


def decode(s):
    out = []
    i, n = 0, len(s)
    while i < n:
        c = s[i]
        if c == "\\":
            m = ESC.match(s, i)
            if not m:
                return None
            cp = int(m.group(1), 16)
            if cp > 0x10FFFF or 0xD800 <= cp <= 0xDFFF:
                return None
            out.append(chr(cp))
            i = m.end()
        elif 0x21 <= ord(c) <= 0x7E and c != '"':
            out.append(c)
            i += 1
        else:
            return None
    return "".join(out)


def esc(s):
    return "".join(c if (0x21 <= ord(c) <= 0x7E and c not in '\\"') else "\\u{%x}" % ord(c) for c in s)


class Bad(Exception):
    pass


class Toks:
    def __init__(self, toks):
        self.t, self.i = toks, 0

    def next(self):
        if self.i >= len(self.t):
            raise Bad()
        v = self.t[self.i]
        self.i += 1
        return v

    def kw(self, w):
        if self.next() != w:
            raise Bad()

    def s(self):
        v = self.next()
        if not v.startswith("="):
            raise Bad()
        d = decode(v[1:])
        if d is None:
            raise Bad()
        return d

    def opt(self):
        if self.i < len(self.t) and self.t[self.i] == "-":
            self.i += 1
            return None
        return self.s()

    def n(self):
        v = self.next()
        if not re.fullmatch(r"[0-9]{1,9}", v):
            raise Bad()
        return int(v)


WHICH = ("map", "table", "default", "read", "xsd", "dmcontrol", "rst")
_mods = {}
_orig = {}


def mods():
    if not _mods:
        import generate_mjcf_map
        import generate_mjcf_table
        import generate_default_table
        import generate_read_table
        import generate_xsd
        import generate_dmcontrol
        import generate_schema
        _mods.update(map=generate_mjcf_map, table=generate_mjcf_table, default=generate_default_table,
                     read=generate_read_table, xsd=generate_xsd, dmcontrol=generate_dmcontrol, rst=generate_schema)
        rt = generate_read_table
        _orig.update(SPEC=rt.SPEC_H_PATH, MODEL=rt.MODEL_H_PATH, SENS=rt.SENSOR_DISPATCH, GRP=rt.EMIT_GROUPS,
                     XMODEL=generate_xsd.MJMODEL_H_PATH)
    return _mods


def ser_inputs(structs, dims):
    t = ["structs", str(len(structs))]
    for name, fields in structs.items():
        t += ["=" + esc(name), str(len(fields))]
        for f, (ct, dim) in fields.items():
            t += ["=" + esc(f), "=" + esc(ct), "-" if dim is None else "=" + esc(dim)]
    t += ["dims", str(len(dims))]
    for k, v in dims.items():
        t += ["=" + esc(k), str(v)]
    return " ".join(t)


def run_inputs(t, tmp):
    """`inputs <hdr>`: what the tree's header parsers return (the model's structs / dims inputs)."""
    hdr = t.opt()
    if t.i != len(t.t):
        raise Bad()
    M = mods()
    rt, xs = M["read"], M["xsd"]
    if hdr is not None:
        hp = os.path.join(tmp, "hdr.h")
        with open(hp, "w", encoding="utf-8", newline="") as f:
            f.write(hdr)
        rt.SPEC_H_PATH = rt.MODEL_H_PATH = xs.MJMODEL_H_PATH = hp
    else:
        rt.SPEC_H_PATH, rt.MODEL_H_PATH, xs.MJMODEL_H_PATH = _orig["SPEC"], _orig["MODEL"], _orig["XMODEL"]
    return "ok " + ser_inputs(rt.parse_spec_structs(rt.SPEC_H_PATH, rt.MODEL_H_PATH), xs.parse_dims())


def run_op(line, tmp):
    t = Toks(line.split(" "))
    if t.t and t.t[0] == "inputs":
        t.next()
        return run_inputs(t, tmp)
    t.kw("gen")
    which = t.next()
    if which not in WHICH:
        raise Bad()
    schema = t.s()
    hdr = t.opt()
    t.kw("structs")
    structs = {}
    for _ in range(t.n()):
        name = t.s()
        fields = {}
        for _ in range(t.n()):
            f = t.s()
            ct = t.s()
            fields[f] = (ct, t.opt())
        structs[name] = fields
    t.kw("dims")
    dims = {}
    for _ in range(t.n()):
        k = t.s()
        dims[k] = t.n()
    t.kw("sensors")
    if t.i < len(t.t) and t.t[t.i] == "-":
        t.i += 1
        sensors = None
    else:
        sensors = [t.s() for _ in range(t.n())]
    t.kw("groups")
    if t.i < len(t.t) and t.t[t.i] == "-":
        t.i += 1
        groups = None
    else:
        groups = {}
        for _ in range(t.n()):
            g = t.s()
            st = t.s()
            groups[g] = (st, t.s())
    if t.i != len(t.t):
        raise Bad()

    M = mods()
    sp = os.path.join(tmp, "mjcf.schema")
    with open(sp, "w", encoding="utf-8", newline="") as f:
        f.write(schema)
    for k in ("map", "table", "default", "read", "xsd", "dmcontrol"):
        M[k].SCHEMA_PATH = sp
    rt, xs = M["read"], M["xsd"]
    if hdr is not None and which != "rst":
        hp = os.path.join(tmp, "hdr.h")
        with open(hp, "w", encoding="utf-8", newline="") as f:
            f.write(hdr)
        rt.SPEC_H_PATH = rt.MODEL_H_PATH = xs.MJMODEL_H_PATH = hp
    else:
        rt.SPEC_H_PATH, rt.MODEL_H_PATH, xs.MJMODEL_H_PATH = _orig["SPEC"], _orig["MODEL"], _orig["XMODEL"]
    rt.SENSOR_DISPATCH = _orig["SENS"] if sensors is None else sensors
    rt.EMIT_GROUPS = _orig["GRP"] if groups is None else groups

    # the model's inputs must be what the tree's own header parsers return
    if which in ("default", "read"):
        if rt.parse_spec_structs(rt.SPEC_H_PATH, rt.MODEL_H_PATH) != structs:
            return "error input-mismatch"
    if which in ("xsd", "dmcontrol"):
        if xs.parse_dims() != dims:
            return "error input-mismatch"

    if which == "rst":
        gs = M["rst"]
        table_text = M["table"].generate()
        real_open = open

        def fake_open(path, *a, **kw):
            p = os.path.normpath(path)
            if p.endswith(os.path.join("src", "xml", "generated", "mjcf_table.inc")):
                return io.StringIO(table_text)
            if hdr is not None and p.endswith(os.path.join("doc", "XMLreference.rst")):
                return io.StringIO(hdr)
            return real_open(path, *a, **kw)
        gs.open = fake_open   # module global shadows the builtin inside generate_schema only
        try:
            text = gs.generate()
        finally:
            del gs.open
    else:
        text = M[which].generate()
    return "ok =" + esc(text)


def main():
    tmp = tempfile.mkdtemp(prefix="c42_")
    try:
        for raw in sys.stdin:
            line = raw.rstrip("\n")
            try:
                out = run_op(line, tmp)
            except Bad:
                out = "bad-op"
            except RecursionError:
                out = "error RecursionError"
            except Exception as e:  # the generators raise on schemas they cannot translate
                out = "error " + type(e).__name__
                if os.environ.get("C42_DEBUG"):
                    sys.stderr.write("%s: %s\n" % (type(e).__name__, str(e)[:300]))
            sys.stdout.write(out + "\n")
            sys.stdout.flush()
    finally:
        shutil.rmtree(tmp, ignore_errors=True)


if __name__ == "__main__":
    main()
