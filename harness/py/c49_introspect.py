#!/usr/bin/env python
"""C49 implementation-side driver: runs the tree's python/mujoco/introspect/{type_parsing,ast_nodes}.py
(never a re-implementation).  The two modules are loaded by file path under a private package name so
that the pre-built `mujoco` wheel is never imported.

Line protocol (ASCII on the wire), identical to lean/Drivers/C49.lean:
  parse <hex>          -> `ok <ast> | <hex of str(ast)> | <ast of parse_type(str(ast))>`  |  `reject`
  ret <hex>            -> same through parse_function_return_type
  decl <ast> [@ <hex>] -> `ok <hex of t.decl(name)> | <ast of parse_type(str(t))>|reject`
  wf <ast>             -> `wf 1` iff parse_type(str(t)) == t
<hex> = `.`-separated hexadecimal code points, `-` for the empty string.
<ast> = V<c><v>"name"  |  P<n><c><v><r>(<ast>)  |  A[e1,e2,...](<ast>)
Rejections are ValueError only; any other exception type is reported as `EXC <type>` (and disagrees
with the model, which is intended).
Usage: c49_introspect.py <repo> [--selftest]
"""
import importlib
import os
import sys
import types

REPO = sys.argv[1] if len(sys.argv) > 1 else os.environ.get("VERIF_REPO", "/repo")
PKG_DIR = os.path.join(REPO, "python", "mujoco", "introspect")


def load_introspect(pkg_dir=PKG_DIR, pkg_name="c49_tree_introspect"):
    """The tree's introspect package under a private name (relative imports keep working)."""
    pkg = types.ModuleType(pkg_name)
    pkg.__path__ = [pkg_dir]
    pkg.__package__ = pkg_name
    sys.modules[pkg_name] = pkg
    return pkg_name


PKG = load_introspect()
ast_nodes = importlib.import_module(PKG + ".ast_nodes")
type_parsing = importlib.import_module(PKG + ".type_parsing")
assert os.path.realpath(type_parsing.__file__).startswith(os.path.realpath(PKG_DIR)), type_parsing.__file__
assert os.path.realpath(ast_nodes.__file__).startswith(os.path.realpath(PKG_DIR)), ast_nodes.__file__


def dec(h):
    if h == "-":
        return ""
    out = []
    for p in h.split("."):
        if not p or len(p) > 6 or any(c not in "0123456789abcdef" for c in p):
            return None
        n = int(p, 16)
        if n > 0x10FFFF or 0xD800 <= n <= 0xDFFF:
            return None
        out.append(chr(n))
    return "".join(out)


def enc(s):
    return ".".join("%x" % ord(c) for c in s) if s else "-"


def show(t):
    if isinstance(t, ast_nodes.ValueType):
        return 'V%d%d"%s"' % (bool(t.is_const), bool(t.is_volatile), t.name)
    if isinstance(t, ast_nodes.PointerType):
        return "P%d%d%d%d(%s)" % (bool(t.nullable), bool(t.is_const), bool(t.is_volatile), bool(t.is_restrict), show(t.inner_type))
    if isinstance(t, ast_nodes.ArrayType):
        return "A[%s](%s)" % (",".join(str(int(e)) for e in t.extents), show(t.inner_type))
    raise TypeError(type(t).__name__)


class Bad(Exception):
    pass


def read_ast(s, i=0):
    """Builds the AST through the real constructors; returns (node, next index)."""
    if s.startswith("V", i):
        if i + 3 >= len(s) or s[i + 1] not in "01" or s[i + 2] not in "01" or s[i + 3] != '"':
            raise Bad()
        j = s.find('"', i + 4)
        if j < 0:
            raise Bad()
        return ast_nodes.ValueType(s[i + 4:j], is_const=s[i + 1] == "1", is_volatile=s[i + 2] == "1"), j + 1
    if s.startswith("P", i):
        fl = s[i + 1:i + 5]
        if len(fl) != 4 or any(c not in "01" for c in fl) or s[i + 5:i + 6] != "(":
            raise Bad()
        inner, j = read_ast(s, i + 6)
        if s[j:j + 1] != ")":
            raise Bad()
        return ast_nodes.PointerType(inner, nullable=fl[0] == "1", is_const=fl[1] == "1", is_volatile=fl[2] == "1",
                                     is_restrict=fl[3] == "1"), j + 1
    if s.startswith("A[", i):
        j = s.find("]", i + 2)
        if j < 0 or s[j + 1:j + 2] != "(":
            raise Bad()
        body = s[i + 2:j]
        exts = []
        if body:
            for p in body.split(","):
                q = p[1:] if p[:1] == "-" else p
                if not q or not q.isascii() or not q.isdigit():
                    raise Bad()
                exts.append(int(p))
        inner, k = read_ast(s, j + 2)
        if s[k:k + 1] != ")":
            raise Bad()
        return ast_nodes.ArrayType(inner, exts), k + 1
    raise Bad()


def read_ast_all(s):
    t, i = read_ast(s, 0)
    if i != len(s):
        raise Bad()
    return t


def try_parse(fn, s):
    try:
        return fn(s), None
    except ValueError:
        return None, "reject"
    except Exception as e:  # noqa: BLE001  any other exception class is a finding
        return None, "EXC " + type(e).__name__


def step(line):
    line = line.strip(" \t\r\n")
    w = line.split(" ")
    w = [x for x in w if x]
    if not w:
        return "bad-op"
    op = w[0]
    if op in ("parse", "ret"):
        if len(w) != 2:
            return "bad-op"
        s = dec(w[1])
        if s is None:
            return "bad-op"
        t, err = try_parse(type_parsing.parse_type if op == "parse" else type_parsing.parse_function_return_type, s)
        if err:
            return err
        t2, err2 = try_parse(type_parsing.parse_type, str(t))
        return "ok " + show(t) + " | " + enc(str(t)) + " | " + (err2 if err2 else show(t2))
    if op in ("decl", "wf"):
        body = line[len(op) + 1:].strip(" ")
        name = ""
        if op == "decl" and " @ " in body:
            parts = body.split(" @ ")
            if len(parts) != 2:
                return "bad-op"
            body, name = parts[0], dec(parts[1].strip())
            if name is None:
                return "bad-op"
        try:
            t = read_ast_all(body)
        except Bad:
            return "bad-op"
        except ValueError:
            return "bad-op"   # the real ValueType constructor refused the name: not a constructible AST
        t2, err = try_parse(type_parsing.parse_type, str(t))
        if op == "wf":
            return "wf %d" % (err is None and t2 == t)
        return "ok " + enc(t.decl(name)) + " | " + (err if err else show(t2))
    return "bad-op"


def main():
    if "--selftest" in sys.argv:
        print(type_parsing.__file__)
        print(step("parse " + enc("const int * const [3]")))
        return
    out = sys.stdout
    for line in sys.stdin:
        out.write(step(line) + "\n")
    out.flush()


if __name__ == "__main__":
    main()
