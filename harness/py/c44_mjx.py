#!/venv/bin/python
"""c44_mjx.py — implementation side of C44: the real MJX of the tree ($VERIF_REPO/mjx) on the op lines of
lean/Drivers/C44.lean, plus the oracle ops that have no Lean counterpart.

  model <id> name=value ... ; line | line | ...   build the description (harness/py/mjbuild_py.py, wheel MjSpec),
                                                  mjx.put_model, 4 x mjx.make_data       -> ok | error <why>
  fill <k> <base> <field> ...                     d.replace(field=integer-valued array)   -> ok
  dump <k> <field> ...                            -> name:v v v|name:...
  size <spec> | get <k> <spec> | set <k> <spec> v ...     the real mjx.state_size / get_state / set_state
  putget <seed> <nstep>      put_data(get_data(.)) round trip on a random state            -> json
  makedata                   make_data(m) versus put_data(m, fresh MjData)                 -> json
  jitvmap <seed> <fn> <mode> jit / vmap / eager of <fn> on a batch of 8 states             -> json
  sizes                      model sizes as the wheel's MjModel reports them               -> name=value ...
The wheel's engine is used only as a container and as a source of arbitrary MjData contents (putget); it
never stands for the C engine of the tree.
"""
import json
import os
import sys
import types as _pytypes

REPO = os.environ.get("VERIF_REPO", "/repo")
HERE = os.path.dirname(os.path.abspath(__file__))
VERIF = os.path.dirname(os.path.dirname(HERE))
os.environ.setdefault("JAX_ENABLE_X64", "1")
os.environ.setdefault("JAX_PLATFORMS", "cpu")
sys.path.insert(0, os.path.join(REPO, "mjx"))
sys.path.insert(0, HERE)
_tm = _pytypes.ModuleType("trimesh")
_tm.Trimesh = type("Trimesh", (object,), {})
sys.modules["trimesh"] = _tm

import contextlib  # noqa: E402
import io as _io  # noqa: E402

with contextlib.redirect_stdout(_io.StringIO()), contextlib.redirect_stderr(_io.StringIO()):
    import jax  # noqa: E402
    jax.config.update("jax_compilation_cache_dir", os.path.join(VERIF, ".cache", "jax"))
    jax.config.update("jax_persistent_cache_min_compile_time_secs", 0)
    jax.config.update("jax_persistent_cache_min_entry_size_bytes", -1)
    import jax.numpy as jp  # noqa: E402
    import numpy as np  # noqa: E402
    import mujoco  # noqa: E402
    from mujoco import mjx  # noqa: E402
    from mujoco.mjx._src import types as mtypes  # noqa: E402
import mjbuild_py  # noqa: E402

assert os.path.realpath(mjx.__file__).startswith(os.path.realpath(os.path.join(REPO, "mjx"))), mjx.__file__

NSLOT = 4
S = {"mm": None, "mx": None, "ds": None}
SIZE_NAMES = ("nq", "nv", "na", "nhistory", "nu", "nbody", "neq", "nmocap", "nuserdata", "npluginstate")


def err_str(e):
    msg = str(e)
    if isinstance(e, ValueError) and msg.startswith("Invalid state spec"):
        return "error:specRange"
    if isinstance(e, ValueError) and msg.startswith("state has size"):
        w = msg.split()
        return "error:sizeMismatch:%s:%s" % (w[3], w[6])
    return "error:other:%s:%s" % (type(e).__name__, msg[:120].replace("\n", " "))


def op_model(rest):
    if ";" not in rest:
        return "bad-op"
    i = rest.index(";")
    want = {}
    for t in rest[:i]:
        k, _, v = t.partition("=")
        want[k] = int(v)
    desc = " ".join(rest[i + 1:]).split("|")
    try:
        mm, _ = mjbuild_py.compile_model(desc)
    except mjbuild_py.BuildError as e:
        return "error build %s" % e
    for k, v in want.items():
        if int(getattr(mm, k)) != v:
            return "error size-mismatch %s wheel=%d given=%d" % (k, int(getattr(mm, k)), v)
    try:
        mx = mjx.put_model(mm)
    except NotImplementedError as e:
        return "error notimplemented %s" % str(e)[:100]
    S["mm"], S["mx"] = mm, mx
    S["ds"] = [mjx.make_data(mm) for _ in range(NSLOT)]
    return "ok"


def slot(tok):
    k = int(tok)
    if not 0 <= k < NSLOT:
        raise IndexError
    return k


def op_fill(a):
    k, base, names = slot(a[0]), int(a[1]), a[2:]
    d = S["ds"][k]
    upd = {}
    for p, f in enumerate(names):
        cur = getattr(d, f)
        n = int(np.prod(cur.shape)) if cur.shape else 1
        if cur.dtype == bool:
            v = np.array([(base + p + j) % 2 for j in range(n)], dtype=bool)
        else:
            v = np.array([base + 1000 * (p + 1) + j for j in range(n)], dtype=cur.dtype)
        upd[f] = jp.array(v.reshape(cur.shape))
    S["ds"][k] = d.replace(**upd)
    return "ok"


def ints(x):
    return " ".join(str(int(round(float(v)))) for v in np.asarray(x).reshape(-1))


def op_dump(a):
    d = S["ds"][slot(a[0])]
    return "|".join("%s:%s" % (f, ints(getattr(d, f))) for f in a[1:])


def op_size(a):
    try:
        return str(int(mjx.state_size(S["mx"], int(a[0]))))
    except Exception as e:  # pylint: disable=broad-except
        return err_str(e)


def op_get(a):
    try:
        v = mjx.get_state(S["mx"], S["ds"][slot(a[0])], int(a[1]))
    except (IndexError,):
        return "bad-op"
    except Exception as e:  # pylint: disable=broad-except
        return err_str(e)
    s = ints(v)
    return "vec " + s if s else "vec"


def op_set(a):
    k = slot(a[0])
    st = jp.array(np.array([float(int(x)) for x in a[2:]], dtype=np.float64))
    try:
        S["ds"][k] = mjx.set_state(S["mx"], S["ds"][k], st, int(a[1]))
    except Exception as e:  # pylint: disable=broad-except
        return err_str(e)
    return "ok"


# --------------------------------------------------------------------------------------- oracle ops
def random_mjdata(seed, nstep):
    mm = S["mm"]
    rs = np.random.RandomState(seed)
    d = mujoco.MjData(mm)
    d.qpos[:] = mm.qpos0 + 0.3 * rs.randn(mm.nq)
    for j in range(mm.njnt):
        if mm.jnt_type[j] in (0, 1):
            a = mm.jnt_qposadr[j] + (3 if mm.jnt_type[j] == 0 else 0)
            q = rs.randn(4)
            d.qpos[a:a + 4] = q / np.linalg.norm(q)
            if mm.jnt_type[j] == 0:
                d.qpos[a - 1] = abs(d.qpos[a - 1]) * 0.3 + 0.02
    d.qvel[:] = 0.5 * rs.randn(mm.nv)
    d.ctrl[:] = rs.uniform(-1, 1, mm.nu)
    d.act[:] = rs.uniform(0, 1, mm.na)
    d.qfrc_applied[:] = 0.2 * rs.randn(mm.nv)
    d.xfrc_applied[:] = 0.2 * rs.randn(mm.nbody, 6)
    d.time = float(rs.uniform(0, 3))
    if mm.nmocap:
        d.mocap_pos[:] = rs.uniform(-1, 1, (mm.nmocap, 3))
        q = rs.randn(mm.nmocap, 4)
        d.mocap_quat[:] = q / np.linalg.norm(q, axis=1, keepdims=True)
    if mm.nuserdata:
        d.userdata[:] = rs.randn(mm.nuserdata)
    if mm.neq:
        d.eq_active[:] = rs.randint(0, 2, mm.neq)
    mujoco.mj_forward(mm, d)
    for _ in range(nstep):
        mujoco.mj_step(mm, d)
    if nstep:
        mujoco.mj_forward(mm, d)
    return d


# fields whose representation differs by design and that are compared through a canonical form
PUTGET_SPECIAL = ("contact", "efc_J", "efc_pos", "efc_margin", "efc_frictionloss", "efc_D", "efc_aref", "efc_force",
                  "efc_type", "actuator_moment", "ten_J", "qLD", "qLDiagInv", "M")


def dense_moment(mm, d):
    out = np.zeros((mm.nu, mm.nv))
    if mm.nu and mm.nv:
        mujoco.mju_sparse2dense(out, d.actuator_moment, d.moment_rownnz, d.moment_rowadr, d.moment_colind)
    return out


def dense_efc_J(mm, d):
    if d.nefc == 0:
        return np.zeros((0, mm.nv))
    if mujoco.mj_isSparse(mm):
        out = np.zeros((d.nefc, mm.nv))
        mujoco.mju_sparse2dense(out, d.efc_J, d.efc_J_rownnz, d.efc_J_rowadr, d.efc_J_colind)
        return out
    return np.array(d.efc_J).reshape(-1)[: d.nefc * mm.nv].reshape(d.nefc, mm.nv)


def canon_rows(*cols):
    """rows of the column-stacked arrays, sorted (so that a permutation of rows compares equal)"""
    n = len(cols[0])
    rows = [tuple(np.concatenate([np.atleast_1d(np.asarray(c[i], dtype=float)).reshape(-1) for c in cols]).tolist()) for i in range(n)]
    return sorted(rows)


def op_putget(a):
    seed, nstep = int(a[0]), int(a[1])
    mm = S["mm"]
    d = random_mjdata(seed, nstep)
    res = {"seed": seed, "nstep": nstep, "ncon": int(d.ncon), "nefc": int(d.nefc), "fields": {}, "checked": 0}
    try:
        dx = mjx.put_data(mm, d)
        d2 = mjx.get_data(mm, dx)
    except Exception as e:  # pylint: disable=broad-except
        res["raised"] = "%s: %s" % (type(e).__name__, str(e)[:200])
        return json.dumps(res)
    names = [f.name for f in mtypes.Data.fields() + mtypes.DataJAX.fields() if f.name != "_impl"]
    bad = res["fields"]
    for n in names:
        if n in PUTGET_SPECIAL or not hasattr(d, n):
            continue
        a0, a1 = np.asarray(getattr(d, n)), np.asarray(getattr(d2, n))
        res["checked"] += 1
        if n == "solver_niter":
            a0, a1 = a0.reshape(-1)[:1], a1.reshape(-1)[:1]   # MJX keeps the first island's count only (documented)
        if a0.shape != a1.shape:
            bad[n] = "shape %s -> %s" % (a0.shape, a1.shape)
        elif not np.array_equal(a0, a1, equal_nan=True):
            bad[n] = float(np.nanmax(np.abs(a0.astype(float) - a1.astype(float))))
    # contacts: same multiset of (geom pair, dim, dist, pos, frame, includemargin, friction, solref, solimp)
    cf = ("geom1", "geom2", "dim", "dist", "pos", "frame", "includemargin", "friction", "solref", "solreffriction", "solimp")
    c0 = canon_rows(*[getattr(d.contact, f) for f in cf]) if d.ncon else []
    c1 = canon_rows(*[getattr(d2.contact, f) for f in cf]) if d2.ncon else []
    res["checked"] += 1
    if c0 != c1:
        pos = int(np.sum(np.asarray(d.contact.dist) > 0)) if d.ncon else 0
        bad["contact"] = "ncon %d -> %d (%d original contacts have dist > 0)" % (d.ncon, d2.ncon, pos)
    # constraint rows: same multiset of (type, J row, pos, margin, frictionloss, D, aref, force)
    ef = ("efc_type", "efc_pos", "efc_margin", "efc_frictionloss", "efc_D", "efc_aref", "efc_force")
    e0 = canon_rows(dense_efc_J(mm, d), *[getattr(d, f) for f in ef]) if d.nefc else []
    e1 = canon_rows(dense_efc_J(mm, d2), *[getattr(d2, f) for f in ef]) if d2.nefc else []
    res["checked"] += 1
    if e0 != e1:
        zero_rows = int(np.sum(~(dense_efc_J(mm, d) != 0).any(axis=1))) if d.nefc else 0
        bad["efc"] = "nefc %d -> %d (%d original rows have an all-zero Jacobian)" % (d.nefc, d2.nefc, zero_rows)
    res["checked"] += 2
    if not np.array_equal(dense_moment(mm, d), dense_moment(mm, d2)):
        bad["actuator_moment"] = float(np.abs(dense_moment(mm, d) - dense_moment(mm, d2)).max())
    if mm.ntendon:
        def dense_ten_J(dd):
            out = np.zeros((mm.ntendon, mm.nv))
            mujoco.mju_sparse2dense(out, dd.ten_J, mm.ten_J_rownnz, mm.ten_J_rowadr, mm.ten_J_colind)
            return out
        t0, t1 = dense_ten_J(d), dense_ten_J(d2)
        if not np.array_equal(t0, t1):
            bad["ten_J"] = ("read through the model's sparsity pattern (ten_J_rownnz/rowadr/colind) the tendon Jacobian differs by %.3g; "
                            "original nonzeros %d, structural entries %d" % (float(np.abs(t0 - t1).max()), int((t0 != 0).sum()), int(mm.nJten)))
    res["checked"] += 1
    if not np.array_equal(np.asarray(d.M), np.asarray(d2.M)):
        bad["M"] = float(np.abs(np.asarray(d.M) - np.asarray(d2.M)).max())
    res["positive_dist_contacts"] = int(np.sum(np.asarray(d.contact.dist) > 0)) if d.ncon else 0
    return json.dumps(res)


def tree_leaves_named(d):
    out = {}
    for path, leaf in jax.tree_util.tree_flatten_with_path(d)[0]:
        out[jax.tree_util.keystr(path)] = leaf
    return out


def op_makedata(_a):
    mm = S["mm"]
    res = {"fields": {}, "checked": 0}
    try:
        a = mjx.make_data(mm)
        b = mjx.put_data(mm, mujoco.MjData(mm))
    except Exception as e:  # pylint: disable=broad-except
        res["raised"] = "%s: %s" % (type(e).__name__, str(e)[:200])
        return json.dumps(res)
    la, lb = tree_leaves_named(a), tree_leaves_named(b)
    for k in sorted(set(la) | set(lb)):
        res["checked"] += 1
        if k not in la or k not in lb:
            res["fields"][k] = "missing in %s" % ("make_data" if k not in la else "put_data")
            continue
        x, y = np.asarray(la[k]), np.asarray(lb[k])
        if x.shape != y.shape:
            res["fields"][k] = "shape %s vs %s" % (x.shape, y.shape)
        elif x.dtype != y.dtype:
            res["fields"][k] = "dtype %s vs %s" % (x.dtype, y.dtype)
        elif not np.array_equal(x, y, equal_nan=True):
            res["fields"][k] = float(np.nanmax(np.abs(x.astype(float) - y.astype(float))))
    return json.dumps(res)


def batch_of(seed, n):
    mm = S["mm"]
    ds = []
    for i in range(n):
        d = random_mjdata(seed * 100 + i, 0)
        dx = mjx.make_data(mm).replace(
            qpos=jp.array(d.qpos), qvel=jp.array(d.qvel), ctrl=jp.array(d.ctrl), act=jp.array(d.act),
            qfrc_applied=jp.array(d.qfrc_applied), xfrc_applied=jp.array(d.xfrc_applied), time=jp.array(d.time),
            mocap_pos=jp.array(d.mocap_pos), mocap_quat=jp.array(d.mocap_quat))
        ds.append(dx)
    return ds


def fn_of(name):
    mx = S["mx"]
    full = int(mujoco.mjtState.mjSTATE_INTEGRATION)
    if name == "forward":
        return lambda d: mjx.forward(mx, d)
    if name == "step":
        return lambda d: mjx.step(mx, d)
    if name == "kinematics":
        return lambda d: mjx.kinematics(mx, d)
    if name in ("step_nocon", "forward_nocon"):
        # the constraint solver switched off: no data-dependent iteration left in the pipeline
        mx2 = mx.tree_replace({"opt.disableflags": mx.opt.disableflags | mtypes.DisableBit.CONSTRAINT})
        g = mjx.step if name == "step_nocon" else mjx.forward
        return lambda d: g(mx2, d)
    if name == "state":
        # get_state, perturb, set_state, get_state of the physics part
        def f(d):
            v = mjx.get_state(mx, d, full)
            d2 = mjx.set_state(mx, d, v * 1.5 + 0.25, full)
            return mjx.get_state(mx, d2, int(mujoco.mjtState.mjSTATE_FULLPHYSICS)), d2
        return f
    raise KeyError(name)


# leaves of mjx.Data that depend on the iterative constraint solver (its termination depends on rounding, so
# they are reported separately and only as evidence)
SOLVER_DEP = ("qacc", "qacc_warmstart", "qfrc_constraint", "efc_force", "solver_niter", "sensordata", "cacc", "cfrc_int",
              "cfrc_ext", "qfrc_inverse")


def is_solver_dep(k):
    name = k.split(".")[-1].split("[")[0]
    return name in SOLVER_DEP


def maxdiff(a, b, want_solver_dep=None):
    """largest |x-y|/(1+|y|) over the leaves (all / only solver-independent / only solver-dependent)"""
    worst, where = 0.0, None
    la, lb = tree_leaves_named(a), tree_leaves_named(b)
    if set(la) != set(lb):
        return float("inf"), "tree structure"
    for k in la:
        if want_solver_dep is not None and is_solver_dep(k) != want_solver_dep:
            continue
        x, y = np.asarray(la[k]), np.asarray(lb[k])
        if x.shape != y.shape:
            return float("inf"), k + " shape"
        if x.size == 0:
            continue
        x, y = x.astype(float), y.astype(float)
        if not np.array_equal(np.isnan(x), np.isnan(y)):
            return float("inf"), k + " nan pattern"
        dd = np.abs(x - y) / (1.0 + np.abs(y))
        dd = np.nanmax(dd) if dd.size else 0.0
        if dd > worst:
            worst, where = float(dd), k
    return worst, where


def op_jitvmap(a):
    seed, name, mode = int(a[0]), a[1], a[2]
    f = fn_of(name)
    n = 8
    ds = batch_of(seed, n)
    batch = jax.tree_util.tree_map(lambda *x: jp.stack(x), *ds)
    res = {"seed": seed, "fn": name, "mode": mode, "n": n}
    split = name == "forward"   # forward: solver-dependent leaves apart; step: everything after the solver depends on it

    def cmp(x, y):
        if split:
            return {"solver_independent": maxdiff(x, y, False), "solver_dependent": maxdiff(x, y, True)}
        return {"all": maxdiff(x, y)}
    jf = jax.jit(f)
    per = [jf(d) for d in ds]
    ref = jax.tree_util.tree_map(lambda *x: jp.stack(x), *per)
    if "vmap" in mode:
        out = jax.jit(jax.vmap(f))(batch)
        res["jit_vmap_vs_jit_per_sample"] = cmp(out, ref)
        if "eager" in mode or name in ("state", "kinematics"):
            out2 = jax.vmap(f)(batch)
            res["vmap_vs_jit_per_sample"] = cmp(out2, ref)
    if "eager" in mode:
        ne = 2 if name.startswith(("forward", "step")) else n
        worst = None
        for i in range(ne):
            w = cmp(f(ds[i]), per[i])
            if worst is None:
                worst = w
            else:
                worst = {k: max(worst[k], w[k], key=lambda t: t[0]) for k in w}
        res["eager_vs_jit"] = worst
        res["eager_samples"] = ne
    return json.dumps(res)


DIRECTED_XML = {
    # a joint limit that is not active: d.nl = 0, MJX's static nl = 1
    "inactive-limit": "<mujoco><worldbody><body><joint type='hinge' axis='0 1 0' limited='true' range='-1 1'/>"
                      "<geom size='.1' contype='0' conaffinity='0'/></body></worldbody></mujoco>",
    # a contact inside the margin but not penetrating: dist = 0.02 > 0
    "margin-contact": "<mujoco><worldbody><geom type='plane' size='5 5 .1' margin='0.05'/><body pos='0 0 .12'><freejoint/>"
                      "<geom size='.1'/></body></worldbody></mujoco>",
}


TENDON_XML = ("<mujoco><worldbody><body><joint name='a' axis='0 1 0'/><geom size='.1'/><body pos='.3 0 0'><joint name='b' axis='0 1 0'/>"
              "<geom size='.1'/></body></body></worldbody><tendon><fixed><joint joint='a' coef='0'/><joint joint='b' coef='1'/></fixed></tendon></mujoco>")


def directed_tendon():
    """a fixed tendon whose first structural Jacobian entry is numerically zero"""
    mm = mujoco.MjModel.from_xml_string(TENDON_XML)
    d = mujoco.MjData(mm)
    mujoco.mj_forward(mm, d)
    d2 = mjx.get_data(mm, mjx.put_data(mm, d))

    def dense(dd):
        out = np.zeros((mm.ntendon, mm.nv))
        mujoco.mju_sparse2dense(out, dd.ten_J, mm.ten_J_rownnz, mm.ten_J_rowadr, mm.ten_J_colind)
        return [float(x) for x in out.reshape(-1)]
    return {"xml": TENDON_XML, "ten_J_orig": dense(d), "ten_J_roundtrip": dense(d2), "raw_orig": [float(x) for x in np.asarray(d.ten_J).reshape(-1)],
            "raw_roundtrip": [float(x) for x in np.asarray(d2.ten_J).reshape(-1)], "colind": [int(x) for x in mm.ten_J_colind]}


def op_directed(_a):
    """fixed inputs on which put_data/get_data and make_data were confirmed to deviate (stable oracle keys)"""
    out = {}
    for name, xml in DIRECTED_XML.items():
        mm = mujoco.MjModel.from_xml_string(xml)
        d = mujoco.MjData(mm)
        mujoco.mj_forward(mm, d)
        d2 = mjx.get_data(mm, mjx.put_data(mm, d))
        a = mjx.make_data(mm)
        out[name] = {"xml": xml,
                     "orig": {k: int(getattr(d, k)) for k in ("ne", "nf", "nl", "nefc", "ncon")},
                     "roundtrip": {k: int(getattr(d2, k)) for k in ("ne", "nf", "nl", "nefc", "ncon")},
                     "orig_contact_dist": [float(x) for x in np.asarray(d.contact.dist)],
                     "get_data_of_make_data_ncon": int(mjx.get_data(mm, a).ncon),
                     "get_data_of_put_data_fresh_ncon": int(mjx.get_data(mm, mjx.put_data(mm, mujoco.MjData(mm))).ncon)}
    out["tendon-zero-entry"] = directed_tendon()
    # a weld on a body that can only translate: its three rotational rows have an all-zero Jacobian
    xml = ("<mujoco><worldbody><body name='b' pos='0 0 1'><joint type='slide' axis='0 0 1'/><geom size='.1' contype='0' conaffinity='0'/></body>"
           "</worldbody><equality><weld body1='b'/></equality></mujoco>")
    mm = mujoco.MjModel.from_xml_string(xml)
    d = mujoco.MjData(mm)
    d.qpos[0] = 0.05
    mujoco.mj_forward(mm, d)
    d2 = mjx.get_data(mm, mjx.put_data(mm, d))
    out["zero-jacobian-rows"] = {"xml": xml, "qpos": [0.05], "orig_nefc": int(d.nefc), "roundtrip_nefc": int(d2.nefc),
                                 "orig_zero_rows": int(np.sum(~(dense_efc_J(mm, d) != 0).any(axis=1)))}
    return json.dumps(out)


def op_env():
    sys.path.insert(0, VERIF)
    from gen import enums
    return json.dumps({"enum_mismatches": mjbuild_py.enum_mismatches(enums.load()), "mjx_file": mjx.__file__,
                       "mujoco_wheel": mujoco.__version__, "jax": jax.__version__, "x64": bool(jax.config.jax_enable_x64),
                       "float": str(jp.zeros(1, float).dtype), "nstate": int(mujoco.mjtState.mjNSTATE),
                       "backend": jax.default_backend()})


def main():
    for line in sys.stdin:
        w = line.split()
        try:
            if not w:
                out = "bad-op"
            elif w[0] == "env" and len(w) == 1:
                out = op_env()
            elif w[0] == "directed" and len(w) == 1:
                out = op_directed(w[1:])
            elif w[0] == "model" and len(w) >= 3:
                out = op_model(w[2:])
            elif S["mx"] is None:
                out = "bad-op"
            elif w[0] == "fill" and len(w) >= 3:
                out = op_fill(w[1:])
            elif w[0] == "dump" and len(w) >= 2:
                out = op_dump(w[1:])
            elif w[0] == "size" and len(w) == 2:
                out = op_size(w[1:])
            elif w[0] == "get" and len(w) == 3:
                out = op_get(w[1:])
            elif w[0] == "set" and len(w) >= 3:
                out = op_set(w[1:])
            elif w[0] == "putget" and len(w) == 3:
                out = op_putget(w[1:])
            elif w[0] == "makedata" and len(w) == 1:
                out = op_makedata(w[1:])
            elif w[0] == "jitvmap" and len(w) == 4:
                out = op_jitvmap(w[1:])
            elif w[0] == "sizes" and len(w) == 1:
                out = " ".join("%s=%d" % (k, int(getattr(S["mm"], k))) for k in SIZE_NAMES)
            else:
                out = "bad-op"
        except Exception as e:  # pylint: disable=broad-except
            if w and w[0] in ("putget", "makedata", "jitvmap", "directed"):
                # an oracle op: the real code raised on a valid request
                out = "raised %s: %s" % (type(e).__name__, str(e)[:300].replace("\n", " "))
            elif isinstance(e, (IndexError, KeyError, AttributeError, ValueError)):
                out = "bad-op"
            else:
                raise
            sys.stderr.write("%s on %r: %s: %s\n" % (out[:6], line[:80], type(e).__name__, e))
        sys.stdout.write(out + "\n")
        sys.stdout.flush()


if __name__ == "__main__":
    main()
