"""C04  Staged and split pipeline calls equal the monolithic call (DESIGN.md §5.C04).
Uses the machinery of checks/c01.py (harness wrapper, Lean tables, model generator)."""
import json
import os

from . import common
from . import c01
from .c01 import E, Harness, HarnessDied, LeanInfo, Scene, make_model, integrator_of, NEVER_COMPARE

META = {
    "technique": "Lean 4 proof: normaliser over the clang-translated call skeletons with a simulation theorem (meaning preserved "
                 "up to diagnostics), kernel-checked equality of normal forms, replay / frame / non-interference theorems over the "
                 "stage footprint table; property oracle = direct bitwise runs of the split / skipping / repeated calls on the real engine",
    "text": "Proved for every interpretation of the stages respecting the footprint table, every remaining guard valuation and fuel: "
            "mj_step and mj_step1;mj_step2 have the same normal form for Euler / implicit / implicitfast (not for RK4), hence equal "
            "results up to diagnostics (step_eq_step1_step2), also when ctrl / qfrc_applied / xfrc_applied are set between the halves "
            "(step_with_input_edits: mj_step1 neither reads nor writes them, under a finite state and without sleeping); mj_forward "
            "writes no integration-state group (forward_preserves_state) and is idempotent on state and outputs (forward_idempotent, "
            "warm start on or off); mj_forwardSkip(POS,0|1) and (VEL,1) equal the full call on data left by a full call "
            "(forwardSkip_eq_partial).  Exceptions surfaced by the analysis and confirmed on the engine are reported as findings.",
    "note": "same footprint table and validation as C01.  forwardSkip(VEL, sensors on) and mj_inverseSkip are decided by the oracle "
            "only (the replay argument does not see through the lazy subtree-velocity cache / the stack bookkeeping prefix of "
            "mj_inverseSkip).  User callbacks are outside the model (theorems assume mjcb_control = NULL).",
}

THEOREMS = [
    "MjProof.Prog.simp_sim",
    "MjProof.Prog.replay",
    "MjProof.Prog.abs_sound",
    "MjProof.Prog.frame_sound",
    "MjProof.C04.same_nf",
    "MjProof.C04.split_normal_forms",
    "MjProof.C04.split_fails_for_RK4",
    "MjProof.C04.step_eq_step1_step2",
    "MjProof.C04.step_eq_step2_after_step1",
    "MjProof.C04.step1_ignores_inputs",
    "MjProof.C04.step1_may_reset_inputs",
    "MjProof.C04.step1_reads_inputs_when_sleeping",
    "MjProof.C04.step_with_input_edits",
    "MjProof.C04.forward_writes_no_state",
    "MjProof.C04.forward_preserves_state",
    "MjProof.C04.forward_idempotent",
    "MjProof.C04.forward_idempotent_nowarm",
    "MjProof.C04.forwardSkip_conditions",
    "MjProof.C04.forwardSkip_eq_partial",
]

SPLIT_INTEGRATORS = ("mjINT_EULER", "mjINT_IMPLICIT", "mjINT_IMPLICITFAST")
INVERSE_BASES = ("same", "forward")


# arena arrays that some solver paths never write: their content is whatever the (uninitialised, not copied by mj_copyData)
# free arena held; determined by no stage.  (The island-ordered solver vectors are one group per array since the constraint
# stage is analysed from its translated body, see checks/c01.py.)
SCRATCH = {"iscratch", "cstate", "ifrc_smooth", "iacc_smooth", "iacc", "ifrc_constraint", "iefc_aref", "iefc_force"}


# The discrete-time inverse (mjENBL_INVDISCRETE with an implicit integrator) is the one place where mj_inverseSkip consumes an
# array derived from velocities AND inputs that no forward stage produces (d->qDeriv: mjd_smooth_vel reads qvel, ctrl, act).
# As independent options the cell (flag x integrator x velocity-dependent smooth force) has probability ~0.03 per model, so
# it is generated on purpose: flag forced, implicit integrators favoured, damped joints, actuators whose velocity derivative
# depends on ctrl / act (affine gain with a velocity term, muscle) or at least on the velocity.
DISCRETE_INVERSE_PROFILE = {"integrators": ("implicit", "implicitfast", "implicit", "implicitfast", "Euler"),
                            "actuators": (1, 3), "actuator_kinds": ("damper", "general", "muscle", "velocity", "cylinder", "position"),
                            "damping": 0.8, "no_warmstart": 0.4}


def make_discrete_inverse_model(rng):
    mdl = make_model(rng, sleep=0.0, profile=DISCRETE_INVERSE_PROFILE)
    bit = E("mjENBL_INVDISCRETE")
    for i, l in enumerate(mdl.lines):
        w = l.split()
        if w[:2] == ["option", "enableflags"]:
            mdl.lines[i] = "option enableflags %d" % (int(w[2]) | bit)
    mdl.optflags["enable"] |= bit
    mdl.options["enableflags"] = mdl.optflags["enable"]
    return mdl


def all_fields(sc):
    """every comparable field: all groups but diagnostics / addresses / never-determined solver scratch"""
    return sc.fields([g for g in sc.info.groups if g not in NEVER_COMPARE and g not in SCRATCH])


def edit_cmds(sc, rng, k, what=("ctrl", "qfrc_applied", "xfrc_applied")):
    out = []
    sz = {"ctrl": sc.sizes["nu"], "qfrc_applied": sc.sizes["nv"], "xfrc_applied": 6 * sc.sizes["nbody"], "qvel": sc.sizes["nv"]}
    for f in what:
        if sz[f] and rng.random() < 0.8:
            out.append("set %d %s %s" % (k, f, " ".join(repr(rng.uniform(-1, 1)) for _ in range(sz[f]))))
    return out


def fail(sc, what, detail):
    return {"what": what, "detail": detail, "options": dict(sc.mdl.options, **getattr(sc.mdl, "optflags", {})),
            "replay": {"model": sc.mdl.text(), "commands": sc.h.log[1:][-60:]}}


def test_split(sc, rng, nsteps=2):
    h = sc.h
    sc.random_state(rng, 0)
    for _ in range(rng.randint(0, 2)):
        h.cmd("call 0 step")
    h.ok("data 1")
    h.ok("data 2")
    h.ok("copydata 1 0")
    h.ok("copydata 2 0")
    for i in range(nsteps):
        ed = edit_cmds(sc, rng, 1)
        for c in ed:
            h.ok(c)
        r1 = h.cmd("call 1 step")
        ra = h.cmd("call 2 step1")
        for c in ed:
            h.ok(c.replace("set 1 ", "set 2 ", 1))
        rb = h.cmd("call 2 step2")
        if (r1, r1) != (ra, rb):
            return fail(sc, "split step: different outcome", [r1, ra, rb])
        if r1 != "ok":
            return None
        d = h.cmd("cmpl 1 2 " + " ".join(all_fields(sc)))
        if d != "=":
            return fail(sc, "mj_step differs from mj_step1;edit;mj_step2", d.split()[:16])
    return None


def test_skip(sc, rng, inverse=False, bases=("same",)):
    """`bases`: which full call precedes the skipping call.  "same" = the full mj_forward / mj_inverse itself; "forward"
    (inverse only) = mj_forward alone: it computes every position- and velocity-stage quantity mj_inverse does, but none of
    the arrays only the inverse computes on the way (d->qDeriv of the discrete-time inverse: zero in fresh data, left by
    the previous mj_implicit after a step), so a skipping call that reuses such an array is exposed."""
    h = sc.h
    fn = "inverseSkip" if inverse else "forwardSkip"
    out = []
    for base, ss, sk in [(b, ss, sk) for b in bases for ss in (1, 2) for sk in (0, 1)]:
        sc.random_state(rng, 0)
        for _ in range(rng.randint(0, 2)):
            h.cmd("call 0 step")
        if inverse and h.cmd("call 0 forward") != "ok" and base == "forward":
            continue
        if base == "same" and h.cmd("call 0 %s 0 0" % fn) != "ok":
            continue
        # inputs of the stages that are NOT skipped may change
        what = ("qvel", "ctrl", "qfrc_applied", "xfrc_applied") if ss == 1 else ("ctrl", "qfrc_applied", "xfrc_applied")
        for c in edit_cmds(sc, rng, 0, what):
            h.ok(c)
        h.ok("data 1")
        h.ok("data 2")
        h.ok("copydata 1 0")
        h.ok("copydata 2 0")
        skip_fields = set(sc.info.cond)
        if base == "forward":
            # the position stage of the inverse (mj_invPosition) computes less than mj_fwdPosition (no efc_AR / efc_Y, no
            # islands): position-stage arrays on which the two stages disagree for this very state are kept from mj_forward
            # by the skipping call, rebuilt without them by the full call, and are no output of mj_inverse
            h.ok("data 3")
            h.ok("copydata 3 0")
            if h.cmd("call 3 invPosition") != "ok":
                continue
            skip_fields |= set(h.cmd("cmp 0 3 *").split()) & set(sc.fields(["pos"]))
        r1 = h.cmd("call 1 %s %d %d" % (fn, ss, sk))
        r2 = h.cmd("call 2 %s 0 %d" % (fn, sk))
        after = "" if base == "same" else " after mj_" + base
        if r1 != r2:
            out.append(fail(sc, "%s(%d,%d)%s: different outcome" % (fn, ss, sk, after), [r1, r2]))
            continue
        if r1 != "ok":
            continue
        # the flags of the lazily evaluated caches may legitimately differ: a skipped stage does not invalidate a cache
        # that is still valid (the cached arrays are compared whenever both flags are set)
        d = h.cmd("cmpl 1 2 " + " ".join(f for f in all_fields(sc) if f not in skip_fields))
        if d != "=":
            out.append(fail(sc, "mj_%s(stage %d, skipsensor %d)%s differs from the full call" % (fn, ss, sk, after), d.split()[:16]))
    return out


def test_forward_state_and_idempotence(sc, rng):
    h = sc.h
    sc.random_state(rng, 0)
    for _ in range(rng.randint(0, 2)):
        h.cmd("call 0 step")
    h.ok("data 1")
    h.ok("copydata 1 0")
    if h.cmd("call 1 forward") != "ok":
        return []
    out = []
    state = [f["field"] for f in sc.state_fields]
    d = h.cmd("cmp 0 1 " + " ".join(state))
    if d != "=":
        out.append(fail(sc, "mj_forward changed the integration state", d.split()))
    h.ok("data 2")
    h.ok("copydata 2 1")
    h.cmd("call 2 forward")
    d = h.cmd("cmpl 1 2 " + " ".join(all_fields(sc)))
    if d != "=":
        out.append(fail(sc, "repeated mj_forward is not idempotent", d.split()[:16]))
    return out


# ------------------------------------------------------------------------------------------ surfaced exceptions
def probe_sleep_split(h):
    body = ["body 2 0", "set 2 pos 0 0 0.12", "freejoint 3 2", "geom 4 2", "set 4 type %d" % E("mjGEOM_SPHERE"), "set 4 size 0.1"]
    text = c01.simple_model(body, enable=E("mjENBL_SLEEP"))
    if not h.model(text).startswith("ok"):
        return None, {"skipped": "model"}
    h.ok("data 0")
    for k in range(40):
        for _ in range(100):
            h.cmd("call 0 step")
        if any(int(x) >= 0 for x in h.cmd("get 0 tree_asleep").split(":", 1)[1].split()):
            break
    else:
        return None, {"skipped": "no tree fell asleep"}
    cmds = ["data 1", "data 2", "copydata 1 0", "copydata 2 0", "set 1 xfrc_applied 0 0 0 0 0 0 0 0 5 0 0 0", "call 1 step",
            "call 2 step1", "set 2 xfrc_applied 0 0 0 0 0 0 0 0 5 0 0 0", "call 2 step2", "cmp 1 2 qpos qvel qacc tree_asleep"]
    for c in cmds[:-1]:
        h.ok(c)
    d = h.cmd(cmds[-1])
    info = {"differing": d}
    if d != "=":
        return {"key": "c04:sleep-wake-reads-applied-forces",
                "what": "with mjENBL_SLEEP and a sleeping tree, applying xfrc_applied before mj_step wakes the tree in that step "
                        "(mj_kinematics -> mj_wake reads the applied forces), applying it between mj_step1 and mj_step2 does not: "
                        "results differ (%s).  Documented upstream (Notes on sleeping: violated assumptions)" % d,
                "replay": {"model": text, "commands": ["data 0", "call 0 step (until a tree sleeps)"] + cmds}}, info
    return None, info


def probe_control_callback(h):
    body = ["body 2 0", "set 2 pos 0 0 0.5", "joint 3 2", "set 3 type %d" % E("mjJNT_HINGE"), "set 3 axis 0 1 0", "name 3 j1",
            "geom 4 2", "set 4 type %d" % E("mjGEOM_CAPSULE"), "set 4 size 0.05 0.2", "set 4 pos 0.3 0 0",
            "actuator 5", "set 5 trntype %d" % E("mjTRN_JOINT"), "set 5 target j1"]
    text = c01.simple_model(body, disable=E("mjDSBL_ACTUATION"))
    if not h.model(text).startswith("ok"):
        return None, {"skipped": "model"}
    cmds = ["data 0", "data 1", "setcb 1", "cbcount", "call 0 step", "cbcount", "call 1 step1", "call 1 step2", "cbcount", "setcb 0",
            "cmp 0 1 ctrl qpos qvel"]
    outs = [h.cmd(c) for c in cmds]
    n_step, n_split, d = outs[5], outs[8], outs[10]
    info = {"callback_calls_mj_step": n_step, "callback_calls_step1_step2": n_split, "differing": d}
    if n_step != n_split or d != "=":
        return {"key": "c04:step1-control-callback-ignores-actuation-flag",
                "what": "with mjDSBL_ACTUATION and a control callback installed, mj_step does not call mjcb_control (%s calls) while "
                        "mj_step1 calls it unconditionally (%s calls): the resulting ctrl (integration state) differs (%s)"
                        % (n_step, n_split, d),
                "replay": {"model": text, "commands": cmds, "outputs": outs}}, info
    return None, info


def probe_reset_discards_edit(h):
    """outside the property's domain (non-finite state) — recorded as evidence only"""
    body = ["body 2 0", "set 2 pos 0 0 0.5", "joint 3 2", "set 3 type %d" % E("mjJNT_HINGE"), "set 3 axis 0 1 0", "name 3 j1",
            "geom 4 2", "set 4 type %d" % E("mjGEOM_CAPSULE"), "set 4 size 0.05 0.2", "set 4 pos 0.3 0 0",
            "actuator 5", "set 5 trntype %d" % E("mjTRN_JOINT"), "set 5 target j1"]
    text = c01.simple_model(body)
    if not h.model(text).startswith("ok"):
        return {"skipped": "model"}
    cmds = ["data 0", "data 1", "set 0 qpos nan", "set 1 qpos nan", "set 0 ctrl 0.5", "call 0 step", "call 1 step1", "set 1 ctrl 0.5",
            "call 1 step2", "cmp 0 1 ctrl qpos qvel"]
    outs = [h.cmd(c) for c in cmds]
    return {"commands": cmds, "differing": outs[-1],
            "note": "bad qpos: mj_step resets (discarding the edit made before it), step1;edit;step2 keeps the edit"}


def run(ctx):
    thorough = ctx.tier == "thorough"
    rng = ctx.rng
    ctx.rule = ("generated models x random states; a case = (model, state, test) with tests: split step with input edits, "
                "forwardSkip / inverseSkip x (stage, skipsensor), forward state preservation + idempotence; non-trivial = nv > 0")
    man, sf, dj = c01.build_all(ctx)
    ctx.lean_props(THEOREMS)
    drv = ctx.driver("drv_c01")
    exe = ctx.harness(c01.HARNESS_SRC, "c01_pipeline", deps=["harness/mjbuild.h"])
    if not drv or not exe or sf is None:
        return
    info = LeanInfo(drv)
    h = Harness(exe)
    fails, hist = [], {}
    nmodels = 200 if thorough else 24
    ndiscrete = 40 if thorough else 6       # + models of the discrete-time inverse class (see DISCRETE_INVERSE_PROFILE)
    for mi in range(nmodels + ndiscrete):
        discrete = mi >= nmodels
        split = mi % 2 == 0 and not discrete
        integ = rng.choice(("Euler", "implicit", "implicitfast")) if split else None
        mdl = make_discrete_inverse_model(rng) if discrete else make_model(rng, sleep=0.0, integrator=integ, profile={"no_warmstart": 0.4})
        try:
            sc = Scene(h, info, mdl, False)
            if not sc.loaded:
                continue
            sc.state_fields = sf
            tests = []
            if split:
                tests.append(("split", lambda: [test_split(sc, rng)]))
            elif discrete:
                tests.append(("inverseSkip_discrete", lambda: test_skip(sc, rng, inverse=True, bases=INVERSE_BASES)))
            else:
                tests.append(("forwardSkip", lambda: test_skip(sc, rng)))
                tests.append(("inverseSkip", lambda: test_skip(sc, rng, inverse=True, bases=INVERSE_BASES)))
            tests.append(("forward", lambda: test_forward_state_and_idempotence(sc, rng)))
            for name, t in tests:
                res = [r for r in t() if r]
                hist[name] = hist.get(name, 0) + 1
                ctx.count((ctx.seed, mi, name), nontrivial=sc.sizes.get("nv", 0) > 0)
                fails += res
            if mi < 2:
                ctx.sample({"model_options": mdl.options, "sizes": sc.sizes, "tests": [n for n, _ in tests]})
        except HarnessDied as e:
            fails.append({"what": "harness died (%s)" % e, "replay": {"model": mdl.text(), "commands": h.log[1:][-60:]}})
            h.close()
            h = Harness(exe)
        except RuntimeError as e:
            hist.setdefault("scenario_errors", []).append(str(e)[:300])
            h.close()
            h = Harness(exe)
    nerr = len(hist.get("scenario_errors", []))
    ctx.oblige("at most a few scenarios abandoned on unexpected harness answers", "correspondence", nerr <= 3, str(hist.get("scenario_errors", [])[:3]))
    ctx.extra["tests"] = hist

    def directed(c):
        """runs when a proof / tie obligation is broken and the oracle above found nothing: the rare option cells first (a
        break in the skeleton of mj_inverseSkip / mj_forwardSkip or of a callee shows only in the cell that reaches it), then
        more of the general population"""
        hh = [Harness(exe)]

        def one(mdl, tests):
            try:
                sc = Scene(hh[0], info, mdl, False)
                if not sc.loaded:
                    return None
                sc.state_fields = sf
                res = [r for t in tests for r in t(sc) if r]
            except HarnessDied as e:
                res = [{"what": "harness died (%s)" % e, "replay": {"model": mdl.text(), "commands": hh[0].log[1:][-60:]}}]
            except RuntimeError:
                res = []
                hh[0].close()
                hh[0] = Harness(exe)
            if res:
                f = res[0]
                return {"key": "c04:" + f["what"].split(" (")[0].replace(" ", "-"), "what": f["what"] + ": " + str(f.get("detail")), "replay": f}
            return None
        try:
            for mi in range(40):
                found = one(make_discrete_inverse_model(c.rng),
                            [lambda sc: test_skip(sc, c.rng, inverse=True, bases=INVERSE_BASES), lambda sc: test_skip(sc, c.rng)])
                if found:
                    return found
            for mi in range(60):
                split = mi % 2 == 0
                mdl = make_model(c.rng, sleep=0.0, integrator=c.rng.choice(("Euler", "implicit", "implicitfast")) if split else None)
                tests = [lambda sc: [test_split(sc, c.rng)]] if split else \
                    [lambda sc: test_skip(sc, c.rng), lambda sc: test_skip(sc, c.rng, inverse=True, bases=INVERSE_BASES)]
                found = one(mdl, tests + [lambda sc: test_forward_state_and_idempotence(sc, c.rng)])
                if found:
                    return found
        finally:
            hh[0].close()
        return None
    ctx.directed_search = directed
    for f in fails[:6]:
        ctx.oracle_failure("c04:" + f["what"].split(" (")[0].replace(" ", "-"), f["what"] + ": " + str(f.get("detail")), f)
    probes = {}
    h.close()
    h = Harness(exe, timeout=60.0)
    for name, fn in (("sleep_split", probe_sleep_split), ("control_callback", probe_control_callback)):
        try:
            finding, pinfo = fn(h)
        except (HarnessDied, RuntimeError) as e:
            finding, pinfo = None, {"skipped": str(e)}
            h.close()
            h = Harness(exe, timeout=60.0)
        probes[name] = pinfo
        if finding:
            ctx.oracle_failure(finding["key"], finding["what"], finding["replay"])
    try:
        probes["reset_discards_edit (non-finite state, outside the domain)"] = probe_reset_discards_edit(h)
    except (HarnessDied, RuntimeError) as e:
        probes["reset_discards_edit"] = {"skipped": str(e)}
    h.close()
    ctx.extra["probes"] = probes
    ctx.extra["oracle_failures"] = len(fails)
    if thorough:
        ctx.leanchecker(["MjProof.Props.C04"])
