"""C23  Linear algebra routines agree with their definitions (DESIGN.md §5.C23).

P  Lean theorems over the reals about hand models that mirror the loops of engine_util_blas.c /
   engine_util_solve.c / engine_util_sparse.[ch] (lean/MjProof/Model/LinAlg.lean, Model/Sparse.lean):
   lean/MjProof/Props/C23.lean.
T  differential correspondence: the compiled Lean models on Float (lean/Drivers/C23.lean) against the real
   routines (harness/c/c23_linalg.c) on the same hex-encoded inputs -- bitwise in the scalar build, within a
   stated relative tolerance in the AVX build (where only the sign of a zero can differ).
S  property oracle on the real code alone: sparse / band routines against dense arithmetic done here,
   factor / solve residuals, the certificate checkers (eig3, boxQP, QCQP) whose soundness is a theorem, and the row
   supernodes (res_rowsuper of mju_transposeSparse, mju_superSparse) against the definition -- identical rows --
   directly and through their consumers (sqrMatTDSparse*, AVX mulMatVecSparse).
"""
import math
import struct

USES_GEN = False

META = {
    "technique": "hand models mirroring the C loops (generic over MjNum: same traversal order, same association of every sum, bounds-carrying or checked array accesses) + Lean 4 proofs over the reals (loop invariants over Nat.fold / checked loops, Finset sums, index arithmetic by omega, field_simp/ring for the Cholesky algebra, Mathlib matrices for the certificates) + differential correspondence of the compiled models on Float against the real routines (bitwise in the scalar build, 1e-10 relative in the AVX build; observed deviation 0) + certificate / dense-reference oracle on the real outputs",
    "text": "Models (lean/MjProof/Model/LinAlg.lean, Model/Sparse.lean) of mju_dot, mju_mulMatVec, mju_mulMatTVec, mju_sqrMatTD, mju_cholFactor, mju_cholSolve, mju_cholUpdate, mju_dense2Band, mju_band2Dense, mju_bandDiag, mju_factorLU, mju_solveLU, mju_dotSparse, mju_mulMatVecSparse, mju_mulMatTVecSparse, mju_addToSymSparse, mju_mulSymVecSparse, mju_sparse2dense, mju_dense2sparse, mju_compressSparse, mju_transposeSparse (with and without res_rowsuper), mju_superSparse, mju_combineSparseCount and mju_combineSparse. Proved for every size and every input (over the reals): mju_dot (4-accumulator unrolling + remainder group) and mju_mulMatVec / mju_mulMatTVec / mju_sqrMatTD equal the sums that define them; band_dense_roundtrip: for all ntotal, nband >= 1, ndense <= ntotal and both flg_sym, band2Dense(dense2Band(A)) reproduces A on every band-admissible entry, is 0 elsewhere in the lower triangle and 0 / mirrored above the diagonal, with every access in range, and mju_bandDiag is the address of (i,i); on ANY CSR-style pattern (row extents inside the buffers and stored columns < nc are the only assumptions: empty rows, unsorted and duplicate columns, gaps, rows in any order, the uncompressed layout): mju_dotSparse = dense dot with the scattered vector, mju_mulMatVecSparse = dense M v, mju_mulMatTVecSparse = dense M^T v (zero multipliers skipped), mju_addToSymSparse = dense addition with optional mirroring; mju_mulSymVecSparse on symmetric lower-triangular storage (diagonal last in every row) = (D + strict_lower(D)^T) v with every access in range; with distinct columns per row mju_sparse2dense writes the represented matrix; sparse2dense(dense2sparse(M)) = M whenever the capacity is at least the number of non-zeros (no overflow exit, valid sorted pattern), and dense2sparse(sparse2dense(P)) represents the same matrix as P; mju_compressSparse (rows in increasing address order) performs only in-range accesses, makes the rows contiguous and keeps exactly the entries with |v| > minval (all of them for minval < 0); mju_transposeSparse (addresses relative to rowadr[0] = 0, enough output capacity) performs only in-range accesses and its output row c represents column c of the input, contiguous, with valid and non-decreasing column indices; transposeSparse_rowsuper: with res_rowsuper != NULL (marking statements interleaved with the placement loop, c_prev reset per input row) the other outputs are exactly those of the NULL call, every access is in range, and on ANY pattern the result rows c .. c+res_rowsuper[c] have identical nnz and colind sequences (what mju_sqrMatTDSparse* through rowsuperT and the AVX mju_mulMatVecSparse rely on), the array has run-length structure, and for input rows with increasing columns the runs are maximal; superSparse_exact: on any pattern rowsuper[r] is exactly the number of consecutive following rows identical to row r; mju_combineSparse on strictly increasing index arrays whose union fits the buffers performs only in-range accesses, returns nnz = size of the union (as counted by mju_combineSparseCount), a strictly increasing result pattern and a*dst + b*src as the represented vector (in-place backward merge, identical-pattern fast path and the a == 1 shortcut included); cholSolve_correct: for every matrix with non-zero diagonal mju_cholSolve solves (L L^T) x = b with L the lower triangle (upper triangle ignored); cholFactor_reconstructs_partial: if mju_cholFactor reports full rank (mindiag > 0) then L has positive diagonal, L L^T = A on the lower triangle and the upper triangle is untouched, hence (for symmetric A) factor + solve gives A x = b; cholUpdate_eq_refactor_partial: if mju_cholUpdate reports rank n then L' L'^T = L L^T +/- x x^T; certificate theorems: A V = V diag(lam), V^T V = I imply A = V diag(lam) V^T with eigenvector columns (eig3), KKT sign conditions imply global optimality of a box-constrained QP with symmetric PSD Hessian (boxQP), and stationarity + complementary slackness with a non-negative multiplier imply global optimality for the ellipsoid-constrained QP (QCQP2/3/QCQP).",
    "note": "Real numbers, not IEEE: rounding is outside the proofs (the tie to the compiled code is bitwise on Float in the scalar build; in the AVX build only the sign of a zero could differ, none observed). `_partial` theorems: cholFactor is proved correct on the full-rank path (what is missing: that an SPD input always takes it; the deficiency branch that substitutes mindiag and clears the column is covered by the correspondence only); cholUpdate is proved to produce *a* Cholesky factor of the updated matrix on the no-rank-loss path (uniqueness of the factor, i.e. literal equality with mju_cholFactor of the updated matrix, and the mjMINVAL branch are not proved). Modelled and tied bitwise but without a theorem (sampled: differential + dense oracle): mju_factorLU / mju_solveLU (oracle: L U = P A, (L U) x = P b). Not modelled, oracle only on the real code: mju_eig3, mju_boxQP, mju_QCQP2/3/QCQP (iterative; checked against the certificates whose soundness is proved), mju_cholFactorBand / mju_cholSolveBand / mju_bandMulMatVec (against dense arithmetic on band-admissible SPD matrices), mju_sqrMatTDSparse, mju_sqrMatTDSparse_row and mju_sqrMatTDSparseSymbolic/Numeric with and without the transposed supernodes of mju_transposeSparse, lower triangle and (diagind != NULL) full matrix, compressed and uncompressed input (against mju_sqrMatTD), the supernode path of mju_mulMatVecSparse (AVX only) with the supernodes of mju_superSparse and with those of mju_transposeSparse (M' v). Supernode-related ops are sampled on random patterns and on structured ones whose transpose has supernodes and near-supernodes (adjacent columns with equal counts in different rows, block staircases where a row starts in the column after the previous row's last one, all small patterns); the kinds are counted in supernode_pattern_kinds. Observed accuracy limits of the real code, encoded in the oracle tolerances and reported, not treated as violations: mju_eig3 stops rotating below 1.4e-6 rad (early exit `c > 1 - eigEPS`), leaving |A V - V diag| up to ~3.5e-6 * max|A| while eigenvalues and orthonormality are accurate to 1e-12; mju_QCQP* run at most 20 Newton steps from la = 0 and return the last iterate unprojected, so feasibility is reached only when |unconstrained minimiser| / r is below ~100 (the engine projects afterwards: `in case QCQP is approximate`); the oracle checks stationarity everywhere and feasibility / tightness for ratios <= 30. mju_transposeSparse addresses mat / colind relative to rowadr[0] (calling convention of the C code), the theorem is for rowadr[0] = 0, the correspondence also covers gaps between rows. For unsorted / duplicate input columns mju_transposeSparse may report fewer supernodes than exist (sound, not maximal): only soundness is proved and checked there.",
}

P = "MjProof.C23."
THEOREMS = [P + t for t in (
    "dot_eq_sum", "mulMatVec_eq", "mulMatTVec_eq", "sqrMatTD_eq",
    "cholSolve_correct", "cholFactor_reconstructs_partial", "cholFactor_cholSolve_solves",
    "cholUpdate_eq_refactor_partial",
    "band_dense_roundtrip", "bandDiag_eq_addr",
    "dotSparse_eq_dense", "mulMatVecSparse_eq_dense", "mulMatTVecSparse_eq_dense", "addToSymSparse_eq_dense",
    "sparse2dense_eq_dense", "sparse2dense_dense2sparse", "dense2sparse_sparse2dense",
    "compressSparse_preserves", "transposeSparse_eq_dense", "transposeSparse_rowsuper", "superSparse_exact",
    "mulSymVecSparse_eq_dense",
    "combineSparseCount_eq", "combineSparse_eq_dense",
    "eig3_certificate", "boxQP_certificate", "QCQP_certificate",
)]

AVX_RTOL = 1e-10       # stated tolerance of the AVX correspondence (observed deviation: see evidence)
EIG_VEC_TOL = 1e-4     # see oracle_only_op (early exit of the Jacobi loop at angles < 1.4e-6 rad)
EIG_DEV = [0.0]
ORACLE_TOL = 1e-9      # residual tolerance (times problem scale) of the oracle on well-conditioned samples


# ------------------------------------------------------------------------------------------ encoding
def hexf(x):
    if x != x:
        return "nan"
    return "%016x" % struct.unpack(">Q", struct.pack(">d", float(x)))[0]


def unhex(t):
    if t == "nan":
        return float("nan")
    return struct.unpack(">d", struct.pack(">Q", int(t, 16)))[0]


def isf(t):
    return t == "nan" or len(t) == 16


def fv(v):
    return " ".join(hexf(x) for x in v)


def iv(v):
    return " ".join(str(int(x)) for x in v)


def J(*parts):
    return " ".join(str(p) for p in parts if str(p) != "")


# ------------------------------------------------------------------------------------------ random data
def rfloat(rng, style=None):
    s = style or rng.choice(("g", "g", "g", "i", "z", "big", "small"))
    if s == "g":
        return rng.gauss(0, 1)
    if s == "i":
        return float(rng.randint(-4, 4))
    if s == "z":
        return rng.choice((0.0, 0.0, -0.0))
    if s == "big":
        return rng.gauss(0, 1) * 10 ** rng.randint(2, 8)
    return rng.gauss(0, 1) * 10 ** (-rng.randint(2, 8))


def rvec(rng, n, style=None, pzero=0.0):
    return [0.0 if rng.random() < pzero else rfloat(rng, style) for _ in range(n)]


def size(rng, hi=40):
    """sizes 0..hi with weight on the SIMD remainders 1..9"""
    r = rng.random()
    if r < 0.45:
        return rng.randint(1, 9)
    if r < 0.5:
        return 0
    return rng.randint(1, hi)


def spd(rng, n, cond_exp=2):
    """well-conditioned SPD matrix B B^T + n I scaled (row-major list)"""
    B = [[rng.gauss(0, 1) for _ in range(n)] for _ in range(n)]
    A = [[sum(B[i][k] * B[j][k] for k in range(n)) for j in range(n)] for i in range(n)]
    for i in range(n):
        A[i][i] += n * 10.0 ** (-rng.randint(0, cond_exp))
    return [A[i][j] for i in range(n) for j in range(n)]


def pattern(rng, nr, nc, layout=None, sorted_unique=True, garbage_lt_nc=False, maxrow=None, rows=None):
    """random CSR-style pattern -> (cap, rownnz, rowadr, colind); rows may be empty; layouts: compressed,
    uncompressed (rowadr = r*nc), gaps (random slack between rows), shuffled (rows stored out of order);
    `rows` (list of column lists) fixes the stored entries, only the layout is drawn"""
    layout = layout or rng.choice(("compressed", "compressed", "uncompressed", "gaps", "shuffled"))
    given = rows is not None
    rows = list(rows) if given else []
    pe = rng.choice((0.0, 0.2, 0.5))
    for r in range(0 if given else nr):
        if nc == 0 or rng.random() < pe:
            rows.append([])
            continue
        k = rng.randint(0, min(nc, maxrow or nc))
        if rng.random() < 0.5:
            k = min(k, rng.randint(0, 9))
        if sorted_unique:
            rows.append(sorted(rng.sample(range(nc), k)))
        else:
            rows.append([rng.randrange(nc) for _ in range(k)])
    # supernode-like repetition of the previous row's pattern
    for r in range(1, 0 if given else nr):
        if rng.random() < 0.25:
            rows[r] = list(rows[r - 1])
    if layout == "uncompressed":
        rowadr = [r * nc for r in range(nr)]
        cap = nr * nc
    else:
        order = list(range(nr))
        if layout == "shuffled":
            rng.shuffle(order)
        rowadr = [0] * nr
        adr = 0
        for r in order:
            if layout in ("gaps", "shuffled"):
                adr += rng.choice((0, 0, 1, 3))
            rowadr[r] = adr
            adr += len(rows[r])
        cap = adr + (rng.choice((0, 0, 2)) if layout != "compressed" else 0)
    hi = max(nc, 1) if garbage_lt_nc else nc + 3
    colind = [rng.randrange(hi) if hi > 0 else 0 for _ in range(cap)]
    if garbage_lt_nc and nc == 0:
        colind = [0] * cap
    for r in range(nr):
        for k, c in enumerate(rows[r]):
            colind[rowadr[r] + k] = c
    rownnz = [len(x) for x in rows]
    return cap, rownnz, rowadr, colind, layout


SUPER_KINDS = ("columns", "staircase", "tiny", "rows")


def super_rows(rng, nr, nc, kind=None):
    """rows (sorted, distinct columns) whose TRANSPOSE has supernodes (adjacent columns with the same row set) and
    near-supernodes (adjacent columns with equally many entries in different rows; rows that begin in the column
    after the one where the previous row ended).  kinds:
      columns    column by column: copy of the previous column's row set / same size, other rows / one row moved / fresh
      staircase  block structure as in a constraint Jacobian: consecutive column blocks, every row covers a contiguous
                 range of one block (successive rows continue in the next block), a few rows span several blocks
      tiny       every entry present with probability 1/2 (meant for nr, nc <= 4: covers most small patterns)
      rows       row by row: copy of the previous row / same size, other columns / fresh (supernodes of the matrix itself)
    -> (rows, kind)"""
    kind = kind or rng.choice(SUPER_KINDS)
    rows = [[] for _ in range(nr)]
    if nr == 0 or nc == 0:
        return rows, kind
    if kind == "columns":
        cur = set(rng.sample(range(nr), rng.randint(0, nr)))
        for c in range(nc):
            u = rng.random()
            if c == 0 or u < 0.25:
                cur = set(rng.sample(range(nr), rng.randint(0, min(nr, rng.choice((2, 4, nr))))))
            elif u < 0.45:
                cur = set(rng.sample(range(nr), len(cur)))         # same count, other rows
            elif u < 0.6 and 0 < len(cur) < nr:
                cur = set(cur)
                cur.remove(rng.choice(sorted(cur)))                # same count, one row moved
                cur.add(rng.choice([r for r in range(nr) if r not in cur]))
            # else: identical to the previous column
            for r in cur:
                rows[r].append(c)
    elif kind == "staircase":
        cuts = sorted(set([0, nc] + [rng.randrange(nc + 1) for _ in range(rng.randint(0, 4))]))
        blocks = [(a, b) for a, b in zip(cuts, cuts[1:]) if b > a]
        bi = 0
        for r in range(nr):
            u = rng.random()
            if u < 0.15:
                continue                                           # empty row
            if u < 0.35:                                           # row spanning several blocks
                i = rng.randrange(len(blocks))
                j = rng.randrange(i, len(blocks))
                rows[r] = list(range(blocks[i][0], blocks[j][1]))
                if rng.random() < 0.3 and len(rows[r]) > 1:
                    rows[r].remove(rng.choice(rows[r]))
                continue
            a, b = blocks[bi % len(blocks)]
            bi += rng.choice((1, 1, 1, 0, 2))
            if rng.random() < 0.3:
                a = rng.randint(a, b - 1)
            if rng.random() < 0.3:
                b = rng.randint(a + 1, b)
            rows[r] = list(range(a, b))
    elif kind == "tiny":
        rows = [[c for c in range(nc) if rng.random() < 0.5] for _ in range(nr)]
    else:
        for r in range(nr):
            u = rng.random()
            if r == 0 or u < 0.3:
                rows[r] = sorted(rng.sample(range(nc), rng.randint(0, min(nc, rng.choice((2, 5, nc))))))
            elif u < 0.5:
                rows[r] = sorted(rng.sample(range(nc), len(rows[r - 1])))
            else:
                rows[r] = list(rows[r - 1])
    return rows, kind


def super_dims(rng, kind, hi=14):
    if kind == "tiny":
        return rng.randint(1, 4), rng.randint(1, 4)
    return max(1, size(rng, hi)), max(1, size(rng, hi))


def run_lengths(seqs):
    """exact supernode array of a list of rows: number of following rows identical to row i, consecutively"""
    n = len(seqs)
    sup = [0] * n
    for i in range(n - 2, -1, -1):
        if seqs[i] == seqs[i + 1]:
            sup[i] = sup[i + 1] + 1
    return sup


def check_super(sup, seqs, exact, who):
    """sup: reported rowsuper; seqs: the rows (column index sequences) it talks about.  Soundness (every reported
    supernode consists of identical rows) and run structure always; exactness (maximal runs) when `exact`."""
    n = len(seqs)
    if len(sup) != n:
        return who + ": rowsuper has the wrong length"
    want = run_lengths(seqs)
    for i in range(n):
        if sup[i] < 0 or i + sup[i] >= n:
            return who + ": rowsuper[%d] = %d reaches past the last row" % (i, sup[i])
        if sup[i] > want[i]:
            return (who + ": rowsuper[%d] = %d but rows %d and %d have different sparsity patterns"
                    % (i, sup[i], i + want[i], i + want[i] + 1))
        if sup[i] > 0 and sup[i + 1] != sup[i] - 1:
            return who + ": rowsuper[%d] = %d is not followed by %d" % (i, sup[i], sup[i] - 1)
        if exact and sup[i] != want[i]:
            return who + ": rowsuper[%d] = %d, the run of identical rows has length %d" % (i, sup[i], want[i])
    return None


SUPER_COV = {"lines": 0, "lines with a supernode": 0,
             "adjacent result rows, equal nnz > 0, different pattern (flag must be cleared)": 0,
             "input rows starting one column after the previous non-empty row's last column": 0,
             "lines with unsorted or duplicate input columns (soundness only)": 0}
SUPER_HIST = {}    # generator kind -> number of supernode-related lines (recorded in ctx.extra)


def patstr(nr, nc, cap, rownnz, rowadr, colind):
    return J(nr, nc, cap, iv(rownnz), iv(rowadr), iv(colind))


def band_size(nt, nb, nd):
    return (nt - nd) * nb + nd * nt


# ------------------------------------------------------------------------------------------ generators
def gen_lines(ctx, n_each):
    """differential op lines (answered by both sides); returns list of (kind, line)"""
    rng = ctx.rng
    out = []

    def add(kind, line):
        out.append((kind, line))

    for _ in range(n_each):
        # ---- dense blas
        n = size(rng)
        add("dot", J("dot", n, fv(rvec(rng, n)), fv(rvec(rng, n))))
        nr, nc = size(rng, 20), size(rng, 20)
        add("mv", J("mv", nr, nc, fv(rvec(rng, nr * nc)), fv(rvec(rng, nc))))
        add("mtv", J("mtv", nr, nc, fv(rvec(rng, nr * nc, pzero=0.2)), fv(rvec(rng, nr, pzero=0.3))))
        nr, nc = size(rng, 12), size(rng, 12)
        used = rng.randint(0, 1)
        add("sqrtd", J("sqrtd", nr, nc, used, fv(rvec(rng, nr * nc, pzero=0.3)),
                       fv(rvec(rng, nr, pzero=0.2)) if used else ""))
        # ---- Cholesky
        n = max(1, size(rng, 24))
        A = spd(rng, n)
        kind = rng.random()
        if kind < 0.2:       # rank-deficient / indefinite input: the deficiency branch
            k = rng.randrange(n)
            for j in range(n):
                A[k * n + j] = 0.0
                A[j * n + k] = 0.0
            if rng.random() < 0.5:
                A[k * n + k] = -1.0
        mind = rng.choice((1e-15, 1e-15, 1e-10, 0.5))
        add("cholf", J("cholf", n, hexf(mind), fv(A)))
        L = chol_py(spd(rng, n), n)
        # arbitrary upper triangle (the routines must ignore it)
        Lm = [L[i * n + j] if j <= i else rfloat(rng) for i in range(n) for j in range(n)]
        add("chols", J("chols", n, fv(Lm), fv(rvec(rng, n))))
        plus = rng.randint(0, 1)
        x = rvec(rng, n, "g", pzero=0.3)
        if not plus:
            x = [0.1 * v for v in x]
        if rng.random() < 0.1:
            x = [3.0 * v for v in x]    # downdate may lose rank: mjMINVAL branch
        add("cholu", J("cholu", n, plus, fv(Lm), fv(x)))
        # ---- band
        nt = size(rng, 24)
        nd = rng.randint(0, nt) if rng.random() < 0.7 else rng.choice((0, nt))
        nb = rng.randint(1, max(1, nt - nd + 2))
        add("d2b", J("d2b", nt, nb, nd, hexf(rfloat(rng)), fv(rvec(rng, nt * nt))))
        add("b2d", J("b2d", nt, nb, nd, rng.randint(0, 1), fv(rvec(rng, band_size(nt, nb, nd)))))
        if nt:
            add("bdiag", J("bdiag", rng.randrange(nt), nt, nb, nd))
        # ---- LU
        n = max(1, size(rng, 20))
        A = rvec(rng, n * n, "g")
        if rng.random() < 0.1:
            k = rng.randrange(n)
            for j in range(n):
                A[j * n + k] = 0.0       # singular exit
        add("lufac", J("lufac", n, fv(A)))
        piv = [rng.randint(i, n - 1) for i in range(n)]
        add("lusolve", J("lusolve", n, fv([v + (n if i % (n + 1) == 0 else 0) for i, v in enumerate(rvec(rng, n * n, "g"))]),
                         iv(piv), fv(rvec(rng, n))))
        # ---- sparse
        nnz, n = size(rng, 30), max(1, size(rng))
        add("spdot", J("spdot", nnz, n, fv(rvec(rng, nnz)), iv([rng.randrange(n) for _ in range(nnz)]), fv(rvec(rng, n))))
        for opn in ("spmv", "spmtv", "s2d"):
            nr, nc = size(rng, 20), size(rng, 20)
            cap, rownnz, rowadr, colind, lay = pattern(rng, nr, nc, sorted_unique=rng.random() < 0.8)
            mat = rvec(rng, cap, pzero=0.1)
            extra = {"spmv": fv(rvec(rng, nc)), "spmtv": fv(rvec(rng, nr, pzero=0.3)), "s2d": ""}[opn]
            add(opn + ":" + lay, J(opn, patstr(nr, nc, cap, rownnz, rowadr, colind), fv(mat), extra))
        n = size(rng, 16)
        cap, rownnz, rowadr, colind, lay = pattern(rng, n, n, sorted_unique=rng.random() < 0.8)
        add("spsym:" + lay, J("spsym", patstr(n, n, cap, rownnz, rowadr, colind), fv(rvec(rng, cap)), rng.randint(0, 1),
                              fv(rvec(rng, n * n))))
        # symmetric lower-triangular storage with the diagonal last in every row
        n = max(1, size(rng, 16))
        rows = [sorted(rng.sample(range(i), rng.randint(0, min(i, 9)))) + [i] for i in range(n)]
        rowadr, adr = [], 0
        for r in rows:
            adr += rng.choice((0, 0, 1))
            rowadr.append(adr)
            adr += len(r)
        colind = [0] * adr
        for i, r in enumerate(rows):
            colind[rowadr[i]:rowadr[i] + len(r)] = r
        add("symv", J("symv", patstr(n, n, adr, [len(r) for r in rows], rowadr, colind), fv(rvec(rng, adr)), fv(rvec(rng, n))))
        nr, nc = size(rng, 16), size(rng, 16)
        mat = rvec(rng, nr * nc, pzero=rng.choice((0.3, 0.7, 0.95)))
        nz = sum(1 for v in mat if v != 0)
        nnz = rng.choice((nz, nz, nz + 3, max(0, nz - 1), 0, nr * nc))
        add("d2s", J("d2s", nr, nc, nnz, fv(mat)))
        # compress: rows in increasing address order (precondition of the in-place shift)
        nr, nc = max(1, size(rng, 16)), size(rng, 16)
        cap, rownnz, rowadr, colind, lay = pattern(rng, nr, nc, layout=rng.choice(("compressed", "uncompressed", "gaps")))
        mat = [rng.choice((0.0, 1e-12, -1e-12, 1.0)) * rng.gauss(0, 1) for _ in range(cap)]
        minval = rng.choice((-1.0, 0.0, 1e-10, 0.5))
        add("spcomp:" + lay, J("spcomp", patstr(nr, nc, cap, rownnz, rowadr, colind), fv(mat), hexf(minval)))
        # transpose
        nr, nc = size(rng, 16), size(rng, 16)
        lay = rng.choice(("compressed", "compressed", "uncompressed", "gaps"))
        cap, rownnz, rowadr, colind, lay = pattern(rng, nr, nc, layout=lay, garbage_lt_nc=True,
                                                   sorted_unique=rng.random() < 0.8)
        if lay == "gaps" and nr and rng.random() < 0.5:
            # leading offset: the routine then addresses relative to rowadr[0] (calling convention of the C code)
            pass
        tot = sum(rownnz)
        add("sptr:" + lay, J("sptr", patstr(nr, nc, cap, rownnz, rowadr, colind), tot + rng.choice((0, 0, 2)), fv(rvec(rng, cap))))
        # transpose with res_rowsuper: half random patterns (incl. unsorted / duplicate columns), half structured ones
        if rng.random() < 0.5:
            nr, nc = size(rng, 16), size(rng, 16)
            cap, rownnz, rowadr, colind, lay = pattern(rng, nr, nc, layout=rng.choice(("compressed", "compressed", "uncompressed", "gaps")),
                                                       garbage_lt_nc=True, sorted_unique=rng.random() < 0.7)
            kind = "random"
        else:
            kind = rng.choice(SUPER_KINDS)
            nr, nc = super_dims(rng, kind, 16)
            rows, kind = super_rows(rng, nr, nc, kind)
            cap, rownnz, rowadr, colind, lay = pattern(rng, nr, nc, layout=rng.choice(("compressed", "compressed", "uncompressed", "gaps")),
                                                       garbage_lt_nc=True, rows=rows)
        SUPER_HIST["sptrs:" + kind] = SUPER_HIST.get("sptrs:" + kind, 0) + 1
        add("sptrs:" + lay, J("sptrs", patstr(nr, nc, cap, rownnz, rowadr, colind), sum(rownnz) + rng.choice((0, 0, 2)), fv(rvec(rng, cap))))
        # supernodes of the matrix itself (any layout, rows in any order, unsorted / duplicate columns)
        if rng.random() < 0.5:
            nr, nc = size(rng, 16), size(rng, 16)
            cap, rownnz, rowadr, colind, lay = pattern(rng, nr, nc, sorted_unique=rng.random() < 0.7)
            kind = "random"
        else:
            kind = rng.choice(("rows", "rows", "tiny", "staircase"))
            nr, nc = super_dims(rng, kind, 16)
            rows, kind = super_rows(rng, nr, nc, kind)
            cap, rownnz, rowadr, colind, lay = pattern(rng, nr, nc, rows=rows)
        SUPER_HIST["spsuper:" + kind] = SUPER_HIST.get("spsuper:" + kind, 0) + 1
        add("spsuper:" + lay, J("spsuper", patstr(nr, nc, cap, rownnz, rowadr, colind)))
        # combine
        n = max(1, size(rng, 30))
        da = sorted(rng.sample(range(n), rng.randint(0, min(n, 12))))
        r = rng.random()
        if r < 0.2:
            sa = list(da)
        elif r < 0.3:
            sa = []
        else:
            sa = sorted(rng.sample(range(n), rng.randint(0, min(n, 12))))
        union = len(set(da) | set(sa))
        cp = union + rng.choice((0, 0, 1, 4))
        dind = da + [rng.randrange(n + 2) for _ in range(cp - len(da))]
        dst = rvec(rng, cp)
        a = rng.choice((1.0, 1.0, rfloat(rng, "g"), 0.0))
        b = rng.choice((1.0, rfloat(rng, "g"), -1.0))
        add("spcomb", J("spcomb", hexf(a), hexf(b), len(da), len(sa), cp, iv(dind), fv(dst), iv(sa), fv(rvec(rng, len(sa)))))
        add("spcount", J("spcount", len(da), len(sa), iv(da), iv(sa)))
    add("malformed", "frob 1 2")
    add("malformed", "dot 3 0000000000000000")
    return out


def chol_py(A, n):
    L = [0.0] * (n * n)
    for j in range(n):
        s = A[j * n + j] - sum(L[j * n + k] ** 2 for k in range(j))
        L[j * n + j] = math.sqrt(s)
        for i in range(j + 1, n):
            L[i * n + j] = (A[i * n + j] - sum(L[i * n + k] * L[j * n + k] for k in range(j))) / L[j * n + j]
    return L


# ------------------------------------------------------------------------------------------ comparison
class Dev:
    """float deviation bookkeeping of a tolerance comparison"""
    def __init__(self):
        self.maxrel = 0.0
        self.nonbitwise = 0


def make_cmp(rtol, dev):
    def cmp(a, b):
        if a == b:
            return True
        ta, tb = a.split(), b.split()
        if len(ta) != len(tb):
            return False
        fa = [unhex(x) for x in ta if isf(x)]
        fb = [unhex(x) for x in tb if isf(x)]
        scale = max([abs(x) for x in fa + fb if x == x and abs(x) != math.inf] + [1e-300])
        ok = True
        for x, y in zip(ta, tb):
            if x == y:
                continue
            if not (isf(x) and isf(y)):
                return False
            u, v = unhex(x), unhex(y)
            if u != u or v != v:
                return False
            d = abs(u - v) / scale if abs(u - v) != 0 else 0.0
            dev.maxrel = max(dev.maxrel, d)
            dev.nonbitwise += 1
            if d > rtol:
                ok = False
        return ok
    return cmp


# ------------------------------------------------------------------------------------------ oracle (impl alone)
def parse_pat(w, i):
    nr, nc, cap = int(w[i]), int(w[i + 1]), int(w[i + 2])
    i += 3
    rownnz = [int(x) for x in w[i:i + nr]]
    i += nr
    rowadr = [int(x) for x in w[i:i + nr]]
    i += nr
    colind = [int(x) for x in w[i:i + cap]]
    i += cap
    return (nr, nc, cap, rownnz, rowadr, colind), i


def getf(w, i, n):
    return [unhex(x) for x in w[i:i + n]], i + n


def dense_of(pat, mat, accumulate=True):
    nr, nc, cap, rownnz, rowadr, colind = pat
    D = [[0.0] * nc for _ in range(nr)]
    for r in range(nr):
        for k in range(rownnz[r]):
            c = colind[rowadr[r] + k]
            if accumulate:
                D[r][c] += mat[rowadr[r] + k]
            else:
                D[r][c] = mat[rowadr[r] + k]
    return D


SLACK = {}        # op kind -> max observed |residual| / tolerance (must stay <= 0.1: >= 10x slack)
CUR = ["?"]


def note_ratio(ratio):
    if ratio == ratio and ratio != math.inf:
        SLACK[CUR[0]] = max(SLACK.get(CUR[0], 0.0), ratio)


def close(a, b, scale, tol=ORACLE_TOL):
    if a != a or b != b:
        return (a != a) == (b != b)
    if abs(a) == math.inf or abs(b) == math.inf:
        return a == b
    if scale > 0 and tol > 0:
        note_ratio(abs(a - b) / (tol * max(scale, 1e-300)))
    return abs(a - b) <= tol * max(scale, 1e-300)


def vclose(u, v, scale, tol=ORACLE_TOL):
    return len(u) == len(v) and all(close(a, b, scale, tol) for a, b in zip(u, v))


def finite(v):
    return all(x == x and abs(x) != math.inf for x in v)


def oracle_diff_op(kind, line, out):
    """independent (dense, Python) evaluation of what the routine is documented to compute; None or a message"""
    CUR[0] = kind.split(":")[0]
    w = line.split()
    op = w[0]
    if out == "bad-op":
        return None if kind == "malformed" else "valid op rejected by the harness"
    o = out.split()
    try:
        if op == "dot":
            n = int(w[1])
            x, i = getf(w, 2, n)
            y, i = getf(w, i, n)
            if not finite(x + y):
                return None
            ref = math.fsum(a * b for a, b in zip(x, y))
            sc = math.fsum(abs(a * b) for a, b in zip(x, y))
            return None if close(unhex(o[0]), ref, sc) else "mju_dot differs from the sum of products"
        if op in ("mv", "mtv"):
            nr, nc = int(w[1]), int(w[2])
            m, i = getf(w, 3, nr * nc)
            v, i = getf(w, i, nc if op == "mv" else nr)
            res = [unhex(x) for x in o]
            if not finite(m + v):
                return None
            if op == "mv":
                ref = [math.fsum(m[r * nc + c] * v[c] for c in range(nc)) for r in range(nr)]
                sc = max([math.fsum(abs(m[r * nc + c] * v[c]) for c in range(nc)) for r in range(nr)] + [0])
            else:
                ref = [math.fsum(m[r * nc + c] * v[r] for r in range(nr)) for c in range(nc)]
                sc = max([math.fsum(abs(m[r * nc + c] * v[r]) for r in range(nr)) for c in range(nc)] + [0])
            return None if vclose(res, ref, sc) else "mju_mulMat%sVec differs from the dense product" % ("" if op == "mv" else "T")
        if op == "sqrtd":
            nr, nc, used = int(w[1]), int(w[2]), int(w[3])
            m, i = getf(w, 4, nr * nc)
            d = getf(w, i, nr)[0] if used else [1.0] * nr
            res = [unhex(x) for x in o]
            ref, sc = [], 0.0
            for a in range(nc):
                for b in range(nc):
                    ref.append(math.fsum(m[r * nc + a] * d[r] * m[r * nc + b] for r in range(nr)))
                    sc = max(sc, math.fsum(abs(m[r * nc + a] * d[r] * m[r * nc + b]) for r in range(nr)))
            return None if vclose(res, ref, sc) else "mju_sqrMatTD differs from M' diag M"
        if op == "spdot":
            nnz, n = int(w[1]), int(w[2])
            v1, i = getf(w, 3, nnz)
            ind = [int(x) for x in w[i:i + nnz]]
            v2, i = getf(w, i + nnz, n)
            ref = math.fsum(v1[k] * v2[ind[k]] for k in range(nnz))
            sc = math.fsum(abs(v1[k] * v2[ind[k]]) for k in range(nnz))
            return None if close(unhex(o[0]), ref, sc) else "mju_dotSparse differs from the dense dot product of the scattered vector"
        if op in ("spmv", "spmtv", "s2d", "spsym", "symv", "spmv_super"):
            pat, i = parse_pat(w, 1)
            nr, nc, cap = pat[0], pat[1], pat[2]
            mat, i = getf(w, i, cap)
            res = [unhex(x) for x in o]
            if op == "s2d":
                rows = [pat[5][pat[4][r]:pat[4][r] + pat[3][r]] for r in range(nr)]
                if any(len(set(r)) != len(r) for r in rows):
                    D = dense_of(pat, mat, accumulate=False)
                else:
                    D = dense_of(pat, mat)
                ref = [x for row in D for x in row]
                return None if vclose(res, ref, 0.0) else "mju_sparse2dense is not the represented matrix"
            D = dense_of(pat, mat)
            if op in ("spmv", "spmv_super"):
                v, i = getf(w, i, nc)
                ref = [math.fsum(D[r][c] * v[c] for c in range(nc)) for r in range(nr)]
                sc = max([math.fsum(abs(mat[pat[4][r] + k] * v[pat[5][pat[4][r] + k]]) for k in range(pat[3][r])) for r in range(nr)] + [0])
                return None if vclose(res, ref, sc) else "mju_mulMatVecSparse differs from the dense product"
            if op == "spmtv":
                v, i = getf(w, i, nr)
                ref = [math.fsum(D[r][c] * v[r] for r in range(nr)) for c in range(nc)]
                sc = max([abs(x) for x in mat] + [0]) * max([abs(x) for x in v] + [0]) * max(nr, 1)
                return None if vclose(res, ref, sc) else "mju_mulMatTVecSparse differs from the dense transposed product"
            if op == "spsym":
                upper = int(w[i])
                base, i = getf(w, i + 1, nr * nr)
                ref = list(base)
                for r in range(nr):
                    for k in range(pat[3][r]):
                        c = pat[5][pat[4][r] + k]
                        v = mat[pat[4][r] + k]
                        ref[r * nr + c] += v
                        if upper and c < r:
                            ref[c * nr + r] += v
                sc = max([abs(x) for x in mat + base] + [0]) * 4
                return None if vclose(res, ref, sc) else "mju_addToSymSparse differs from dense addition of the symmetric matrix"
            if op == "symv":
                v, i = getf(w, i, nr)
                S = [[0.0] * nr for _ in range(nr)]
                for r in range(nr):
                    for c in range(nr):
                        if D[r][c] != 0 or True:
                            pass
                for r in range(nr):
                    for k in range(pat[3][r]):
                        c = pat[5][pat[4][r] + k]
                        S[r][c] = mat[pat[4][r] + k]
                        S[c][r] = mat[pat[4][r] + k]
                ref = [math.fsum(S[r][c] * v[c] for c in range(nr)) for r in range(nr)]
                sc = max([abs(x) for x in mat] + [0]) * max([abs(x) for x in v] + [0]) * nr
                return None if vclose(res, ref, sc) else "mju_mulSymVecSparse differs from the dense symmetric product"
        if op == "d2s":
            nr, nc, nnz = int(w[1]), int(w[2]), int(w[3])
            m, i = getf(w, 4, nr * nc)
            nz = sum(1 for v in m if v != 0)
            if o[0] == "1":
                return None if (nnz <= 0 or nz > nnz) else "mju_dense2sparse reported overflow with enough capacity"
            if nz > nnz:
                return "mju_dense2sparse did not report overflow"
            adr = int(o[1])
            rownnz = [int(x) for x in o[2:2 + nr]]
            rowadr = [int(x) for x in o[2 + nr:2 + 2 * nr]]
            colind = [int(x) for x in o[2 + 2 * nr:2 + 2 * nr + adr]]
            vals = [unhex(x) for x in o[2 + 2 * nr + adr:]]
            if adr != nz or len(vals) != adr:
                return "mju_dense2sparse: wrong number of stored entries"
            D = dense_of((nr, nc, adr, rownnz, rowadr, colind), vals, accumulate=False)
            ref = [x for row in D for x in row]
            if not vclose(ref, m, 0.0):
                return "sparse2dense(dense2sparse(M)) != M"
            for r in range(nr):
                row = colind[rowadr[r]:rowadr[r] + rownnz[r]]
                if row != sorted(set(row)):
                    return "mju_dense2sparse: row indices not strictly increasing"
            return None
        if op == "spcomp":
            pat, i = parse_pat(w, 1)
            nr, nc, cap = pat[0], pat[1], pat[2]
            mat, i = getf(w, i, cap)
            minval = unhex(w[i])
            ret = int(o[0])
            rownnz = [int(x) for x in o[1:1 + nr]]
            rowadr = [int(x) for x in o[1 + nr:1 + 2 * nr]]
            colind = [int(x) for x in o[1 + 2 * nr:1 + 2 * nr + cap]]
            vals = [unhex(x) for x in o[1 + 2 * nr + cap:]]
            keep = mat if minval < 0 else [v if abs(v) > minval else 0.0 for v in mat]
            D0 = dense_of(pat, keep)
            D1 = dense_of((nr, nc, cap, rownnz, rowadr, colind), vals)
            if D0 != D1:
                return "mju_compressSparse changed the represented matrix"
            adr = 0
            for r in range(nr):
                if rowadr[r] != adr:
                    return "mju_compressSparse: rows not contiguous"
                adr += rownnz[r]
            if ret != adr:
                return "mju_compressSparse: wrong return value"
            if minval >= 0 and any(abs(vals[rowadr[r] + k]) <= minval for r in range(nr) for k in range(rownnz[r])):
                return "mju_compressSparse kept a small element"
            return None
        if op == "spsuper":
            pat, i = parse_pat(w, 1)
            nr, nc, cap, rownnz, rowadr, colind = pat
            sup = [int(x) for x in o]
            rows = [colind[rowadr[r]:rowadr[r] + rownnz[r]] for r in range(nr)]
            return check_super(sup, rows, True, "mju_superSparse")
        if op in ("sptr", "sptrs"):
            pat, i = parse_pat(w, 1)
            nr, nc, cap, rownnz, rowadr, colind = pat
            capT = int(w[i])
            mat, i = getf(w, i + 1, cap)
            if nr == 0 or nc == 0:
                return None
            off = rowadr[0]
            rel = (nr, nc, cap, rownnz, [a - off for a in rowadr], colind)
            tn = [int(x) for x in o[0:nc]]
            ta = [int(x) for x in o[nc:2 * nc]]
            tc = [int(x) for x in o[2 * nc:2 * nc + capT]]
            tv = [unhex(x) for x in o[2 * nc + capT:2 * nc + 2 * capT]]
            D = dense_of(rel, mat)
            T = dense_of((nc, nr, capT, tn, ta, tc), tv)
            if any(T[c][r] != D[r][c] for r in range(nr) for c in range(nc)):
                return "mju_transposeSparse is not the transpose"
            adr = 0
            for c in range(nc):
                if ta[c] != adr:
                    return "mju_transposeSparse: result rows not contiguous"
                row = tc[ta[c]:ta[c] + tn[c]]
                if row != sorted(row):
                    return "mju_transposeSparse: column indices of a result row not in increasing order"
                adr += tn[c]
            if op == "sptrs":
                # res_rowsuper: sound on every pattern, exact when the input rows have increasing columns
                # (theorems transposeSparse_rowsuper_sound / _exact)
                sup = [int(x) for x in o[2 * nc + 2 * capT:]]
                inrows = [colind[rowadr[r] - off:rowadr[r] - off + rownnz[r]] for r in range(nr)]
                exact = all(all(a < b for a, b in zip(x, x[1:])) for x in inrows)
                trows = [tc[ta[c]:ta[c] + tn[c]] for c in range(nc)]
                # measured coverage of the situations the marking loop has to get right
                SUPER_COV["lines"] += 1
                SUPER_COV["lines with a supernode"] += any(run_lengths(trows))
                SUPER_COV["adjacent result rows, equal nnz > 0, different pattern (flag must be cleared)"] += sum(
                    1 for c in range(nc - 1) if tn[c] == tn[c + 1] and tn[c] and trows[c] != trows[c + 1])
                ne = [x for x in inrows if x]
                SUPER_COV["input rows starting one column after the previous non-empty row's last column"] += sum(
                    1 for a, b in zip(ne, ne[1:]) if b[0] == a[-1] + 1)
                SUPER_COV["lines with unsorted or duplicate input columns (soundness only)"] += not exact
                return check_super(sup, trows, exact, "mju_transposeSparse")
            return None
        if op == "spcount":
            na, nb = int(w[1]), int(w[2])
            a = [int(x) for x in w[3:3 + na]]
            b = [int(x) for x in w[3 + na:3 + na + nb]]
            return None if int(o[0]) == len(set(a) | set(b)) else "mju_combineSparseCount is not the size of the union"
        if op == "spcomb":
            a, b = unhex(w[1]), unhex(w[2])
            dn, ns, cp = int(w[3]), int(w[4]), int(w[5])
            dind = [int(x) for x in w[6:6 + cp]]
            dst, i = getf(w, 6 + cp, cp)
            sind = [int(x) for x in w[i:i + ns]]
            src, i = getf(w, i + ns, ns)
            nnz = int(o[0])
            rind = [int(x) for x in o[1:1 + nnz]]
            rval = [unhex(x) for x in o[1 + nnz:]]
            want = {}
            for k in range(dn):
                want[dind[k]] = a * dst[k]
            for k in range(ns):
                want[sind[k]] = want.get(sind[k], 0.0) + b * src[k] if sind[k] in want else b * src[k]
            keys = sorted(want)
            if rind != keys:
                return "mju_combineSparse: result pattern is not the sorted union"
            sc = max([abs(x) for x in dst + src] + [0]) * (abs(a) + abs(b))
            return None if vclose(rval, [want[k] for k in keys], sc) else "mju_combineSparse: values differ from a*dst + b*src"
        if op == "cholf":
            n = int(w[1])
            mind = unhex(w[2])
            A, i = getf(w, 3, n * n)
            rank = int(o[0])
            L = [unhex(x) for x in o[1:]]
            if rank != n:
                return None      # deficiency branch: covered by the correspondence only
            sc = max(abs(x) for x in A)
            for i_ in range(n):
                for j in range(i_ + 1):
                    s = math.fsum(L[i_ * n + k] * L[j * n + k] for k in range(j + 1))
                    if not close(s, A[i_ * n + j], sc * n):
                        return "mju_cholFactor reported full rank but L L' != A"
                if not L[i_ * n + i_] > 0:
                    return "mju_cholFactor: non-positive diagonal"
            return None
        if op == "chols":
            n = int(w[1])
            L, i = getf(w, 2, n * n)
            b, i = getf(w, i, n)
            x = [unhex(t) for t in o]
            # residual of (L L') x = b using only the lower triangle
            y = [math.fsum(L[j * n + i_] * x[j] for j in range(i_, n)) for i_ in range(n)]
            r = [math.fsum(L[i_ * n + k] * y[k] for k in range(i_ + 1)) for i_ in range(n)]
            dmin = min(abs(L[k * n + k]) for k in range(n))
            dmax = max(abs(v) for v in L[:]) if L else 1
            cond = (dmax / dmin) ** 2 * n if dmin > 0 else math.inf
            if cond > 1e5:
                return None
            sc = max(abs(v) for v in b + [1e-300]) * cond
            return None if vclose(r, b, sc) else "mju_cholSolve: (L L') x != b"
        if op == "cholu":
            n, plus = int(w[1]), int(w[2])
            L, i = getf(w, 3, n * n)
            x, i = getf(w, i, n)
            rank = int(o[0])
            L2 = [unhex(t) for t in o[1:1 + n * n]]
            if rank != n:
                return None
            sgn = 1.0 if plus else -1.0
            sc = max(abs(v) for v in L) ** 2 * n + max(abs(v) for v in x) ** 2
            worst_ratio = 1.0
            for k in range(n):
                worst_ratio = max(worst_ratio, abs(L[k * n + k] / L2[k * n + k]) if L2[k * n + k] != 0 else math.inf)
            if worst_ratio > 1e3:
                return None     # ill-conditioned downdate
            for i_ in range(n):
                for j in range(i_ + 1):
                    want = math.fsum(L[i_ * n + k] * L[j * n + k] for k in range(j + 1)) + sgn * x[i_] * x[j]
                    got = math.fsum(L2[i_ * n + k] * L2[j * n + k] for k in range(j + 1))
                    if not close(got, want, sc * worst_ratio ** 2, 1e-8):
                        return "mju_cholUpdate: L' L'^T != L L^T %s x x^T" % ("+" if plus else "-")
            return None
        if op == "lufac":
            n = int(w[1])
            A, i = getf(w, 2, n * n)
            if o[0] == "0":
                return None
            piv = [int(t) for t in o[1:1 + n]]
            LU = [unhex(t) for t in o[1 + n:]]
            PA = [A[r * n:(r + 1) * n] for r in range(n)]
            for k in range(n):
                if piv[k] != k:
                    PA[k], PA[piv[k]] = PA[piv[k]], PA[k]
            # NOTE: row interchanges are also applied to the already computed multipliers (LAPACK convention)
            sc = max(abs(v) for v in A) * n
            growth = max(abs(v) for v in LU) / max(abs(v) for v in A)
            for r in range(n):
                for c in range(n):
                    s = math.fsum((LU[r * n + k] if k < r else 1.0) * LU[k * n + c] for k in range(min(r, c) + 1) if k <= r)
                    if not close(s, PA[r][c], sc * max(growth, 1.0), 1e-8):
                        return "mju_factorLU: L U != P A"
            return None
        if op == "lusolve":
            n = int(w[1])
            LU, i = getf(w, 2, n * n)
            piv = [int(t) for t in w[i:i + n]]
            b, i = getf(w, i + n, n)
            x = [unhex(t) for t in o]
            pb = list(b)
            for k in range(n):
                if piv[k] != k:
                    pb[k], pb[piv[k]] = pb[piv[k]], pb[k]
            # componentwise backward-error bound of the two triangular solves: |L U x - P b| <= c n u |L||U||x|
            ux = [math.fsum(LU[r * n + c] * x[c] for c in range(r, n)) for r in range(n)]
            aux = [math.fsum(abs(LU[r * n + c] * x[c]) for c in range(r, n)) for r in range(n)]
            for r in range(n):
                lhs = ux[r] + math.fsum(LU[r * n + k] * ux[k] for k in range(r))
                sc = aux[r] + math.fsum(abs(LU[r * n + k]) * aux[k] for k in range(r)) + abs(pb[r])
                if not close(lhs, pb[r], sc * n, 1e-11):
                    return "mju_solveLU: (L U) x != P b"
            return None
        if op in ("d2b", "b2d", "bdiag"):
            return oracle_band(w, o)
    except (ValueError, IndexError, ZeroDivisionError, OverflowError) as e:
        return "unparseable output (%s): %s" % (type(e).__name__, out[:80])
    return None


def band_addr(i, j, nt, nb, nd):
    """address of (i, j), j <= i, inside the band-dense storage or None"""
    ns = nt - nd
    if i < ns:
        if i - j < nb:
            return (i + 1) * nb - 1 - (i - j)
        return None
    return ns * nb + (i - ns) * nt + j


def oracle_band(w, o):
    op = w[0]
    if op == "bdiag":
        i, nt, nb, nd = (int(x) for x in w[1:5])
        return None if int(o[0]) == band_addr(i, i, nt, nb, nd) else "mju_bandDiag is not the address of (i,i)"
    nt, nb, nd = int(w[1]), int(w[2]), int(w[3])
    if op == "d2b":
        fill = unhex(w[4])
        A, i = getf(w, 5, nt * nt)
        B = [unhex(x) for x in o]
        want = [fill] * band_size(nt, nb, nd)
        for i_ in range(nt):
            for j in range(i_ + 1):
                a = band_addr(i_, j, nt, nb, nd)
                if a is not None:
                    want[a] = A[i_ * nt + j]
        return None if [hexf(x) for x in B] == [hexf(x) for x in want] else "mju_dense2Band: wrong index map"
    sym = int(w[4])
    B, i = getf(w, 5, band_size(nt, nb, nd))
    D = [unhex(x) for x in o]
    want = [0.0] * (nt * nt)
    for i_ in range(nt):
        for j in range(i_ + 1):
            a = band_addr(i_, j, nt, nb, nd)
            if a is not None:
                want[i_ * nt + j] = B[a]
                if sym:
                    want[j * nt + i_] = B[a]
    return None if [hexf(x) for x in D] == [hexf(x) for x in want] else "mju_band2Dense: wrong index map"


# ---- oracle-only ops ------------------------------------------------------------------------------------
def gen_oracle_lines(ctx, n):
    rng = ctx.rng
    out = []
    for _ in range(n):
        # eig3: symmetric matrices incl. repeated eigenvalues and near-diagonal ones
        r = rng.random()
        if r < 0.6:
            a = [rng.gauss(0, 1) * 10 ** rng.randint(-2, 2) for _ in range(6)]
        elif r < 0.8:
            a = [rng.choice((1.0, 2.0)), 0, 0, rng.choice((1.0, 2.0)), 0, rng.choice((1.0, 3.0))]
            a[1] = rng.choice((0, 1e-9, 0.5))
        else:
            a = [float(rng.randint(-3, 3)) for _ in range(6)]
        M = [a[0], a[1], a[2], a[1], a[3], a[4], a[2], a[4], a[5]]
        out.append(("o_eig3", J("o_eig3", fv(M))))
        # boxQP
        n_ = max(1, size(rng, 12))
        H = spd(rng, n_, 1)
        g = rvec(rng, n_, "g")
        lo = [rng.gauss(-1, 1) for _ in range(n_)]
        hi = [l + abs(rng.gauss(0, 1)) + 0.05 for l in lo]
        if rng.random() < 0.2:
            lo = [-1e6] * n_
            hi = [1e6] * n_
        x0 = rvec(rng, n_, "g")
        out.append(("o_boxqp", J("o_boxqp", n_, fv(H), fv(g), fv(lo), fv(hi), fv(x0))))
        # QCQP
        n_ = rng.choice((2, 2, 3, 3, 4, 5))
        A = spd(rng, n_, 1)
        b = [rng.gauss(0, 1) * rng.choice((0.1, 1, 10)) for _ in range(n_)]
        d = [abs(rng.gauss(1, 0.3)) + 0.1 for _ in range(n_)]
        rr = (abs(rng.gauss(0.5, 0.5)) + 0.01) * rng.choice((1, 1, 1, 0.1))
        out.append(("o_qcqp", J("o_qcqp", n_, fv(A), fv(b), fv(d), hexf(rr), rng.randint(0, 1) if n_ <= 3 else 1)))
        # band Cholesky on a band-admissible SPD matrix
        nt = max(1, size(rng, 20))
        nd = rng.randint(0, nt)
        nb = rng.randint(1, max(1, nt - nd))
        A = [0.0] * (nt * nt)
        for i in range(nt):
            for j in range(i + 1):
                if band_addr(i, j, nt, nb, nd) is not None and i != j:
                    A[i * nt + j] = A[j * nt + i] = rng.gauss(0, 1)
        for i in range(nt):
            A[i * nt + i] = sum(abs(A[i * nt + j]) for j in range(nt)) + 1.0 + rng.random()
        out.append(("o_band", J("o_band", nt, nb, nd, fv(A), fv(rvec(rng, nt, "g")))))
        # sparse squaring and the other consumers of the transposed supernodes: random patterns and structured ones
        # (supernodes / near-supernodes in the transpose), compressed and uncompressed layout
        for opn in ("o_sqr", "o_trmv"):
            if rng.random() < 0.4:
                nr, nc = max(1, size(rng, 14)), max(1, size(rng, 14))
                rows, kind = None, "random"
            else:
                kind = rng.choice(SUPER_KINDS)
                nr, nc = super_dims(rng, kind)
                rows, kind = super_rows(rng, nr, nc, kind)
            SUPER_HIST[opn + ":" + kind] = SUPER_HIST.get(opn + ":" + kind, 0) + 1
            cap, rownnz, rowadr, colind, lay = pattern(rng, nr, nc, layout=rng.choice(("compressed", "compressed", "uncompressed")),
                                                       rows=rows)
            if opn == "o_sqr":
                out.append(("o_sqr", J("o_sqr", patstr(nr, nc, cap, rownnz, rowadr, colind), fv(rvec(rng, cap, "g")),
                                       fv([abs(x) for x in rvec(rng, nr, "g", pzero=0.2)]), 1 if rng.random() < 0.75 else 0)))
            else:
                out.append(("o_trmv", J("o_trmv", patstr(nr, nc, cap, rownnz, rowadr, colind), fv(rvec(rng, cap, "g")),
                                        fv(rvec(rng, nr, "g")))))
        # supernode path of mulMatVecSparse (AVX build batches rows; scalar ignores rowsuper)
        nr, nc = size(rng, 20), size(rng, 20)
        cap, rownnz, rowadr, colind, lay = pattern(rng, nr, nc)
        out.append(("spmv_super", J("spmv_super", patstr(nr, nc, cap, rownnz, rowadr, colind), fv(rvec(rng, cap, "g")),
                                    fv(rvec(rng, nc, "g")))))
    return out


QCQP_STATS = {"all": 0, "rho>30 (feasibility not checked)": 0, "rho>30 and infeasible result": 0, "max_gx_over_tol": 0.0}


def solve_small(M, v, n):
    """Gaussian elimination with partial pivoting (spec side, n <= 5); None if singular"""
    M = [row[:] + [v[i]] for i, row in enumerate(M)]
    for i in range(n):
        p = max(range(i, n), key=lambda k: abs(M[k][i]))
        if M[p][i] == 0:
            return None
        M[i], M[p] = M[p], M[i]
        for k in range(i + 1, n):
            f = M[k][i] / M[i][i]
            for j in range(i, n + 1):
                M[k][j] -= f * M[i][j]
    x = [0.0] * n
    for i in range(n - 1, -1, -1):
        x[i] = (M[i][n] - sum(M[i][j] * x[j] for j in range(i + 1, n))) / M[i][i]
    return x


def matvec(M, v, n):
    return [math.fsum(M[i * n + j] * v[j] for j in range(n)) for i in range(n)]


def oracle_only_op(kind, line, out):
    CUR[0] = kind
    w = line.split()
    if out == "bad-op":
        return "valid oracle op rejected by the harness"
    o = out.split()
    try:
        if kind == "spmv_super":
            return oracle_diff_op(kind, line, out)
        if kind == "o_eig3":
            A, _ = getf(w, 1, 9)
            lam = [float(x) for x in o[1:4]]
            V = [float(x) for x in o[4:13]]
            q = [float(x) for x in o[13:17]]
            sc = max(abs(x) for x in A) or 1.0
            tol = 1e-9
            # certificate: A V = V Lambda, V'V = I, det V = 1  (theorem eig3_certificate).
            # The Jacobi loop of mju_eig3 stops as soon as the rotation cosine exceeds 1 - eigEPS (eigEPS = 1e-12),
            # i.e. at rotation angles below sqrt(2e-12) = 1.4e-6 rad: the off-diagonal residual it leaves is up to
            # 1.4e-6 * (eigenvalue gap) <= 8.5e-6 * max|A_ij| (measured worst 3.5e-6); eigenvalues are second-order
            # accurate.  EIG_VEC_TOL has >10x slack over that bound.
            for i in range(3):
                for j in range(3):
                    av = math.fsum(A[i * 3 + k] * V[k * 3 + j] for k in range(3))
                    EIG_DEV[0] = max(EIG_DEV[0], abs(av - V[i * 3 + j] * lam[j]) / sc)
                    note_ratio(abs(av - V[i * 3 + j] * lam[j]) / (EIG_VEC_TOL * sc))
                    if abs(av - V[i * 3 + j] * lam[j]) > EIG_VEC_TOL * sc:
                        return "mju_eig3: A V != V diag(eigval)"
            for j in range(3):
                ray = math.fsum(V[i * 3 + j] * A[i * 3 + k] * V[k * 3 + j] for i in range(3) for k in range(3))
                if abs(ray - lam[j]) > tol * sc:
                    return "mju_eig3: eigval is not the Rayleigh quotient of its eigvec column"
                    vv = math.fsum(V[k * 3 + i] * V[k * 3 + j] for k in range(3))
                    if abs(vv - (1.0 if i == j else 0.0)) > tol:
                        return "mju_eig3: eigvec is not orthonormal"
            det = (V[0] * (V[4] * V[8] - V[5] * V[7]) - V[1] * (V[3] * V[8] - V[5] * V[6]) + V[2] * (V[3] * V[7] - V[4] * V[6]))
            if abs(det - 1.0) > tol:
                return "mju_eig3: det(eigvec) != 1"
            if not (lam[0] >= lam[1] - 1e-9 * sc - 2e-12 and lam[1] >= lam[2] - 1e-9 * sc - 2e-12):
                return "mju_eig3: eigenvalues not in decreasing order"
            if abs(math.fsum(x * x for x in q) - 1.0) > tol:
                return "mju_eig3: quat not unit"
            return None
        if kind == "o_boxqp":
            n = int(w[1])
            H, i = getf(w, 2, n * n)
            g, i = getf(w, i, n)
            lo, i = getf(w, i, n)
            hi, i = getf(w, i, n)
            nfree = int(o[0]) - 1
            if nfree < 0:
                return "mju_boxQP failed on an SPD problem"
            x = [float(t) for t in o[1:1 + n]]
            grad = [a + b for a, b in zip(matvec(H, x, n), g)]
            sc = max(abs(v) for v in g + [1.0]) * max(1.0, max(abs(v) for v in H))
            tol = 1e-6 * sc      # mingrad = 1e-16 on the squared free gradient norm => |grad_free| <= 1e-8
            for k in range(n):
                if lo[k] < x[k] < hi[k]:
                    note_ratio(abs(grad[k]) / tol)
                if x[k] < lo[k] or x[k] > hi[k]:
                    return "mju_boxQP: result outside the box"
                if lo[k] < x[k] < hi[k] and abs(grad[k]) > tol:
                    return "mju_boxQP: KKT violated (interior coordinate with non-zero gradient)"
                if x[k] == lo[k] and grad[k] < -tol:
                    return "mju_boxQP: KKT violated (at lower bound with negative gradient)"
                if x[k] == hi[k] and grad[k] > tol:
                    return "mju_boxQP: KKT violated (at upper bound with positive gradient)"
            return None
        if kind == "o_qcqp":
            n = int(w[1])
            A, i = getf(w, 2, n * n)
            b, i = getf(w, i, n)
            d, i = getf(w, i, n)
            r = unhex(w[i])
            act = int(o[0])
            x = [float(t) for t in o[1:1 + n]]
            # KKT: (A + la D^-2) x + b = 0, la >= 0, la * (sum (x/d)^2 - r^2) = 0, feasibility (theorem QCQP_certificate).
            # The routines run at most 20 Newton steps on the multiplier from la = 0 and return the last iterate
            # unprojected ("in case QCQP is approximate", engine_solver.c projects it afterwards): the step grows la by
            # a factor <= 1.5 while far from the root, so feasibility / complementarity are only reached when
            # rho = |unconstrained minimiser| / r (scaled coordinates) is moderate.  Stationarity holds for every
            # iterate and is checked on all samples; feasibility and tightness on samples with rho <= 30, with the
            # code's own exit threshold 1e-10 on sum (x/d)^2 - r^2 and 10x slack.
            gx = math.fsum((x[k] / d[k]) ** 2 for k in range(n)) - r * r
            grad = [a + c for a, c in zip(matvec(A, x, n), b)]
            sc = max(abs(v) for v in b + [1.0]) * max(1.0, max(abs(v) for v in A))
            As = [[A[i_ * n + j] * d[i_] * d[j] for j in range(n)] for i_ in range(n)]
            v0 = solve_small(As, [-b[k] * d[k] for k in range(n)], n)
            rho = math.sqrt(math.fsum(t * t for t in v0)) / r if v0 is not None else math.inf
            QCQP_STATS["all"] += 1
            # multiplier from the stationarity equations (least squares over coordinates)
            num = -math.fsum(grad[k] * x[k] / d[k] ** 2 for k in range(n))
            den = math.fsum((x[k] / d[k] ** 2) ** 2 for k in range(n))
            la = num / den if den > 0 else 0.0
            if not act:
                la = 0.0
            if la < -1e-9 * sc:
                return "mju_QCQP: negative multiplier"
            res = [grad[k] + la * x[k] / d[k] ** 2 for k in range(n)]
            if max(abs(v) for v in res) > 1e-9 * sc:
                return "mju_QCQP: stationarity violated"
            # exit criteria of the Newton loop: val < 1e-10 or step delta = -val/deriv < 1e-10, i.e. the returned point
            # can violate the constraint by up to 1e-10 * max(1, |deriv|), deriv = -2 v'(A+la)^-1 v (scaled coordinates);
            # the tolerance below is that bound with 10x slack
            vs = [x[k] / d[k] for k in range(n)]
            y = solve_small([[As[i_][j] + (la if i_ == j else 0.0) for j in range(n)] for i_ in range(n)], vs, n)
            deriv = 2.0 * abs(math.fsum(vs[k] * y[k] for k in range(n))) if y is not None else math.inf
            ftol = 1e-9 * max(1.0, deriv)
            QCQP_STATS["max_gx_over_tol"] = max(QCQP_STATS.get("max_gx_over_tol", 0.0), gx / ftol if rho <= 30 else 0.0)
            if rho > 30:
                QCQP_STATS["rho>30 (feasibility not checked)"] += 1
                if gx > ftol:
                    QCQP_STATS["rho>30 and infeasible result"] += 1
                return None
            note_ratio(gx / ftol)
            if gx > ftol:
                return "mju_QCQP: result violates the constraint"
            if act and abs(gx) > ftol:
                return "mju_QCQP: active flag set but constraint not tight"
            if not act and rho > 1.0 + 1e-6:
                return "mju_QCQP: reported unconstrained although the unconstrained minimiser is infeasible"
            return None
        if kind == "o_band":
            nt, nb, nd = int(w[1]), int(w[2]), int(w[3])
            A, i = getf(w, 4, nt * nt)
            b, i = getf(w, i, nt)
            mind = float(o[0])
            mv = [float(t) for t in o[1:1 + nt]]
            x = [float(t) for t in o[1 + nt:1 + 2 * nt]]
            L = [float(t) for t in o[1 + 2 * nt:]]
            sc = max(abs(v) for v in A) * nt
            if not vclose(mv, matvec(A, b, nt), sc * max(abs(v) for v in b + [1e-300])):
                return "mju_bandMulMatVec differs from the dense symmetric product"
            if mind <= 0:
                return "mju_cholFactorBand reported rank deficiency on a diagonally dominant matrix"
            for i_ in range(nt):
                for j in range(i_ + 1):
                    s = math.fsum(L[i_ * nt + k] * L[j * nt + k] for k in range(j + 1))
                    if not close(s, A[i_ * nt + j], sc):
                        return "mju_cholFactorBand: L L' != A"
            if not vclose(matvec(A, x, nt), b, sc * max(abs(v) for v in x + [1e-300])):
                return "mju_cholSolveBand: A x != b"
            return None
        if kind == "o_sqr":
            pat, i = parse_pat(w, 1)
            nr, nc = pat[0], pat[1]
            nH = int(o[0])
            n2 = nc * nc
            vals = [float(t) for t in o[1:1 + 3 * n2]]
            Hd, Ld, Rd = vals[:n2], vals[n2:2 * n2], vals[2 * n2:]
            nU, diag_ok = int(o[1 + 3 * n2]), int(o[2 + 3 * n2])
            vals = [float(t) for t in o[3 + 3 * n2:]]
            Ud, Fd, Wd = vals[:n2], vals[n2:2 * n2], vals[2 * n2:]
            if len(Wd) != n2:
                return "unparseable output (short): " + out[:80]
            sc = max([abs(v) for v in Rd] + [1e-300]) * nr
            for a in range(nc):
                for b_ in range(a + 1):
                    if not close(Hd[a * nc + b_], Rd[a * nc + b_], sc):
                        return "mju_sqrMatTDSparseSymbolic/Numeric differs from dense M' D M (lower triangle)"
                    if not close(Ld[a * nc + b_], Rd[a * nc + b_], sc):
                        return "mju_sqrMatTDSparse (legacy) differs from dense M' D M (lower triangle)"
                    if not close(Wd[a * nc + b_], Rd[a * nc + b_], sc):
                        return "mju_sqrMatTDSparse_row differs from dense M' D M (lower triangle)"
                for b_ in range(nc):
                    if not close(Ud[a * nc + b_], Rd[a * nc + b_], sc):
                        return "mju_sqrMatTDSparseSymbolic/Numeric with diagind differs from dense M' D M (full matrix)"
                    if not close(Fd[a * nc + b_], Rd[a * nc + b_], sc):
                        return "mju_sqrMatTDSparse with diagind differs from dense M' D M (full matrix)"
            if diag_ok != 1:
                return "mju_sqrMatTDSparse*: diagind does not address the diagonal entries"
            return None
        if kind == "o_trmv":
            pat, i = parse_pat(w, 1)
            nr, nc, cap, rownnz, rowadr, colind = pat
            mat, i = getf(w, i, cap)
            v, i = getf(w, i, nr)
            sup = [int(t) for t in o[:nc]]
            res = [float(t) for t in o[nc:]]
            trows = [[] for _ in range(nc)]
            for r in range(nr):
                for k in range(rownnz[r]):
                    trows[colind[rowadr[r] + k]].append(r)
            why = check_super(sup, trows, True, "mju_transposeSparse")
            if why:
                return why
            D = dense_of(pat, mat)
            ref = [math.fsum(D[r][c] * v[r] for r in range(nr)) for c in range(nc)]
            sc = max([math.fsum(abs(D[r][c] * v[r]) for r in range(nr)) for c in range(nc)] + [0])
            return None if vclose(res, ref, sc) else \
                "mju_mulMatVecSparse with the supernodes of mju_transposeSparse differs from the dense product M' v"
    except (ValueError, IndexError, ZeroDivisionError, OverflowError) as e:
        return "unparseable output (%s): %s" % (type(e).__name__, out[:80])
    return None


# ------------------------------------------------------------------------------------------ run
def directed_search(ctx):
    """a proof / tie obligation broke but the oracle found nothing: search the real code harder (10x the quick sample)"""
    for variant in ("scalar", "avx"):
        impl = ctx.harness("harness/c/c23_linalg.c", "c23_linalg", variant=variant)
        if not impl:
            continue
        pairs = gen_lines(ctx, 1100) + gen_oracle_lines(ctx, 1500)
        rc, outs, err = ctx.run_lines([impl], [l for _, l in pairs])
        if rc != 0 or len(outs) != len(pairs):
            idx = min(len(outs), len(pairs) - 1)
            return {"key": "c23:crash:" + variant, "what": "linear-algebra harness crashed (rc=%s)" % rc,
                    "replay": {"line": pairs[idx][1][:6000], "variant": variant}}
        for (kind, l), o in zip(pairs, outs):
            why = (oracle_only_op if kind.startswith("o_") or kind == "spmv_super" else oracle_diff_op)(kind, l, o)
            if why:
                return {"key": "c23:" + why.split(":")[0].split(" ")[0] + ":" + kind.split(":")[0], "what": why + " [%s build]" % variant,
                        "replay": {"line": l[:6000], "impl_output": o[:3000], "variant": variant}}
    return None


def run(ctx):
    ctx.directed_search = directed_search
    SUPER_HIST.clear()
    thorough = ctx.tier == "thorough"
    ctx.rule = ("op lines with hex-encoded doubles: sizes 0..40 weighted to the SIMD remainders 1..9; sparse patterns in "
                "compressed / uncompressed (rowadr = r*nc) / gapped / shuffled layouts with empty rows, unsorted and "
                "duplicate columns where the routine allows them; for the supernode outputs and their consumers also "
                "structured patterns (identical / equal-count adjacent columns, block staircases, all-small, repeated rows); SPD, rank-deficient and indefinite matrices; a case is "
                "distinct by its full line; non-trivial = size >= 2")
    ctx.lean_props(THEOREMS)
    drv = ctx.driver("drv_c23")
    n_each = 4000 if thorough else 110
    pairs = gen_lines(ctx, n_each)
    lines = [l for _, l in pairs]
    hist = {}
    for k, _ in pairs:
        hist[k] = hist.get(k, 0) + 1
    ctx.extra["op_histogram"] = hist
    opairs = gen_oracle_lines(ctx, 4000 if thorough else 150)
    olines = [l for _, l in opairs]
    ctx.extra["supernode_pattern_kinds"] = dict(sorted(SUPER_HIST.items()))

    def keyf(l):
        w = l.split()
        return l if len(w) > 3 and w[1] not in ("0", "1") else None

    for variant in ("scalar", "avx"):
        impl = ctx.harness("harness/c/c23_linalg.c", "c23_linalg", variant=variant)
        if not (drv and impl):
            continue
        dev = Dev()
        cmp = None if variant == "scalar" else make_cmp(AVX_RTOL, dev)
        ctx.differential("engine_util_{blas,solve,sparse} [%s build] vs Lean model (%s)"
                         % (variant, "bitwise" if variant == "scalar" else "rel. tol %g" % AVX_RTOL),
                         [drv], [impl], lines, keyf=keyf, cmp=cmp)
        if variant == "avx":
            ctx.extra["avx_max_rel_deviation"] = dev.maxrel
            ctx.extra["avx_values_not_bitwise_equal"] = dev.nonbitwise
        # S: oracle on the implementation's own outputs
        rc, outs, err = ctx.run_lines([impl], lines + olines)
        nfail = 0
        if rc != 0 or len(outs) != len(lines) + len(olines):
            idx = min(len(outs), len(lines) + len(olines) - 1)
            ctx.oracle_failure("c23:crash:" + variant, "linear-algebra harness crashed (rc=%s) [%s]" % (rc, variant),
                               {"line": (lines + olines)[idx][:4000], "stderr": err[-500:], "variant": variant})
            continue
        for (kind, l), o in zip(pairs, outs[:len(lines)]):
            why = oracle_diff_op(kind, l, o)
            if why:
                nfail += 1
                if nfail <= 5:
                    ctx.oracle_failure("c23:" + why.split(":")[0].split(" ")[0] + ":" + kind.split(":")[0], why + " [%s build]" % variant,
                                       {"line": l[:6000], "impl_output": o[:3000], "variant": variant,
                                        "replay": "echo '<line>' | <c23_linalg harness, %s build>" % variant})
        for (kind, l), o in zip(opairs, outs[len(lines):]):
            why = oracle_only_op(kind, l, o)
            if why:
                nfail += 1
                if nfail <= 5:
                    ctx.oracle_failure("c23:" + why.split(":")[0].split(" ")[0] + ":" + kind, why + " [%s build]" % variant,
                                       {"line": l[:6000], "impl_output": o[:3000], "variant": variant,
                                        "replay": "echo '<line>' | <c23_linalg harness, %s build>" % variant})
        ctx.extra["oracle_max_residual_over_tolerance_" + variant] = {k: float("%.3g" % v) for k, v in sorted(SLACK.items())}
        SLACK.clear()
        ctx.extra["qcqp_scope_" + variant] = dict(QCQP_STATS)
        ctx.extra["sptrs_coverage_" + variant] = {k: int(v) for k, v in SUPER_COV.items()}
        for k_ in SUPER_COV:
            SUPER_COV[k_] = 0
        ctx.extra["eig3_max_rel_residual_" + variant] = EIG_DEV[0]
        for k_ in QCQP_STATS:
            QCQP_STATS[k_] = 0
        ctx.extra["oracle_checked_" + variant] = len(lines) + len(olines)
        ctx.extra["oracle_failures_" + variant] = nfail
        if variant == "scalar":
            for idx in (0, 3, 17):
                if idx < len(lines):
                    ctx.sample({"op": lines[idx][:300], "impl_output": outs[idx][:200]})
    if thorough:
        ctx.leanchecker(["MjProof.Props.C23"])
