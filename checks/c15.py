"""C15  Convex narrow-phase distances are correct and swap-symmetric (DESIGN.md §5.C15).

P  Lean theorems over the reals (lean/MjProof/Props/C15.lean) about the hand model of the support mappings of
   src/engine/engine_collision_convex.c (lean/MjProof/Model/Support.lean) and about the certificate checkers
   sepOK / sepLowerOK / penOK / penDepthOK / innerBallOK defined in the same model file.
T  bitwise correspondence of the model's support functions (run on Float by lean/Drivers/C15.lean) with the
   compiled support functions that mjc_initCCDObj / mjc_ccd install (harness/c/c15_gjk.c calls them through
   obj.support), incl. the exhaustive mesh support and box vertindex.
S  property oracle: the real mjc_ccd / mj_geomDistance / mjc_Convex (native path; the libccd path is stubbed in this
   build) are run on generated geom pairs (all 25 ordered kind pairs; separated, near-touching, penetrating,
   axis-aligned or random frames, two scales, coincident centres) in both geom orders.  Every answer is judged by
   the Lean checkers (same definitions as in the theorems, compiled, on Float):
     separated   sepOK on the reported witness points (shrunk into the geoms when the solver left them outside) with
                 the reported or a searched direction: certified bracket of the true distance; sepLowerOK refutes a
                 reported distance that is below a certified lower bound;
     penetrating penDepthOK along the reported normal (the depth is not too small) and a direction search whose best
                 direction, evaluated by the Lean model, refutes a depth that is too large (reported_depth_refuted);
     touching / no contact / distmax answers: refuted by a separating direction or by an inner ball
                 (depth_lower_of_inner_ball).
   Alarms for "distance too small", "depth too large", "touching but penetrating" are therefore backed by a theorem.
"""
import math
import struct

# this check never reads lean/MjProof/Gen: no generated-code lock needed
USES_GEN = False

META = {
    "technique": "Lean 4 proofs over the reals about a hand model of the support mappings (bitwise-tied to the compiled "
                 "functions on every run) + verified certificate checkers (witness points / directions + support functions => "
                 "bracket of the true distance, upper and lower bounds of the penetration depth) evaluated by the compiled Lean "
                 "model on the outputs of the real mjc_ccd / mj_geomDistance / mjc_Convex in both geom orders",
    "text": "Proved over the reals, for every well-formed geom pose (orthogonal frame, admissible sizes) and every unit direction: "
            "each support function of engine_collision_convex.c (sphere, capsule, ellipsoid, cylinder, box, the shrunken point/line "
            "supports of mjc_ccd, and the exhaustive mesh support) returns a point of the shape that maximises <d,.> over the shape "
            "(explicit membership predicates; cylinder: up to radius*1e-15 in its degenerate branch). Proved: whenever the checker "
            "sepOK accepts witness points, a direction and a reported distance, the true distance (infimum over the two point sets) "
            "lies in [bound, len+slack] and the reported distance is within 2*tol+slack of it; a direction accepted by sepLowerOK "
            "bounds the distance of every pair of points from below; whenever penDepthOK / penOK accept, translating geom 1 by more "
            "than the overlap along the reported normal separates the geoms (the depth is at most -dist+tol) and (penOK) a "
            "translation of the reported length does not separate; a direction with smaller overlap refutes a reported depth; a ball "
            "contained in both shapes bounds the depth from below by its diameter; two certified runs with the geoms swapped report "
            "the same distance and opposite witness vectors within the certified gaps. The GJK/EPA iterations are NOT modelled: "
            "every output of the real code is checked per call by the same checker definitions compiled to native code.",
    "note": "partial: correctness of GJK/EPA is established per sampled output through the certificates, not for all inputs; for "
            "penetration the upper bound of the depth is certified, the lower bound (no direction with a smaller overlap) is "
            "searched (a found direction is a proof that the reported depth is too large, not finding one proves nothing); "
            "theorems are over the reals (Float evaluation of the checkers carries rounding, absorbed by the stated tolerances); "
            "tolerances are calibrated against what the unmodified solver achieves with ccd_iterations=1000 (EPA normals are only "
            "accurate to a few 1e-3..1e-2 of the pair's scale; see evidence.tolerances / max_observed), not against ccd_tolerance; "
            "random sampling is restricted to scales {1, 0.1} and offsets <= 1 from the origin because of finding "
            "c15:gjk-simplex-precision-loss (larger geoms / offsets are covered by fixed directed inputs); witness points of "
            "penetrating answers are not required to lie in the geoms (EPA extrapolates them affinely on flat faces); mjc_Convex on "
            "box-box (8-point multicontact, not used by the pipeline) is not judged; the libccd path (mjDSBL_NATIVECCD) is stubbed in "
            "this build and not exercised; convex meshes are covered for the support function only (qhull is stubbed, no mesh "
            "pairs); margins are exercised through mjc_Convex only. Known findings reported by this oracle on the unmodified tree: "
            "c15:coincident-centres-no-penetration, c15:gjk-simplex-precision-loss, c15:epa-depth-for-touching-geoms.",
}

THEOREMS = [
    "MjProof.C15.support_maximises",
    "MjProof.C15.degSlack_zero",
    "MjProof.C15.mesh_support_maximises",
    "MjProof.C15.distance_certificate",
    "MjProof.C15.distance_lower_bound",
    "MjProof.C15.penetration_certificate_partial",
    "MjProof.C15.depth_upper_bound_partial",
    "MjProof.C15.reported_depth_refuted",
    "MjProof.C15.depth_lower_of_inner_ball",
    "MjProof.C15.setDist_symm",
    "MjProof.C15.swap_distance_of_certified",
    "MjProof.C15.swap_symmetry_of_certified",
]

KINDS = ["sphere", "capsule", "ellipsoid", "cylinder", "box"]
BIG = 1e10           # "no cutoff" passed to mjc_ccd (dist_cutoff) — finite so that the cutoff test is exercised
CCD_TOL = 1e-6       # opt.ccd_tolerance used for the asserted runs (the engine default)
CCD_ITERS = 1000     # opt.ccd_iterations used for the asserted runs (default is 35: see META / report)
# Acceptance tolerances: T = REL * scale + ABS with scale = rbound(A) + rbound(B) + centre distance; calibrated with >= 10x
# slack against the maxima observed on the unmodified tree over the sampled regimes (evidence: max_observed).
K_VALID = 1e-9         # witness points inside their geoms scaled by 1 + K_VALID count as valid (rounding level)
K_CAP = 1.05           # witness points further outside than this are rejected outright
SEP_REL_VALID = 1e-6   # separated, valid witness points: certified bracket width and |dist - witness distance|
SEP_REL_LOOSE = 5e-3   # separated, witness points that had to be shrunk into the geoms (solver's own precision loss)
SEP_REL_BELOW = 1e-4   # a reported distance may not be below a certified lower bound by more than this
SEP_ABS = 1e-5         # 10 x ccd_tolerance
PEN_REL = 0.15         # penetrating: overlap along the reported normal minus reported depth (gross normal errors only: the
                       # normals of the unmodified EPA are off by up to 3e-2 of the scale)
PEN_ABS = 2e-5
LOW_REL = 4e-3         # penetrating: best searched overlap (incl. the reported normal) minus reported depth: depth not too small
REF_REL = 2e-4         # a searched direction must not beat the reported depth by more than this
REF_ABS = 2e-5
TOUCH_REL = 5e-3       # "distance 0" / "no contact" answers
TOUCH_ABS = 2e-5
SCALES = (1.0, 1.0, 1.0, 0.1)
OFFSETS = (0.0, 0.0, 1.0)
DIRECTED = []          # (key, regime label, stdin line) — fixed inputs of the known findings, filled below


# ---------------------------------------------------------------- small vector helpers (pure Python)
def hb(x):
    return struct.pack(">d", x).hex()


def fb(s):
    return float("nan") if s == "nan" else struct.unpack(">d", bytes.fromhex(s))[0]


def dot(a, b):
    return a[0] * b[0] + a[1] * b[1] + a[2] * b[2]


def sub(a, b):
    return (a[0] - b[0], a[1] - b[1], a[2] - b[2])


def add(a, b):
    return (a[0] + b[0], a[1] + b[1], a[2] + b[2])


def scl(s, a):
    return (s * a[0], s * a[1], s * a[2])


def norm(a):
    return math.sqrt(dot(a, a))


def unit(a):
    n = norm(a)
    return (a[0] / n, a[1] / n, a[2] / n)


def cross(a, b):
    return (a[1] * b[2] - a[2] * b[1], a[2] * b[0] - a[0] * b[2], a[0] * b[1] - a[1] * b[0])


def mat_t_vec(m, d):
    return (m[0] * d[0] + m[3] * d[1] + m[6] * d[2], m[1] * d[0] + m[4] * d[1] + m[7] * d[2], m[2] * d[0] + m[5] * d[1] + m[8] * d[2])


def mat_vec(m, d):
    return (m[0] * d[0] + m[1] * d[1] + m[2] * d[2], m[3] * d[0] + m[4] * d[1] + m[5] * d[2], m[6] * d[0] + m[7] * d[1] + m[8] * d[2])


def quat2mat(q):
    w, x, y, z = q
    return [1 - 2 * (y * y + z * z), 2 * (x * y - w * z), 2 * (x * z + w * y),
            2 * (x * y + w * z), 1 - 2 * (x * x + z * z), 2 * (y * z - w * x),
            2 * (x * z - w * y), 2 * (y * z + w * x), 1 - 2 * (x * x + y * y)]


class G:
    """a posed geom as the engine sees it"""
    __slots__ = ("kind", "size", "pos", "mat")

    def __init__(self, kind, size, pos, mat):
        self.kind, self.size, self.pos, self.mat = kind, tuple(size), tuple(pos), tuple(mat)

    def tok(self):
        return "%s %s %s %s" % (self.kind, " ".join(map(hb, self.size)), " ".join(map(hb, self.pos)), " ".join(map(hb, self.mat)))

    def rbound(self):
        s = self.size
        if self.kind == "sphere":
            return s[0]
        if self.kind in ("capsule",):
            return s[0] + s[1]
        if self.kind == "cylinder":
            return math.hypot(s[0], s[1])
        if self.kind == "ellipsoid":
            return max(s)
        return norm(s)

    def axes(self):
        m = self.mat
        return [(m[0], m[3], m[6]), (m[1], m[4], m[7]), (m[2], m[5], m[8])]


def supp_local(kind, s, l):
    """independent Python transcription of the support mappings (placement and direction search only: every number the
    oracle relies on is recomputed by the Lean model)"""
    if kind == "sphere":
        return scl(s[0], l)
    if kind == "capsule":
        return (s[0] * l[0], s[0] * l[1], s[0] * l[2] + (s[1] if l[2] >= 0 else -s[1]))
    if kind == "ellipsoid":
        t = (l[0] * s[0], l[1] * s[1], l[2] * s[2])
        n = norm(t)
        if n < 1e-300:
            return (s[0], 0.0, 0.0)
        return (t[0] * s[0] / n, t[1] * s[1] / n, t[2] * s[2] / n)
    if kind == "cylinder":
        n = math.hypot(l[0], l[1])
        k = s[0] / n if n > 1e-300 else 0.0
        return (k * l[0], k * l[1], s[1] if l[2] >= 0 else -s[1])
    if kind == "box":
        return tuple(s[i] if l[i] >= 0 else -s[i] for i in range(3))
    raise ValueError(kind)


def supp(g, d):
    return add(mat_vec(g.mat, supp_local(g.kind, g.size, mat_t_vec(g.mat, d))), g.pos)


def overlap(a, b, n):
    """h_A(n) + h_B(-n): width of the overlap of A and B along the unit vector n"""
    return dot(n, sub(supp(a, n), supp(b, scl(-1.0, n))))


# ---------------------------------------------------------------- generators
def rand_quat(rng):
    while True:
        q = [rng.gauss(0, 1) for _ in range(4)]
        n = math.sqrt(sum(x * x for x in q))
        if n > 1e-3:
            return [x / n for x in q]


ALIGNED_QUATS = [[1, 0, 0, 0], [math.sqrt(0.5), math.sqrt(0.5), 0, 0], [math.sqrt(0.5), 0, math.sqrt(0.5), 0],
                 [math.sqrt(0.5), 0, 0, math.sqrt(0.5)], [0, 1, 0, 0], [0.5, 0.5, 0.5, 0.5]]


def rand_size(rng, kind, scale):
    base = math.exp(rng.uniform(math.log(0.05), math.log(1.5)))
    if rng.random() < 0.2:
        base = rng.choice((0.1, 0.25, 0.5, 1.0))
    ar = lambda: math.exp(rng.uniform(-math.log(8), math.log(8))) if rng.random() < 0.7 else 1.0  # noqa: E731
    s = [base, base * ar(), base * ar()]
    s = [min(max(x, 0.01), 4.0) * scale for x in s]
    if kind == "sphere":
        s = [s[0], 0.0, 0.0]
    elif kind in ("capsule", "cylinder"):
        s = [s[0], s[1], 0.0]
    return s


def rand_dir(rng):
    while True:
        v = (rng.gauss(0, 1), rng.gauss(0, 1), rng.gauss(0, 1))
        if norm(v) > 1e-3:
            return unit(v)


def gen_pair(rng, k1, k2, regime=None):
    """one geom pair; returns (line, info)"""
    scale = rng.choice(SCALES)
    s1, s2 = rand_size(rng, k1, scale), rand_size(rng, k2, scale)
    aligned = rng.random() < 0.15
    q1 = list(rng.choice(ALIGNED_QUATS)) if aligned else rand_quat(rng)
    q2 = list(rng.choice(ALIGNED_QUATS)) if aligned else rand_quat(rng)
    off = rng.choice(OFFSETS) * scale
    p1 = scl(off, rand_dir(rng)) if off else (rng.uniform(-0.2, 0.2) * scale, rng.uniform(-0.2, 0.2) * scale, rng.uniform(-0.2, 0.2) * scale)
    a = G(k1, s1, p1, quat2mat(q1))
    b0 = G(k2, s2, (0.0, 0.0, 0.0), quat2mat(q2))
    if regime is None:
        regime = rng.choice(("far", "far", "near+", "near-", "zero", "deep", "deep", "deep", "shallow"))
    if aligned and rng.random() < 0.6:
        u = rng.choice(a.axes())
        u = scl(rng.choice((-1.0, 1.0)), u)
    else:
        u = rand_dir(rng)
    ext = overlap(a, G(k2, s2, p1, b0.mat), u)       # h_A(u) + h_B(-u) with both centred at p1: centre distance at touch along u
    small = min(a.rbound(), b0.rbound())
    if regime == "far":
        g = rng.uniform(0.05, 3.0) * (a.rbound() + b0.rbound())
    elif regime == "near+":
        g = 10 ** rng.uniform(-9, -2) * small
    elif regime == "near-":
        g = -(10 ** rng.uniform(-9, -2)) * small
    elif regime == "zero":
        g = 0.0
    elif regime == "shallow":
        g = -rng.uniform(0.01, 0.2) * small
    elif regime == "deep":
        g = -rng.uniform(0.2, 0.95) * ext
    elif regime == "coincident":
        g = -ext
    elif regime == "nearcoincident":
        g = -ext + 10 ** rng.uniform(-9, -6.2)
    else:
        raise ValueError(regime)
    p2 = add(p1, scl(ext + g, u))
    margin = 0.0 if rng.random() < 0.7 else rng.choice((1e-3, 0.02, 0.1)) * small
    distmax = BIG if rng.random() < 0.6 else rng.uniform(0.0, 2.0) * (a.rbound() + b0.rbound())
    line = "pair %s %s %s %s %s %s %s %s %s %d %s %s %s" % (
        k1, " ".join(map(hb, s1)), " ".join(map(hb, p1)), " ".join(map(hb, q1)),
        k2, " ".join(map(hb, s2)), " ".join(map(hb, p2)), " ".join(map(hb, q2)),
        hb(CCD_TOL), CCD_ITERS, hb(BIG), hb(distmax), hb(margin))
    info = {"k1": k1, "k2": k2, "regime": regime, "aligned": aligned, "scale": scale, "offset": off,
            "margin": margin, "distmax": distmax, "gap_along_u": g}
    return line, info


def gen_pairs(ctx):
    rng = ctx.rng
    n = 20000 if ctx.tier == "thorough" else 1100
    cases = []
    combos = [(a, b) for a in KINDS for b in KINDS]
    for i in range(n):
        k1, k2 = combos[i % 25] if i < n * 0.8 else rng.choice(combos)
        cases.append(gen_pair(rng, k1, k2))
    # directed: coincident and nearly coincident centres for every kind pair
    for (k1, k2) in combos:
        cases.append(gen_pair(rng, k1, k2, "coincident"))
        if ctx.tier == "thorough" or rng.random() < 0.4:
            cases.append(gen_pair(rng, k1, k2, "nearcoincident"))
    return cases


def gen_supp_lines(ctx):
    rng = ctx.rng
    n = 120000 if ctx.tier == "thorough" else 6000
    lines, hist = [], {}
    for i in range(n):
        k = rng.choice(["sphere", "capsule", "ellipsoid", "cylinder", "box", "point", "line"])
        size = [math.exp(rng.uniform(math.log(0.01), math.log(5))) for _ in range(3)]
        pos = [rng.uniform(-3, 3) * rng.choice((1, 1, 1000)) for _ in range(3)]
        mat = quat2mat(rng.choice(ALIGNED_QUATS) if rng.random() < 0.15 else rand_quat(rng))
        r = rng.random()
        if r < 0.55:
            d, cls = rand_dir(rng), "unit"
        elif r < 0.7:
            # exactly along / against a local axis: sign tests at 0, cylinder/ellipsoid degenerate branches
            e = [0.0, 0.0, 0.0]
            e[rng.randrange(3)] = rng.choice((-1.0, 1.0))
            d, cls = mat_vec(mat, e), "local-axis"
        elif r < 0.8:
            d, cls = tuple(rng.choice((-1.0, 0.0, 1.0, 1e-16, -1e-16, 1e-8)) for _ in range(3)), "lattice"
        elif r < 0.9:
            d, cls = scl(10 ** rng.uniform(-18, -6), rand_dir(rng)), "tiny"
        else:
            d, cls = scl(10 ** rng.uniform(-2, 3), rand_dir(rng)), "unnormalised"
        lines.append("supp %s %s %s %s %s" % (k, " ".join(map(hb, size)), " ".join(map(hb, pos)), " ".join(map(hb, mat)), " ".join(map(hb, d))))
        hist[k + ":" + cls] = hist.get(k + ":" + cls, 0) + 1
    nm = n // 8
    for i in range(nm):
        nv = rng.randint(1, 40)
        if rng.random() < 0.3:
            vs = [rng.choice((-1.0, 1.0, 0.5, 0.0)) for _ in range(3 * nv)]  # ties between vertices
        else:
            vs = [struct.unpack("f", struct.pack("f", rng.uniform(-1, 1)))[0] for _ in range(3 * nv)]
        pos = [rng.uniform(-3, 3) for _ in range(3)]
        mat = quat2mat(rand_quat(rng))
        d = rand_dir(rng)
        c = rng.randint(-1, nv - 1)
        lines.append("msupp %d %s %s %s %s %d" % (nv, " ".join(map(hb, vs)), " ".join(map(hb, pos)), " ".join(map(hb, mat)), " ".join(map(hb, d)), c))
        hist["mesh:" + ("cached" if c >= 0 else "cold")] = hist.get("mesh:" + ("cached" if c >= 0 else "cold"), 0) + 1
    # malformed ops: both sides must reject
    lines += ["supp box 1 2", "frob", "msupp 2 " + " ".join([hb(1.0)] * 6) + " " + " ".join([hb(0.0)] * 15) + " 5",
              "supp mesh " + " ".join([hb(1.0)] * 18), "supp sphere " + " ".join([hb(1.0)] * 17) + " 1.0"]
    ctx.extra["support_tie_distribution"] = hist
    return lines


# ---------------------------------------------------------------- parsing the harness output
class Bad(Exception):
    pass


def parse_pair(out):
    w = out.split()
    i = [0]

    def take(n):
        r = w[i[0]:i[0] + n]
        if len(r) != n:
            raise Bad("short output")
        i[0] += n
        return r

    def fl(n):
        return [fb(x) for x in take(n)]
    if take(1) != ["G"]:
        raise Bad("no G record")
    geoms = []
    for _ in range(2):
        k = take(1)[0]
        size, pos, mat = fl(3), fl(3), fl(9)
        geoms.append(G(k, size, pos, mat))
    res = {}
    for tag in ("C", "CS"):
        if take(1) != [tag]:
            raise Bad("no %s record" % tag)
        dist = fl(1)[0]
        nx, sep, git, eit, est = [int(x) for x in take(5)]
        x1, x2 = tuple(fl(3)), tuple(fl(3))
        res[tag] = {"dist": dist, "nx": nx, "sep": sep, "git": git, "eit": eit, "est": est, "x1": x1, "x2": x2}
    for tag in ("D", "DS"):
        if take(1) != [tag]:
            raise Bad("no %s record" % tag)
        cp = int(take(1)[0])
        dist = fl(1)[0]
        ft = fl(6)
        res[tag] = {"ccd": cp, "dist": dist, "x1": tuple(ft[:3]), "x2": tuple(ft[3:])}
    for tag in ("V", "VS"):
        if take(1) != [tag]:
            raise Bad("no %s record" % tag)
        n = int(take(1)[0])
        cons = []
        for _ in range(n):
            v = fl(7)
            cons.append({"dist": v[0], "pos": tuple(v[1:4]), "normal": tuple(v[4:7])})
        res[tag] = cons
    if i[0] != len(w):
        raise Bad("trailing output")
    return geoms, res


# ---------------------------------------------------------------- direction search (refutation candidates)
def fib_dirs(n):
    out = []
    ga = math.pi * (3.0 - math.sqrt(5.0))
    for i in range(n):
        z = 1 - (2 * i + 1) / n
        r = math.sqrt(max(0.0, 1 - z * z))
        out.append((r * math.cos(ga * i), r * math.sin(ga * i), z))
    return out


_FIB = {}


def candidate_dirs(a, b, extra, nfib):
    if nfib not in _FIB:
        _FIB[nfib] = fib_dirs(nfib)
    c = list(_FIB[nfib])
    ax = a.axes() + b.axes()
    for v in ax:
        c.append(v)
        c.append(scl(-1.0, v))
    for u in a.axes():
        for v in b.axes():
            x = cross(u, v)
            if norm(x) > 1e-6:
                x = unit(x)
                c.append(x)
                c.append(scl(-1.0, x))
    for v in extra:
        if norm(v) > 0:
            c.append(unit(v))
    return c


def min_overlap_dir(a, b, extra=(), nfib=150, nrefine=2):
    """search a unit direction with small overlap h_A(n)+h_B(-n) (sampling + pattern search on the sphere)"""
    cands = candidate_dirs(a, b, extra, nfib)
    scored = sorted(((overlap(a, b, n), n) for n in cands), key=lambda t: t[0])
    best = scored[0]
    for (f0, n0) in scored[:nrefine]:
        f, n = f0, n0
        step = 0.2
        while step > 1e-7:
            # two tangent directions
            t1 = cross(n, (1.0, 0.0, 0.0) if abs(n[0]) < 0.9 else (0.0, 1.0, 0.0))
            t1 = unit(t1)
            t2 = cross(n, t1)
            improved = False
            for (ca, cb) in ((1, 0), (-1, 0), (0, 1), (0, -1), (1, 1), (1, -1), (-1, 1), (-1, -1)):
                m = unit(add(n, add(scl(step * ca, t1), scl(step * cb, t2))))
                fm = overlap(a, b, m)
                if fm < f:
                    f, n, improved = fm, m, True
            if not improved:
                step *= 0.5
        if f < best[0]:
            best = (f, n)
    return best


def inner_ball(a, b, n):
    """a centre for a ball inside both shapes: midpoint of the overlap slab along n, pulled towards the segment of
    centres"""
    sa, sb = supp(a, n), supp(b, scl(-1.0, n))
    mid = scl(0.5, add(sa, sb))
    # project the midpoint of the centres onto the slab middle plane along n (keeps it central in both shapes)
    c0 = scl(0.5, add(a.pos, b.pos))
    t = dot(n, sub(mid, c0))
    return add(c0, scl(t, n))


def clamp_sym(z, l):
    return l if z > l else (-l if z < -l else z)


def ball_radius(g, c):
    """largest radius accepted by the model's `ballIn` test (Python transcription, used to *choose* the radius; the
    acceptance itself is evaluated by the Lean model)"""
    p = mat_t_vec(g.mat, sub(c, g.pos))
    s = g.size
    if g.kind == "sphere":
        return s[0] - norm(p)
    if g.kind == "capsule":
        return s[0] - norm((p[0], p[1], p[2] - clamp_sym(p[2], s[1])))
    if g.kind == "ellipsoid":
        return (1.0 - norm((p[0] / s[0], p[1] / s[1], p[2] / s[2]))) * min(s)
    if g.kind == "cylinder":
        return min(s[0] - math.hypot(p[0], p[1]), s[1] - abs(p[2]))
    if g.kind == "box":
        return min(s[0] - abs(p[0]), s[1] - abs(p[1]), s[2] - abs(p[2]))
    return -1.0


def best_ball(a, b, n):
    best = (-1.0, None)
    sa, sb = supp(a, n), supp(b, scl(-1.0, n))
    for c in (inner_ball(a, b, n), scl(0.5, add(a.pos, b.pos)), scl(0.5, add(sa, sb)), a.pos, b.pos):
        r = 0.999 * min(ball_radius(a, c), ball_radius(b, c))
        if r > best[0]:
            best = (r, c)
    return best


# ---------------------------------------------------------------- the oracle
def case_scale(a, b):
    return a.rbound() + b.rbound() + norm(sub(a.pos, b.pos))


def kreq(g, x):
    """smallest scale factor k (about the centre) for which x lies in the scaled geom (Python transcription of the model's
    `mem`; a *proposal* — the membership itself is decided by the Lean model with this k)"""
    p = mat_t_vec(g.mat, sub(x, g.pos))
    s = g.size
    if g.kind == "sphere":
        return norm(p) / s[0]
    if g.kind == "ellipsoid":
        return norm((p[0] / s[0], p[1] / s[1], p[2] / s[2]))
    if g.kind == "box":
        return max(abs(p[0]) / s[0], abs(p[1]) / s[1], abs(p[2]) / s[2])
    if g.kind == "cylinder":
        return max(math.hypot(p[0], p[1]) / s[0], abs(p[2]) / s[1])
    if g.kind == "capsule":
        lo, hi = 0.0, 1.0
        f = lambda k: norm((p[0], p[1], p[2] - clamp_sym(p[2], k * s[1]))) <= k * s[0]  # noqa: E731
        while not f(hi):
            hi *= 2.0
            if hi > 1e6:
                return hi
        for _ in range(70):
            mid = 0.5 * (lo + hi)
            if f(mid):
                hi = mid
            else:
                lo = mid
        return hi
    return float("inf")


def parse_cert(out):
    w = out.split()
    if len(w) != 6 or w[0] not in ("ok", "fail"):
        raise Bad("bad certificate line: " + out[:100])
    return {"ok": w[0] == "ok", "memA": w[1] == "1", "memB": w[2] == "1", "len": fb(w[3]), "slack": fb(w[4]), "bound": fb(w[5])}


def parse_okval(out):
    w = out.split()
    if len(w) != 2 or w[0] not in ("ok", "fail"):
        raise Bad("bad checker line: " + out[:100])
    return w[0] == "ok", fb(w[1])


def replay_of(line, info, what):
    return {"harness": "harness/c/c15_gjk.c; build + path: python3 -c \"import sys; sys.path[:0]=['/verif','/verif/harness']; import build; "
                       "print(build.build_harness('/verif/harness/c/c15_gjk.c','c15_gjk'))\"",
            "stdin_line": line, "case": info, "observed": what,
            "how": "echo '<stdin_line>' | <c15_gjk>   -> records C/CS = mjc_ccd in both geom orders (dist nx separated gjk_it epa_it "
                   "epa_status x1 x2), D/DS = mj_geomDistance, V/VS = mjc_Convex; doubles are hex IEEE bits "
                   "(python: struct.unpack('>d', bytes.fromhex(tok)))"}


class Claim:
    """one answer of the real code about a geom pair (ga = the geom the answer calls geom 1)"""
    __slots__ = ("ci", "tag", "ga", "gb", "kind", "dist", "x1", "x2", "w", "k", "cert", "cert2", "pend", "lower", "extra", "ok")

    def __init__(self, ci, tag, ga, gb, kind, dist=None, x1=None, x2=None, w=None, extra=None):
        self.ci, self.tag, self.ga, self.gb, self.kind = ci, tag, ga, gb, kind
        self.dist, self.x1, self.x2, self.w, self.extra = dist, x1, x2, w, extra
        self.k, self.cert, self.cert2, self.pend, self.lower, self.ok = 1.0, None, None, None, None, None


def make_claims(ci, info, geoms, res):
    a, b = geoms
    claims = []

    def dist_claim(tag, ga, gb, dist, x1, x2, w=None):
        if dist > 0:
            claims.append(Claim(ci, tag, ga, gb, "sep", dist, x1, x2, sub(x2, x1)))
        elif dist < 0:
            claims.append(Claim(ci, tag, ga, gb, "pen", dist, x1, x2, w if w is not None else sub(x1, x2)))
        else:
            claims.append(Claim(ci, tag, ga, gb, "zero", 0.0, x1, x2))
    for tag, (ga, gb) in (("C", (a, b)), ("CS", (b, a))):
        r = res[tag]
        if r["dist"] == 0.0 and r["nx"] < 1:
            claims.append(Claim(ci, tag, ga, gb, "zero", 0.0))       # "touching", no witness points
        elif r["dist"] != r["dist"] or abs(r["dist"]) >= BIG or r["nx"] < 1:
            claims.append(Claim(ci, tag, ga, gb, "none", extra="mjc_ccd reported no distance (dist=%r nx=%d) although dist_cutoff=1e10" % (r["dist"], r["nx"])))
        else:
            dist_claim(tag, ga, gb, r["dist"], r["x1"], r["x2"])
    for tag, (ga, gb) in (("D", (a, b)), ("DS", (b, a))):
        r = res[tag]
        if not r["ccd"]:
            continue
        if r["dist"] < info["distmax"]:
            dist_claim(tag, ga, gb, r["dist"], r["x1"], r["x2"])
        else:
            claims.append(Claim(ci, tag, ga, gb, "atleast", info["distmax"]))
    for tag, (ga, gb) in (("V", (a, b)), ("VS", (b, a))):
        cons = res[tag]
        if ga.kind == "box" and gb.kind == "box":
            continue    # mjc_Convex(box, box) runs the 8-point multicontact clipping (the pipeline uses mjc_BoxBox instead): not judged
        if cons:
            # the contact with the smallest distance; contact normal points from geom 1 to geom 2; no witness points are
            # reconstructed (with a margin the contact is computed on inflated shapes): the normal and the distance are judged
            c = min(cons, key=lambda c: c["dist"])
            if c["dist"] > 0:
                claims.append(Claim(ci, tag, ga, gb, "vsep", c["dist"], w=c["normal"], extra=len(cons)))
            elif c["dist"] < 0:
                claims.append(Claim(ci, tag, ga, gb, "pen", c["dist"], w=c["normal"], extra=len(cons)))
            else:
                claims.append(Claim(ci, tag, ga, gb, "zero", 0.0))
        else:
            claims.append(Claim(ci, tag, ga, gb, "atleast", info["margin"]))
    return claims


def tol_sep(sc, k):
    return (SEP_REL_VALID if k - 1.0 <= K_VALID else SEP_REL_LOOSE) * sc + SEP_ABS


def v3(x):
    return " ".join(map(hb, x))


def oracle_pairs(ctx, impl, drv, cases, stats=None):
    """run the real code on the cases and judge every answer; returns a list of failures (key, what, replay)"""
    stats = stats if stats is not None else {}
    cnt = stats.setdefault("claims", {})
    mx = stats.setdefault("max_rel", {})
    hist = stats.setdefault("cases", {})
    failures = []

    def bump(d, k, n=1):
        d[k] = d.get(k, 0) + n

    def rel(k, v, who=None):
        if who is not None and ("coincident" in who or "directed" in who):
            return      # the fixed inputs of the known findings do not enter the calibration statistics
        if v == v and v > mx.get(k, (-1e300, None))[0]:
            mx[k] = (v, who)

    def lean(lines):
        if not lines:
            return []
        rcl, louts, lerr = ctx.run_lines([drv], lines)
        if rcl != 0 or len(louts) != len(lines):
            raise RuntimeError("drv_c15 failed: rc=%s %s" % (rcl, lerr[-300:]))
        return louts
    lines = [c[0] for c in cases]
    rc, outs, err = ctx.run_lines([impl], lines)
    if rc != 0 or len(outs) != len(lines):
        idx = min(len(outs), len(lines) - 1)
        return [("c15:crash", "c15_gjk crashed (rc=%s) after %d outputs" % (rc, len(outs)), replay_of(lines[idx], cases[idx][1], err[-400:]))]
    parsed, claims = [], []
    for ci, (line, info) in enumerate(cases):
        out = outs[ci]
        bump(hist, "%s-%s:%s" % (info["k1"], info["k2"], info["regime"]))
        if out.startswith("error") or out == "bad-op":
            failures.append(("c15:engine-error", "engine error / rejected op on a valid geom pair: " + out[:200], replay_of(line, info, out[:300])))
            parsed.append(None)
            continue
        try:
            geoms, res = parse_pair(out)
        except (Bad, ValueError) as e:
            failures.append(("c15:unparsable-output", str(e), replay_of(line, info, out[:300])))
            parsed.append(None)
            continue
        parsed.append((geoms, res))
        claims += make_claims(ci, info, geoms, res)
    by_case = {}
    for c in claims:
        by_case.setdefault(c.ci, []).append(c)
    # ---- phase 1: direction search per case (Python proposes a direction, the Lean model evaluates the overlap along it)
    need = {}
    thorough = ctx.tier == "thorough"
    for ci, cl in by_case.items():
        (a, b), _ = parsed[ci]
        extra = []
        for c in cl:
            if c.w is not None and norm(c.w) > 0:
                # pen: w = x1 - x2, sep: w = x2 - x1 — both point from the claim's geom 1 to its geom 2
                extra.append(c.w if c.ga is a else scl(-1.0, c.w))
        f, n = min_overlap_dir(a, b, extra, nfib=400 if thorough else 150, nrefine=3 if thorough else 2)
        need[ci] = {"n": n}
    order = sorted(need)
    for ci, oo in zip(order, lean(["over %s %s %s" % (parsed[ci][0][0].tok(), parsed[ci][0][1].tok(), v3(need[ci]["n"])) for ci in order])):
        need[ci]["overlap"] = fb(oo)
    # ---- phase 2: certificates of the distance claims
    q1 = []
    for c in claims:
        sc = case_scale(c.ga, c.gb)
        if c.kind == "sep":
            k = max(1.0, kreq(c.ga, c.x1), kreq(c.gb, c.x2))
            c.k = min(k * (1.0 + 1e-12) + 1e-13, K_CAP)
            q1.append((c, "sep %s %s %s %s %s %s %s %s" % (c.ga.tok(), c.gb.tok(), v3(c.x1), v3(c.x2), v3(c.w), hb(c.dist), hb(c.k), hb(tol_sep(sc, c.k)))))
        elif c.kind == "pen":
            q1.append((c, "pend %s %s %s %s %s" % (c.ga.tok(), c.gb.tok(), v3(c.w), hb(c.dist), hb(PEN_REL * sc + PEN_ABS))))
        elif c.kind == "vsep":
            q1.append((c, "seplo %s %s %s %s" % (c.ga.tok(), c.gb.tok(), v3(c.w), hb(c.dist - (PEN_REL * sc + PEN_ABS)))))
    for (c, _), lo in zip(q1, lean([l for _, l in q1])):
        if c.kind == "sep":
            c.cert = parse_cert(lo)
        elif c.kind == "pen":
            c.pend = parse_okval(lo)
        else:
            c.lower = parse_okval(lo)
    # second try for separated claims: the searched direction instead of x2 - x1; and the refutation test
    q2 = []
    for c in claims:
        if c.kind == "sep" and not (c.cert["ok"] and c.k - 1.0 <= K_VALID):
            (a, b), _ = parsed[c.ci]
            nst = need[c.ci]["n"] if c.ga is a else scl(-1.0, need[c.ci]["n"])   # direction from the claim's geom 1 to its geom 2
            sc = case_scale(c.ga, c.gb)
            q2.append((c, "c2", "sep %s %s %s %s %s %s %s %s" % (c.ga.tok(), c.gb.tok(), v3(c.x1), v3(c.x2), v3(nst), hb(c.dist), hb(c.k), hb(tol_sep(sc, c.k)))))
            q2.append((c, "lo", "seplo %s %s %s %s" % (c.ga.tok(), c.gb.tok(), v3(nst), hb(c.dist + SEP_REL_BELOW * sc + SEP_ABS))))
    for (c, what, _), lo in zip(q2, lean([l for _, _, l in q2])):
        if what == "c2":
            c.cert2 = parse_cert(lo)
        else:
            c.lower = parse_okval(lo)
    # ---- phase 3: inner balls where some answer says "not penetrating" although the searched overlap is large
    balls = []
    for ci in order:
        (a, b), _ = parsed[ci]
        sc = case_scale(a, b)
        if need[ci]["overlap"] > TOUCH_REL * sc + TOUCH_ABS and any(c.kind in ("zero", "none", "sep", "atleast") for c in by_case[ci]):
            r, c = best_ball(a, b, need[ci]["n"])
            if r > 0:
                need[ci]["ball"] = (r, c)
                balls.append(ci)
    for ci, bo in zip(balls, lean(["ball %s %s %s %s" % (parsed[ci][0][0].tok(), parsed[ci][0][1].tok(), v3(need[ci]["ball"][1]), hb(need[ci]["ball"][0]))
                                   for ci in balls])):
        need[ci]["ball_ok"] = bo.split()[0] == "ok"
    # ---- phase 4: verdicts
    for ci, cl in sorted(by_case.items()):
        line, info = cases[ci]
        (a, b), res = parsed[ci]
        sc = case_scale(a, b)
        nd = need[ci]
        ov = nd["overlap"]                       # Lean-evaluated overlap along the searched direction (A -> B orientation)
        proven_depth = 2 * nd["ball"][0] if nd.get("ball_ok") else 0.0   # Lean-certified lower bound of the depth
        t_touch = TOUCH_REL * sc + TOUCH_ABS
        coincident = norm(sub(a.pos, b.pos)) <= CCD_TOL
        case_fail = []

        def fail(key, what, c):
            if coincident and proven_depth > t_touch:
                key = "c15:coincident-centres-no-penetration"
                what = ("geom centres %.3g apart (<= ccd_tolerance): GJK stops at iteration 0 and no penetration is reported; " % norm(sub(a.pos, b.pos))) + what
            elif info.get("directed"):
                key = info["directed"]
            case_fail.append((key, "%s [%s %s-%s]: %s" % (c.tag, info["regime"], c.ga.kind, c.gb.kind, what),
                              dict(replay_of(line, info, outs[ci][:1500]), record=c.tag,
                                   lean_certified_depth_lower_bound=proven_depth if proven_depth > 0 else None,
                                   inner_ball=None if not nd.get("ball_ok") else {"centre": nd["ball"][1], "radius": nd["ball"][0]},
                                   searched_direction={"n_from_geomA_to_geomB": nd["n"], "overlap_lean": ov,
                                                       "meaning": "overlap > 0: certified upper bound of the depth; < 0: certified lower bound of the distance"})))
        certs = {c.tag: c for c in cl}

        def touching(c):
            # "touching within tolerance": neither separated nor penetrating by more than t_touch
            rel("touching_claim_|overlap|/tolerance", abs(ov) / t_touch, "%s#%d:%s" % (info["regime"], ci, c.tag))
            if ov < -t_touch:
                fail("c15:zero-distance-but-separated", "reported distance %.3g but the geoms are separated by at least %.6g (Lean-evaluated "
                     "separating direction)" % (c.dist, -ov), c)
            elif proven_depth > t_touch:
                fail("c15:zero-distance-but-penetrating", "reported distance %.3g but the geoms penetrate by at least %.6g (inner ball, "
                     "Lean-certified)" % (c.dist, proven_depth), c)
        for c in cl:
            bump(cnt, "%s:%s" % (c.tag, c.kind))
            ctx.count((line, c.tag))
            who = "%s#%d:%s" % (info["regime"], ci, c.tag)
            tiny = c.kind in ("sep", "pen", "vsep") and abs(c.dist) <= t_touch
            if c.kind == "none":
                fail("c15:no-distance-reported", c.extra, c)
            elif c.kind == "sep":
                k = c.cert2 if (c.cert2 is not None and c.cert2["ok"]) else c.cert
                c.ok = k["ok"]
                gap = k["len"] + k["slack"] - max(c.cert["bound"], c.cert2["bound"] if c.cert2 else -1e300)
                cls = "valid-witness" if c.k - 1.0 <= K_VALID else "shrunk-witness"
                bump(cnt, "sep:" + cls)
                if not tiny:
                    rel("sep_gap/tolerance:%s" % cls, gap / tol_sep(sc, c.k), who)
                    rel("sep_gap_abs:%s" % cls, gap, who)
                    rel("sep_|dist-len|/tolerance", abs(c.dist - k["len"]) / tol_sep(sc, c.k), who)
                    rel("sep_witness_scale_k-1", c.k - 1.0, who)
                best_lower = max(c.cert["bound"], c.cert2["bound"] if c.cert2 is not None else -1e300,
                                 c.lower[1] if c.lower is not None else -1e300)
                if not tiny:
                    rel("sep_(certified_lower_bound-dist)/tolerance", (best_lower - c.dist) / (SEP_REL_BELOW * sc + SEP_ABS), who)
                if best_lower > c.dist + SEP_REL_BELOW * sc + SEP_ABS and not tiny:
                    fail("c15:distance-below-certified-lower-bound",
                         "reported distance %.17g, but a direction separates the geoms by %.17g (Lean-evaluated, Props "
                         "distance_lower_bound): the reported distance is too small by %.3g (tolerance %.3g); witness points lie outside "
                         "their geoms by relative %.3g" % (c.dist, best_lower, best_lower - c.dist, SEP_REL_BELOW * sc + SEP_ABS, c.k - 1.0), c)
                elif not c.ok and tiny:
                    bump(cnt, "tiny-distance-fallback")
                    touching(c)
                elif not c.ok:
                    t = tol_sep(sc, c.k)
                    if not (k["memA"] and k["memB"]):
                        why = "witness point outside its geom even after scaling the geom by %.6g (memA=%s memB=%s)" % (c.k, k["memA"], k["memB"])
                    elif not gap <= t:
                        why = "reported distance %.17g: witness distance %.17g (+%.3g for shrinking the witnesses into the geoms) but the best " \
                              "certified lower bound is %.17g (gap %.3g > %.3g)" % (c.dist, k["len"], k["slack"], k["len"] + k["slack"] - gap, gap, t)
                    else:
                        why = "reported distance %.17g differs from the distance of its witness points %.17g" % (c.dist, k["len"])
                    if proven_depth > 0:
                        why += "; the geoms actually penetrate by at least %.6g (inner ball, Lean-certified)" % proven_depth
                    fail("c15:separated-distance-not-certified", why, c)
            elif c.kind == "pen":
                okp, bound = c.pend
                depth = -c.dist
                ln = norm(sub(c.x2, c.x1)) if c.x1 is not None else depth
                t = PEN_REL * sc + PEN_ABS
                good = okp and abs(depth - ln) <= t and depth - ov <= REF_REL * sc + REF_ABS and ov - depth <= LOW_REL * sc + PEN_ABS
                if tiny and good:
                    continue
                if tiny and not good:
                    bump(cnt, "tiny-distance-fallback")
                    touching(c)
                    continue
                exc = depth - ov                          # ov: same number for both geom orders
                rel("pen_normal_gap/tolerance", (bound - depth) / t, who)
                rel("pen_normal_gap/scale", (bound - depth) / sc, who)
                rel("pen_|depth-len|/tolerance", abs(depth - ln) / t, who)
                rel("pen_(depth-searched_overlap)/tolerance", exc / (REF_REL * sc + REF_ABS), who)
                rel("pen_(searched_overlap-depth)/scale", -exc / sc, who)
                rel("pen_(searched_overlap-depth)/scale:%s" % ("box-box" if c.ga.kind == c.gb.kind == "box" else "other pairs"), -exc / sc, who)
                ovc = ov
                if exc > REF_REL * sc + REF_ABS:
                    fail("c15:epa-depth-for-touching-geoms" if abs(ov) <= t_touch else "c15:reported-depth-exceeds-true-depth",
                         "reported depth %.17g, but along the searched direction the overlap is only %.17g (Lean-evaluated, Props "
                         "reported_depth_refuted): the true depth is smaller by >= %.3g (tolerance %.3g)" % (depth, ovc, exc, REF_REL * sc + REF_ABS), c)
                elif -exc > LOW_REL * sc + PEN_ABS:
                    fail("c15:box-box-depth-underestimated" if c.ga.kind == c.gb.kind == "box" else "c15:reported-depth-below-true-depth",
                         "reported depth %.17g, but every searched direction (the reported normal included) leaves an overlap of at least "
                         "%.17g; along the reported normal the overlap is %.17g (Lean-evaluated): moving geom 1 by the reported depth does not "
                         "separate the geoms by >= %.3g (tolerance %.3g)" % (depth, ovc, bound, -exc, LOW_REL * sc + PEN_ABS), c)
                elif not okp:
                    fail("c15:penetration-not-certified",
                         "reported depth %.17g but the overlap along the reported normal is %.17g (gap %.3g > %.3g): moving along the reported "
                         "normal by the reported depth does not separate the geoms" % (depth, bound, bound - depth, t), c)
                elif abs(depth - ln) > t:
                    fail("c15:penetration-not-certified", "reported depth %.17g differs from the distance of its witness points %.17g" % (depth, ln), c)
            elif c.kind == "vsep":
                # mjc_Convex contact with positive distance (inside the margin): the reported normal must separate the geoms by
                # about the reported distance, and the distance must agree with the certified answer of mjc_ccd
                okl, sepn = c.lower
                t = PEN_REL * sc + PEN_ABS
                if not tiny:
                    rel("vsep_(dist-separation_along_normal)/tolerance", (c.dist - sepn) / t, who)
                ref = certs.get("C" if c.tag == "V" else "CS")
                if ref is not None and ref.kind == "sep" and ref.ok:
                    rel("vsep_|dist-ccd_dist|/tolerance", abs(c.dist - ref.dist) / (2 * (SEP_REL_LOOSE * sc + SEP_ABS)), who)
                if tiny and not okl:
                    bump(cnt, "tiny-distance-fallback")
                    touching(c)
                elif not okl:
                    fail("c15:contact-normal-not-certified", "mjc_Convex contact distance %.17g, but the contact normal separates the geoms only by "
                         "%.17g (gap %.3g > %.3g)" % (c.dist, sepn, c.dist - sepn, t), c)
                elif ref is not None and ref.kind == "sep" and ref.ok and abs(c.dist - ref.dist) > 2 * (SEP_REL_LOOSE * sc + SEP_ABS):
                    fail("c15:contact-distance-differs", "mjc_Convex contact distance %.17g but mjc_ccd (certified) reports %.17g" % (c.dist, ref.dist), c)
            elif c.kind == "zero":
                touching(c)
            elif c.kind == "atleast":
                ref = certs.get("C" if c.tag in ("D", "V") else "CS")
                bound = c.dist
                applies = bound > 0 or c.tag in ("V", "VS")
                what = None
                if applies and proven_depth > t_touch:
                    what = "the geoms penetrate by at least %.6g (inner ball, Lean-certified)" % proven_depth
                elif applies and ref is not None and ref.kind == "pen" and ref.pend[0] and -ref.dist > 3 * (PEN_REL * sc + PEN_ABS) and ov > 2 * (PEN_REL * sc + PEN_ABS):
                    what = "mjc_ccd on the same pair reports a penetration of %.6g" % -ref.dist
                elif ref is not None and ref.kind == "sep" and ref.ok and ref.cert["len"] + ref.cert["slack"] < bound - 2 * tol_sep(sc, ref.k):
                    what = "the (certified) witness points of mjc_ccd on the same pair are only %.17g apart" % ref.cert["len"]
                if what:
                    fail("c15:geomdistance-cutoff-wrong" if c.tag in ("D", "DS") else "c15:convex-missed-contact",
                         ("mj_geomDistance returned distmax=%.6g" if c.tag in ("D", "DS") else "mjc_Convex returned no contact with margin=%.6g") % bound + " but " + what, c)
        # swap statistics / consistency (consequences of the certificates: swap_distance_of_certified, swap_symmetry_of_certified)
        c1, c2 = certs.get("C"), certs.get("CS")
        if c1 is not None and c2 is not None and c1.kind == c2.kind == "sep" and c1.ok and c2.ok:
            dd = abs(c1.dist - c2.dist)
            rel("swap_|dist-dist'|/scale:sep", dd / sc)
            dv = norm(sub(sub(c1.x2, c1.x1), sub(c2.x1, c2.x2)))
            if c1.cert["len"] > 1e-3 * sc:
                rel("swap_witness_vector_dev/len:sep", dv / c1.cert["len"], "%s#%d" % (info["regime"], ci))
            # swap_symmetry_of_certified: ||v - v'||^2 <= rho^2 - l^2 + 2 l gap  (v, v': witness vectors from A to B of the two runs)
            k1 = c1.cert2 if (c1.cert2 is not None and c1.cert2["ok"]) else c1.cert
            k2 = c2.cert2 if (c2.cert2 is not None and c2.cert2["ok"]) else c2.cert
            g1 = max(0.0, k1["len"] + k1["slack"] - k1["bound"])
            rho = k2["len"] + k2["slack"]
            lim = math.sqrt(max(0.0, rho * rho - k1["len"] ** 2 + 2 * k1["len"] * g1)) + k1["slack"] + k2["slack"] + 1e-9 * sc
            if dd > 2 * (tol_sep(sc, c1.k) + tol_sep(sc, c2.k)):
                fail("c15:swap-distance-differs", "certified distances of the two geom orders differ: %.17g vs %.17g" % (c1.dist, c2.dist), c1)
            elif dv > 10 * lim + 1e-7 * sc:
                fail("c15:swap-normal-not-reversed", "the witness vectors of the two geom orders differ by %.3g although both are certified "
                     "(limit %.3g from the certified gaps, Props swap_symmetry_of_certified)" % (dv, lim), c1)
        elif c1 is not None and c2 is not None and c1.kind == c2.kind == "pen":
            dd = abs(c1.dist - c2.dist)
            rel("swap_|depth-depth'|/scale:pen", dd / sc, "%s#%d" % (info["regime"], ci))
            n1, n2 = unit(c1.w) if norm(c1.w) > 0 else None, unit(c2.w) if norm(c2.w) > 0 else None
            if n1 and n2 and -c1.dist > 1e-3 * sc:
                # informational: the depth-minimising normal need not be unique (symmetric configurations)
                rel("swap_normal_|n+n'|:pen(informational)", norm(add(n1, n2)), "%s#%d" % (info["regime"], ci))
            if not case_fail and dd > 2 * (REF_REL * sc + REF_ABS) + 2 * (PEN_REL * sc + PEN_ABS):
                fail("c15:swap-depth-differs", "depths reported for the two geom orders differ: %.17g vs %.17g" % (-c1.dist, -c2.dist), c1)
        if case_fail:
            failures.append(case_fail[0])
            bump(stats.setdefault("failing_cases_by_key", {}), case_fail[0][0])
    stats["direction_searches"] = stats.get("direction_searches", 0) + len(need)
    stats["inner_ball_certificates"] = stats.get("inner_ball_certificates", 0) + sum(1 for ci in balls if need[ci].get("ball_ok"))
    return failures


def keyf_supp(line):
    w = line.split()
    return line if len(w) >= 19 else None


def directed_cases():
    out = []
    for key, regime, line in DIRECTED:
        w = line.split()
        info = {"k1": w[1], "k2": w[12], "regime": regime, "aligned": None, "scale": None, "offset": None, "directed": key,
                "margin": fb(w[27]), "distmax": fb(w[26]), "gap_along_u": None}
        out.append((line, info))
    return out


def run(ctx):
    ctx.rule = ("T: op lines `supp <kind> size pos mat dir` / `msupp verts pos mat dir cached` (seeded; unit, local-axis, lattice, tiny and "
                "unnormalised directions; aligned and random frames), a case is distinct by its full line, malformed lines are the trivial ones. "
                "S: `pair` lines (all 25 ordered kind pairs x regimes far / near+ / near- / zero / shallow / deep / coincident centres, x scale "
                "%s, x offset from the origin %s, x aligned or random frames) plus the fixed directed inputs of the known findings; every answer "
                "of mjc_ccd (both orders), mj_geomDistance (both orders, CCD dispatch only) and mjc_Convex (both orders) is one evaluation, "
                "distinct by (line, record)" % (sorted(set(SCALES)), sorted(set(OFFSETS))))
    ctx.lean_props(THEOREMS)
    drv = ctx.driver("drv_c15")
    impl = ctx.harness("harness/c/c15_gjk.c", "c15_gjk")
    if not (drv and impl):
        return
    ctx.assumptions.append("C15: mjc_ccd is run with opt.ccd_tolerance=1e-6 (default) and opt.ccd_iterations=1000 (default 35: with 35 "
                           "iterations EPA on smooth shapes stops unconverged; that budget effect is not asserted); native CCD path only "
                           "(libccd is a stub in this build)")
    # ---- T: support functions, bitwise
    sl = gen_supp_lines(ctx)
    ctx.differential("support functions installed by mjc_initCCDObj / mjc_ccd vs Lean model (bitwise)", [drv], [impl], sl, keyf=keyf_supp)
    # ---- S: certificates on the outputs of the real GJK/EPA
    cases = gen_pairs(ctx) + directed_cases()
    stats = {}
    failures = oracle_pairs(ctx, impl, drv, cases, stats)
    seen = {}
    for key, what, rp in failures:
        seen[key] = seen.get(key, 0) + 1
        if seen[key] <= 3:
            ctx.oracle_failure(key, what, rp)
    ctx.extra["pair_cases"] = len(cases)
    ctx.extra["claims_checked"] = stats.get("claims")
    ctx.extra["tolerances"] = {"sep": "(%g if witness points valid (k-1 <= %g) else %g)*scale + %g" % (SEP_REL_VALID, K_VALID, SEP_REL_LOOSE, SEP_ABS),
                               "pen_normal_gap": "%g*scale + %g" % (PEN_REL, PEN_ABS), "depth_too_large(refutation)": "%g*scale + %g" % (REF_REL, REF_ABS),
                               "depth_too_small": "%g*scale + %g" % (LOW_REL, PEN_ABS),
                               "touch": "%g*scale + %g" % (TOUCH_REL, TOUCH_ABS), "scale": "rbound(A) + rbound(B) + centre distance"}
    ctx.extra["max_observed"] = {k: [float("%.3g" % v[0]), v[1]] for k, v in sorted(stats.get("max_rel", {}).items())}
    ctx.extra["case_distribution"] = stats.get("cases")
    ctx.extra["failing_cases_by_key"] = stats.get("failing_cases_by_key", {})
    ctx.extra["direction_searches"] = stats.get("direction_searches")
    ctx.extra["inner_ball_certificates_accepted"] = stats.get("inner_ball_certificates")
    ctx.extra["solver_settings"] = {"ccd_tolerance": CCD_TOL, "ccd_iterations": CCD_ITERS}
    for line, info in cases[:2]:
        ctx.sample({"pair": info, "stdin_line": line[:400] + " ..."})

    def directed(c):
        # a proof / tie obligation broke and the oracle above found nothing: larger batches, restricted to the kinds whose
        # support function disagreed
        kinds = set()
        for d in c.disagreements:
            w = d.get("line", "").split()
            if len(w) > 1 and w[1] in KINDS:
                kinds.add(w[1])
        kinds = sorted(kinds) or KINDS
        known = set(k for k, _, _ in DIRECTED) | {"c15:coincident-centres-no-penetration"}
        for rnd in range(4):
            batch = []
            for i in range(1500):
                k1 = c.rng.choice(kinds)
                k2 = c.rng.choice(KINDS)
                if c.rng.random() < 0.5:
                    k1, k2 = k2, k1
                batch.append(gen_pair(c.rng, k1, k2))
            fl = [f for f in oracle_pairs(c, impl, drv, batch, {}) if f[0] not in known]
            if fl:
                return {"key": fl[0][0], "what": fl[0][1], "replay": fl[0][2]}
        return None
    ctx.directed_search = directed
    if ctx.tier == "thorough":
        ctx.leanchecker(["MjProof.Props.C15"])


# fixed inputs of the known findings (found by this oracle on the unmodified tree; see the final report of C15)
DIRECTED += [
    ('c15:gjk-simplex-precision-loss', 'directed:large-geoms ellipsoid-capsule (sizes 7.8/1.6/7.8 and r=5.8,l=1)',
     'pair ellipsoid 401f0051691683a6 3ff9dbcabf84dcba 401f0051691683a6 4010cfca3e020c71 c018444850e07935 400ddbab99946cad 3fc7e64d3a901513 bfcf9d309bbb7fd0 3fe2fe1bac00aa88 3fe7c5acb24615a9 capsule 4017120ed6e7293a 3ff0000000000000 0000000000000000 402f8abdc737f79a c01672db3c2a3364 40040fdc6c7c6a23 bfb44f32229b9f56 3fe3d00127ed3dc4 bfc4880aaeb39f63 3fe877c194d1338f 3eb0c6f7a0b5ed8d 1000 4202a05f20000000 40326d7835953932 0000000000000000'),
    ('c15:gjk-simplex-precision-loss', 'directed:large-geoms ellipsoid-ellipsoid (sizes ~100..390)',
     'pair ellipsoid 4059a1285cdddf2c 4055ff8785911413 4059a1285cdddf2c 402a158249d943a1 c00d0b02b7432ed5 402dc3f86cbd80e8 bfd4c1aeab195f66 bfe59ba50c6a3c7e 3fa3266ddb1139ed 3fe52a37bf40d319 ellipsoid 4059000000000000 407831762c3a55a1 405268c5f8beb796 c04c300c1c4999ba 407b3232a2229d89 c04b156c93cf680e 3fc0eda506242bdf 3fd059627ff95003 3fc1cd20f7a8b3f3 bfee52964e1a1016 3eb0c6f7a0b5ed8d 1000 4202a05f20000000 4202a05f20000000 3fba3ea01d8f3a8b'),
    ('c15:epa-depth-for-touching-geoms', 'directed:touching aligned cylinder / thin ellipsoid',
     'pair cylinder 3fd7275475520946 3fd7275475520946 0000000000000000 bfbf2d2ade9b5b80 bfc07ff0dd03abb5 bf8e354be5950a80 3fe6a09e667f3bcd 0000000000000000 0000000000000000 3fe6a09e667f3bcd ellipsoid 3fb3f259e566ab7a 3fc2b0e324ed9ea6 3f8979395abba259 bfbf2d2ade9b5b78 bfe45fdf3b06eca1 bf8e354be5950a80 0000000000000000 3ff0000000000000 0000000000000000 0000000000000000 3eb0c6f7a0b5ed8d 1000 4202a05f20000000 3ff253969527d1af 0000000000000000'),
    ('c15:epa-depth-for-touching-geoms', 'directed:touching box / cylinder',
     'pair box 3f86b27067ecad0f 3f86b27067ecad0f 3f62a52fb6af3528 3f7ceaa604b3368a 3f9f07a4c94e4102 3fb8544dd65dcc8d 3fe6a09e667f3bcd 0000000000000000 0000000000000000 3fe6a09e667f3bcd cylinder 3f906ab8201357b7 3f906ab8201357b7 0000000000000000 3f7ceaa604b3368a 3f9f07a4c94e4102 3fbd04255c308a6c 0000000000000000 3ff0000000000000 0000000000000000 0000000000000000 3eb0c6f7a0b5ed8d 1000 4202a05f20000000 4202a05f20000000 3ef09b5688b4e904'),
]
DIRECTED += [
    ('c15:box-box-depth-underestimated', 'directed:deep box-box (mjc_ccd in distance mode)',
     'pair box 3fecf82748a91092 3fecf82748a91092 4010000000000000 3fc7bdba713438e6 bfeabc7e456001c1 bfe08d1c3277d0a6 3fc00e05f0c6b4ca bfde6ae5b78e49ea bf9d63420d223e4b bfebda238da6e017 box 3ff0000000000000 3ff0000000000000 4010000000000000 400116085d55c8cc bffdbc9e2628c380 bfff7e41f8e9475b 3fe2f82023025622 bfdc6451555b34a4 bfe581e8b30e431b 3f81419f2b6b8849 3eb0c6f7a0b5ed8d 1000 4202a05f20000000 400337c17e3750a1 3f7133e867684b24'),
]
