"""C11  Constraint forces are admissible (DESIGN.md §5.C11).  Shares model, driver, harness and generators with C12."""
import json
import math
import struct

from gen.enums import E
from gen.models import ModelGen

META = {
    "technique": "Lean 4 proof over a hand model of mj_constraintUpdate_impl (per-row laws and the three-zone elliptic cone block), "
                 "mju_mulMatTVec, mju_decodePyramid and the PGS projectCone + bitwise differential correspondence of the model "
                 "(run on IEEE doubles) with the compiled functions of the tree + admissibility oracle on mj_forward output for "
                 "every solver x cone",
    "text": "Proved over the reals for all residuals and all parameters in the stated ranges: friction-loss forces satisfy "
            "|f| <= frictionloss; limit / frictionless / pyramidal-edge forces are >= 0; in every zone of the elliptic block the "
            "normal force is >= 0 and bounds the friction-weighted tangential norm (middle zone: equality, i.e. on the cone "
            "surface; bottom zone: under the relation D[j]*mu^2 = D[0]*friction[j-1]^2 that mj_makeImpedance establishes, stated "
            "as a hypothesis and checked on engine data every run); the PGS projectCone output lies in the cone; "
            "mju_mulMatTVec is the dense transpose product (qfrc_constraint = J' efc_force); mju_decodePyramid returns the sum of "
            "the edge forces as normal force (>= 0) and a friction vector inside the pyramid. The hand-written model performs the "
            "same floating-point operations in the same order as the C code and is compared bit-for-bit with the exported "
            "functions on synthetic rows (every row kind, condim 1..6, zone interiors and exact zone boundaries, non-finite "
            "values) and on the efc arrays of generated scenes.",
    "note": "Admissibility of the forces that the *iterative solvers* return (PGS/CG/Newton after mj_forward) is covered by the "
            "proved law of mj_constraintUpdate_impl for the primal solvers (their efc_force is the output of that function) and by "
            "projectCone + the oracle for PGS; the PGS block update (QCQP) itself is sampled, not modelled. mj_contactForce is "
            "checked by the oracle against efc_force (elliptic: copy; pyramidal: decode; minus this tree's contact adhesion).",
}

THEOREMS = [
    "MjProof.C11.friction_force_bounded",
    "MjProof.C11.nonneg_force_nonneg",
    "MjProof.C11.equality_force_linear",
    "MjProof.C11.elliptic_normal_nonneg",
    "MjProof.C11.elliptic_in_cone",
    "MjProof.C11.elliptic_middle_on_cone_surface",
    "MjProof.C11.impedance_relation",
    "MjProof.C11.update_rows_admissible",
    "MjProof.C11.projectCone_in_cone",
    "MjProof.C11.mulMatTVec_eq_transpose_mul",
    "MjProof.C11.decodePyramid_normal_eq_sum",
    "MjProof.C11.decodePyramid_normal_nonneg",
    "MjProof.C11.decodePyramid_in_pyramid",
]

ELL = 7


# ------------------------------------------------------------------------------------------ float helpers
def hexf(x):
    if x != x:
        return "nan"
    return "%016x" % struct.unpack("<Q", struct.pack("<d", x))[0]


def unhex(s):
    if s == "nan":
        return float("nan")
    return struct.unpack("<d", struct.pack("<Q", int(s, 16)))[0]


def nextafter(x, up):
    return math.nextafter(x, math.inf if up else -math.inf)


# ------------------------------------------------------------------------------------------ synthetic generator
def pos_scale(rng):
    return 10.0 ** rng.uniform(-4, 4) if rng.random() < 0.5 else rng.uniform(0.05, 20.0)


def special(rng):
    return rng.choice((0.0, -0.0, float("nan"), float("inf"), -float("inf"), 1e-320, -1e-320, 1e300, -1e300, 5e-324))


class Upd:
    """one `upd` op: rows (D,R,floss,jar,type,id), contacts (dim,mu,friction[5])"""

    def __init__(self):
        self.rows, self.cons, self.ne, self.nf, self.tags = [], [], 0, 0, []

    def line(self, flg):
        t = ["upd", str(self.ne), str(self.nf), str(flg), str(len(self.rows)), str(len(self.cons))]
        for (D, R, fl, jar, ty, k) in self.rows:
            t += [hexf(D), hexf(R), hexf(fl), hexf(jar), str(ty), str(k)]
        for (dim, mu, fr) in self.cons:
            t += [str(dim), hexf(mu)] + [hexf(f) for f in fr]
        return " ".join(t)


def gen_friction(rng):
    style = rng.random()
    if style < 0.15:
        return [1.0, 1.0, 1.0, 1.0, 1.0]
    if style < 0.3:
        return [0.5, 0.5, 0.25, 2.0, 2.0]
    f1 = rng.uniform(0.05, 2.0)
    f2 = f1 if rng.random() < 0.5 else rng.uniform(0.05, 2.0)
    return [f1, f2, rng.uniform(0.001, 0.1), rng.uniform(0.0001, 0.01), rng.uniform(0.0001, 0.01)]


def impedance(rng, fr, dim, related=True):
    """R, D of the dim rows of an elliptic contact and its mu, the way mj_makeImpedance sets them"""
    R0 = pos_scale(rng)
    impratio = rng.choice((1.0, 1.0, 0.25, 4.0, rng.uniform(0.1, 20)))
    R = [R0]
    if dim > 1:
        R.append(R0 / max(1e-15, impratio))
        for j in range(1, dim - 1):
            R.append(R[1] * fr[0] * fr[0] / (fr[j] * fr[j]))
    mu = fr[0] * math.sqrt((R[1] if dim > 1 else R0 / impratio) / R0)
    if not related:
        R = [pos_scale(rng) for _ in range(dim)]
        mu = rng.choice((mu, rng.uniform(0.05, 3)))
    return R, [1 / r for r in R], mu


ZONES = ("top", "bottom", "middle", "b_top", "b_bot", "apex", "axis_neg", "axis_pos", "free", "exact_top", "exact_bot", "near_top", "near_bot")


def gen_cone(rng, u, dims=(1, 3, 4, 6, 3, 4, 6, 2, 5), zone=None, related=None):
    """append one elliptic block to u; returns the zone tag aimed at"""
    dim = rng.choice(dims)
    zone = zone or rng.choice(ZONES)
    related = (rng.random() < 0.8) if related is None else related
    fr = gen_friction(rng)
    R, D, mu = impedance(rng, fr, dim, related)
    n = dim - 1
    T = pos_scale(rng)
    vec = [rng.gauss(0, 1) for _ in range(n)]
    nv = math.sqrt(sum(x * x for x in vec)) or 1.0
    U = [x / nv * T for x in vec]
    if n and rng.random() < 0.2:   # single active tangential direction
        k = rng.randrange(n)
        U = [T * rng.choice((-1, 1)) if j == k else 0.0 for j in range(n)]
    if zone in ("exact_top", "exact_bot") and n >= 2:
        # exactly representable boundary: U = s*(3,4,0..), T = 5s, mu a power of two, friction 1
        s = 2.0 ** rng.randint(-6, 6)
        mu = rng.choice((0.25, 0.5, 1.0, 2.0))
        fr = [1.0] * 5
        U = [3 * s, 4 * s] + [0.0] * (n - 2)
        rng.shuffle(U)
        T = 5 * s
        N = mu * T if zone == "exact_top" else -T / mu
        D0 = 2.0 ** rng.randint(-3, 8)
        D = [D0] + [D0 / (mu * mu)] * n
        R = [1 / x for x in D]
    elif zone == "top":
        N = mu * T * (1 + rng.uniform(0.01, 3))
    elif zone == "bottom":
        N = -T / mu * (1 + rng.uniform(0.01, 3))
    elif zone == "middle":
        N = rng.uniform(-T / mu, mu * T) * 0.98
    elif zone in ("b_top", "exact_top", "near_top"):
        N = mu * T
    elif zone in ("b_bot", "exact_bot", "near_bot"):
        N = -T / mu
    elif zone == "apex":
        N, U = 0.0, [0.0] * n
    elif zone == "axis_neg":
        N, U = -pos_scale(rng), [0.0] * n
    elif zone == "axis_pos":
        N, U = pos_scale(rng), [0.0] * n
    else:
        N = rng.gauss(0, 1) * T * 2
    jar = [N / mu] + [U[j] / fr[j] for j in range(n)]
    if zone in ("near_top", "near_bot"):
        for _ in range(rng.randint(1, 4)):
            jar[0] = nextafter(jar[0], rng.random() < 0.5)
    cid = len(u.cons)
    u.cons.append((dim, mu, fr))
    for j in range(dim):
        u.rows.append((D[j], R[j], 0.0, jar[j], ELL, cid))
    u.tags.append("ell:%d:%s:%s" % (dim, zone, "rel" if related else "free"))
    return zone


def gen_scalar(rng, u, kind):
    D = pos_scale(rng)
    R = 1 / D if rng.random() < 0.9 else pos_scale(rng)
    if kind == "eq":
        jar = rng.gauss(0, 1) * pos_scale(rng)
        u.rows.append((D, R, 0.0, jar, 0, 0))
        u.tags.append("eq")
    elif kind == "fric":
        fl = rng.choice((0.0, pos_scale(rng), pos_scale(rng)))
        z = rng.choice(("neg", "pos", "quad", "b_neg", "b_pos", "near_neg", "near_pos", "zero"))
        b = R * fl
        jar = {"neg": -b * (1 + rng.random() * 3) - 1e-9, "pos": b * (1 + rng.random() * 3) + 1e-9, "quad": b * rng.uniform(-0.99, 0.99),
               "b_neg": -b, "b_pos": b, "near_neg": -b, "near_pos": b, "zero": 0.0}[z]
        if z.startswith("near"):
            for _ in range(rng.randint(1, 3)):
                jar = nextafter(jar, rng.random() < 0.5)
        u.rows.append((D, R, fl, jar, rng.choice((1, 2)), 0))
        u.tags.append("fric:" + z)
    else:
        z = rng.choice(("neg", "pos", "zero", "negzero", "tiny"))
        jar = {"neg": -pos_scale(rng), "pos": pos_scale(rng), "zero": 0.0, "negzero": -0.0, "tiny": rng.choice((5e-324, -5e-324))}[z]
        u.rows.append((D, R, 0.0, jar, rng.choice((3, 4, 5, 6)), 0))
        u.tags.append("nonneg:" + z)


def gen_upd(rng, maxblocks=6):
    u = Upd()
    u.ne = rng.choice((0, 0, 1, 2, 3))
    u.nf = rng.choice((0, 0, 1, 2, 4))
    for _ in range(u.ne):
        gen_scalar(rng, u, "eq")
    for _ in range(u.nf):
        gen_scalar(rng, u, "fric")
    for _ in range(rng.randint(0, maxblocks)):
        if rng.random() < 0.6:
            gen_cone(rng, u)
        else:
            gen_scalar(rng, u, "nonneg")
    # occasionally poison one number with a non-finite / denormal / signed-zero value
    if u.rows and rng.random() < 0.06:
        i = rng.randrange(len(u.rows))
        r = list(u.rows[i])
        r[rng.choice((0, 1, 2, 3))] = special(rng)
        u.rows[i] = tuple(r)
        u.tags.append("special")
    return u
