"""C11  Constraint forces are admissible (DESIGN.md §5.C11).  Shares model, driver, harness and generators with C12."""
import importlib
import json
import math
import os
import re
import struct

from gen.enums import E
from gen.models import ModelGen

META = {
    "technique": "Lean 4 proof over a hand model of mj_constraintUpdate_impl (per-row laws and the three-zone elliptic cone block), "
                 "mju_mulMatTVec, mju_decodePyramid and the PGS projectCone + bitwise differential correspondence of the model "
                 "(run on IEEE doubles) with the compiled functions of the tree + statement-level model of mj_fwdConstraint / "
                 "warmstart / dualFinish / mj_constraintUpdate on the arrays the property observes, tied to the C text by a "
                 "translator, with qfrc_constraint = J' efc_force proved for every content of the mjData at entry + admissibility "
                 "oracle on mj_forward output for every solver x cone, on fresh mjData and after histories of calls on one mjData",
    "text": "Proved over the reals for all residuals and all parameters in the stated ranges: friction-loss forces satisfy "
            "|f| <= frictionloss; limit / frictionless / pyramidal-edge forces are >= 0; in every zone of the elliptic block the "
            "normal force is >= 0 and bounds the friction-weighted tangential norm (middle zone: equality, i.e. on the cone "
            "surface; bottom zone: under the relation D[j]*mu^2 = D[0]*friction[j-1]^2 that mj_makeImpedance establishes, stated "
            "as a hypothesis and checked on engine data every run); the PGS projectCone output lies in the cone; "
            "mju_mulMatTVec is the dense transpose product (qfrc_constraint = J' efc_force); mju_decodePyramid returns the sum of "
            "the edge forces as normal force (>= 0) and a friction vector inside the pyramid. The hand-written model performs the "
            "same floating-point operations in the same order as the C code and is compared bit-for-bit with the exported "
            "functions on synthetic rows (every row kind, condim 1..6, zone interiors and exact zone boundaries, non-finite "
            "values) and on the efc arrays of generated scenes. "
            "Call histories: mj_fwdConstraint, the static warmstart, dualFinish / mj_dualFinish and mj_constraintUpdate are modelled "
            "statement by statement (guarded statement lists; translate/c11_fwdskel.py extracts the same lists from the C text on "
            "every run, so a statement that is added, dropped, moved behind the `if (!nefc) return` or re-guarded breaks the tie). "
            "Proved for EVERY content of qfrc_constraint / ifrc_constraint / efc_force / iefc_force at entry (= every history of "
            "earlier calls on the same mjData), nefc = 0 or > 0, islands or monolithic, PGS / CG / Newton, noslip on/off, warm or "
            "cold start: the call returns with qfrc_constraint = J' efc_force (fwdConstraint_spec, fwdConstraint_qfrc_eq_JTf) and "
            "the result does not depend on the content at entry (fwdConstraint_history_independent); warmstart and mj_dualFinish "
            "refine their bodies. The solvers themselves are abstract leaves (hypotheses Leaves.WF: J'f has nv entries and "
            "vanishes at dofs outside every island, checked on the engine's efc_J / map_idof2dof every run).",
    "note": "Admissibility of the forces that the *iterative solvers* return (PGS/CG/Newton after mj_forward) is covered by the "
            "proved law of mj_constraintUpdate_impl for the primal solvers (their efc_force is the output of that function) and by "
            "projectCone + the oracle for PGS; the PGS block update (QCQP) itself is sampled, not modelled. mj_contactForce is "
            "checked by the oracle against efc_force (elliptic: copy; pyramidal: decode; minus this tree's contact adhesion). "
            "solveQCQP / mju_QCQP (friction update of PGS and of the noslip pass) has no Lean model: ellipsoid membership of its "
            "result is an oracle on the real static function; it reports the genuine finding `c11:qcqp-outside-ellipsoid` (early exit "
            "of mju_QCQP with la == 0 reported as 'inactive', reachable with noslip_iterations > 0, elliptic cone, condim 6) through a "
            "deterministic witness on every seed. "
            "Histories on one mjData are sampled: per model 5-13 forward calls separated by re-positioning through qpos (bodies "
            "lifted off / dropped onto the floor, limited joints moved in / out of range), disable flags flipped (CONSTRAINT, "
            "EQUALITY, FRICTIONLOSS, LIMIT, CONTACT, ISLAND, WARMSTART), eq_active toggled, solver options changed, mj_step, "
            "mj_resetData; the full oracle runs after every call, and half of the calls are followed by two re-runs of the real "
            "mj_fwdConstraint with qfrc_constraint / efc_force / ifrc_constraint / iefc_force pre-filled with arbitrary finite "
            "values, whose outputs must equal the first call's bit for bit. The leaf contracts of the statement model (what "
            "mj_sol*, solveIslandTask, mj_solNoSlip* write) are assumptions of the theorems, validated only by these runs.",
}

USES_GEN = False   # nothing under lean/MjProof/Gen is read or regenerated: runs against a scratch worktree need no exclusive lock

THEOREMS = [
    "MjProof.C11.friction_force_bounded",
    "MjProof.C11.nonneg_force_nonneg",
    "MjProof.C11.equality_force_linear",
    "MjProof.C11.elliptic_normal_nonneg",
    "MjProof.C11.elliptic_in_cone",
    "MjProof.C11.elliptic_middle_on_cone_surface",
    "MjProof.C11.impedance_relation",
    "MjProof.C11.update_rows_admissible",
    "MjProof.C11.projectCone_in_cone",
    "MjProof.C11.mulMatTVec_eq_transpose_mul",
    "MjProof.C11.decodePyramid_normal_eq_sum",
    "MjProof.C11.decodePyramid_normal_nonneg",
    "MjProof.C11.decodePyramid_in_pyramid",
    "MjProof.C11.fwdConstraint_spec",
    "MjProof.C11.fwdConstraint_qfrc_eq_JTf",
    "MjProof.C11.fwdConstraint_history_independent",
    "MjProof.C11.warmstart_refines",
    "MjProof.C11.dualFinish_refines",
    "MjProof.C11.constraintUpdate_qfrc_eq_JTf",
]

ELL = 7


# ------------------------------------------------------------------------------------------ float helpers
def hexf(x):
    if x != x:
        return "nan"
    return "%016x" % struct.unpack("<Q", struct.pack("<d", x))[0]


def unhex(s):
    if s == "nan":
        return float("nan")
    return struct.unpack("<d", struct.pack("<Q", int(s, 16)))[0]


def nextafter(x, up):
    return math.nextafter(x, math.inf if up else -math.inf)


# ------------------------------------------------------------------------------------------ synthetic generator
def pos_scale(rng):
    return 10.0 ** rng.uniform(-4, 4) if rng.random() < 0.5 else rng.uniform(0.05, 20.0)


def special(rng):
    return rng.choice((0.0, -0.0, float("nan"), float("inf"), -float("inf"), 1e-320, -1e-320, 1e300, -1e300, 5e-324))


class Upd:
    """one `upd` op: rows (D,R,floss,jar,type,id), contacts (dim,mu,friction[5])"""

    def __init__(self):
        self.rows, self.cons, self.ne, self.nf, self.tags = [], [], 0, 0, []

    def line(self, flg):
        t = ["upd", str(self.ne), str(self.nf), str(flg), str(len(self.rows)), str(len(self.cons))]
        for (D, R, fl, jar, ty, k) in self.rows:
            t += [hexf(D), hexf(R), hexf(fl), hexf(jar), str(ty), str(k)]
        for (dim, mu, fr) in self.cons:
            t += [str(dim), hexf(mu)] + [hexf(f) for f in fr]
        return " ".join(t)


def gen_friction(rng):
    style = rng.random()
    if style < 0.15:
        return [1.0, 1.0, 1.0, 1.0, 1.0]
    if style < 0.3:
        return [0.5, 0.5, 0.25, 2.0, 2.0]
    f1 = rng.uniform(0.05, 2.0)
    f2 = f1 if rng.random() < 0.5 else rng.uniform(0.05, 2.0)
    return [f1, f2, rng.uniform(0.001, 0.1), rng.uniform(0.0001, 0.01), rng.uniform(0.0001, 0.01)]


def impedance(rng, fr, dim, related=True):
    """R, D of the dim rows of an elliptic contact and its mu, the way mj_makeImpedance sets them"""
    R0 = pos_scale(rng)
    impratio = rng.choice((1.0, 1.0, 0.25, 4.0, rng.uniform(0.1, 20)))
    R = [R0]
    if dim > 1:
        R.append(R0 / max(1e-15, impratio))
        for j in range(1, dim - 1):
            R.append(R[1] * fr[0] * fr[0] / (fr[j] * fr[j]))
    mu = fr[0] * math.sqrt((R[1] if dim > 1 else R0 / impratio) / R0)
    if not related:
        R = [pos_scale(rng) for _ in range(dim)]
        mu = rng.choice((mu, rng.uniform(0.05, 3)))
    return R, [1 / r for r in R], mu


ZONES = ("top", "bottom", "middle", "b_top", "b_bot", "apex", "axis_neg", "axis_pos", "free", "exact_top", "exact_bot", "near_top", "near_bot")


def gen_cone(rng, u, dims=(1, 3, 4, 6, 3, 4, 6, 2, 5), zone=None, related=None):
    """append one elliptic block to u; returns the zone tag aimed at"""
    dim = rng.choice(dims)
    zone = zone or rng.choice(ZONES)
    related = (rng.random() < 0.8) if related is None else related
    fr = gen_friction(rng)
    R, D, mu = impedance(rng, fr, dim, related)
    n = dim - 1
    T = pos_scale(rng)
    vec = [rng.gauss(0, 1) for _ in range(n)]
    nv = math.sqrt(sum(x * x for x in vec)) or 1.0
    U = [x / nv * T for x in vec]
    if n and rng.random() < 0.2:   # single active tangential direction
        k = rng.randrange(n)
        U = [T * rng.choice((-1, 1)) if j == k else 0.0 for j in range(n)]
    if zone in ("exact_top", "exact_bot") and n >= 2:
        # exactly representable boundary: U = s*(3,4,0..), T = 5s, mu a power of two, friction 1
        s = 2.0 ** rng.randint(-6, 6)
        mu = rng.choice((0.25, 0.5, 1.0, 2.0))
        fr = [1.0] * 5
        U = [3 * s, 4 * s] + [0.0] * (n - 2)
        rng.shuffle(U)
        T = 5 * s
        N = mu * T if zone == "exact_top" else -T / mu
        D0 = 2.0 ** rng.randint(-3, 8)
        D = [D0] + [D0 / (mu * mu)] * n
        R = [1 / x for x in D]
    elif zone == "top":
        N = mu * T * (1 + rng.uniform(0.01, 3))
    elif zone == "bottom":
        N = -T / mu * (1 + rng.uniform(0.01, 3))
    elif zone == "middle":
        N = rng.uniform(-T / mu, mu * T) * 0.98
    elif zone in ("b_top", "exact_top", "near_top"):
        N = mu * T
    elif zone in ("b_bot", "exact_bot", "near_bot"):
        N = -T / mu
    elif zone == "apex":
        N, U = 0.0, [0.0] * n
    elif zone == "axis_neg":
        N, U = -pos_scale(rng), [0.0] * n
    elif zone == "axis_pos":
        N, U = pos_scale(rng), [0.0] * n
    else:
        N = rng.gauss(0, 1) * T * 2
    jar = [N / mu] + [U[j] / fr[j] for j in range(n)]
    if zone in ("near_top", "near_bot"):
        for _ in range(rng.randint(1, 4)):
            jar[0] = nextafter(jar[0], rng.random() < 0.5)
    cid = len(u.cons)
    u.cons.append((dim, mu, fr))
    for j in range(dim):
        u.rows.append((D[j], R[j], 0.0, jar[j], ELL, cid))
    u.tags.append("ell:%d:%s:%s" % (dim, zone, "rel" if related else "free"))
    return zone


def gen_scalar(rng, u, kind):
    D = pos_scale(rng)
    R = 1 / D if rng.random() < 0.9 else pos_scale(rng)
    if kind == "eq":
        jar = rng.gauss(0, 1) * pos_scale(rng)
        u.rows.append((D, R, 0.0, jar, 0, 0))
        u.tags.append("eq")
    elif kind == "fric":
        fl = rng.choice((0.0, pos_scale(rng), pos_scale(rng)))
        z = rng.choice(("neg", "pos", "quad", "b_neg", "b_pos", "near_neg", "near_pos", "zero"))
        b = R * fl
        jar = {"neg": -b * (1 + rng.random() * 3) - 1e-9, "pos": b * (1 + rng.random() * 3) + 1e-9, "quad": b * rng.uniform(-0.99, 0.99),
               "b_neg": -b, "b_pos": b, "near_neg": -b, "near_pos": b, "zero": 0.0}[z]
        if z.startswith("near"):
            for _ in range(rng.randint(1, 3)):
                jar = nextafter(jar, rng.random() < 0.5)
        u.rows.append((D, R, fl, jar, rng.choice((1, 2)), 0))
        u.tags.append("fric:" + z)
    else:
        z = rng.choice(("neg", "pos", "zero", "negzero", "tiny"))
        jar = {"neg": -pos_scale(rng), "pos": pos_scale(rng), "zero": 0.0, "negzero": -0.0, "tiny": rng.choice((5e-324, -5e-324))}[z]
        u.rows.append((D, R, 0.0, jar, rng.choice((3, 4, 5, 6)), 0))
        u.tags.append("nonneg:" + z)


def gen_upd(rng, maxblocks=6):
    u = Upd()
    u.ne = rng.choice((0, 0, 1, 2, 3))
    u.nf = rng.choice((0, 0, 1, 2, 4))
    for _ in range(u.ne):
        gen_scalar(rng, u, "eq")
    for _ in range(u.nf):
        gen_scalar(rng, u, "fric")
    for _ in range(rng.randint(0, maxblocks)):
        if rng.random() < 0.6:
            gen_cone(rng, u)
        else:
            gen_scalar(rng, u, "nonneg")
    # occasionally poison one number with a non-finite / denormal / signed-zero value
    if u.rows and rng.random() < 0.06:
        i = rng.randrange(len(u.rows))
        r = list(u.rows[i])
        r[rng.choice((0, 1, 2, 3))] = special(rng)
        u.rows[i] = tuple(r)
        u.tags.append("special")
    return u


# ------------------------------------------------------------------------------------------ output parsing
def parse_upd_out(out):
    """'c <cost> | f .. | s .. | h ..;..' -> (cost, forces, states, hess list) or None"""
    if not out.startswith("c "):
        return None
    p = out.split(" | ")
    if len(p) != 4:
        return None
    cost = unhex(p[0].split()[1])
    f = [unhex(x) for x in p[1].split()[1:]]
    s = [int(x) for x in p[2].split()[1:]]
    hs = []
    for h in p[3][1:].split(";"):
        h = h.strip()
        hs.append(None if h in ("-", "") else [unhex(x) for x in h.split()])
    return cost, f, s, hs


def walk_blocks(u):
    """(kind, first row, nrows, contact) blocks of an Upd in the order the function visits them"""
    i, n, out = 0, len(u.rows), []
    while i < n:
        ty, cid = u.rows[i][4], u.rows[i][5]
        if i < u.ne:
            out.append(("eq", i, 1, None))
            i += 1
        elif i < u.ne + u.nf:
            out.append(("fric", i, 1, None))
            i += 1
        elif ty != ELL:
            out.append(("nonneg", i, 1, None))
            i += 1
        else:
            dim = u.cons[cid][0]
            out.append(("ell", i, dim, u.cons[cid]))
            i += dim
    return out


def wnorm(ft, fr):
    """sqrt(sum (f_j / friction_j)^2) without Python's OverflowError on huge values"""
    t = 0.0
    for x, w in zip(ft, fr):
        q = x / w
        t += q * q
    return math.sqrt(t)


def finite(*xs):
    return all(x == x and abs(x) != math.inf for x in xs)


def related(u, i, dim, con, rtol=1e-10):
    """does the block satisfy the hypotheses of elliptic_in_cone (D>0, mu>0, friction>0, impedance relation)?"""
    _, mu, fr = con
    D0 = u.rows[i][0]
    if not (finite(D0, mu) and D0 > 0 and mu > 0):
        return False
    for j in range(1, dim):
        Dj, w = u.rows[i + j][0], fr[j - 1]
        if not (finite(Dj, w) and w > 0 and Dj > 0):
            return False
        a, b = Dj * mu * mu, D0 * w * w
        if abs(a - b) > rtol * max(abs(a), abs(b)):
            return False
    return True


def admissible_oracle(u, out):
    """C11 predicates on the output of the real function for one synthetic call. Returns list of (key, what)."""
    r = parse_upd_out(out)
    bad = []
    if r is None:
        return bad
    cost, f, s, hs = r
    for kind, i, n, con in walk_blocks(u):
        D, R, fl, jar = u.rows[i][:4]
        if kind == "fric":
            if finite(D, R, fl, jar) and D > 0 and fl >= 0 and abs(D * R - 1) <= 1e-12:
                if not (abs(f[i]) <= fl * (1 + 1e-11)):
                    bad.append(("c11:frictionloss-bound", "|efc_force| = %r exceeds frictionloss %r (jar=%r, D=%r, R=%r)" % (f[i], fl, jar, D, R)))
        elif kind == "nonneg":
            if finite(D, jar) and D >= 0:
                if not (f[i] >= 0):
                    bad.append(("c11:nonneg-force", "limit/contact force %r < 0 (jar=%r, D=%r)" % (f[i], jar, D)))
        elif kind == "ell":
            dim, mu, fr = con
            vals = [u.rows[i + j][3] for j in range(dim)]
            if not finite(*vals) or not finite(*f[i:i + dim]):
                continue
            if s[i] == 4 or related(u, i, dim, con):
                ok_hyp = finite(mu, u.rows[i][0]) and mu > 0 and u.rows[i][0] > 0 and all(fr[j] > 0 for j in range(dim - 1))
                if not ok_hyp:
                    continue
                fN = f[i]
                tn = wnorm(f[i + 1:i + dim], fr)
                sc = max(abs(fN), tn, 1e-300)
                if not (fN >= 0):
                    bad.append(("c11:elliptic-normal-negative", "elliptic normal force %r < 0 (state %d, dim %d)" % (fN, s[i], dim)))
                elif tn > fN + 1e-9 * sc:
                    bad.append(("c11:elliptic-outside-cone", "friction-weighted tangential norm %r exceeds normal force %r (state %d, dim %d)" % (tn, fN, s[i], dim)))
                elif s[i] == 4 and abs(tn - fN) > 1e-9 * sc:
                    bad.append(("c11:elliptic-middle-off-surface", "middle-zone force not on the cone surface: %r vs %r" % (tn, fN)))
    return bad


# ------------------------------------------------------------------------------------------ other synthetic ops
def gen_misc(rng, n):
    lines = []
    for _ in range(n):
        k = rng.random()
        if k < 0.3:
            nr, nc = rng.randint(0, 7), rng.randint(1, 7)
            mat = [rng.gauss(0, 1) * pos_scale(rng) if rng.random() < 0.9 else 0.0 for _ in range(nr * nc)]
            vec = [rng.choice((0.0, -0.0, rng.gauss(0, 1), rng.gauss(0, 1), special(rng) if rng.random() < 0.1 else 1.0)) for _ in range(nr)]
            lines.append("jtv %d %d %s" % (nr, nc, " ".join(hexf(x) for x in mat + vec)))
        elif k < 0.55:
            dim = rng.choice((1, 3, 4, 6, 2, 5))
            npyr = 1 if dim == 1 else 2 * (dim - 1)
            pyr = [abs(rng.gauss(0, 1)) * pos_scale(rng) if rng.random() < 0.8 else rng.choice((0.0, -0.5, special(rng))) for _ in range(npyr)]
            lines.append("dec %d %s" % (dim, " ".join(hexf(x) for x in pyr + gen_friction(rng))))
        elif k < 0.7:
            dim = rng.choice((3, 4, 6, 2, 5))
            fo = [abs(rng.gauss(0, 1)) * pos_scale(rng)] + [rng.gauss(0, 1) for _ in range(dim - 1)]
            lines.append("enc %d %s" % (dim, " ".join(hexf(x) for x in fo + gen_friction(rng))))
        else:
            ell = rng.randint(0, 1)
            dim = rng.choice((1, 3, 4, 6, 2, 5))
            f0 = rng.choice((rng.gauss(0, 1), abs(rng.gauss(0, 1)) * pos_scale(rng), 0.0, -0.0, 1e-16))
            ft = [rng.gauss(0, 1) * rng.choice((0.01, 1.0, 100.0)) for _ in range(dim - 1)]
            if rng.random() < 0.1:
                ft = [0.0] * (dim - 1)
            lines.append("pc %d %d %s" % (ell, dim, " ".join(hexf(x) for x in [f0] + ft + gen_friction(rng))))
    return lines


def misc_oracle(line, out):
    w = line.split()
    try:
        o = [unhex(x) for x in out.split()]
    except Exception:
        return None
    if w[0] == "pc":
        ell, dim = int(w[1]), int(w[2])
        x = [unhex(t) for t in w[3:]]
        mu = x[dim:]
        if not finite(*x) or len(o) != dim or not finite(*o):
            return None
        if not (o[0] >= 0):
            return ("c11:projectCone-normal-negative", "projectCone returned normal force %r" % o[0])
        if ell and dim > 1:
            s = sum(o[j] * o[j] / (mu[j - 1] * mu[j - 1]) for j in range(1, dim))
            if s > o[0] * o[0] * (1 + 1e-9) + 1e-300:
                return ("c11:projectCone-outside-cone", "projectCone output outside the cone: sum f^2/mu^2 = %r > normal^2 = %r" % (s, o[0] * o[0]))
    elif w[0] == "dec":
        dim = int(w[1])
        x = [unhex(t) for t in w[2:]]
        npyr = 1 if dim == 1 else 2 * (dim - 1)
        pyr, mu = x[:npyr], x[npyr:]
        if not finite(*x) or any(p < 0 for p in pyr) or len(o) != dim:
            return None
        tot = sum(pyr)
        if abs(o[0] - tot) > 1e-12 * max(1.0, abs(tot)):
            return ("c11:decodePyramid-normal", "decoded normal %r is not the sum of the edges %r" % (o[0], tot))
        if dim > 1 and sum(abs(o[j]) / mu[j - 1] for j in range(1, dim)) > o[0] * (1 + 1e-9) + 1e-300:
            return ("c11:decodePyramid-outside-pyramid", "decoded friction outside the pyramid")
    elif w[0] == "jtv":
        nr, nc = int(w[1]), int(w[2])
        x = [unhex(t) for t in w[3:]]
        if not finite(*x) or len(o) != nc:
            return None
        mat, vec = x[:nr * nc], x[nr * nc:]
        for c in range(nc):
            terms = [mat[r * nc + c] * vec[r] for r in range(nr)]
            try:
                ref = math.fsum(terms)
            except (OverflowError, ValueError):
                continue
            if not finite(ref):
                continue
            sc = sum(abs(t) for t in terms) + 1e-300
            if abs(o[c] - ref) > 1e-12 * sc:
                return ("c11:mulMatTVec", "mju_mulMatTVec entry %d = %r, J'f = %r" % (c, o[c], ref))
    return None


# ------------------------------------------------------------------------------------------ engine scenes
SCENE_PROFILE = {
    "nbody": (2, 7), "free": 0.6, "plane": 1.0, "contacts": 1.0, "limits": 0.6, "frictionloss": 0.6, "equalities": 0.7,
    "tendons": 0.5, "mocap": 0.0, "static_body": 0.05, "sleep": 0.0, "geoms": (1, 2), "sensors": (0, 0), "cameras": 0.0,
    "actuators": (0, 2), "actuator_kinds": ("motor", "position"), "keys": 0.0, "numeric": 0.0, "pairs": 0.3,
}
SOLVERS = ("PGS", "CG", "NEWTON")
CONES = ("PYRAMIDAL", "ELLIPTIC")


def gen_scene_script(ctx, nmodels):
    """returns (script lines, meta list aligned with the lines that produce output)"""
    rng = ctx.rng
    script, meta = [], []
    hist = {}
    for mi in range(nmodels):
        mdl = ModelGen(rng, SCENE_PROFILE).make()
        script.append("model")
        script += mdl.lines + ["end"]
        meta.append(("model", None))
        ngeom = sum(1 for l in mdl.lines if l.startswith("geom "))
        adhesion = rng.random() < 0.25
        if adhesion:
            script.append("adhesion " + " ".join(repr(rng.choice((0.0, 0.0, rng.uniform(0.1, 5.0)))) for _ in range(ngeom)))
            meta.append(("ok", None))
        nstate = 2 if ctx.tier == "quick" else 3
        for si in range(nstate):
            st = mdl.random_state(rng, scale=0.7)
            # drop free bodies close to the floor so that contacts exist
            q = list(st["qpos"])
            for j in mdl.joints:
                if j["type"] == "free":
                    q[j["qposadr"] + 2] = rng.uniform(0.02, 0.35)
            combos = [(s, c) for s in SOLVERS for c in CONES]
            for (sol, cone) in combos:
                jac = rng.choice(("DENSE", "SPARSE"))
                iters = rng.choice((50, 200))
                tol = rng.choice((1e-8, 1e-12))
                impratio = rng.choice((1.0, 1.0, 0.5, 3.0, 10.0))
                noslip = rng.choice((0, 0, 0, 3))
                steps = rng.choice((0, 0, 1, 3, 10))
                script.append("reset")
                meta.append(("ok", None))
                script.append("opt %d %d %d %d %r %r %d" % (E("mjSOL_" + sol), E("mjCONE_" + cone), E("mjJAC_" + jac), iters, tol, impratio, noslip))
                meta.append(("ok", None))
                for fld in ("qpos", "qvel", "act", "ctrl", "qfrc_applied", "xfrc_applied"):
                    v = q if fld == "qpos" else st[fld]
                    if v:
                        script.append("set %s %s" % (fld, " ".join(repr(float(x)) for x in v)))
                        meta.append(("ok", None))
                if steps:
                    script.append("step %d" % steps)
                    meta.append(("ok", None))
                info = {"model": mi, "state": si, "solver": sol, "cone": cone, "jacobian": jac, "iterations": iters, "tolerance": tol,
                        "impratio": impratio, "noslip": noslip, "steps": steps, "adhesion": adhesion}
                script.append("fwd")
                meta.append(("fwd", info))
                script.append("updline %d" % rng.randint(0, 1))
                meta.append(("updline", info))
                k = "%s:%s:%s" % (sol, cone, jac)
                hist[k] = hist.get(k, 0) + 1
    ctx.extra["scene_distribution"] = hist
    return script, meta


def decode_py(p, mu, dim):
    if dim == 1:
        return [p[0]]
    n = 0.0
    for x in p[:2 * (dim - 1)]:
        n += x
    return [n] + [(p[2 * i] - p[2 * i + 1]) * mu[i] for i in range(dim - 1)]


def scene_oracle(d):
    """C11 predicates on one mj_forward dump. Returns (list of (key, what), stats dict)."""
    bad, stats = [], {}
    nefc, nv, ne, nf = d["nefc"], d["nv"], d["ne"], d["nf"]
    f, ty = d["force"], d["type"]
    if not finite(*f) or not finite(*d["qfrc_constraint"]):
        return bad, {"nonfinite": 1}
    scale = max([1.0] + [abs(x) for x in f])
    tol = 1e-9 * scale
    # regulariser hypotheses of the theorems on engine data
    for i in range(nefc):
        if not (d["D"][i] > 0 and abs(d["D"][i] * d["R"][i] - 1) <= 1e-12):
            bad.append(("c11:hyp:D-R", "efc_D[%d]*efc_R[%d] = %r" % (i, i, d["D"][i] * d["R"][i])))
        if d["floss"][i] < 0:
            bad.append(("c11:hyp:floss", "negative efc_frictionloss"))
    for i in range(ne, ne + nf):
        stats["fric"] = stats.get("fric", 0) + 1
        if abs(f[i]) > d["floss"][i] + tol:
            bad.append(("c11:frictionloss-bound", "row %d: |efc_force| = %r > frictionloss %r" % (i, abs(f[i]), d["floss"][i])))
    i = ne + nf
    while i < nefc:
        if ty[i] in (3, 4, 5, 6):
            stats["nonneg"] = stats.get("nonneg", 0) + 1
            if f[i] < -tol:
                bad.append(("c11:nonneg-force", "row %d (type %d): efc_force = %r < 0" % (i, ty[i], f[i])))
            i += 1
        elif ty[i] == ELL:
            c = d["contacts"][d["id"][i]]
            dim, fr, mu = c["dim"], c["friction"], c["mu"]
            stats["elliptic"] = stats.get("elliptic", 0) + 1
            fN = f[i]
            tn = wnorm(f[i + 1:i + dim], fr)
            if fN < -tol:
                bad.append(("c11:elliptic-normal-negative", "contact %d: normal force %r < 0" % (d["id"][i], fN)))
            if tn > fN + tol:
                bad.append(("c11:elliptic-outside-cone", "contact %d (dim %d): tangential norm %r > normal %r" % (d["id"][i], dim, tn, fN)))
            # impedance relation (hypothesis of elliptic_in_cone) on the engine's own arrays
            if not (mu > 0):
                bad.append(("c11:hyp:mu", "contact.mu = %r" % mu))
            for j in range(1, dim):
                a, b = d["D"][i + j] * mu * mu, d["D"][i] * fr[j - 1] * fr[j - 1]
                if abs(a - b) > 1e-9 * max(abs(a), abs(b)):
                    bad.append(("c11:hyp:impedance-relation", "contact %d row %d: D_j*mu^2 = %r, D_0*friction^2 = %r" % (d["id"][i], j, a, b)))
            i += dim
        else:
            bad.append(("c11:rowtype", "row %d beyond ne+nf has type %d" % (i, ty[i])))
            i += 1
    # qfrc_constraint = J' efc_force
    J = d["J"]
    for c in range(nv):
        terms = [J[r * nv + c] * f[r] for r in range(nefc)]
        try:
            ref = math.fsum(terms)
        except (OverflowError, ValueError):
            continue
        sc = sum(abs(t) for t in terms) + 1e-300
        if abs(d["qfrc_constraint"][c] - ref) > 1e-9 * max(sc, 1e-6):
            bad.append(("c11:qfrc_constraint", "dof %d: qfrc_constraint = %r, J'f = %r" % (c, d["qfrc_constraint"][c], ref)))
    # hypothesis `Leaves.WF.outside` of fwdConstraint_spec on the engine's own arrays: a dof outside every island has no
    # constraint row touching it (so J'f vanishes there, whatever the island solvers leave unwritten)
    if d.get("nisland", 0) > 0 and nefc:
        inisl = set(d.get("idof2dof", []))
        stats["island_dumps"] = stats.get("island_dumps", 0) + 1
        stats["dofs_outside_islands"] = stats.get("dofs_outside_islands", 0) + nv - len(inisl)
        if any(not (0 <= k < nv) for k in inisl) or len(inisl) != len(d.get("idof2dof", [])):
            bad.append(("c11:hyp:idof2dof", "map_idof2dof[0..nidof) is not a set of dofs: %r" % d.get("idof2dof")))
        for c in range(nv):
            if c not in inisl and any(J[r * nv + c] != 0 for r in range(nefc)):
                bad.append(("c11:hyp:dof-outside-islands-has-constraint-column", "dof %d belongs to no island but efc_J has a non-zero entry in its column" % c))
    # mj_contactForce consistency
    for k, c in enumerate(d["contacts"]):
        cf, dim, adr = c["cf"], c["dim"], c["adr"]
        if adr < 0:
            if any(x != 0 for x in cf):
                bad.append(("c11:contactForce-excluded", "contact %d without efc rows has force %r" % (k, cf)))
            continue
        stats["contactForce"] = stats.get("contactForce", 0) + 1
        if d["pyramidal"]:
            ref = decode_py(f[adr:adr + max(1, 2 * (dim - 1))], c["friction"], dim)
        else:
            ref = list(f[adr:adr + dim])
        if dim > 1 and d["pyramidal"]:
            if ref[0] < -tol or sum(abs(ref[j]) / c["friction"][j - 1] for j in range(1, dim)) > ref[0] + tol:
                bad.append(("c11:contactForce-outside-pyramid", "contact %d: decoded force %r outside the friction pyramid" % (k, ref)))
        ref[0] -= c["adhesion"]
        ref += [0.0] * (6 - dim)
        if any(abs(a - b) > 1e-12 * max(1.0, abs(b)) for a, b in zip(cf, ref)):
            bad.append(("c11:contactForce-mismatch", "contact %d: mj_contactForce = %r, from efc_force = %r" % (k, cf, ref)))
    return bad, stats


def run_scenes(ctx, drv, impl, nmodels, label="engine scenes"):
    script, meta = gen_scene_script(ctx, nmodels)
    rc, outs, err = ctx.run_lines([impl], script)
    # outputs: one line per command except the description lines between model..end
    nfail, updlines, stats_tot = 0, [], {}
    if rc != 0 or len(outs) != len(meta):
        ctx.oracle_failure("c11:scene-crash", "constraint harness crashed or lost sync on engine scenes (rc=%s, %d outputs for %d commands)"
                           % (rc, len(outs), len(meta)), {"stderr": err[-500:]})
        return 1, []
    cur_model = None
    nfwd = 0
    for (kind, info), o in zip(meta, outs):
        if kind == "model":
            cur_model = o
            continue
        if kind == "fwd" and o.startswith("{"):
            try:
                d = json.loads(o)
            except Exception:
                ctx.oracle_failure("c11:scene-parse", "unparsable dump", {"out": o[:300]})
                continue
            nfwd += 1
            bad, st = scene_oracle(d)
            for k, v in st.items():
                stats_tot[k] = stats_tot.get(k, 0) + v
            ctx.count(("scene", info["model"], info["state"], info["solver"], info["cone"], ctx.seed), nontrivial=d["nefc"] > 0)
            for key, what in bad:
                if key == "c11:elliptic-outside-cone" and info["noslip"] > 0:
                    # the noslip pass re-solves the friction rows with solveQCQP on the unregularised A: same root cause
                    key, what = QCQP_KEY, "after the noslip pass (solveQCQP on the unregularised block): " + what
                nfail += 1
                if nfail <= 6:
                    ctx.oracle_failure(key, what, {"scene": info, "seed": ctx.seed, "tier": ctx.tier,
                                                   "replay": "VERIF_SEED=%d ./check C11 --tier %s  (scene model %d state %d %s/%s)"
                                                             % (ctx.seed, ctx.tier, info["model"], info["state"], info["solver"], info["cone"]),
                                                   "nefc": d["nefc"], "force": d["force"][:60], "type": d["type"][:60]})
            if nfwd == 3:
                ctx.sample({"scene": info, "nefc": d["nefc"], "ncon": d["ncon"], "efc_type": d["type"][:24], "efc_force": d["force"][:8]})
        elif kind == "updline" and o.startswith("upd "):
            updlines.append(o)
    ctx.extra["scene_forward_calls"] = nfwd
    ctx.extra["scene_rows_checked"] = stats_tot
    return nfail, updlines


# ------------------------------------------------------------------------------------------ call histories on one mjData
# The property holds after EVERY forward call, whatever was called on the same mjData before: constraints appear and
# disappear between calls (bodies re-positioned through qpos, eq_active toggled, disable flags flipped, solver options
# changed) and the persistent outputs (qfrc_constraint is an nv-sized buffer that survives the call; efc_force and the island
# copies live in the arena, which is recycled, not cleared) must not keep anything of the previous call.
DSBL_FAMILIES = ("mjDSBL_CONSTRAINT", "mjDSBL_EQUALITY", "mjDSBL_FRICTIONLOSS", "mjDSBL_LIMIT", "mjDSBL_CONTACT")
HISTORY_KINDS = ("contact_only", "mixed", "mixed")


def history_profile(rng):
    kind = rng.choice(HISTORY_KINDS)
    if kind == "contact_only":
        # every constraint is a contact: lifting the bodies off the floor empties the constraint set without any flag
        return kind, dict(SCENE_PROFILE, nbody=(1, 4), free=1.0, static_body=0.0, limits=0.0, frictionloss=0.0, equalities=0.0,
                          tendons=0.0, pairs=0.2)
    return kind, dict(SCENE_PROFILE, nbody=(2, 6))


def history_qpos(mdl, rng, mode):
    """qpos for the three placements: 'load' (free bodies in/near the floor, limited joints out of range), 'lift' (free bodies
    far above the floor and apart from each other, limited joints inside their range), 'random'"""
    st = mdl.random_state(rng, scale=0.7)
    q = list(st["qpos"])
    nfree = 0
    for j in mdl.joints:
        a = j["qposadr"]
        if j["type"] == "free":
            if mode == "load":
                q[a + 2] = rng.uniform(0.02, 0.3)
            elif mode == "lift":
                q[a], q[a + 1], q[a + 2] = 4.0 * nfree + rng.uniform(-0.2, 0.2), rng.uniform(-0.2, 0.2), rng.uniform(3.0, 6.0)
            nfree += 1
        elif j["type"] in ("hinge", "slide") and j["limited"]:
            lo, hi = j["range"]
            if mode == "load":
                q[a] = rng.choice((lo - rng.uniform(0.01, 0.3), hi + rng.uniform(0.01, 0.3)))
            elif mode == "lift":
                q[a] = lo + (hi - lo) * rng.uniform(0.3, 0.7)
    return q, st


def opt_line(rng, info):
    sol, cone = rng.choice(SOLVERS), rng.choice(CONES)
    jac = rng.choice(("DENSE", "SPARSE"))
    iters, tol = rng.choice((50, 200)), rng.choice((1e-8, 1e-12))
    impratio = rng.choice((1.0, 1.0, 0.5, 3.0, 10.0))
    noslip = rng.choice((0, 0, 0, 3))
    info.update({"solver": sol, "cone": cone, "jacobian": jac, "iterations": iters, "tolerance": tol, "impratio": impratio, "noslip": noslip})
    return "opt %d %d %d %d %r %r %d" % (E("mjSOL_" + sol), E("mjCONE_" + cone), E("mjJAC_" + jac), iters, tol, impratio, noslip)


def gen_history(ctx, mi):
    """one model + a history of calls on ONE mjData.  Returns (kind, script lines, meta aligned with the output lines).
    meta entries: ("model",), ("ok",), ("fwd", info), ("refwd", info)"""
    rng = ctx.rng
    kind, prof = history_profile(rng)
    mdl = ModelGen(rng, prof).make()
    script, meta = ["model"] + mdl.lines + ["end"], [("model", None)]
    base_dis, base_en = mdl.options["disableflags"], mdl.options["enableflags"]
    neq = len(mdl.equalities)
    info = {"model": mi, "kind": kind, "adhesion": False, "steps": 0}
    cur = {"flags": base_dis, "eq": [1] * neq, "call": 0}

    def emit(line, m=("ok", None)):
        script.append(line)
        meta.append(m)

    def set_state(mode, with_vel=True):
        q, st = history_qpos(mdl, rng, mode)
        for fld in ("qpos", "qvel", "act", "ctrl", "qfrc_applied", "xfrc_applied"):
            v = q if fld == "qpos" else st[fld]
            if fld == "qvel" and not with_vel:
                v = [0.0] * len(v)
            if v:
                emit("set %s %s" % (fld, " ".join(repr(float(x)) for x in v)))

    def forward(tag):
        cur["call"] += 1
        i = dict(info, transition=tag, call=cur["call"], disableflags=cur["flags"], eq_active=list(cur["eq"]))
        emit("fwd", ("fwd", i))
        if rng.random() < 0.5:
            # the same call again with its observable outputs overwritten by two different finite values
            for _ in range(2):
                p = rng.choice((-1.0, 1.0)) * 10.0 ** rng.uniform(-2, 7)
                emit("refwd " + hexf(p), ("refwd", dict(i, poison=p)))

    emit(opt_line(rng, info))
    set_state("load")
    k = rng.choice((0, 1, 3, 10))
    if k:
        emit("step %d" % k)
    forward("load")
    transitions = []
    for _ in range(rng.randint(4, 7) if ctx.tier == "quick" else rng.randint(6, 12)):
        t = rng.choice(("lift", "lift", "load", "random", "flags", "flags", "flags_restore", "eq", "opt", "step", "reset"))
        if t in ("lift", "load", "random"):
            set_state(t, with_vel=rng.random() < 0.7)
        elif t == "flags":
            mask = base_dis
            if rng.random() < 0.4:
                mask |= E("mjDSBL_CONSTRAINT")
            else:
                for f in DSBL_FAMILIES[1:]:
                    if rng.random() < 0.5:
                        mask |= E(f)
            if rng.random() < 0.3:
                mask ^= E("mjDSBL_ISLAND")
            if rng.random() < 0.2:
                mask ^= E("mjDSBL_WARMSTART")
            cur["flags"] = mask
            emit("flags %d %d" % (mask, base_en))
        elif t == "flags_restore":
            cur["flags"] = base_dis
            emit("flags %d %d" % (base_dis, base_en))
        elif t == "eq":
            if not neq:
                continue
            cur["eq"] = [rng.randint(0, 1) for _ in range(neq)] if rng.random() < 0.5 else [1 - cur["eq"][0]] * neq
            emit("eqactive " + " ".join(str(b) for b in cur["eq"]))
        elif t == "opt":
            emit(opt_line(rng, info))
        elif t == "step":
            emit("step %d" % rng.choice((1, 2, 5)))
        elif t == "reset":
            emit("reset")
            cur["eq"] = [1] * neq
            set_state(rng.choice(("load", "lift")))
        transitions.append(t)
        forward(t)
    return kind, transitions, script, meta


def run_history(ctx, impl, nmodels):
    """S: the C11 oracle after every call of a history; bitwise agreement of the re-run with overwritten outputs"""
    perkey = {}
    nfail, stats = 0, {"models": {}, "transitions": {}, "nefc_change": {"pos->0": 0, "0->pos": 0, "pos->pos": 0, "0->0": 0},
                       "fwd": 0, "refwd": 0, "refwd_nefc0": 0, "islands_fwd": 0, "rows": {}}
    script_all, meta_all, spans = [], [], []
    for mi in range(nmodels):
        kind, trans, script, meta = gen_history(ctx, mi)
        stats["models"][kind] = stats["models"].get(kind, 0) + 1
        for t in trans:
            stats["transitions"][t] = stats["transitions"].get(t, 0) + 1
        spans.append((len(script_all), len(meta_all), len(script), len(meta)))
        script_all += script
        meta_all += meta
    rc, outs, err = ctx.run_lines([impl], script_all)
    if rc != 0 or len(outs) != len(meta_all):
        ctx.oracle_failure("c11:history-crash", "constraint harness crashed or lost sync on call histories (rc=%s, %d outputs for %d commands)"
                           % (rc, len(outs), len(meta_all)), {"stderr": err[-500:]})
        return 1

    def script_upto(span, k):
        """the model description and every command of this history up to output index k (relative to the span)"""
        s0, m0, ns, nm = span
        lines = script_all[s0:s0 + ns]
        nmodel_lines = lines.index("end") + 1
        return lines[:nmodel_lines + k]       # output 0 is the model; outputs 1.. are the commands after `end`

    for span in spans:
        s0, m0, ns, nm = span
        prev_nefc, last_fwd = None, None
        for k in range(nm):
            (kindm, info), o = meta_all[m0 + k], outs[m0 + k]
            if kindm == "model":
                if not o.startswith("ok"):
                    break
                continue
            if kindm not in ("fwd", "refwd"):
                continue
            if not o.startswith("{"):
                if o.startswith("error"):
                    continue       # an engine error raised by the call (caught by the harness): not a C11 matter
                ctx.oracle_failure("c11:history-parse", "unparsable dump", {"out": o[:300]})
                continue
            try:
                d = json.loads(o)
            except Exception:
                ctx.oracle_failure("c11:history-parse", "unparsable dump", {"out": o[:300]})
                continue
            bad, st = scene_oracle(d)
            for kk, v in st.items():
                stats["rows"][kk] = stats["rows"].get(kk, 0) + v
            if kindm == "fwd":
                stats["fwd"] += 1
                stats["islands_fwd"] += 1 if d.get("nisland", 0) > 0 else 0
                if prev_nefc is not None:
                    key = ("pos" if prev_nefc else "0") + "->" + ("pos" if d["nefc"] else "0")
                    stats["nefc_change"][key] += 1
                prev_nefc, last_fwd = d["nefc"], d
                ctx.count(("history", info["model"], info["call"], ctx.seed), nontrivial=True)
            else:
                stats["refwd"] += 1
                stats["refwd_nefc0"] += 1 if d["nefc"] == 0 else 0
                ctx.count(("history-refwd", info["model"], info["call"], info["poison"], ctx.seed), nontrivial=True)
                if last_fwd is not None and finite(*last_fwd["force"]) and finite(*last_fwd["qfrc_constraint"]):
                    for fld, key in (("qfrc_constraint", "c11:history:qfrc_constraint-depends-on-previous-content"),
                                     ("force", "c11:history:efc_force-depends-on-previous-content")):
                        if d["nefc"] != last_fwd["nefc"] or d[fld] != last_fwd[fld]:
                            diff = [i for i, (a, b) in enumerate(zip(d[fld], last_fwd[fld])) if a != b][:8]
                            bad.append((key, "mj_fwdConstraint re-run on the same inputs with %s pre-filled with %r returns different "
                                             "values at indices %r: %r vs %r" % (fld, info["poison"], diff, [d[fld][i] for i in diff],
                                                                                [last_fwd[fld][i] for i in diff])))
            for key, what in bad:
                if key == "c11:elliptic-outside-cone" and info["noslip"] > 0:
                    key, what = QCQP_KEY, "after the noslip pass (solveQCQP on the unregularised block): " + what
                nfail += 1
                perkey[key] = perkey.get(key, 0) + 1
                if perkey[key] <= 2 and len(perkey) <= 12:
                    ctx.oracle_failure(key, "call %d of a history on one mjData (%s after '%s'): %s" % (info["call"], kindm, info["transition"], what),
                                       {"history": info, "seed": ctx.seed, "tier": ctx.tier, "nefc": d["nefc"], "ncon": d["ncon"],
                                        "qfrc_constraint": d["qfrc_constraint"][:40], "force": d["force"][:40],
                                        "script": script_upto(span, k),
                                        "replay": "feed the lines of `script` to the c11_constraint harness (ctx.harness('harness/c/c11_constraint.c')); "
                                                  "the last command prints the failing dump"})
            if kindm == "fwd" and stats["fwd"] == 5:
                ctx.sample({"history": info, "nefc": d["nefc"], "ncon": d["ncon"], "qfrc_constraint": d["qfrc_constraint"][:6]})
    ctx.extra["history_distribution"] = stats
    return nfail


# ------------------------------------------------------------------------------------------ solveQCQP (PGS / noslip friction update)
QCQP_KEY = "c11:qcqp-outside-ellipsoid"
# deterministic witness of the early exit of mju_QCQP (delta < 1e-10 with la == 0 => reported inactive although the
# unconstrained minimum violates the constraint): fn = 1, A = diag(1,1,1,.015,.015), b = (.1,-.2,0,1,-1), friction (1,1,.005,1e-4,1e-4)
QCQP_WITNESS = (6, 1.0, [1.0, 1.0, 1.0, 0.015, 0.015], [0.1, -0.2, 0.0, 1.0, -1.0], [1.0, 1.0, 0.005, 1e-4, 1e-4])


def qcqp_line(dim, fn, A, b, mu):
    return "qcqp %d %s" % (dim, " ".join(hexf(x) for x in [fn] + A + b + mu))


def gen_qcqp(rng, n):
    lines = []
    dim, fn, dg, b, mu = QCQP_WITNESS
    k = dim - 1
    A = [dg[i] if i == j else 0.0 for i in range(k) for j in range(k)]
    lines.append(qcqp_line(dim, fn, A, b, mu))
    for _ in range(n):
        dim = rng.choice((3, 4, 6))
        k = dim - 1
        # SPD matrix A = B B' + eps I (the AR block of a contact), conditioned like the engine's: friction rows of the
        # PGS solver carry the regulariser R on the diagonal
        B = [[rng.gauss(0, 1) for _ in range(k)] for _ in range(k)]
        eps = rng.choice((1e-2, 1.0, 10.0))
        A = [sum(B[i][t] * B[j][t] for t in range(k)) + (eps if i == j else 0.0) for i in range(k) for j in range(k)]
        fr = gen_friction(rng)
        if rng.random() < 0.7:
            # regularised as in PGS: R_j = R1 f0^2 / f_j^2
            R1 = pos_scale(rng)
            for j in range(k):
                A[j * k + j] += R1 * fr[0] * fr[0] / (fr[j] * fr[j])
        fn = abs(rng.gauss(0, 1)) * rng.choice((0.01, 1.0, 100.0)) + 1e-6
        b = [rng.gauss(0, 1) * rng.choice((0.1, 1.0, 100.0)) for _ in range(k)]
        lines.append(qcqp_line(dim, fn, A, b, fr))
    return lines


def qcqp_oracle(line, out):
    w = line.split()
    dim = int(w[1])
    k = dim - 1
    x = [unhex(t) for t in w[2:]]
    fn, mu = x[0], x[1 + k * k + k:]
    try:
        v = [unhex(t) for t in out.split()]
    except Exception:
        return None
    if len(v) != k or not finite(*v):
        return (QCQP_KEY, "solveQCQP returned %r" % out[:100])
    s = sum(v[j] * v[j] / (mu[j] * mu[j]) for j in range(k))
    if s > fn * fn * (1 + 1e-6) + 1e-300:
        return (QCQP_KEY, "solveQCQP (friction update of PGS / noslip) returned friction outside the ellipsoid: "
                          "sum f_j^2/mu_j^2 = %r > f_normal^2 = %r (dim %d, friction %r)" % (s, fn * fn, dim, mu))
    return None


# ------------------------------------------------------------------------------------------ mj_fwdConstraint skeleton tie
TRACKED = "qfrc_constraint|efc_force|ifrc_constraint|iefc_force"
# functions that receive the (non-const) mjData in a statement modelled as Prim.other; none of them writes a tracked array:
# stack bookkeeping, M*v and J*v products into a caller-supplied result vector
CONST_FIRST = {"mju_dot"}     # functions whose first argument is a const input
D_READERS = {"mj_markStack", "mj_freeStack", "mjSTACKALLOC", "mj_mulM", "mj_mulJacVec"}


def skeleton_tie(ctx):
    """T: the statement lists the theorems fwdConstraint_* are about (lean/MjProof/Model/FwdConstraint.lean, printed by
    drv_c11fwd) == the guarded statements extracted from the C text of the tree (translate/c11_fwdskel.py)"""
    from . import common
    os.environ.setdefault("VERIF_REPO", common.REPO)
    g = importlib.import_module("translate.c11_fwdskel")
    g.REPO = common.REPO
    table = g.extract()
    refused = ["%s: %s" % (f, r["refused"]) for f, r in table.items() if "refused" in r]
    ctx.oblige("translator c11_fwdskel: %s parsed into guarded statements" % ", ".join(table), "translator", not refused, "; ".join(refused))
    drv = ctx.driver("drv_c11fwd")
    if not drv:
        return
    names = list(table)
    execs = ["exec %d %d %s %d %d %d 4 0 2" % (nr, isl, sol, ns, wm, zb) for nr in (0, 1) for isl in (0, 1) for sol in ("pgs", "cg", "newton")
             for ns in (0, 1) for wm in (0, 1) for zb in (0, 1)]
    rc, out, err = ctx.run_lines([drv], ["skel " + f for f in names] + execs + ["others " + f for f in names] +
                                 ["skel nosuch", "exec 0 0 cg 0 1 0 2 5", "exec 2 0 cg 0 1 0 2"])
    if rc != 0 or len(out) != 2 * len(names) + len(execs) + 3:
        ctx.oblige("drv_c11fwd answers", "model-build", False, err[-500:])
        return
    for f, o in zip(names, out):
        ref = o.split(" ;; ") if o != "bad-op" else []
        src = table[f].get("lines", [])
        diff = [{"index": i, "model": a, "source": b} for i, (a, b) in
                enumerate(zip(ref + [None] * (len(src) - len(ref)), src + [None] * (len(ref) - len(src)))) if a != b]
        ctx.oblige("statement skeleton of %s: Lean program == %s of the tree (%d guarded statements)" % (f, table[f]["file"], len(ref)),
                   "translator", bool(ref) and not diff, "first differences: " + json.dumps(diff[:6]))
        ctx.count(("skeleton", f), nontrivial=True)
    sym = out[len(names):len(names) + len(execs)]
    ctx.oblige("symbolic runs of the model from stale content: no configuration is stuck or keeps a stale entry (%d configurations)" % len(execs),
               "model-sanity", all(o.startswith("q ") and "stale" not in o.split(" | ")[0] for o in sym), json.dumps(sym[:4]))
    # the statements the model treats as not writing a tracked array (Prim.other): none of them may name a tracked array in a
    # written position (first argument of a call, assignment target, address taken) or hand the whole mjData to a function
    # outside the allow-list below
    others = [t for o in out[len(names) + len(execs):2 * len(names) + len(execs)] for t in o.split(" ;; ") if t]
    wr = re.compile(r"&d->(?:%s)\b|(?<![\w>.])d->(?:%s)(?:\[[^\]]*\])?(?:=(?!=)|[-+*/%%&|^]=|\+\+|--)" % ((TRACKED,) * 2))
    first = re.compile(r"(\w+)\(d->(?:%s)\b" % TRACKED)      # result-first convention of mju_*: the first argument is written
    whole = re.compile(r"(\w+)\((?:m,)?d[,)]")
    viol = [t for t in others if wr.search(t) or any(f not in CONST_FIRST for f in first.findall(t))
            or any(f not in D_READERS for f in whole.findall(t))]
    ctx.oblige("the %d statements modelled as not writing qfrc_constraint / efc_force / ifrc_constraint / iefc_force name none of "
               "them in a written position and pass the mjData only to %s" % (len(others), ", ".join(sorted(D_READERS))),
               "model-sanity", bool(others) and not viol, json.dumps(viol[:6]))
    ctx.oblige("drv_c11fwd refuses malformed ops", "model-sanity", out[-3:] == ["bad-op"] * 3, json.dumps(out[-3:]))
    ctx.extra["fwdConstraint_skeleton"] = table["mj_fwdConstraint"].get("lines", [])
    ctx.sample({"op": execs[40], "model_output": sym[40]})


# ------------------------------------------------------------------------------------------ run
def keyf(line):
    return line if len(line.split()) > 8 else None


def synthetic_lines(ctx, nupd, nmisc):
    rng = ctx.rng
    ups, lines, hist = [], [], {}
    for _ in range(nupd):
        u = gen_upd(rng)
        ups.append(u)
        lines.append(u.line(rng.randint(0, 1)))
        for t in u.tags:
            k = t if not t.startswith("ell") else ":".join(t.split(":")[:3])
            hist[k] = hist.get(k, 0) + 1
    misc = gen_misc(rng, nmisc)
    # malformed / out-of-range ops: both sides must refuse
    extra = ["frob 1 2", "upd 0 0 0 1 0 3ff0000000000000 3ff0000000000000 0000000000000000 bff0000000000000 7 0",
             "upd 0 0 0 2 1 3ff0000000000000 3ff0000000000000 0000000000000000 bff0000000000000 7 0 3ff0000000000000 3ff0000000000000 "
             "0000000000000000 bff0000000000000 7 0 3 3ff0000000000000 3ff0000000000000 3ff0000000000000 3ff0000000000000 3ff0000000000000 3ff0000000000000",
             "upd 1 0 0 1 0 3ff0000000000000 3ff0000000000000 0000000000000000 zz 0 0", "dec 7 0", "pc 1 0", "jtv 1 0 0000000000000000"]
    return ups, lines, misc, extra, hist


def max_dev(model_out, impl_out):
    """largest relative deviation between two output lines of floats (0.0 when bitwise equal)"""
    if model_out == impl_out:
        return 0.0
    dev = 0.0
    for a, b in zip(model_out.replace("|", " ").replace(";", " ").split(), impl_out.replace("|", " ").replace(";", " ").split()):
        if a != b and len(a) == 16 and len(b) == 16:
            try:
                x, y = unhex(a), unhex(b)
                dev = max(dev, abs(x - y) / max(abs(x), abs(y), 1e-300))
            except Exception:
                dev = math.inf
        elif a != b:
            dev = math.inf
    return dev


def run(ctx):
    thorough = ctx.tier == "thorough"
    ctx.rule = ("upd lines: random compositions of equality / friction-loss / limit / pyramidal rows and elliptic blocks of condim "
                "1..6 with parameters as mj_makeImpedance sets them (80%) or unrelated (20%), residuals aimed at every zone "
                "interior, at computed and exactly representable zone boundaries, one ulp around them, the apex and the cone axis, "
                "plus non-finite/denormal values; jtv/dec/enc/pc lines for mju_mulMatTVec, mju_{de,en}codePyramid, projectCone; "
                "`upd` lines dumped from the efc arrays of generated scenes (jar = J qacc - aref). Outputs are compared bit for bit. "
                "Scenes: gen/models.py bodies over a plane with limits, friction loss, equalities, tendons, every solver x cone x "
                "dense/sparse, optional noslip and adhesion. Histories: models as above (a quarter with contacts as the only "
                "constraint kind), one mjData per model, transitions drawn from lift / load / random re-positioning, flag flips, "
                "eq_active, option changes, step, reset (distribution in history_distribution: transitions, nefc pos->0 / 0->pos "
                "changes, calls with islands, re-runs with pre-filled outputs). A case is distinct by its full line / "
                "(model,state,solver,cone) / (history model, call)")
    ctx.lean_props(THEOREMS)
    skeleton_tie(ctx)
    drv = ctx.driver("drv_c11")
    impl = ctx.harness("harness/c/c11_constraint.c", "c11_constraint", deps=["harness/mjbuild.h"])
    if not (drv and impl):
        return
    # ---- engine scenes first (their efc arrays also feed the correspondence)
    nfail, updlines = run_scenes(ctx, drv, impl, 160 if thorough else 26)
    ctx.extra["engine_upd_lines"] = len(updlines)
    ctx.extra["tolerance"] = "bitwise (0 ulp): the model performs the same IEEE operations in the same order; tree built with -ffp-contract=off"
    nstate, hist_tot, maxdev = {}, {}, 0.0
    nchunks = 6 if thorough else 1
    for ch in range(nchunks):
        ups, lines, misc, extra, hist = synthetic_lines(ctx, 50000 if thorough else 15000, 4000 if thorough else 3000)
        for k, v in hist.items():
            hist_tot[k] = hist_tot.get(k, 0) + v
        all_lines = lines + misc + extra + (updlines if ch == 0 else [])
        rc, outs, err = ctx.run_lines([impl], all_lines)
        bad = ctx.differential("mj_constraintUpdate_impl / mju_mulMatTVec / pyramid codec / projectCone vs Lean model on Float "
                               "(bitwise), chunk %d" % ch, [drv], [impl], all_lines, keyf=keyf)
        maxdev = max([maxdev] + [max_dev(b["model"] or "", b["impl"] or "") for b in bad])
        # ---- S: admissibility oracle on the implementation's outputs alone
        if rc == 0 and len(outs) == len(all_lines):
            for u, o in zip(ups, outs[:len(ups)]):
                r = parse_upd_out(o)
                if r:
                    for st in r[2]:
                        nstate[st] = nstate.get(st, 0) + 1
                for key, what in admissible_oracle(u, o):
                    nfail += 1
                    if nfail <= 8:
                        ctx.oracle_failure(key, what, {"line": u.line(0), "impl_output": o[:2000], "tags": u.tags,
                                                       "replay": "echo '<line>' | <c11_constraint harness>"})
            off = len(ups)
            for l, o in zip(misc, outs[off:off + len(misc)]):
                r = misc_oracle(l, o)
                if r:
                    nfail += 1
                    if nfail <= 8:
                        ctx.oracle_failure(r[0], r[1], {"line": l, "impl_output": o, "replay": "echo '<line>' | <c11_constraint harness>"})
            for l, o in zip(extra, outs[off + len(misc):off + len(misc) + len(extra)]):
                if o not in ("bad-op", "oob"):
                    ctx.oracle_failure("c11:malformed-accepted", "malformed / out-of-range op accepted", {"line": l, "impl_output": o})
            if ch == 0:
                ctx.sample({"op": lines[7][:160] + " ...", "tags": ups[7].tags, "model_and_impl_output": outs[7][:200]})
                ctx.sample({"op": misc[3][:160], "impl_output": outs[off + 3][:160]})
        else:
            ctx.oracle_failure("c11:crash", "constraint harness crashed (rc=%s, %d outputs for %d lines)" % (rc, len(outs), len(all_lines)),
                               {"stderr": err[-500:]})
    ctx.extra["synthetic_distribution"] = hist_tot
    ctx.extra["max_float_deviation"] = maxdev
    ctx.extra["efc_state_histogram_synthetic"] = {str(k): v for k, v in sorted(nstate.items())}
    # ---- solveQCQP (no Lean model: oracle only)
    ql = gen_qcqp(ctx.rng, 4000 if thorough else 600)
    rc, qo, err = ctx.run_lines([impl], ql)
    nq = 0
    if rc == 0 and len(qo) == len(ql):
        for l, o in zip(ql, qo):
            r = qcqp_oracle(l, o)
            if r:
                nq += 1
                if nq <= 3:
                    ctx.oracle_failure(r[0], r[1], {"line": l, "impl_output": o, "replay": "echo '<line>' | <c11_constraint harness>"})
    ctx.extra["qcqp_lines"] = len(ql)
    ctx.extra["qcqp_failures"] = nq
    # ---- call histories on one mjData (constraints appearing / disappearing between calls)
    nh = run_history(ctx, impl, 600 if thorough else 60)
    ctx.extra["oracle_failures"] = nfail + nq + nh

    def directed(c):
        # a proof / tie obligation broke and the oracle found nothing: search the real function harder
        for rnd in range(20):
            us = [gen_upd(c.rng, maxblocks=3) for _ in range(3000)]
            ls = [u.line(1) for u in us]
            rc2, o2, _ = c.run_lines([impl], ls)
            if rc2 != 0 or len(o2) != len(ls):
                return {"key": "c11:crash", "what": "harness crashed in directed search", "replay": {"n": len(o2)}}
            for u, o in zip(us, o2):
                b = admissible_oracle(u, o)
                if b:
                    return {"key": b[0][0], "what": b[0][1], "replay": {"line": u.line(1), "impl_output": o[:2000]}}
        return None
    ctx.directed_search = directed
    if thorough:
        ctx.leanchecker(["MjProof.Props.C11"])
