"""C24  Rotation and pose utilities implement the group operations (DESIGN.md §5.C24).

P  Lean theorems over ℝ about the *generated* kernels (lean/MjProof/Gen/Kernels.lean, regenerated from the
   working tree by translate/c2lean.py on every run): lean/MjProof/Props/C24.lean.
T  translator regeneration + translation validation: generated Lean on Float vs compiled C, bitwise.
S  property oracle on the real compiled mju_*/mjd_* functions alone (harness/c/c24_oracle.c): group
   identities, round trips, finite differences of the analytic derivatives, all Euler sequences.
"""
import json
import math
import os
import struct

from checks import common, kernelval

META = {
    "technique": "c2lean translation of the C kernels to Lean (regenerated every run) + Lean 4 proofs over the reals about the generated definitions (unfolding, case split over every special-case branch, ring / linear_combination with the unit-norm hypotheses) + bitwise translation validation (Lean Float vs compiled C) + property oracle on the compiled functions",
    "text": "For the kernels of engine_util_spatial.c / engine_util_blas.c as translated from the working tree (mju_mulQuat, mju_negQuat, mju_mulQuatAxis, mju_derivQuat, mju_rotVecQuat, mju_quat2Mat, mju_mat2Quat, mju_mulMatVec3, mju_mulMatTVec3, mju_axisAngle2Quat, mju_normalize3/4, mju_quatIntegrate, mju_mulPose, mju_negPose, mju_trnVecPose), proved over the reals for all inputs (unit-norm hypotheses only where mathematically required), including every special-case branch of the C code (quat == identity, vec == 0, angle == 0, the mjMINVAL guards of mju_normalize3/4 and the normalisation inside mju_mulPose / mju_quatIntegrate): the quaternion product is associative with identity (1,0,0,0) and multiplicative norm; mju_negQuat is the two-sided inverse on unit quaternions and an anti-automorphism; rotation by a unit quaternion preserves the norm, rotation by q1*q2 is rotation by q2 then q1, q and -q rotate alike, the conjugate rotates back; mju_quat2Mat is multiplicative for all quaternions, M M^T = |q|^4 I and det M = |q|^6 (orthogonal with det 1 for unit q), transposition = conjugation, mju_rotVecQuat = M(q) v + (1-|q|^2) v (so it agrees with the matrix on unit q) and mju_mulMatTVec3 is the inverse rotation; mju_mat2Quat(mju_quat2Mat q) = +q or -q for every unit q in each of its four branches (hence mat->quat->mat is the identity on such matrices); mju_axisAngle2Quat gives a unit quaternion for a unit axis, fixes its axis, and angles about a common axis add; mju_normalize3 always returns a unit vector, mju_normalize4 returns a unit vector whenever it resets or divides and otherwise leaves the (within mjMINVAL of unit) input unchanged; mju_quatIntegrate = normalize4(q) * axisAngle(normalize3(v), h|v|), multiplies by a unit quaternion, so its result is unit in exactly the stated cases; for unit quaternions mju_mulPose composes exactly (its normalize4 is the identity), is associative with identity, mju_negPose is the two-sided inverse, mju_trnVecPose is a group action (trn(A*B) = trn A . trn B, the inverse pose undoes it); mju_subQuat inverts mju_quatIntegrate: subQuat(quatIntegrate(q,v,h), q) = h v for unit q whenever |v| >= mjMINVAL, |h||v| <= the mjPI literal 3.1415926535897931 and |sin(h|v|/2)| >= mjMINVAL (the exact conditions under which no reset/wrap branch of the C code fires; C atan2 modelled by arctan case analysis), and = 0 for h = 0.",
    "note": "Stated over the reals: IEEE rounding is outside the proofs (translation validation is bitwise on Float, the oracle uses tolerances). Covered by the oracle only, not by a theorem: the converse round trip quatIntegrate(qb, subQuat(qa,qb), 1) = +-qa and the wrapped regime |h||v| > pi of subQuat(quatIntegrate) (both sampled incl. angles 0, 1e-12, near pi, beyond pi), mju_quat2Vel for dt != 1, mju_quatZ2Vec, mju_mat2Rot, mju_euler2Quat for all 216 sequence strings (c2lean refuses it: string argument / strnlen — compared on the compiled code with the product of axis rotations and with an independent rotation-matrix product), and the analytic derivatives mjd_subQuat / mjd_quatIntegrate (translated and bitwise-validated; `= HasDerivAt` is NOT proved: central finite differences on the compiled code; only the `_partial` algebraic facts are theorems: Db = -Da^T, Dscale = Dvel vel, and Dquat = rotation matrix of the inverse increment quaternion in the closed-form branch |scale vel| > 1/32). The wrappers MjProof.Spatial.mulQuat etc. only uncurry the scalarised generated kernels. matMul / matT / matDet are specification-side definitions (mju_mulMatMat3 is not a translated kernel).",
}

P = "MjProof.C24."
THEOREMS = [P + t for t in (
    "mulQuat_assoc", "mulQuat_one_left", "mulQuat_one_right", "mulQuat_normSq", "negQuat_normSq",
    "mulQuat_negQuat", "negQuat_inverse", "negQuat_mulQuat", "mulQuatAxis_eq_mulQuat", "derivQuat_eq_half_mulQuat",
    "rotVecQuat_one", "rotVecQuat_quatNeg", "rotVecQuat_normSq", "rotVecQuat_eq_quat2Mat_homogeneous",
    "rotVecQuat_eq_quat2Mat_mulVec", "rotVecQuat_mulQuat", "rotVecQuat_negQuat",
    "quat2Mat_one", "quat2Mat_mulQuat", "quat2Mat_mul_transpose", "quat2Mat_orthogonal", "quat2Mat_det_homogeneous",
    "quat2Mat_det", "quat2Mat_negQuat", "mulMatTVec3_quat2Mat",
    "axisAngle2Quat_unit", "rotVecQuat_axisAngle2Quat_axis", "axisAngle2Quat_add",
    "normalize3_norm", "normalize3_unit", "normalize3_parallel", "normalize4_norm", "normalize4_cases", "normalize4_of_unit",
    "quatIntegrate_eq", "quatIntegrate_normSq", "quatIntegrate_unit", "quatIntegrate_unit_of_unit", "quatIntegrate_zero_scale",
    "mulPose_unit", "mulPose_quat_unit", "negPose_quat_unit", "mulPose_negPose", "mulPose_one_left", "mulPose_one_right",
    "mulPose_assoc", "trnVecPose_mulPose", "trnVecPose_one", "trnVecPose_negPose",
    "mat2Quat_quat2Mat", "quat2Mat_mat2Quat_quat2Mat",
    "subQuat_eq_quat2Vel", "subQuat_quatIntegrate", "subQuat_self", "subQuat_quatIntegrate_zero",
    "mjd_subQuat_Db_partial", "mjd_quatIntegrate_Dscale_partial", "mjd_quatIntegrate_Dquat_partial",
)]

# kernels whose translation is validated for this property
KERNELS = ["mju_normalize3", "mju_normalize4", "mju_norm3", "mju_dot3", "mju_mulMatVec3", "mju_mulMatTVec3",
           "mju_rotVecQuat", "mju_negQuat", "mju_mulQuat", "mju_mulQuatAxis", "mju_axisAngle2Quat", "mju_quat2Vel",
           "mju_subQuat", "mju_quat2Mat", "mju_mat2Quat", "mju_derivQuat", "mju_quatIntegrate", "mju_quatZ2Vec",
           "mju_mulPose", "mju_negPose", "mju_trnVecPose", "mjd_subQuat", "mjd_quatIntegrate"]
# kernels the theorems are about: a refusal of one of these breaks the proof obligation
REFUSED_BY_DESIGN = {"mju_euler2Quat": "string argument (strnlen); compared on the compiled code by the oracle",
                     "mju_mat2Rot": "data-dependent iteration; sampled by the oracle"}

MINVAL = 1e-15
TOL = 1e-12       # identities evaluated in double: errors are a few ulp (1e-16) of the stated scale
FDTOL = 2e-6      # central differences with eps = 1e-6: measured deviations <= ~1e-9 (see evidence max_fd_dev)
PI = math.pi


# ------------------------------------------------------------------------------------------ small math (spec side)
def fbits(x):
    return kernelval.fbits(float(x))


def frombits(t):
    return kernelval.frombits(t)


def norm(v):
    return math.sqrt(sum(x * x for x in v))


def qmul(a, b):
    return [a[0] * b[0] - a[1] * b[1] - a[2] * b[2] - a[3] * b[3],
            a[0] * b[1] + a[1] * b[0] + a[2] * b[3] - a[3] * b[2],
            a[0] * b[2] - a[1] * b[3] + a[2] * b[0] + a[3] * b[1],
            a[0] * b[3] + a[1] * b[2] - a[2] * b[1] + a[3] * b[0]]


def qmat(q):
    q0, q1, q2, q3 = q
    return [q0 * q0 + q1 * q1 - q2 * q2 - q3 * q3, 2 * (q1 * q2 - q0 * q3), 2 * (q1 * q3 + q0 * q2),
            2 * (q1 * q2 + q0 * q3), q0 * q0 - q1 * q1 + q2 * q2 - q3 * q3, 2 * (q2 * q3 - q0 * q1),
            2 * (q1 * q3 - q0 * q2), 2 * (q2 * q3 + q0 * q1), q0 * q0 - q1 * q1 - q2 * q2 + q3 * q3]


def mmul(a, b):
    return [sum(a[3 * i + k] * b[3 * k + j] for k in range(3)) for i in range(3) for j in range(3)]


def mT(a):
    return [a[3 * j + i] for i in range(3) for j in range(3)]


def mdet(a):
    return (a[0] * (a[4] * a[8] - a[5] * a[7]) - a[1] * (a[3] * a[8] - a[5] * a[6]) + a[2] * (a[3] * a[7] - a[4] * a[6]))


def mvec(a, v):
    return [sum(a[3 * i + k] * v[k] for k in range(3)) for i in range(3)]


def cross(a, b):
    return [a[1] * b[2] - a[2] * b[1], a[2] * b[0] - a[0] * b[2], a[0] * b[1] - a[1] * b[0]]


def maxdiff(a, b):
    return max(abs(x - y) for x, y in zip(a, b))


def wrap_pi(a):
    """angle reduced to (-pi, pi]"""
    a = math.fmod(a, 2 * PI)
    if a > PI:
        a -= 2 * PI
    elif a <= -PI:
        a += 2 * PI
    return a


def axis_rot_matrix(k, t):
    c, s = math.cos(t), math.sin(t)
    if k == 0:
        return [1, 0, 0, 0, c, -s, 0, s, c]
    if k == 1:
        return [c, 0, s, 0, 1, 0, -s, 0, c]
    return [c, -s, 0, s, c, 0, 0, 0, 1]


# ------------------------------------------------------------------------------------------ input generators
def unit_vec(rng):
    while True:
        v = [rng.gauss(0, 1) for _ in range(3)]
        n = norm(v)
        if n > 1e-3:
            return [x / n for x in v]


def aa_quat(u, t):
    s = math.sin(t / 2)
    return [math.cos(t / 2), u[0] * s, u[1] * s, u[2] * s]


UNIT_CLASSES = ("rand", "rand", "rand", "ident", "negident", "pi_axis", "pi_basis", "tiny", "nearpi", "right", "q0neg",
                "tie", "small")


def unit_quat(rng, cls=None):
    cls = cls or rng.choice(UNIT_CLASSES)
    if cls == "ident":
        return [1.0, 0.0, 0.0, 0.0], cls
    if cls == "negident":
        return [-1.0, 0.0, 0.0, 0.0], cls
    if cls == "pi_basis":
        q = [0.0, 0.0, 0.0, 0.0]
        q[rng.randint(1, 3)] = rng.choice((1.0, -1.0))
        return q, cls
    if cls == "pi_axis":
        u = unit_vec(rng)
        return [0.0] + u, cls
    if cls == "tiny":
        return aa_quat(unit_vec(rng), rng.choice((1e-12, 1e-10, 1e-8, 3e-16, -1e-12))), cls
    if cls == "small":
        return aa_quat(unit_vec(rng), rng.uniform(-1e-3, 1e-3)), cls
    if cls == "nearpi":
        return aa_quat(unit_vec(rng), rng.choice((1, -1)) * (PI - rng.choice((1e-9, 1e-6, 1e-3, 0.0)))), cls
    if cls == "right":
        u = [0.0, 0.0, 0.0]
        u[rng.randint(0, 2)] = rng.choice((1.0, -1.0))
        return aa_quat(u, rng.choice((PI / 2, -PI / 2, PI / 4, 2 * PI / 3))), cls
    if cls == "tie":
        # equal diagonal entries of the rotation matrix: exercises the strict comparisons of mju_mat2Quat
        r = math.sqrt(0.5)
        return rng.choice(([0.0, r, r, 0.0], [0.0, r, 0.0, r], [0.0, 0.0, r, -r], [0.5, 0.5, 0.5, 0.5], [0.5, -0.5, 0.5, -0.5],
                           [0.0, 1 / math.sqrt(3), 1 / math.sqrt(3), 1 / math.sqrt(3)])), cls
    q = [rng.gauss(0, 1) for _ in range(4)]
    n = norm(q)
    if n < 1e-3:
        return [1.0, 0.0, 0.0, 0.0], "ident"
    q = [x / n for x in q]
    if cls == "q0neg":
        q[0] = -abs(q[0])
    return q, cls


def any_quat(rng):
    """unit (mostly) or non-unit quaternion; returns (q, class)"""
    r = rng.random()
    if r < 0.7:
        return unit_quat(rng)
    if r < 0.74:
        return [0.0, 0.0, 0.0, 0.0], "zero"
    if r < 0.78:
        return [rng.choice((2.0, 0.5, -3.0)), 0.0, 0.0, 0.0], "real"
    s = 10 ** rng.uniform(-3, 3)
    return [rng.gauss(0, 1) * s for _ in range(4)], "nonunit"


def any_vec(rng):
    r = rng.random()
    if r < 0.08:
        return [0.0, 0.0, 0.0]
    if r < 0.2:
        v = [0.0, 0.0, 0.0]
        v[rng.randint(0, 2)] = rng.choice((1.0, -1.0, 2.5))
        return v
    if r < 0.3:
        return unit_vec(rng)
    if r < 0.36:
        return [rng.gauss(0, 1) * 1e-16 for _ in range(3)]
    s = 10 ** rng.uniform(-3, 3)
    return [rng.gauss(0, 1) * s for _ in range(3)]


ANGLES = (0.0, -0.0, PI, -PI, PI / 2, -PI / 2, 1e-12, -1e-12, 1e-8, 2 * PI, 3e-16, 1.0, -2.0, 3.0, 3.1415926535897931)


def any_angle(rng):
    r = rng.random()
    if r < 0.45:
        return rng.choice(ANGLES)
    if r < 0.55:
        return rng.choice((1, -1)) * (PI - rng.choice((1e-9, 1e-6, 1e-3)))
    return rng.uniform(-2 * PI, 2 * PI)


def toks(vals):
    return " ".join(fbits(v) for v in vals)


# ---- generators for translation validation (inputs: list of [name, kind])
def smart_gen(rng, inputs):
    groups = []
    for i, (nm, kind) in enumerate(inputs):
        base = nm.rsplit("_", 1)[0] if nm.rsplit("_", 1)[-1].isdigit() else nm
        if groups and groups[-1][0] == base:
            groups[-1][1].append(i)
        else:
            groups.append((base, [i], kind))
    if rng.random() < 0.15:
        return kernelval.default_gen(rng, inputs)
    vals = [0.0] * len(inputs)
    for base, idxs, kind in groups:
        if kind == "int":
            for i in idxs:
                vals[i] = rng.choice((0, 1, 2, -1))
            continue
        if len(idxs) == 4:
            q, _ = any_quat(rng)
            if rng.random() < 0.1:
                q = [x * (1 + rng.choice((1e-15, -1e-15, 3e-15, 1e-9))) for x in q]   # around the "close to 1" branch
            if rng.random() < 0.05:
                q = [x * 1e-16 for x in q]                                           # below mjMINVAL
            g = q
        elif len(idxs) == 9:
            if rng.random() < 0.8:
                g = qmat(unit_quat(rng)[0])
            else:
                g = [rng.gauss(0, 1) for _ in range(9)]
        elif len(idxs) == 3:
            g = any_vec(rng)
        elif len(idxs) == 1:
            if base in ("dt",):
                g = [rng.choice((1.0, 0.002, 0.5, -1.0, 1e-3))]
            elif base in ("scale",):
                g = [rng.choice((0.0, 1.0, -1.0, 0.002, 1e-12, rng.uniform(-3, 3)))]
            else:
                g = [any_angle(rng)]
        else:
            g = [rng.gauss(0, 1) for _ in idxs]
        for i, x in zip(idxs, g):
            vals[i] = x
    return vals


def gen_mjd_quatIntegrate(rng, inputs):
    v = any_vec(rng)
    h = rng.choice((0.0, 1.0, 1e-9, 1e-5, 1e-2, 4.0, -1.0, rng.uniform(-2, 2)))
    if rng.random() < 0.3:      # around the |x| = 1/32 switch to the Taylor expansion
        u = unit_vec(rng)
        x = rng.choice((1.0 / 32, 1.0 / 32 + 1e-12, 1.0 / 32 - 1e-12, 0.03, 0.0313, 1e-3))
        v, h = [c * x for c in u], 1.0
    return v + [h]


# ------------------------------------------------------------------------------------------ oracle op lines
def gen_oracle_lines(ctx, n):
    rng = ctx.rng
    lines = []
    hist = {}

    def note(k):
        hist[k] = hist.get(k, 0) + 1

    for _ in range(n):
        # Q
        (a, ca), (b, cb), (c, cc) = any_quat(rng), any_quat(rng), any_quat(rng)
        v = any_vec(rng)
        lines.append("Q " + toks(a + b + c + v))
        note("Q:" + ca)
        # A
        axis = unit_vec(rng) if rng.random() < 0.85 else any_vec(rng)
        if rng.random() < 0.2:
            axis = [0.0, 0.0, 0.0]
            axis[rng.randint(0, 2)] = 1.0
        ang = any_angle(rng)
        lines.append("A " + toks(axis + [ang] + any_vec(rng) + [rng.choice((1.0, 0.002, 0.5, -1.0))]))
        note("A:angle=%s" % ("0" if ang == 0 else "pi" if abs(abs(ang) - PI) < 1e-2 else "tiny" if abs(ang) < 1e-6 else "generic"))
        # I
        q, cq = any_quat(rng)
        r = rng.random()
        if r < 0.15:
            vel, h = [0.0, 0.0, 0.0], rng.choice((0.0, 1.0, 0.002))
        elif r < 0.3:
            vel, h = unit_vec(rng), rng.choice((1e-12, 1e-9, -1e-12, 3e-16, 0.0))
        elif r < 0.45:
            vel, h = unit_vec(rng), rng.choice((1, -1)) * (PI - rng.choice((1e-5, 1e-3, 0.1)))
        elif r < 0.55:
            u = unit_vec(rng)
            x = rng.choice((1.0 / 32, 1.0 / 32 + 1e-9, 1.0 / 32 - 1e-9, 0.03))
            vel, h = [c * x / 0.002 for c in u], 0.002
        elif r < 0.62:
            vel, h = unit_vec(rng), rng.uniform(PI + 0.01, 6.0)    # beyond pi: subQuat returns the wrapped angle
        else:
            s = 10 ** rng.uniform(-2, 1)
            vel = [rng.gauss(0, 1) * s for _ in range(3)]
            h = rng.uniform(-1, 1) * min(1.0, 3.0 / max(norm(vel), 1e-9))
        lines.append("I " + toks(q + vel + [h, 1e-6]))
        ang = abs(h) * norm(vel)
        note("I:" + cq + ":angle=%s" % ("0" if ang == 0 else "tiny" if ang < 1e-6 else "nearpi" if abs(ang - PI) < 0.2 else ">pi" if ang > PI else "generic"))
        # S
        qb, _ = unit_quat(rng)
        r = rng.random()
        if r < 0.15:
            qa, cs = list(qb), "equal"
        elif r < 0.45:
            t = rng.choice((1e-12, 1e-9, 1e-5, 1e-2, 1.0, 3.0, 2.5, -1.0))
            qa, cs = qmul(qb, aa_quat(unit_vec(rng), t)), "angle=%g" % t
        elif r < 0.55:
            t = rng.choice((PI - 1e-6, PI - 1e-3, 4.0, PI + 0.5))
            qa, cs = qmul(qb, aa_quat(unit_vec(rng), t)), ">=pi"
        else:
            qa, cs = unit_quat(rng)[0], "independent"
        lines.append("S " + toks(qa + qb + [1e-6]))
        note("S:" + cs)
        # P
        ps = []
        allunit = rng.random() < 0.85
        for k in range(3):
            qk = unit_quat(rng)[0] if allunit else any_quat(rng)[0]
            ps += any_vec(rng) + qk
        lines.append("P " + toks(ps + any_vec(rng)))
        note("P:" + ("unit" if allunit else "any"))
        # N3 / N4 / Z
        v3 = any_vec(rng) if rng.random() < 0.8 else [rng.gauss(0, 1) * 10 ** rng.uniform(-40, 40) for _ in range(3)]
        lines.append("N3 " + toks(v3))
        q4 = any_quat(rng)[0]
        k = rng.random()
        if k < 0.15:
            q4 = [x * (1 + rng.choice((1e-15, -1e-15, 2e-15, -3e-15, 1e-14, 1e-9))) for x in q4]
        elif k < 0.25:
            q4 = [x * 10 ** rng.uniform(-20, -14) for x in q4]
        lines.append("N4 " + toks(q4))
        z = any_vec(rng)
        if rng.random() < 0.25:
            z = [rng.choice((0.0, 1e-17, -1e-16, 1e-9)), rng.choice((0.0, 1e-17, 1e-9)), rng.choice((1.0, -1.0, 5.0, -0.3))]
        lines.append("Z " + toks(z))
        # R
        lines.append("R " + toks(aa_quat(unit_vec(rng), rng.choice((0.0, 1e-9, 0.3, 1.0, 1.5, -1.2)))))
    # E: every sequence string, special and random angles
    seqs = [a + b + c for a in "xyzXYZ" for b in "xyzXYZ" for c in "xyzXYZ"]
    reps = 2 if ctx.tier == "quick" else 12
    for s in seqs:
        for k in range(reps):
            if k == 0:
                e = [rng.choice((0.0, PI, -PI, PI / 2, -PI / 2, 1e-12)) for _ in range(3)]
            else:
                e = [rng.uniform(-2 * PI, 2 * PI) for _ in range(3)]
            lines.append("E " + toks(e) + " " + s)
    note("E:sequences=%d" % len(seqs))
    lines.append("E " + toks([0.1, 0.2, 0.3]) + " xyq")      # malformed: rejected by the harness, never defaulted
    lines.append("frob 0000000000000000")
    ctx.extra.setdefault("oracle_input_classes", {}).update(hist)
    return lines


# ------------------------------------------------------------------------------------------ oracle judgement
class Dev:
    """running maxima of observed deviations relative to the allowed tolerance (reported in the evidence)"""

    def __init__(self):
        self.m = {}

    def see(self, key, dev, allowed):
        r = dev / allowed if allowed > 0 else (0.0 if dev == 0 else float("inf"))
        if r > self.m.get(key, 0.0):
            self.m[key] = r
        return dev <= allowed


def judge(line, out, dev):
    """returns a list of (key, description) failures for one op line, from the implementation's output alone"""
    w = line.split()
    op = w[0]
    if out in ("bad-op",):
        if op in ("frob",) or (op == "E" and w[-1] == "xyq"):
            return []
        return [("c24:bad-op", "well-formed op rejected")]
    if op == "frob" or (op == "E" and w[-1] == "xyq"):
        return [("c24:bad-op", "malformed op accepted")]
    if "error" in out:
        return [("c24:%s:mju_error" % op, "the library raised mju_error on a valid input")]
    if op == "E":
        xin = [frombits(t) for t in w[1:4]]
        seq = w[4]
    else:
        xin = [frombits(t) for t in w[1:]]
    o = [frombits(t) for t in out.split()]
    if any(x != x or abs(x) == float("inf") for x in o):
        # inputs are finite and moderate: a NaN/Inf output is a failure except where a division by zero is
        # requested by the input itself (dt = 0 never generated)
        return [("c24:%s:nonfinite" % op, "non-finite output on finite moderate input")]
    fails = []

    def chk(key, d, allowed, what):
        if not dev.see(op + ":" + key, d, allowed):
            fails.append(("c24:%s:%s" % (op, key), "%s (deviation %.3g > allowed %.3g)" % (what, d, allowed)))

    if op == "Q":
        a, b, c, v = xin[0:4], xin[4:8], xin[8:12], xin[12:15]
        na, nb, nc, nv = norm(a), norm(b), norm(c), norm(v)
        it = iter(range(len(o)))
        pos = [0]

        def take(n):
            r = o[pos[0]:pos[0] + n]
            pos[0] += n
            return r
        ab, abc1, abc2, nega, a_na, na_a = take(4), take(4), take(4), take(4), take(4), take(4)
        rva, rvb, rvab, rvba, rback = take(3), take(3), take(3), take(3), take(3)
        Ma, Mb, Mab, Mav, MaTv, rvna, m2q = take(9), take(9), take(9), take(3), take(3), take(3), take(4)
        ua, ub = abs(na - 1) < 1e-12, abs(nb - 1) < 1e-12
        chk("assoc", maxdiff(abc1, abc2), TOL * na * nb * nc, "(ab)c != a(bc) for mju_mulQuat")
        chk("normmul", abs(sum(x * x for x in ab) - na * na * nb * nb), TOL * na * na * nb * nb, "|ab|^2 != |a|^2|b|^2")
        chk("mulspec", maxdiff(ab, qmul(a, b)), TOL * na * nb, "mju_mulQuat differs from the Hamilton product")
        if nega != [a[0], -a[1], -a[2], -a[3]]:
            fails.append(("c24:Q:neg", "mju_negQuat is not the conjugate"))
        chk("inverse", max(maxdiff(a_na, [na * na, 0, 0, 0]), maxdiff(na_a, [na * na, 0, 0, 0])), TOL * na * na,
            "a*neg(a) != (|a|^2,0,0,0)")
        chk("mat_hom", maxdiff(mmul(Ma, mT(Ma)), [na ** 4 * x for x in (1, 0, 0, 0, 1, 0, 0, 0, 1)]), TOL * na ** 4,
            "quat2Mat(a) quat2Mat(a)^T != |a|^4 I")
        chk("mat_mul", maxdiff(Mab, mmul(Ma, Mb)), TOL * na * na * nb * nb, "quat2Mat(ab) != quat2Mat(a) quat2Mat(b)")
        chk("rot_hom", maxdiff(rva, [x + (1 - na * na) * y for x, y in zip(Mav, v)]), TOL * (1 + na * na) * nv,
            "rotVecQuat(v,a) != M(a)v + (1-|a|^2)v")
        chk("mulmatvec", maxdiff(Mav, mvec(Ma, v)), TOL * na * na * nv, "mju_mulMatVec3 differs from the matrix-vector product")
        chk("mulmatTvec", maxdiff(MaTv, mvec(mT(Ma), v)), TOL * na * na * nv, "mju_mulMatTVec3 differs from the transposed product")
        if ua:
            chk("rot_norm", abs(norm(rva) - nv), TOL * nv, "rotation by a unit quaternion changed the norm")
            chk("rot_back", maxdiff(rback, v), TOL * nv, "rot(rot(v,a),neg a) != v")
            chk("mat_det", abs(mdet(Ma) - 1), TOL, "det quat2Mat(a) != 1")
            chk("rot_mat", maxdiff(rva, Mav), TOL * nv, "rotVecQuat(v,a) != quat2Mat(a) v")
            chk("rot_matT", maxdiff(MaTv, rvna), TOL * nv, "quat2Mat(a)^T v != rotVecQuat(v, neg a)")
            chk("mat2quat", min(maxdiff(m2q, a), maxdiff(m2q, [-x for x in a])), TOL, "mat2Quat(quat2Mat(a)) != +-a")
            if ub:
                chk("rot_compose", maxdiff(rvab, rvba), TOL * nv, "rot(v, ab) != rot(rot(v,b),a)")
    elif op == "A":
        axis, ang, v, dt = xin[0:3], xin[3], xin[4:7], xin[7]
        q, rax, rv, vel = o[0:4], o[4:7], o[7:10], o[10:13]
        nax, nv = norm(axis), norm(v)
        s, c = math.sin(ang * 0.5), math.cos(ang * 0.5)
        chk("formula", maxdiff(q, [c, axis[0] * s, axis[1] * s, axis[2] * s]), 1e-15 * (1 + nax), "axisAngle2Quat != (cos(a/2), axis sin(a/2))")
        chk("fix_axis", maxdiff(rax, axis), TOL * nax * (1 + nax * nax), "the rotation does not fix its axis")
        if abs(nax - 1) < 1e-12:
            chk("unit", abs(norm(q) - 1), TOL, "unit axis gives a non-unit quaternion")
            ca, sa = math.cos(ang), math.sin(ang)
            ud = sum(x * y for x, y in zip(axis, v))
            uxv = cross(axis, v)
            rod = [v[i] * ca + uxv[i] * sa + axis[i] * ud * (1 - ca) for i in range(3)]
            chk("rodrigues", maxdiff(rv, rod), TOL * nv, "rotVecQuat(v, axisAngle2Quat(u,t)) differs from Rodrigues' formula")
            wa = wrap_pi(ang)
            if abs(abs(wa) - PI) > 1e-6:
                chk("quat2vel", maxdiff(vel, [x * wa / dt for x in axis]), (TOL * (1 + abs(wa))) / abs(dt),
                    "quat2Vel(axisAngle2Quat(u,t),dt) != u*wrap(t)/dt")
    elif op == "I":
        q, vel, h = xin[0:4], xin[4:7], xin[7]
        qn, y, sub = o[0:4], o[4:8], o[8:11]
        Dq, Dv, Ds, FDq, FDs, FDh, Dq2, Ds2 = o[11:20], o[20:29], o[29:32], o[32:41], o[41:50], o[50:53], o[53:62], o[62:65]
        nvel = norm(vel)
        ang = h * nvel
        chk("unit", abs(norm(y) - 1), TOL, "quatIntegrate result is not a unit quaternion")
        wa = wrap_pi(ang)
        if abs(abs(wa) - PI) > 1e-6 and abs(ang) < 6.2:
            if nvel >= MINVAL:
                exp = [x / nvel * wa for x in vel]
            else:
                exp = [0.0, 0.0, 0.0]
            chk("sub_inverts_integrate", maxdiff(sub, exp), TOL * (1 + abs(wa)), "subQuat(quatIntegrate(q,v,h), q) != wrap(v h)")
        if h == 0 or nvel == 0:
            chk("zero_step", maxdiff(y, qn), TOL, "zero step changed the quaternion")
        scale = 1 + nvel
        chk("Dquat_fd", maxdiff(Dq, FDq), FDTOL, "mjd_quatIntegrate Dquat differs from finite differences")
        chk("Dvel_fd", maxdiff(Dv, FDs), FDTOL, "mjd_quatIntegrate Dvel differs from finite differences w.r.t. scaled velocity")
        chk("Dscale_fd", maxdiff(Ds, FDh), FDTOL * scale, "mjd_quatIntegrate Dscale differs from finite differences")
        if Dq2 != Dq or Ds2 != Ds:
            fails.append(("c24:I:null_outputs", "mjd_quatIntegrate outputs depend on which pointers are NULL"))
    elif op == "S":
        qa, qb = xin[0:4], xin[4:8]
        y, rec, Da, Db, FDa, FDb, Da2, Db2 = o[0:3], o[3:7], o[7:16], o[16:25], o[25:34], o[34:43], o[43:52], o[52:61]
        chk("range", max(0.0, norm(y) - PI), 1e-9, "|subQuat| exceeds pi")
        chk("integrate_inverts_sub", min(maxdiff(rec, qa), maxdiff(rec, [-x for x in qa])), TOL * 10,
            "quatIntegrate(qb, subQuat(qa,qb), 1) != +-qa")
        if norm(y) < 3.05:
            chk("Da_fd", maxdiff(Da, FDa), FDTOL * 5, "mjd_subQuat Da differs from finite differences")
            chk("Db_fd", maxdiff(Db, FDb), FDTOL * 5, "mjd_subQuat Db differs from finite differences")
        if Da2 != Da or Db2 != Db:
            fails.append(("c24:S:null_outputs", "mjd_subQuat outputs depend on which pointers are NULL"))
        if Db != [-x for x in mT(Da)]:
            fails.append(("c24:S:Db", "Db != -Da^T"))
    elif op == "P":
        p1, q1, p2, q2, p3, q3, v = xin[0:3], xin[3:7], xin[7:10], xin[10:14], xin[14:17], xin[17:21], xin[21:24]
        m12, m12_3, m1_23, n1, e, f = o[0:7], o[7:14], o[14:21], o[21:28], o[28:35], o[35:42]
        t1t2v, t12v, tn1t1v, t1v = o[42:45], o[45:48], o[48:51], o[51:54]
        units = all(abs(norm(q) - 1) < 1e-12 for q in (q1, q2, q3))
        sc = 1 + norm(p1) + norm(p2) + norm(p3) + norm(v)
        chk("quat_unit", abs(norm(m12[3:]) - 1), TOL, "mulPose quaternion is not unit")
        if n1[3:] != [q1[0], -q1[1], -q1[2], -q1[3]]:
            fails.append(("c24:P:negquat", "negPose quaternion is not the conjugate"))
        if units:
            chk("quat_mul", maxdiff(m12[3:], qmul(q1, q2)), TOL, "mulPose quaternion != q1*q2")
            chk("assoc", max(maxdiff(m12_3[:3], m1_23[:3]) / sc, maxdiff(m12_3[3:], m1_23[3:])), TOL, "(P1 P2) P3 != P1 (P2 P3)")
            one = [0, 0, 0, 1, 0, 0, 0]
            chk("inverse", max(maxdiff(e[:3], one[:3]) / sc, maxdiff(e[3:], one[3:]), maxdiff(f[:3], one[:3]) / sc,
                               maxdiff(f[3:], one[3:])), TOL, "P * negPose(P) != identity pose")
            chk("action", maxdiff(t1t2v, t12v) / sc, TOL, "trnVecPose(P1 P2, v) != trnVecPose(P1, trnVecPose(P2, v))")
            chk("action_inverse", maxdiff(tn1t1v, v) / sc, TOL, "trnVecPose(negPose P, trnVecPose(P, v)) != v")
            chk("norm_preserved", abs(norm([x - y for x, y in zip(t1v, p1)]) - norm(v)) / sc, TOL, "trnVecPose changes distances")
    elif op == "N3":
        v = xin
        n1, u, n2, w2 = o[0], o[1:4], o[4], o[5:8]
        big = max(abs(x) for x in v)
        if big < 1e150 and (big > 1e-150 or big == 0):
            chk("norm", abs(n1 - norm(v)), 4e-16 * norm(v), "mju_normalize3 returns a wrong norm")
            if n1 < MINVAL:
                if u != [1.0, 0.0, 0.0]:
                    fails.append(("c24:N3:reset", "tiny vector not reset to (1,0,0)"))
            else:
                chk("unit", abs(norm(u) - 1), TOL, "normalised vector is not unit")
                chk("parallel", maxdiff([x * n1 for x in u], v), TOL * n1, "normalised vector is not parallel to the input")
            chk("idempotent", max(abs(n2 - 1), maxdiff(u, w2)), TOL, "mju_normalize3 is not idempotent")
    elif op == "N4":
        v = xin
        n1, u, n2, w2 = o[0], o[1:5], o[5], o[6:10]
        chk("norm", abs(n1 - norm(v)), 4e-16 * norm(v), "mju_normalize4 returns a wrong norm")
        if n1 < MINVAL:
            if u != [1.0, 0.0, 0.0, 0.0]:
                fails.append(("c24:N4:reset", "tiny quaternion not reset to (1,0,0,0)"))
        elif abs(n1 - 1) > MINVAL:
            chk("unit", abs(norm(u) - 1), TOL, "normalised quaternion is not unit")
            chk("parallel", maxdiff([x * n1 for x in u], v), TOL * n1, "normalised quaternion is not parallel to the input")
        elif u != v:
            fails.append(("c24:N4:unchanged", "near-unit quaternion was modified"))
        chk("idempotent", max(abs(n2 - 1), maxdiff(u, w2)), TOL, "mju_normalize4 is not idempotent")
    elif op == "Z":
        v = xin
        q, r = o[0:4], o[4:7]
        nv = norm(v)
        chk("unit", abs(norm(q) - 1), TOL, "quatZ2Vec result is not unit")
        if nv < MINVAL:
            if q != [1.0, 0.0, 0.0, 0.0]:
                fails.append(("c24:Z:reset", "tiny vector does not give the identity"))
        else:
            chk("maps_z", maxdiff(r, [x / nv for x in v]), 1e-9, "quatZ2Vec(v) does not rotate z onto v/|v|")
    elif op == "E":
        q, acc, M = o[0:4], o[4:8], o[8:17]
        chk("product", maxdiff(q, acc), 1e-15, "euler2Quat differs from the product of axis rotations (mju_axisAngle2Quat, mju_mulQuat)")
        chk("unit", abs(norm(q) - 1), TOL, "euler2Quat result is not unit")
        R = [1, 0, 0, 0, 1, 0, 0, 0, 1]
        for ch, t in zip(seq, xin):
            E = axis_rot_matrix("xyz".index(ch.lower()), t)
            R = mmul(R, E) if ch.islower() else mmul(E, R)
        chk("matrix", maxdiff(M, R), TOL, "rotation matrix of euler2Quat differs from the product of elementary rotations (%s)" % seq)
    elif op == "R":
        it, r, M, Mr = o[0], o[1:5], o[5:14], o[14:23]
        chk("mat2rot", maxdiff(M, Mr), 1e-7, "mat2Rot did not recover the rotation matrix")
        if it >= 500:
            fails.append(("c24:R:iterations", "mat2Rot did not converge on a rotation matrix within 1.5 rad of the start"))
    return fails


def run_oracle(ctx, impl, lines, dev, max_report=6):
    rc, outs, err = ctx.run_lines([impl], lines)
    nfail = 0
    found = []
    if rc != 0 or len(outs) != len(lines):
        idx = min(len(outs), len(lines) - 1)
        found.append({"key": "c24:crash", "what": "oracle harness crashed (rc=%s) at op %d" % (rc, idx),
                      "replay": {"line": lines[idx], "stderr": err[-300:]}})
        return found, 1
    for l, o in zip(lines, outs):
        fs = judge(l, o, dev)
        ctx.count(l)
        if fs:
            nfail += 1
            if len(found) < max_report:
                for key, what in fs[:3]:
                    found.append({"key": key, "what": what,
                                  "replay": {"line": l, "impl_output": o,
                                             "how": "echo '<line>' | <c24_oracle built by checks/c24.py>   (tokens are IEEE-754 bit patterns)",
                                             "inputs": [frombits(t) if len(t) == 16 or t == "nan" else t for t in l.split()[1:]]}})
    return found, nfail


# ------------------------------------------------------------------------------------------ entry point
def run(ctx):
    ctx.rule = ("oracle op lines Q/A/I/S/P/N3/N4/Z/R/E over seeded inputs drawn from named classes (random unit, identity, "
                "-identity, 180 degree rotations about basis/random axes, tiny angles 1e-12..1e-8, near-pi, right angles, "
                "tied matrix diagonals, non-unit, zero); translation-validation cases per kernel from the same classes; "
                "a case is distinct by its full token line")
    thorough = ctx.tier == "thorough"
    m = kernelval.regen(ctx)
    for k, why in REFUSED_BY_DESIGN.items():
        ctx.assumptions.append("not translated (%s): %s" % (k, why))
    ctx.lean_props(THEOREMS)
    gens = {n: smart_gen for n in KERNELS}
    gens["mjd_quatIntegrate"] = gen_mjd_quatIntegrate
    kernelval.validate(ctx, m, KERNELS, 4000 if thorough else 250, gens=gens, label="C24 spatial kernels")
    sh = {n: m.get("kernels", {}).get(n, {}).get("sha256", "")[:16] for n in KERNELS}
    ctx.extra["kernel_body_sha256"] = sh

    impl = ctx.harness("harness/c/c24_oracle.c", "c24_oracle")
    dev = Dev()
    if impl:
        lines = []
        if getattr(ctx, "replay", None):
            # the recorded failing op lines are re-judged first, then the seeded run is repeated
            try:
                rp = json.load(open(ctx.replay))
                lines = [f["replay"]["line"] for f in rp.get("failures", []) if "line" in f.get("replay", {})]
            except (OSError, ValueError, KeyError, TypeError):
                lines = []
        lines = lines + gen_oracle_lines(ctx, 6000 if thorough else 400)
        found, nfail = run_oracle(ctx, impl, lines, dev)
        for f in found:
            ctx.oracle_failure(f["key"], f["what"], f["replay"])
        ctx.extra["oracle_checked"] = len(lines)
        ctx.extra["oracle_failures"] = nfail
        ctx.extra["oracle_max_deviation_over_allowed"] = {k: float("%.3g" % v) for k, v in sorted(dev.m.items())}
        if lines:
            ctx.sample({"oracle_op": lines[0][:300]})
            ctx.sample({"oracle_op": lines[2][:300]})

        def directed(c):
            # a proof / tie obligation broke and the sampled oracle found nothing: search harder on the real code
            d2 = Dev()
            for rnd in range(6):
                ls = gen_oracle_lines(c, 3000)
                fnd, _ = run_oracle(c, impl, ls, d2, max_report=1)
                if fnd:
                    return fnd[0]
            return None
        ctx.directed_search = directed
    if thorough:
        ctx.leanchecker(["MjProof.Props.C24"])
