"""C26  The state vector API is a faithful serialization (DESIGN.md §5.C26)."""
import json
import os
import subprocess
import sys

from . import common

META = {
    "technique": "Lean 4 proof over a table-generic model of mj_stateSize/getState/setState/extractState/copyState "
                 "(all signatures, error branches included) and of the keyframe copies of mj_resetDataKeyframe / mj_setKeyframe "
                 "(all indices, arbitrary key_* contents) + translator-regenerated state and keyframe tables proved well-formed "
                 "+ exact differential correspondence with the real API on mjSpec-built models + round-trip/reset/keyframe oracle",
    "text": "For every well-formed table (distinct bits, distinct mjData fields, size expression = allocated dimension of the "
            "field, one case per bit below mjNSTATE) and every signature sig:Int (not enumerated): stateSize = length written "
            "by getState (as outcomes, so error branches agree), setState(getState d) restores exactly the components of sig "
            "and leaves every other field untouched, setState of any vector leaves components outside sig untouched, "
            "extractState = getState with the sub-signature for dstsig a subset of srcsig, copyState = getState then setState; "
            "negative / too large signatures and bits without a case end in mju_error (modelled as Except). "
            "generated_table_wf proves the hypothesis for the table regenerated from engine_support.c, mjtype.h, mjxmacro.h, "
            "mjdata.h on every run (sizes compared as normal forms, valid for all model sizes). The five loop bodies are tied "
            "to the hand-written generic model by a strict template match in the translator and by an exact differential run "
            "(sizes and vectors) on models with free/ball/slide/hinge joints, stateful actuators, history buffers, mocap "
            "bodies, equalities and userdata. "
            "Keyframes: mj_resetDataKeyframe is modelled as `_resetData` (result = arbitrary parameter) followed, for 0 <= key < nkey, "
            "by the list of copies regenerated from its body; mj_setKeyframe as its two guards + the mirrored list. For every "
            "well-formed keyframe table, all model sizes, ARBITRARY contents of the key_* arrays (no unit-norm or range assumption: "
            "run-time keyframes the compiler would never produce are covered) and every key:Int: the load returns normally, every "
            "keyframe field equals row `key` of its array entry for entry, every other field is what _resetData left; an index "
            "outside [0,nkey) is a plain reset; setKeyframe stores exactly the state into row k and touches no other row/array; "
            "setKeyframe followed by resetDataKeyframe is lossless. generated_keytable_wf proves the hypothesis for the lists "
            "regenerated from engine_io.c / engine_support.c / MJMODEL_POINTERS; the translator refuses any statement in either body "
            "that is not a plain copy (post-processing such as normalising or clamping cannot hide) and checks that mj_resetData is "
            "timing diagnostics + the same _resetData(m, d, 0). Differential: keyfill/keyput (direct edits of m->key_*, incl. zero and "
            "non-unit quaternions), setkey, loadkey with valid and invalid indices, Lean model vs real engine, exact.",
    "note": "`_resetData` is NOT modelled in Lean: mj_resetData is decided by the oracle only (reset vs a fresh mj_makeData on every "
            "state field, the header members and the whole buffer, and vs the documented defaults), and the non-keyframe fields after "
            "mj_resetDataKeyframe are compared with a fresh mjData by the oracle/differential (`rest=1`). The oracle's keyframe clause "
            "uses the hand-written documented map key_* -> field (KEYSPEC) on compiled keyframes, on keyframes edited in place "
            "(zero / non-unit / tiny / huge / near-unit / unit quaternions at the real quaternion addresses) and on keyframes saved "
            "with mj_setKeyframe from such states; mj_setKeyframe is treated as part of the clause (the saved keyframe must be the "
            "state). npluginstate is always 0 in generated models (plugin-less build), so mjSTATE_PLUGIN is exercised "
            "only as an empty component. State vectors are modelled as lists (adr arithmetic is covered by the correspondence); "
            "values are integers in the differential run (NaN/inf/-0 are not generated anywhere). The documented element->field map "
            "used by the oracle is hand-written (SPEC, KEYSPEC in checks/c26.py).",
}

THEOREMS = [
    "MjProof.C26.size_eq_length_getState",
    "MjProof.C26.size_eq_length_getState_ok",
    "MjProof.C26.set_get_id",
    "MjProof.C26.set_get_self",
    "MjProof.C26.get_set_frame",
    "MjProof.C26.get_after_set_disjoint",
    "MjProof.C26.extract_eq_get_sub",
    "MjProof.C26.extract_not_subset",
    "MjProof.C26.copy_eq_set_get",
    "MjProof.C26.sig_negative_error",
    "MjProof.C26.sig_too_large_error",
    "MjProof.C26.sig_outside_table_error",
    "MjProof.C26.getState_total",
]
# keyframe clause: generic over any keyframe table (lists of copies of mj_resetDataKeyframe / mj_setKeyframe)
THEOREMS_KEY = [
    "MjProof.C26.key_load_exact",
    "MjProof.C26.key_invalid_is_reset",
    "MjProof.C26.key_set_stores_state",
    "MjProof.C26.key_set_errors",
    "MjProof.C26.key_set_load_roundtrip",
]
# about the regenerated table; kept in a separate module so that a source change breaking the
# table's well-formedness shows up as exactly these obligations
THEOREMS_GEN = [
    "MjProof.C26.generated_table_wf",
    "MjProof.C26.gen_size_eq_length_getState",
    "MjProof.C26.gen_copy_eq_set_get",
    "MjProof.C26.generated_keytable_wf",
    "MjProof.C26.gen_key_load_exact",
    "MjProof.C26.gen_key_set_load_roundtrip",
]

GEN_DIR = os.path.join(common.LEAN, "MjProof", "Gen")
GEN_LEAN = os.path.join(GEN_DIR, "StateTable.lean")
GEN_JSON = os.path.join(GEN_DIR, "StateTable.json")

# Documented meaning of each state element (include/mujoco/mjtype.h comments, doc "State" section):
# element -> (mjData field, size as a function of the model sizes).  Hand-written specification used
# by the oracle only; bits default to the documented order when the header cannot be read.
SPEC = [
    ("mjSTATE_TIME", "time", lambda s: 1),
    ("mjSTATE_QPOS", "qpos", lambda s: s["nq"]),
    ("mjSTATE_QVEL", "qvel", lambda s: s["nv"]),
    ("mjSTATE_ACT", "act", lambda s: s["na"]),
    ("mjSTATE_HISTORY", "history", lambda s: s["nhistory"]),
    ("mjSTATE_WARMSTART", "qacc_warmstart", lambda s: s["nv"]),
    ("mjSTATE_CTRL", "ctrl", lambda s: s["nu"]),
    ("mjSTATE_QFRC_APPLIED", "qfrc_applied", lambda s: s["nv"]),
    ("mjSTATE_XFRC_APPLIED", "xfrc_applied", lambda s: 6 * s["nbody"]),
    ("mjSTATE_EQ_ACTIVE", "eq_active", lambda s: s["neq"]),
    ("mjSTATE_MOCAP_POS", "mocap_pos", lambda s: 3 * s["nmocap"]),
    ("mjSTATE_MOCAP_QUAT", "mocap_quat", lambda s: 4 * s["nmocap"]),
    ("mjSTATE_USERDATA", "userdata", lambda s: s["nuserdata"]),
    ("mjSTATE_PLUGIN", "plugin_state", lambda s: s["npluginstate"]),
]
# Documented meaning of the model's keyframe arrays (include/mujoco/mjmodel.h: "key_qpos: key position (nkey x nq)" ...):
# key_* array -> mjData field it is loaded into.  Hand-written, used by the oracle only (independent of the translator).
KEYSPEC = [("key_time", "time"), ("key_qpos", "qpos"), ("key_qvel", "qvel"), ("key_act", "act"),
           ("key_mpos", "mocap_pos"), ("key_mquat", "mocap_quat"), ("key_ctrl", "ctrl")]
KEY_ARRAYS = [a for a, _ in KEYSPEC]
KEY_ROW = {"key_time": lambda s: 1, "key_qpos": lambda s: s["nq"], "key_qvel": lambda s: s["nv"], "key_act": lambda s: s["na"],
           "key_mpos": lambda s: 3 * s["nmocap"], "key_mquat": lambda s: 4 * s["nmocap"], "key_ctrl": lambda s: s["nu"]}
SPEC_FIELD = {n: f for n, f, _ in SPEC}
SPEC_SIZE = {n: z for n, _, z in SPEC}
SIZE_NAMES = ["nq", "nv", "na", "nhistory", "nu", "nbody", "neq", "nmocap", "nuserdata", "npluginstate", "nkey"]
KNOWN_DATA_FIELDS = None  # filled from mjxmacro.h


# ------------------------------------------------------------------------------------------ models
def gen_model(rng, kind):
    """Returns the spec token string of one model (grammar in harness/c/c26_state.c build_model)."""
    toks = ["dt", rng.choice(["0.002", "0.001", "0.005", "0.01"])]
    bodies = []   # (index, is_mocap, joints string)
    joints = []   # (body, k, type)
    if kind == "minimal":
        specs = [(0, "h")]
    elif kind == "nojoint":
        specs = [(0, "-"), (0, "m")]
    else:
        nb = rng.randint(2, 6) if kind == "full" else rng.randint(1, 5)
        specs = []
        for i in range(nb):
            cand = [0] + [b for b, mocap, js in bodies_preview(specs) if not mocap]
            par = rng.choice(cand)
            if par == 0:
                js = rng.choice(["f", "f", "-", "m", "m", "h", "s", "b", "hs", "hh", "sb"])
            else:
                js = rng.choice(["h", "s", "b", "hs", "-", "hh", "bs"])
            specs.append((par, js))
        if kind == "full":
            have = "".join(js for _, js in specs)
            for need in "fbshm":
                if need not in have:
                    specs.append((0, need))
    for i, (par, js) in enumerate(specs):
        idx = i + 1
        toks += ["B", str(par), js] + ["%.2f" % rng.uniform(-1, 1) for _ in range(3)]
        k = 0
        for c in js:
            if c in "fbsh":
                joints.append((idx, k, c))
                k += 1
        bodies.append((idx, "m" in js, js))
    if kind not in ("minimal", "nojoint"):
        toks += ["U", str(rng.choice([0, 0, 1, 3, 5]))]
    elif kind == "nojoint":
        toks += ["U", "2"]
    act_j = [j for j in joints if j[2] in "bsh"]
    nact = 0 if kind in ("minimal", "nojoint") or not act_j else rng.randint(2 if kind == "full" else 0, 4)
    for a in range(nact):
        b, k, _ = rng.choice(act_j)
        dyn = rng.choice("niffe") if a or kind != "full" else "i"
        ns = rng.choice([0, 0, 1, 2, 3]) if a != 1 or kind != "full" else 2
        toks += ["A", str(b), str(k), dyn, str(ns)]
    sen_j = [j for j in joints if j[2] in "sh"]
    if sen_j and kind not in ("minimal", "nojoint"):
        for _ in range(rng.randint(0, 2)):
            b, k, _ = rng.choice(sen_j)
            toks += ["S", str(b), str(k), str(rng.choice([0, 1, 2, 4]))]
    if len(bodies) >= 2 and kind not in ("minimal",):
        for e in range(rng.randint(1 if kind == "full" else 0, 3)):
            b1, b2 = rng.sample([b[0] for b in bodies], 2)
            toks += ["E", rng.choice("cw"), str(b1), str(b2), str(rng.choice([0, 1]))]
    for _ in range(rng.randint(1 if kind == "full" else 0, 2)):
        toks += ["K", "%.2f" % rng.uniform(0, 9), str(rng.randint(1, 50))]
    return " ".join(toks)


def bodies_preview(specs):
    return [(i + 1, "m" in js, js) for i, (par, js) in enumerate(specs)]


# ------------------------------------------------------------------------------------------ helpers
def parse_kv(out):
    d = {}
    for seg in out.split(";"):
        if "=" in seg:
            k, v = seg.split("=", 1)
            d[k] = v
    return d


def fvec(s):
    return [float(x) for x in s.split()] if s.strip() else []


def parse_dump(s):
    d = {}
    for part in s.split("|"):
        if ":" in part:
            k, v = part.split(":", 1)
            d[k] = fvec(v)
    return d


def table_size(info, sizes, sig):
    """length of the vector for sig according to the generated table (used only to size test vectors)"""
    n = 0
    for e in info["elems"]:
        if sig >> e["bit"] & 1:
            p = 1
            for k, v in e["size"]:
                p *= v if k == "const" else sizes.get(v, 0)
            n += p
    return n


def signatures(ctx, nstate, named, exhaustive):
    rng = ctx.rng
    full = (1 << nstate) - 1
    if exhaustive:
        return list(range(1 << nstate))
    sigs = [0, full] + [1 << i for i in range(nstate)]
    sigs += [(1 << i) | (1 << j) for i in range(nstate) for j in range(i + 1, nstate)]
    sigs += [v for _, v in named if 0 <= v <= full]
    sigs += [full & ~(1 << i) for i in range(nstate)]
    for _ in range(40 if ctx.tier == "quick" else 400):
        sigs.append(rng.randint(0, full))
    seen, out = set(), []
    for s in sigs:
        if s not in seen:
            seen.add(s)
            out.append(s)
    return out


# ------------------------------------------------------------------------------------------ line generation
def diff_lines(ctx, mid, spec, sizes, info, fields, sigs, light):
    rng = ctx.rng
    nstate = info["nstate"]
    F = " ".join(fields)
    L = ["model m%d %s ; %s" % (mid, " ".join("%s=%d" % (k, sizes[k]) for k in SIZE_NAMES), spec)]
    for k in range(4):
        L.append("fill %d %d %s" % (k, (k + 1) * 100000 + rng.randint(0, 9) * 17, F))
    L.append("dump 0 " + F)
    cnt = 0
    for sig in sigs:
        need = table_size(info, sizes, sig)
        L.append("size %d" % sig)
        L.append("get %d %d" % (rng.randint(0, 3), sig))
        # set with a recognisable vector of exactly the needed length (sometimes longer, sometimes one short)
        r = rng.random()
        ln = need + (rng.randint(1, 3) if r < 0.15 else 0) - (1 if r > 0.93 and need > 0 else 0)
        base = rng.randint(1, 9) * 1000000
        vec = [base + i if rng.random() > 0.05 else rng.choice([0, -1, 2, 255, 256]) for i in range(ln)]
        k = rng.randint(0, 3)
        L.append(("set %d %d %s" % (k, sig, " ".join(map(str, vec)))).strip())
        cnt += 1
        if not light or cnt % 16 == 0:
            L.append("dump %d %s" % (k, F))
        # extract: random sub-signature (sometimes not a subset)
        sub = sig & rng.randint(0, (1 << nstate) - 1)
        if rng.random() < 0.1:
            sub = rng.randint(0, (1 << nstate) - 1)
        ev = [rng.randint(-5, 10 ** 6) for _ in range(need + (rng.randint(0, 2) if rng.random() < 0.2 else 0))]
        if not light or cnt % 4 == 0:
            L.append(("extract %d %d %s" % (sig, sub, " ".join(map(str, ev)))).strip())
        k1, k2 = rng.sample(range(4), 2)
        L.append("copy %d %d %d" % (k1, k2, sig))
        if not light or cnt % 16 == 0:
            L.append("dump %d %s" % (k2, F))
    L += key_diff_lines(ctx, sizes, info, fields, light)
    # error branches and malformed ops
    big = 1 << nstate
    for s in (-1, -2, -2147483648, big, big + 5, 2147483647, 1 << 20):
        L += ["size %d" % s, "get 0 %d" % s, "set 1 %d 1 2 3" % s, "copy 0 1 %d" % s, "extract %d 1 4 5 6" % s]
    L += ["extract 3 -1 1 2 3", "extract 3 -2147483648 1 2 3", "extract 2 4 1 2 3 4 5 6 7 8", "extract 0 0", "extract 0 1",
          "size 99999999999", "get 9 1", "copy 1 1 3", "frob 1 2", "dump 0 nosuchfield", "size", "get 0"]
    for k in range(4):
        L.append("dump %d %s" % (k, F))
    return L


def quat_like(rng, n, cls):
    """integer-valued entries for one row of a key_* array / one mjData field (the differential run is on integers);
    `zero`: all-zero (so every quaternion in it is the zero quaternion), `small`: |v| <= 3 (non-unit quaternions)"""
    if cls == "zero":
        return [0] * n
    if cls == "small":
        return [rng.randint(-3, 3) for _ in range(n)]
    if cls == "unitish":
        return [1 if i % 4 == 0 else 0 for i in range(n)]
    return [rng.randint(-10 ** 6, 10 ** 6) for _ in range(n)]


def key_diff_lines(ctx, sizes, info, fields, light):
    """keyframe ops of the differential run: run-time keyframes (mj_setKeyframe from arbitrary data, direct edits of the
    key_* arrays incl. zero / non-unit quaternions), valid and invalid indices, on the generated keyframe table"""
    key = info.get("key")
    if not key:
        return []
    rng = ctx.rng
    nkey = sizes.get(key["nkey"], 0)
    F = " ".join(fields)
    KA = " ".join(key["arrays"])
    LF = " ".join(dict.fromkeys(r["field"] for r in key["load"]))
    hist = ctx.extra.setdefault("keyframe_diff_ops", {})

    def cnt(k):
        hist[k] = hist.get(k, 0) + 1

    def rowlen(a):
        n = 1
        for k, v in key["kalloc"][a][1:]:
            n *= v if k == "const" else sizes.get(v, 0)
        return n

    def idx_any():
        r = rng.random()
        if nkey and r < 0.8:
            return rng.randrange(nkey)
        return rng.choice([-1, nkey, nkey + 2, -2147483648, 2147483647, -7])
    L = ["keyfill %d %s" % (rng.randint(1, 9) * 10000000, KA), "keydump " + KA]
    n = (10 if light else 30) if ctx.tier == "quick" else (20 if light else 120)
    for _ in range(n):
        r = rng.random()
        k = rng.randint(0, 3)
        if r < 0.3:
            # save a state: sometimes with zero / small (non-unit) values in every keyframe field first
            c = rng.choice(["asis", "asis", "zero", "small", "unitish"])
            if c != "asis":
                for row in key["store"]:
                    f = row["field"]
                    if f == "time" or f not in fields:
                        continue
                    nn = 1
                    for kk, v in info["alloc"][f]:
                        nn *= v if kk == "const" else sizes.get(v, 0)
                    e = next((e for e in info["elems"] if e["field"] == f), None)
                    if e is not None and nn:
                        L.append("set %d %d %s" % (k, 1 << e["bit"], " ".join(map(str, quat_like(rng, nn, c)))))
            L += ["setkey %d %d" % (k, idx_any()), "keydump " + KA]
            cnt("setkey:" + c)
        elif r < 0.55 and nkey:
            a = rng.choice(key["arrays"])
            c = rng.choice(["zero", "small", "unitish", "big"])
            L.append(("keyput %d %s %s" % (rng.randrange(nkey), a, " ".join(map(str, quat_like(rng, rowlen(a), c))))).strip())
            cnt("keyput:" + c)
        else:
            L += ["loadkey %d %d %d %s ; %s" % (k, idx_any(), rng.randint(1, 90) * 100000, LF, F), "dump %d %s" % (k, F)]
            cnt("loadkey")
    L += ["keydump " + KA, "setkey 9 0", "setkey 0", "keyput 0 nosucharray 1", "keydump nosucharray", "loadkey 0 0 5 %s" % LF]
    return L


def oracle_lines(ctx, mid, spec, sizes, info, fields, sigs, nkey, heavy=False):
    rng = ctx.rng
    nstate = info["nstate"]
    F = " ".join(fields)
    L = ["model m%d %s ; %s" % (mid, " ".join("%s=%d" % (k, sizes[k]) for k in SIZE_NAMES), spec), "minfo"]
    for k in range(4):
        L.append("fill %d %d %s" % (k, (k + 1) * 100000 + rng.randint(0, 9) * 17, F))
    for i, sig in enumerate(sigs):
        k1, k2, k3 = rng.sample(range(4), 3)
        L.append("rt %d %d %d %s" % (k1, k2, sig, F))
        if i % 7 == 0:
            # keep the four data distinct so that copies stay observable
            L.append("fill %d %d %s" % (k2, rng.randint(5, 90) * 100000, F))
        sub = sig & rng.randint(0, (1 << nstate) - 1)
        L.append("ext %d %d %d" % (k1, sig, sub))
        L.append("cp %d %d %d %d %s" % (k1, k2, k3, sig, F))
        if i % 5 == 0:
            L.append("fill %d %d %s" % (k3, rng.randint(5, 90) * 100000, F))
    # invalid signatures must end in mju_error (documented: "invalid state signature")
    big = 1 << nstate
    for sg in (-1, -2147483648, big, big + 1, 2147483647):
        L += ["size %d" % sg, "get 0 %d" % sg, "set 1 %d 1 2 3" % sg, "copy 0 1 %d" % sg, "extract %d 0" % sg]
    L += ["extract 1 2 5", "extract 3 -1 1 2 3"]
    L.append("reset 0 %d %s" % (rng.randint(1, 9) * 1000, F))
    L.append("reset 1 %d %s" % (rng.randint(1, 9) * 1000, F))
    for idx in list(range(nkey)) + [-1, nkey, nkey + 3]:
        L.append("key %d %d %d %s" % (rng.randint(0, 3), idx, rng.randint(1, 9) * 1000, F))
    # zero quaternions through the state API (the fills above never produce them)
    full = (1 << nstate) - 1
    for f in ("qpos", "mocap_quat"):
        if f in fields:
            k1, k2, k3 = rng.sample(range(4), 3)
            n = SPEC_SIZE["mjSTATE_" + {"qpos": "QPOS", "mocap_quat": "MOCAP_QUAT"}[f]](sizes)
            if n:
                L.append("put %d %s %s" % (k1, f, " ".join(["0"] * n)))
                L.append("rt %d %d %d %s" % (k1, k2, full, F))
                L.append("cp %d %d %d %d %s" % (k1, k2, k3, full, F))
    # keyframes made at run time: the model compiler normalises / validates what it stores, the engine API does not
    KA = " ".join(KEY_ARRAYS)
    hist = ctx.extra.setdefault("keyframe_value_classes", {})
    classes = ["zero", "nonunit", "tiny", "huge", "nearunit", "unit", "fill"]
    reps = 3 if heavy else 1
    for idx in range(nkey):
        for cls in (classes * reps if (heavy or ctx.tier == "thorough") else rng.sample(classes[:5], 3) + rng.sample(classes[5:], 1)):
            hist[cls] = hist.get(cls, 0) + 1
            k1, k2 = rng.sample(range(4), 2)
            if rng.random() < 0.5:
                # direct edit of the model's key_* arrays, then load
                for a, f in KEYSPEC:
                    n = KEY_ROW[a](sizes)
                    if n and (a in ("key_qpos", "key_mquat") or rng.random() < 0.3) and cls != "fill":
                        L.append("keyput %d %s %s" % (idx, a, " ".join(key_values(rng, n, cls, sizes.get("quats") if a == "key_qpos" else None))))
                L.append("key %d %d %d %s" % (k2, idx, rng.randint(1, 9) * 1000, F))
            else:
                # mj_setKeyframe from a state with such values, then load into another mjData
                L.append("fill %d %d %s" % (k1, rng.randint(5, 90) * 100000, F))
                if cls != "fill":
                    for a, f in KEYSPEC:
                        n = KEY_ROW[a](sizes)
                        if n and f in fields and (f in ("qpos", "mocap_quat") or rng.random() < 0.3):
                            L.append("put %d %s %s" % (k1, f, " ".join(key_values(rng, n, cls, sizes.get("quats") if f == "qpos" else None))))
                L.append("krt %d %d %d %d %s ; %s" % (k1, k2, idx, rng.randint(1, 9) * 1000, F, KA))
    for idx in (-1, nkey, nkey + 5, -2147483648):
        L.append("krt 0 1 %d 3000 %s ; %s" % (idx, F, KA))
    return L


def key_values(rng, n, cls, qadr=None):
    """n entries for a keyframe row / data field; qadr: start addresses of the quaternions in it (default: every
    aligned 4-block).  No NaN/inf/-0 (the harness prints integers as %lld, others as %.17g)."""
    import math
    if qadr is None:
        qadr = range(0, n - 3, 4)
    if cls == "zero":
        v = [0.0] * n
    elif cls == "nonunit":
        v = [rng.uniform(-3, 3) for _ in range(n)]
    elif cls == "tiny":
        v = [rng.uniform(-1, 1) * 1e-12 for _ in range(n)]
    elif cls == "huge":
        v = [rng.uniform(-1, 1) * 1e9 for _ in range(n)]
    else:
        # unit quaternions (as well as double arithmetic allows) / scaled off the unit sphere by 1e-9 .. 1e-3
        v = [rng.uniform(-2, 2) for _ in range(n)]
        for a in qadr:
            q = [rng.gauss(0, 1) for _ in range(4)]
            nr = math.sqrt(sum(x * x for x in q)) or 1.0
            sc = 1.0 if cls == "unit" else 1.0 + rng.choice([-1, 1]) * rng.choice([1e-9, 1e-6, 1e-3])
            if a + 4 <= n:
                v[a:a + 4] = [x / nr * sc for x in q]
    return [repr(x if x != 0 else 0.0) for x in v]


# ------------------------------------------------------------------------------------------ oracle
def reset_expect(sizes, mi):
    """documented defaults after mj_resetData, from the model arrays printed by `minfo`"""
    dt = float(mi["dt"])
    hist = [0.0] * sizes["nhistory"]
    ok_hist = True
    for ent in mi["ahist"].split():
        n, adr = map(int, ent.split(":"))
        if n > 0:
            hist[adr] = 0.0
            hist[adr + 1] = float(n - 1)
            for j in range(n):
                hist[adr + 2 + j] = -(n - j) * dt
    for ent in mi["shist"].split():
        n, adr, dim, period, phase = ent.split(":")
        n, adr, dim = int(n), int(adr), int(dim)
        if n > 0:
            if float(period) > 0:
                ok_hist = False
                continue
            hist[adr] = -dt
            hist[adr + 1] = float(n - 1)
            for j in range(n):
                hist[adr + 2 + j] = -(n - j) * dt
    exp = {
        "time": [0.0], "qpos": fvec(mi["qpos0"]), "qvel": [0.0] * sizes["nv"], "act": [0.0] * sizes["na"],
        "qacc_warmstart": [0.0] * sizes["nv"], "ctrl": [0.0] * sizes["nu"], "qfrc_applied": [0.0] * sizes["nv"],
        "xfrc_applied": [0.0] * (6 * sizes["nbody"]), "eq_active": fvec(mi["eq0"]), "mocap_pos": fvec(mi["mpos"]),
        "mocap_quat": fvec(mi["mquat"]), "userdata": [0.0] * sizes["nuserdata"], "plugin_state": [0.0] * sizes["npluginstate"],
    }
    if ok_hist:
        exp["history"] = hist
    return exp


class Oracle:
    def __init__(self, ctx, bits):
        self.ctx = ctx
        self.bits = bits          # element name -> bit (from the header)
        self.nfail = 0
        self.checked = 0
        self.byop = {}

    def fail(self, key, what, line, out, spec):
        self.nfail += 1
        if self.nfail <= 8:
            self.ctx.oracle_failure("c26:" + key, what, {
                "model_spec": spec, "op": line[:3000], "impl_output": out[:6000],
                "replay": "printf '<model line>\\n<fill lines>\\n%s\\n' | <c26_state harness>  (full op stream in the check: seed %d tier %s)"
                          % (line[:200], self.ctx.seed, self.ctx.tier)})

    def comps(self, sig):
        return [n for n, b in sorted(self.bits.items(), key=lambda kv: kv[1]) if sig >> b & 1]

    def judge(self, line, out, spec, sizes, mi):
        w = line.split()
        op = w[0]
        self.checked += 1
        self.byop[op] = self.byop.get(op, 0) + 1
        kv = parse_kv(out)
        if op in ("size", "get", "set", "copy", "extract"):
            sg = int(w[1] if op in ("size", "extract") else w[-1] if op == "copy" else w[2])
            nst = int(mi.get("nstate", 0))
            want = "error:sigNeg" if sg < 0 else "error:sigRange" if sg >= (1 << nst) else "error:notSubset"
            if out != want:
                return self.fail("invalid_sig_accepted", "%s with an invalid signature returned %r instead of raising %s" % (op, out[:80], want), line, out, spec)
            return
        if out.startswith("bad-op") or "error" in kv or out.startswith("error"):
            return self.fail(op + ":error", "%s on a valid signature ended in an error: %s" % (op, out[:200]), line, out, spec)
        if op == "rt":
            sig = int(w[3])
            A, B0, B1 = parse_dump(kv["A"]), parse_dump(kv["B0"]), parse_dump(kv["B1"])
            vec, g1, c0, c1 = fvec(kv["vec"]), fvec(kv["g1"]), fvec(kv["c0"]), fvec(kv["c1"])
            n, wr = int(kv["n"]), int(kv["w"])
            if n != wr or wr != len(vec):
                return self.fail("size_ne_written", "mj_stateSize=%d but mj_getState wrote %d entries (sig=%d)" % (n, wr, sig), line, out, spec)
            if kv["restA"] != "1":
                return self.fail("get_modified_data", "mj_getState/mj_stateSize modified the source mjData (sig=%d)" % sig, line, out, spec)
            if g1 != vec:
                return self.fail("get_set_get", "get(set(get(d1)), sig) differs from get(d1, sig) (sig=%d)" % sig, line, out, spec)
            if c1 != c0:
                return self.fail("set_touched_complement", "mj_setState(sig=%d) changed what mj_getState returns for the complementary signature" % sig, line, out, spec)
            if kv["rest"] != "1":
                return self.fail("set_touched_nonstate", "mj_setState(sig=%d) changed bytes of mjData outside the state fields" % sig, line, out, spec)
            comps = self.comps(sig)
            if all(c in SPEC_FIELD for c in comps):
                exp = []
                for c in comps:
                    exp += A.get(SPEC_FIELD[c], [])
                want = sum(SPEC_SIZE[c](sizes) for c in comps)
                if n != want:
                    return self.fail("size_ne_documented", "mj_stateSize(sig=%d)=%d, documented sizes sum to %d" % (sig, n, want), line, out, spec)
                if vec != exp:
                    return self.fail("layout", "state vector for sig=%d is not the concatenation (in bit order) of the documented fields %s"
                                     % (sig, [SPEC_FIELD[c] for c in comps]), line, out, spec)
                inside = {SPEC_FIELD[c] for c in comps}
                for f in B1:
                    if f in inside and B1[f] != A[f]:
                        return self.fail("set_get_restore", "after set(get(d1,sig),sig) field %s of d2 differs from d1 (sig=%d)" % (f, sig), line, out, spec)
                    if f not in inside and B1[f] != B0[f]:
                        return self.fail("set_touched_other", "mj_setState(sig=%d) changed field %s which is not a component of sig" % (sig, f), line, out, spec)
        elif op == "ext":
            ex, sub = fvec(kv["ex"]), fvec(kv["sub"])
            if ex != sub:
                return self.fail("extract_ne_get", "mj_extractState(src=%s,dst=%s) differs from mj_getState(dst)" % (w[2], w[3]), line, out, spec)
            if "nd" in kv and int(kv["nd"]) != len(ex):
                return self.fail("extract_len", "mj_extractState wrote %d entries, mj_stateSize(dst)=%s" % (len(ex), kv["nd"]), line, out, spec)
        elif op == "cp":
            if kv["B"] != kv["C"] or kv["same"] != "1":
                return self.fail("copy_ne_get_set", "mj_copyState(sig=%s) differs from mj_getState followed by mj_setState" % w[4], line, out, spec)
            if kv["restA"] != "1":
                return self.fail("copy_modified_src", "mj_copyState modified its source", line, out, spec)
        elif op == "krt":
            idx, nkey = int(w[3]), sizes.get("nkey", 0)
            if "seterr" in kv:
                want = "keyRange" if idx >= nkey else "keyNeg" if idx < 0 else None
                if kv["seterr"] != want:
                    return self.fail("setkey_error", "mj_setKeyframe(k=%d) with nkey=%d raised %r, expected %s" % (idx, nkey, kv["seterr"], want or "no error"), line, out, spec)
                return
            if not 0 <= idx < nkey:
                return self.fail("setkey_invalid_accepted", "mj_setKeyframe(k=%d) with nkey=%d returned normally" % (idx, nkey), line, out, spec)
            A, K0, K1, K2 = parse_dump(kv["A"]), parse_dump(kv["K0"]), parse_dump(kv["K1"]), parse_dump(kv["K2"])
            R, Fr = parse_dump(kv["R"]), parse_dump(kv["F"])
            arrays = line.split(" ; ", 1)[1].split()
            rows = dict(zip(arrays, map(int, kv["rows"].split())))
            keyed = set()
            for a, f in KEYSPEC:
                if a not in rows or f not in A:
                    continue
                keyed.add(f)
                n = rows[a]
                if n != KEY_ROW[a](sizes) or len(K0[a]) != n * nkey:
                    return self.fail("key_row_size:" + a, "%s holds rows of %d entries (%d in total), documented nkey x %d" % (a, n, len(K0[a]), KEY_ROW[a](sizes)), line, out, spec)
                row = K1[a][idx * n:(idx + 1) * n]
                if row != A[f]:
                    return self.fail("setkey_store:" + a, "mj_setKeyframe(k=%d): %s row = %s, the state's %s = %s" % (idx, a, row[:8], f, A[f][:8]), line, out, spec)
                if K1[a][:idx * n] + K1[a][(idx + 1) * n:] != K0[a][:idx * n] + K0[a][(idx + 1) * n:]:
                    return self.fail("setkey_other_rows:" + a, "mj_setKeyframe(k=%d) changed another keyframe's row of %s" % (idx, a), line, out, spec)
                if K2[a] != K1[a]:
                    return self.fail("load_modified_model:" + a, "mj_resetDataKeyframe(key=%d) changed %s" % (idx, a), line, out, spec)
                if R[f] != row:
                    return self.fail("key_value:" + f, "key (saved at run time by mj_setKeyframe): field %s = %s, expected keyframe array %s"
                                     % (f, R[f][:8], row[:8]), line, out, spec)
                if R[f] != A[f]:
                    return self.fail("key_roundtrip:" + f, "mj_setKeyframe then mj_resetDataKeyframe: field %s = %s, saved state had %s" % (f, R[f][:8], A[f][:8]), line, out, spec)
            if kv["restA"] != "1":
                return self.fail("setkey_modified_data", "mj_setKeyframe modified its source mjData", line, out, spec)
            for f in R:
                if f not in keyed and R[f] != Fr.get(f):
                    return self.fail("key_rest:" + f, "mj_resetDataKeyframe(key=%d): field %s (not part of a keyframe) = %s, a fresh mjData has %s"
                                     % (idx, f, R[f][:8], Fr.get(f, [])[:8]), line, out, spec)
        elif op in ("reset", "key"):
            R, Fr = parse_dump(kv["R"]), parse_dump(kv["F"])
            exp = reset_expect(sizes, mi)
            keyed = {}
            if op == "key" and "ktime" in kv:
                keyed = {"time": fvec(kv["ktime"]), "qpos": fvec(kv["kqpos"]), "qvel": fvec(kv["kqvel"]), "act": fvec(kv["kact"]),
                         "ctrl": fvec(kv["kctrl"]), "mocap_pos": fvec(kv["kmpos"]), "mocap_quat": fvec(kv["kmquat"])}
            else:
                if R != Fr or kv["samebuf"] != "1" or kv["hdr"] != kv["fhdr"]:
                    bad = [f for f in R if R[f] != Fr.get(f)]
                    return self.fail("reset_ne_fresh", "%s: data differs from a freshly made mjData (fields %s, samebuf=%s)" % (op, bad, kv["samebuf"]), line, out, spec)
            for f in R:
                want = keyed.get(f, exp.get(f))
                if want is not None and R[f] != want:
                    src = "keyframe array" if f in keyed else "documented default"
                    return self.fail(op + "_value:" + f, "%s: field %s = %s, expected %s %s" % (op, f, R[f][:8], src, want[:8]), line, out, spec)


def run_oracle(ctx, impl, streams, bits):
    orc = Oracle(ctx, bits)
    for spec, sizes, lines in streams:
        rc, outs, err = ctx.run_lines([impl], lines)
        if rc != 0 or len(outs) != len(lines):
            idx = min(len(outs), len(lines) - 1)
            ctx.oracle_failure("c26:crash", "state harness crashed (rc=%s) at op %r" % (rc, lines[idx][:200]),
                               {"model_spec": spec, "op": lines[idx][:3000], "stderr": err[-500:]})
            orc.nfail += 1
            continue
        mi = {}
        for l, o in zip(lines, outs):
            op = l.split()[0]
            if op == "model":
                if o != "ok":
                    orc.fail("model", "model did not build as in the size pass: " + o[:200], l, o, spec)
                    break
            elif op == "minfo":
                mi = parse_kv(o)
            elif op in ("fill", "put", "keyput"):
                if o != "ok":
                    orc.fail(op, op + " rejected: " + o[:100], l, o, spec)
            else:
                orc.judge(l, o, spec, sizes, mi)
    return orc


# ------------------------------------------------------------------------------------------ run
def run_translator(ctx):
    r = subprocess.run([sys.executable, os.path.join(common.VERIF, "translate", "c26_tables.py")],
                       capture_output=True, text=True, env=dict(os.environ, VERIF_REPO=common.REPO))
    ok = r.returncode == 0
    ctx.oblige("translator c26_tables (mjtState, size/ptr switches, loop templates, keyframe copy lists, MJDATA/MJMODEL_POINTERS)", "translator", ok,
               (r.stdout + r.stderr)[-1500:])
    if not ok:
        # nothing may be proved about a stale table
        for p in (GEN_LEAN, GEN_JSON):
            if os.path.exists(p):
                os.remove(p)
        return None
    return json.load(open(GEN_JSON))


def data_fields():
    import re
    src = open(os.path.join(common.REPO, "include", "mujoco", "mjxmacro.h")).read()
    m = re.search(r"#define\s+MJDATA_POINTERS\b[^\n]*\\\n((?:[^\n]*\\\n)*[^\n]*\n)", src)
    out = {"time"}
    if m:
        for mm in re.finditer(r"X(?:NV)?\s*\(\s*(mjtNum|mjtBool)\s*,\s*(\w+)\s*,", m.group(1)):
            out.add(mm.group(2))
    return out


def run(ctx):
    tmp = []
    try:
        _run(ctx, tmp)
    finally:
        for p in tmp:
            if os.path.exists(p):
                os.remove(p)


def _run(ctx, tmp):
    ctx.rule = ("models: seeded random kinematic trees built through mjSpec (free/ball/slide/hinge joints, mocap bodies, "
                "actuators with none/integrator/filter/filterexact dynamics and history buffers, joint sensors with history, "
                "connect/weld equalities, userdata, keyframes) plus a minimal and a joint-less model; signatures: 0, all, every "
                "single bit, every pair, every all-but-one, the named unions, seeded random (thorough: all 2^mjNSTATE on three "
                "models); keyframes: compiled ones, rows edited in place and states saved with mj_setKeyframe, value classes "
                "zero/nonunit/tiny/huge/nearunit/unit/fill (histograms in keyframe_value_classes, keyframe_diff_ops), valid and "
                "invalid indices; a case is distinct by (model, op line); non-trivial = op on a signature with at least one "
                "non-empty component / keyframe op")
    info = run_translator(ctx)
    ctx.checker_cmd = ("cd /verif && python3 translate/c26_tables.py && cd lean && lake build MjProof.Props.C26 "
                       "MjProof.Props.C26Key MjProof.Props.C26Gen && lake env lean Audit/C26.lean")
    ctx.lean_props(THEOREMS)
    ctx.lean_props(THEOREMS_KEY, module="MjProof.Props.C26Key")
    drv = None
    if info:
        # Other checks may run translate/regen_all.py (which runs this translator on *their* VERIF_REPO)
        # concurrently: make sure that what lake compiles and audits is the table of *this* tree.
        want = open(GEN_LEAN).read()

        def table_is_ours():
            return os.path.exists(GEN_LEAN) and open(GEN_LEAN).read() == want
        for attempt in range(4):
            if not table_is_ours():
                with open(GEN_LEAN, "w") as f:
                    f.write(want)
            n0 = len(ctx.obligations)
            ctx.lean_props(THEOREMS_GEN, module="MjProof.Props.C26Gen")
            d = ctx.driver("drv_c26")
            if d:
                # private copy: a later rebuild by someone else must not change the model we run
                import shutil
                os.makedirs(os.path.join(common.CACHE, "c26"), exist_ok=True)
                drv = os.path.join(common.CACHE, "c26", "drv_c26.%d" % os.getpid())
                shutil.copy2(d, drv)
                tmp.append(drv)
            if drv:
                r = common.sh([drv], inp="tableid\n")
                if r.stdout.strip() != info["table_id"]:
                    drv = None   # compiled from somebody else's table
            if table_is_ours() and (drv or not d):
                break
            del ctx.obligations[n0:]
            drv = None
        else:
            raise common.Infra("lean/MjProof/Gen/StateTable.lean keeps being modified concurrently")
    else:
        for t in THEOREMS_GEN:
            ctx.oblige("theorem " + t, "theorem", False, "no generated table: the translator refused the source shape")
    # one audit file listing everything (lean_props rewrites it per call)
    with open(os.path.join(common.LEAN, "Audit", "C26.lean"), "w") as f:
        f.write("import MjProof.Props.C26\nimport MjProof.Props.C26Key\nimport MjProof.Props.C26Gen\n"
                + "".join("#print axioms %s\n" % t for t in THEOREMS + THEOREMS_KEY + THEOREMS_GEN))
    impl = ctx.harness("harness/c/c26_state.c", "c26_state")
    if not impl:
        return
    thorough = ctx.tier == "thorough"

    # element bits and the list of fields to fill/dump: documented ones plus whatever the table points at
    known = data_fields()
    if info:
        bits = {e["name"]: e["bit"] for e in info["enum"]}
        nstate = info["nstate"]
        named = [(n["name"], n["value"]) for n in info["named"]]
        fields = [f for _, f, _ in SPEC] + [f for f in info["fields"] if f not in SPEC_FIELD.values()]
    else:
        bits = {n: i for i, (n, _, _) in enumerate(SPEC)}
        nstate = len(SPEC)
        named = []
        fields = [f for _, f, _ in SPEC]
    fields = [f for f in fields if f in known]
    unknown_elems = [n for n in bits if n not in SPEC_FIELD]
    if unknown_elems:
        ctx.extra["elements_without_documented_spec"] = unknown_elems

    # ---- models, first pass: compiled sizes from the real compiler
    kinds = ["full", "minimal", "nojoint"] + ["rand"] * (9 if thorough else 4) + ["full"] * (2 if thorough else 1)
    specs = [gen_model(ctx.rng, k) for k in kinds]
    rc, outs, err = ctx.run_lines([impl], ["sizes %s ; %s" % (" ".join(SIZE_NAMES), s) for s in specs])
    if rc != 0 or len(outs) != len(specs):
        ctx.oracle_failure("c26:crash", "harness crashed while compiling generated models (rc=%s)" % rc, {"stderr": err[-800:], "specs": specs})
        return
    models = []
    for kind, s, o in zip(kinds, specs, outs):
        if o.startswith("compile-error") or o.startswith("error"):
            ctx.oblige("generated model compiles: " + s[:120], "impl-build", False, o)
            continue
        sizes = {k: int(v) for k, v in (p.split("=") for p in o.split())}
        models.append((kind, s, sizes))
    # qpos addresses of the quaternions (free/ball joints) of every model, for the keyframe value generators
    rc, outs, err = ctx.run_lines([impl], ["quats ; %s" % s for _, s, _ in models])
    for (kind, s, sizes), o in zip(models, outs if rc == 0 and len(outs) == len(models) else []):
        if o.startswith("quats"):
            sizes["quats"] = [int(x) for x in o.split()[1:]]
    ctx.extra["models"] = [{"kind": k, "sizes": z} for k, _, z in models]

    # ---- T: differential correspondence (Lean model on the generated table vs the real API)
    nexh = 0
    dstreams, ostreams = [], []
    for mid, (kind, s, sizes) in enumerate(models):
        exhaustive = thorough and nexh < 3 and kind in ("full", "minimal", "rand")
        if exhaustive:
            nexh += 1
        sigs = signatures(ctx, nstate, named, exhaustive)
        if info:
            # the Lean driver knows exactly the fields of the generated table
            dstreams.append((mid, s, sizes, diff_lines(ctx, mid, s, sizes, info, [f for f in info["fields"] if f in known], sigs, light=exhaustive)))
        osigs = sigs if exhaustive or thorough else sigs
        ostreams.append((s, sizes, oracle_lines(ctx, mid, s, sizes, info or {"nstate": nstate}, fields, osigs, sizes.get("nkey", 0))))
    ctx.extra["exhaustive_scopes"] = ("all 2^%d signatures on %d models" % (nstate, nexh)) if nexh else \
        "quick tier: singles, pairs, all-but-one, named unions, 0, all, 40 random per model"
    if drv:
        def keyf(l):
            w = l.split()
            if w and w[0] in ("size", "get", "set", "extract", "copy", "setkey", "loadkey", "keyput") and len(w) >= 2:
                return l
            return None
        all_lines = []
        for mid, s, sizes, lines in dstreams:
            all_lines += lines
        bad = ctx.differential("state + keyframe API (size/get/set/extract/copy, setkey/loadkey/keyput) vs Lean model on the generated tables, %d models" % len(dstreams),
                               [drv], [impl], all_lines, keyf=keyf)
        ctx.extra["differential_ops"] = len(all_lines)
        # real samples
        if not bad and len(all_lines) > 400:
            rc, outs, _ = ctx.run_lines([impl], all_lines[:400])
            shown = set()
            for l, o in zip(all_lines[:400], outs):
                w = l.split()
                if w[0] in ("size", "get", "extract", "copy") and w[0] not in shown and len(o) > 8 and not o.startswith("error"):
                    shown.add(w[0])
                    ctx.sample({"op": l[:160], "model_and_impl_output": o[:160]})
    elif info:
        ctx.oblige("correspondence state API vs Lean model", "correspondence", False, "driver did not build")
    else:
        ctx.oblige("correspondence state API vs Lean model", "correspondence", False, "no generated table (translator refused)")

    # ---- S: property oracle on the real code alone
    orc = run_oracle(ctx, impl, ostreams, bits)
    ctx.extra["oracle_checked"] = orc.checked
    ctx.extra["oracle_ops"] = orc.byop
    ctx.extra["oracle_failures"] = orc.nfail
    for s, sizes, lines in ostreams[:1]:
        ctx.sample({"oracle_op": lines[30][:60] + " ...", "model": s[:200], "sizes": sizes})

    def directed(ctx2):
        # a proof/tie obligation broke and the sampled oracle saw nothing: all 2^n signatures on up to three models
        n0 = len(ctx2.oracle_failures)
        streams = []
        for mid, (kind, s, sizes) in enumerate(models[:3]):
            sg = list(range(1 << nstate))
            streams.append((s, sizes, oracle_lines(ctx2, mid, s, sizes, info or {"nstate": nstate}, fields, sg, sizes.get("nkey", 0), heavy=True)))
        run_oracle(ctx2, impl, streams, bits)
        if len(ctx2.oracle_failures) > n0:
            f = ctx2.oracle_failures[n0]
            return {"key": f["key"], "what": f["what"], "replay": f["replay"]}
        return None
    ctx.directed_search = directed
    if thorough:
        ctx.leanchecker(["MjProof.Props.C26"])
